// Package rules holds the repository-specific static rules R01–R28 and their
// mapping to properties C01–C20.
package rules

import (
	"encoding/json"
	"os"
	"regexp"
	"sort"

	"verif/internal/core"
)

// Rule is one runnable rule instance (possibly a scoped view of a rule).
type Rule struct {
	Name string
	Run  func(c *core.Ctx)
}

type PropertySpec struct {
	Modules     []string
	Rules       []Rule
	Explanation string
	NotDecided  []string
	Assumptions []string
}

func (p *PropertySpec) RuleNames() []string {
	var out []string
	for _, r := range p.Rules {
		out = append(out, r.Name)
	}
	return out
}

// Properties is filled by props.go.
var Properties = map[string]*PropertySpec{}

func PropertyIDs() []string {
	var ids []string
	for id := range Properties {
		ids = append(ids, id)
	}
	sort.Strings(ids)
	return ids
}

// Mutant is one single-edit variant used by the both-ways self-test.
type Mutant struct {
	Name     string `json:"name"`
	Property string `json:"property"`
	File     string `json:"file"` // relative to the repo root
	Old      string `json:"old"`
	New      string `json:"new"`
	Expect   string `json:"expect"` // prefix of the obligation key (rule/construct) that must be reported
	Why      string `json:"why,omitempty"`
}

func LoadMutants(path string) ([]Mutant, error) {
	b, err := os.ReadFile(path)
	if err != nil {
		if os.IsNotExist(err) {
			return nil, nil
		}
		return nil, err
	}
	var ms []Mutant
	if err := json.Unmarshal(b, &ms); err != nil {
		return nil, err
	}
	return ms, nil
}

var commonAssumptions = []string{
	"go/types and golang.org/x/tools v0.29.0 (go/packages, go/ssa) model the program faithfully",
	"library contracts: sync.Mutex/RWMutex exclude; capacity-1 channels are binary semaphores; btree and goleveldb iterate in key order, btree stops when the callback returns false; os.Rename is atomic",
	"no reflection, unsafe or cgo in the analysed packages (asserted by the loader: no ignored files, packages type-check)",
}

// Only restricts a rule to the obligations whose construct matches one of the
// regular expressions (property scoping: a property reports only the rule
// instances that are necessary conditions of *that* property).
func Only(r Rule, patterns ...string) Rule {
	var res []*regexp.Regexp
	for _, p := range patterns {
		res = append(res, regexp.MustCompile(p))
	}
	return Rule{Name: r.Name, Run: func(c *core.Ctx) {
		old := c.Filter
		// function-name patterns are widened to the helpers those functions use on this tree
		res := append([]*regexp.Regexp(nil), res...)
		for i, p := range patterns {
			if wide := expandFns(c.P, p); wide != p {
				res[i] = regexp.MustCompile(wide)
			}
		}
		c.Filter = func(rule, construct string) bool {
			if old != nil && !old(rule, construct) {
				return false
			}
			for _, re := range res {
				if re.MatchString(construct) {
					return true
				}
			}
			return false
		}
		defer func() { c.Filter = old }()
		r.Run(c)
	}}
}

// Except drops the obligations whose construct matches.
func Except(r Rule, patterns ...string) Rule {
	var res []*regexp.Regexp
	for _, p := range patterns {
		res = append(res, regexp.MustCompile(p))
	}
	return Rule{Name: r.Name, Run: func(c *core.Ctx) {
		old := c.Filter
		c.Filter = func(rule, construct string) bool {
			if old != nil && !old(rule, construct) {
				return false
			}
			for _, re := range res {
				if re.MatchString(construct) {
					return false
				}
			}
			return true
		}
		defer func() { c.Filter = old }()
		r.Run(c)
	}}
}
