package rules

import (
	"fmt"
	"go/token"
	"go/types"
	"strings"

	"golang.org/x/tools/go/ssa"

	"verif/internal/core"
)

// ---------------------------------------------------------------------------
// R33: every element of a request list is processed
// ---------------------------------------------------------------------------

// rangeLoops finds `for … range <slice>` loops: header block, body entry, and
// the element type of the ranged slice.
type rangeLoop struct {
	header, body *ssa.BasicBlock
	elem         types.Type
}

func rangeLoops(fn *ssa.Function) []rangeLoop {
	var out []rangeLoop
	for _, b := range fn.Blocks {
		if b.Comment != "rangeindex.loop" || len(b.Succs) != 2 {
			continue
		}
		body := b.Succs[0]
		var elem types.Type
		// the body indexes the ranged slice with the loop counter
		for _, in := range body.Instrs {
			if ia, ok := in.(*ssa.IndexAddr); ok {
				if sl, ok := ia.X.Type().Underlying().(*types.Slice); ok {
					elem = sl.Elem()
					break
				}
			}
		}
		out = append(out, rangeLoop{b, body, elem})
	}
	return out
}

func elemIs(t types.Type, names ...string) bool {
	if t == nil {
		return false
	}
	n := core.NamedOf(t)
	if n == nil {
		return false
	}
	for _, want := range names {
		if core.TName(n) == want {
			return true
		}
	}
	return false
}

func R33() Rule {
	return Rule{Name: "R33", Run: func(c *core.Ctx) {
		P := c.P
		targets := []struct {
			pkg, fn string
			elems   []string
		}{
			{core.PkgBttest, "applyMutations", []string{"Mutation"}},
			{core.PkgBttest, rpcMutateRows, []string{"MutateRowsRequest_Entry"}},
			{core.PkgBttest, rpcRMW, []string{"ReadModifyWriteRule"}},
			{core.PkgBttest, "(*server).ModifyColumnFamilies", []string{"ModifyColumnFamiliesRequest_Modification"}},
			{core.PkgGcsemu, "(*GcsEmu).finishCompose", []string{"composeObj"}},
		}
		for _, t := range targets {
			if P.SPkgs[t.pkg] == nil {
				continue
			}
			fn := P.Func(t.pkg, t.fn)
			if (fn == nil || fn.Blocks == nil) && t.fn == "(*GcsEmu).finishCompose" {
				fn = P.Func(t.pkg, "(*GcsEmu).handleGcsCompose") // inlined into its caller's critical section
			}
			if fn == nil || fn.Blocks == nil {
				fn = P.MustFunc(t.pkg, t.fn)
			}
			c.Fn(t.fn)
			n := 0
			tpkg := t.pkg
			for _, lf := range P.Scope(fn, func(f *ssa.Function) bool { return core.PkgPathOf(f) != tpkg }) {
				if lf != fn && lf.Parent() == nil && !lastResultIsErrorType(lf) {
					continue // a query helper over the elements acknowledges nothing (function literals of the anchor are part of it)
				}
				for _, lp := range rangeLoops(lf) {
					if !elemIs(lp.elem, t.elems...) {
						continue
					}
					n++
					construct := fmt.Sprintf("%s/loop#%d/no-early-success", t.fn, n)
					var bad *ssa.Return
					for _, r := range returnsIn(lf) {
						if !lp.body.Dominates(r.Block()) {
							continue
						}
						ie, transport := isErrorReturn(r)
						if !ie || transport {
							bad = r
						}
					}
					if bad != nil {
						c.Bad("R33", construct, bad.Pos(), "a success return sits inside the loop over the request's elements: the remaining elements are silently dropped while the request is acknowledged")
					} else {
						c.Ok("R33", construct, lp.header.Instrs[0].Pos(), true, "every return inside the per-element loop reports an error; success is only returned after the loop")
					}
				}
			}
			if n == 0 {
				c.Unknown("R33", t.fn+"/loop", fn.Pos(), "no loop over the request's %v found", t.elems)
			}
		}
	}}
}

// ---------------------------------------------------------------------------
// R34: finishUpload mutates the caller's object only after validation;
// R35: an explicit-offset chunk always truncates before it appends
// ---------------------------------------------------------------------------

func R34() Rule {
	return Rule{Name: "R34", Run: func(c *core.Ctx) {
		P := c.P
		fn := P.MustFunc(core.PkgGcsemu, "(*GcsEmu).finishUpload")
		c.Fn("(*GcsEmu).finishUpload")
		// the upload's object: the *storage.Object parameter, or that field of a request-struct parameter
		obj := func(v ssa.Value) bool {
			if v == nil || !core.TypeIs(v.Type(), pkgStorageV1, "Object") {
				return false
			}
			_, _, isInput := inputOf(fn, v)
			return isInput
		}
		n := 0
		// finishUpload together with the helpers / lock-section methods it is split into
		scope := P.Scope(fn, func(f *ssa.Function) bool {
			return core.PkgPathOf(f) != core.PkgGcsemu || core.FuncName(f) == "validateConds" || core.FuncName(f) == "fmtErrorfCode"
		})
		within := setOf(scope)
		var failures []ssa.Instruction
		for _, f := range scope {
			for _, call := range callsTo(f, core.PkgGcsemu, "fmtErrorfCode") {
				failures = append(failures, call)
			}
			for _, call := range callsTo(f, core.PkgGcsemu, "validateConds") {
				failures = append(failures, call)
			}
		}
		for _, f := range scope {
			for _, b := range f.Blocks {
				for _, in := range b.Instrs {
					st, ok := in.(*ssa.Store)
					if !ok {
						continue
					}
					fa, ok := st.Addr.(*ssa.FieldAddr)
					if !ok || !core.TypeIs(fa.X.Type(), pkgStorageV1, "Object") {
						continue
					}
					if !P.AllOrigins(fa.X, within, obj) {
						continue
					}
					n++
					_, field, _ := core.FieldName(fa)
					construct := fmt.Sprintf("finishUpload/%s/store-obj.%s#%d", core.FuncName(f), field, n)
					// no validation failure (explicit 4xx / precondition) may follow
					// … if that failure is decided by the very field assigned here: the rejected
					// attempt then leaves a state in which a retry of the same request is judged
					// differently (e.g. the declared MD5 replaced by the computed one)
					var bad ssa.Instruction
					for _, fl := range failures {
						if !failureReadsField(P, fl, obj, field, within) {
							continue
						}
						if fl.Parent() == st.Parent() {
							if core.InstrReaches(st, fl) {
								bad = fl
							}
						} else if P.MayFollow(fn, st, fl, within) {
							bad = fl
						}
					}
					if bad != nil {
						c.Bad("R34", construct, st.Pos(), "the caller's object (for resumable uploads the pending upload's state, which survives a failed attempt) is modified before a validation failure at %s can still reject the request: a retry of the rejected request then sees the modified state", P.Pos(bad.Pos()))
					} else {
						c.Ok("R34", construct, st.Pos(), true, "no validation failure is reachable after this assignment")
					}
				}
			}
		}
		if n < 2 {
			c.Unknown("R34", "finishUpload/floor", fn.Pos(), "only %d assignments to the upload's object found", n)
		}
	}}
}

// failureReadsField: the validation failure at fl (an explicit error under
// branch conditions, or a validateConds call) is decided by a value derived from
// field `field` of obj.
func failureReadsField(P *core.Program, fl ssa.Instruction, obj func(ssa.Value) bool, field string, within map[*ssa.Function]bool) bool {
	seen := map[ssa.Value]bool{}
	var dep func(v ssa.Value, depth int) bool
	dep = func(v ssa.Value, depth int) bool {
		if v == nil || depth > 12 {
			return false
		}
		v = core.Resolve(v)
		if seen[v] {
			return false
		}
		seen[v] = true
		switch x := v.(type) {
		case *ssa.Parameter:
			for _, o := range P.Origins(x, within) {
				if o != ssa.Value(x) && dep(o, depth+1) {
					return true
				}
			}
			return false
		case *ssa.UnOp:
			if fa, ok := x.X.(*ssa.FieldAddr); ok {
				if _, f, _ := core.FieldName(fa); f == field && P.AllOrigins(fa.X, within, obj) {
					return true
				}
			}
			if cell := core.CellOf(x.X); cell != nil {
				for _, st := range core.StoresTo(cell) {
					if dep(st.Val, depth+1) {
						return true
					}
				}
			}
		}
		if in, ok := v.(ssa.Instruction); ok {
			for _, op := range in.Operands(nil) {
				if *op != nil && dep(*op, depth+1) {
					return true
				}
			}
		}
		return false
	}
	if call, ok := fl.(*ssa.Call); ok && core.Call(call).IsFunc(core.PkgGcsemu, "validateConds") {
		for _, a := range call.Call.Args {
			if dep(a, 0) {
				return true
			}
		}
		return false
	}
	for _, f := range core.FactsAt(fl.Block()) {
		if dep(f.Cond, 0) {
			return true
		}
	}
	return false
}

func R35() Rule {
	return Rule{Name: "R35", Run: func(c *core.Ctx) {
		P := c.P
		fn := P.MustFunc(core.PkgGcsemu, "(*GcsEmu).handleGcsNewObjectResume")
		c.Fn("(*GcsEmu).handleGcsNewObjectResume")
		isDataAddr := func(v ssa.Value) bool {
			fa, ok := v.(*ssa.FieldAddr)
			if !ok {
				return false
			}
			_, f, _ := core.FieldName(fa)
			return f == "data" && core.TypeIs(fa.X.Type(), core.PkgGcsemu, "uploadData")
		}
		var trunc, app *ssa.Store
		// the handler together with the helpers / upload-session methods it is split into
		for _, sf := range P.Scope(fn, func(f *ssa.Function) bool { return core.PkgPathOf(f) != core.PkgGcsemu }) {
			for _, b := range sf.Blocks {
				for _, in := range b.Instrs {
					st, ok := in.(*ssa.Store)
					if !ok || !isDataAddr(st.Addr) {
						continue
					}
					switch v := core.Resolve(st.Val).(type) {
					case *ssa.Slice:
						if v.High != nil && strings.HasSuffix(strings.Join(fieldChain(v.High), "."), "lo") {
							trunc = st
						}
					case *ssa.Call:
						if bi, ok := v.Call.Value.(*ssa.Builtin); ok && bi.Name() == "append" {
							app = st
						}
					}
				}
			}
		}
		if trunc == nil || app == nil {
			c.Bad("R35", "resume/truncate-then-append", fn.Pos(), "cannot find the `data = data[:lo]` truncation followed by the append of the chunk: a re-sent range is not replaced")
			return
		}
		if trunc.Parent() != app.Parent() {
			c.Unknown("R35", "resume/truncate-then-append", trunc.Pos(), "the truncation and the append sit in different functions (%s, %s): the path rule is not decided across them", core.FuncName(trunc.Parent()), core.FuncName(app.Parent()))
			return
		}
		fn = trunc.Parent()
		// the only way to reach the append without the truncation is the `lo == -1` (no explicit offset) edge
		var cut []cfgEdge
		for _, b := range fn.Blocks {
			ifi, ok := b.Instrs[len(b.Instrs)-1].(*ssa.If)
			if !ok {
				continue
			}
			bin, ok := ifi.Cond.(*ssa.BinOp)
			if !ok {
				continue
			}
			if k, isK := core.ConstInt(bin.Y); isK && k == -1 && strings.HasSuffix(strings.Join(fieldChain(bin.X), "."), "lo") && b.Dominates(app.Block()) && core.InstrReaches(ifi, trunc) {
				// NEQ: false edge = no offset; EQL: true edge = no offset
				idx := 1
				if bin.Op == token.EQL {
					idx = 0
				}
				cut = append(cut, cfgEdge{b, b.Succs[idx]})
			}
		}
		// removing the truncation block's outgoing edges as well
		for _, s := range trunc.Block().Succs {
			cut = append(cut, cfgEdge{trunc.Block(), s})
		}
		ok := len(cut) > len(trunc.Block().Succs) && !reachableWithoutEdges(fn, app.Block(), cut)
		c.Check(ok, "R35", "resume/truncate-then-append", trunc.Pos(), "every chunk with an explicit offset truncates the received bytes to that offset before appending", "a chunk with an explicit offset can be appended without first truncating the received bytes to that offset (the truncation is conditional on something else): re-sent or overlapping ranges are duplicated in the object")
	}}
}

// ---------------------------------------------------------------------------
// R36: stored cells are immutable objects; R37: no loop-carried timestamp
// ---------------------------------------------------------------------------

func R36() Rule {
	return Rule{Name: "R36", Run: func(c *core.Ctx) {
		n, bad := 0, 0
		for _, fn := range c.P.SrcFuncs(core.PkgBttest) {
			k := 0
			for _, b := range fn.Blocks {
				for _, in := range b.Instrs {
					st, ok := in.(*ssa.Store)
					if !ok {
						continue
					}
					fa, ok := st.Addr.(*ssa.FieldAddr)
					if !ok || !core.TypeIs(fa.X.Type(), pkgBtpb, "Cell") {
						continue
					}
					n++
					if _, fresh := core.Resolve(fa.X).(*ssa.Alloc); fresh {
						continue
					}
					bad++
					k++
					_, f, _ := core.FieldName(fa)
					c.Bad("R36", fmt.Sprintf("%s/cell-mutated-in-place/%s#%d", core.FuncName(fn), f, k), st.Pos(), "a field of an existing Cell is assigned: copyRow shares the Cell objects between a row and its copies (interleave branches, condition predicates, CheckAndMutateRow's predicate copy), so the edit is visible in all of them")
				}
			}
		}
		if bad == 0 {
			c.Ok("R36", "cells-are-immutable", token.NoPos, true, "%d assignments to Cell fields, all on freshly allocated cells", n)
		}
		if n < 2 {
			c.Unknown("R36", "floor/cell-stores", token.NoPos, "only %d Cell field stores found", n)
		}
	}}
}

// loopHeader: b has a predecessor that it dominates (back edge).
func loopHeader(b *ssa.BasicBlock) bool {
	for _, p := range b.Preds {
		if b.Dominates(p) {
			return true
		}
	}
	return false
}

func R37() Rule {
	return Rule{Name: "R37", Run: func(c *core.Ctx) {
		fn := c.P.MustFunc(core.PkgBttest, rpcRMW)
		c.Fn(rpcRMW)
		n := 0
		// the RPC and the per-rule helpers it is split into (the row helpers are anchors of their own)
		rmwStop := map[string]bool{"appendOrReplaceCell": true, "getOrCreateFamily": true, "getOrCreateColumn": true, "(*table).getOrCreateRow": true, "(*table).updateRow": true, "scrubRow": true}
		scope := c.P.Scope(fn, func(f *ssa.Function) bool { return core.PkgPathOf(f) != core.PkgBttest || rmwStop[core.FuncName(f)] })
		within := setOf(scope)
		for _, sf := range scope {
			for _, b := range sf.Blocks {
				for _, in := range b.Instrs {
					st, ok := in.(*ssa.Store)
					if !ok {
						continue
					}
					fa, ok := st.Addr.(*ssa.FieldAddr)
					if !ok || !core.TypeIs(fa.X.Type(), pkgBtpb, "Cell") {
						continue
					}
					if _, f, _ := core.FieldName(fa); f != "TimestampMicros" {
						continue
					}
					n++
					// backward slice of the timestamp
					carried := false
					seen := map[ssa.Value]bool{}
					var walk func(v ssa.Value, d int)
					walk = func(v ssa.Value, d int) {
						v = core.Strip(v)
						if d > 12 || seen[v] {
							return
						}
						seen[v] = true
						switch x := v.(type) {
						case *ssa.Phi:
							if loopHeader(x.Block()) {
								carried = true
								return
							}
							for _, e := range x.Edges {
								walk(e, d+1)
							}
						case *ssa.BinOp:
							walk(x.X, d+1)
							walk(x.Y, d+1)
						case *ssa.Call:
							if sc := x.Call.StaticCallee(); sc != nil && core.FuncName(sc) == "maxTimestamp" {
								for _, a := range x.Call.Args {
									walk(a, d+1)
								}
							}
						case *ssa.UnOp:
							if cell := core.CellOf(x.X); cell != nil {
								for _, s := range core.StoresTo(cell) {
									walk(s.Val, d+1)
								}
							}
						case *ssa.Parameter:
							// a helper's parameter: whatever the RPC passes for it
							for _, o := range c.P.Origins(x, within) {
								if o != ssa.Value(x) {
									walk(o, d+1)
								}
							}
						}
					}
					walk(st.Val, 0)
					c.Check(!carried, "R37", fmt.Sprintf("ReadModifyWriteRow/cell-timestamp#%d", n), st.Pos(), "the new cell's timestamp is computed from the clock and that column's newest cell only", "the new cell's timestamp depends on a value carried over from the previous rule (a loop-carried variable): a future timestamp of one column leaks into cells written to other columns")
				}
			}
		}
		if n == 0 {
			c.Unknown("R37", "ReadModifyWriteRow/cell-timestamp", fn.Pos(), "no new-cell timestamp assignment found")
		}
	}}
}

// ---------------------------------------------------------------------------
// R38: a dropped family is purged before any later modification is applied
// ---------------------------------------------------------------------------

func R38() Rule {
	return Rule{Name: "R38", Run: func(c *core.Ctx) {
		fn := c.P.MustFunc(core.PkgBttest, "(*server).ModifyColumnFamilies")
		c.Fn("(*server).ModifyColumnFamilies")
		isFamMap := func(v ssa.Value) bool {
			mt, ok := v.Type().Underlying().(*types.Map)
			return ok && core.TypeIs(mt.Elem(), "cloud.google.com/go/bigtable/admin/apiv2/adminpb", "ColumnFamily")
		}
		n := 0
		P := c.P
		// the RPC with the helpers it is split into (per-modification helper, purge helper, …)
		scope := P.Scope(fn, func(f *ssa.Function) bool { return core.PkgPathOf(f) != core.PkgBttest })
		// purges: a scan over all rows, or a call of a helper that certainly performs one
		var mustPurge func(f *ssa.Function, depth int) bool
		isPurgeSite := func(in ssa.Instruction, depth int) bool {
			ci := core.Call(in)
			if ci == nil {
				return false
			}
			if isRowsMethod(ci, "Ascend") {
				return true
			}
			return ci.Static != nil && ci.Static.Blocks != nil && core.PkgPathOf(ci.Static) == core.PkgBttest && depth < 4 && mustPurge(ci.Static, depth+1)
		}
		mustPurge = func(f *ssa.Function, depth int) bool {
			for _, b := range f.Blocks {
				for _, in := range b.Instrs {
					if !isPurgeSite(in, depth) {
						continue
					}
					onEvery := true
					for _, r := range returnsIn(f) {
						if r.Block() != b && !b.Dominates(r.Block()) {
							onEvery = false
						}
					}
					if onEvery {
						return true
					}
				}
			}
			return false
		}
		for _, f := range scope {
			for _, b := range f.Blocks {
				for idx, in := range b.Instrs {
					call, ok := in.(*ssa.Call)
					if !ok {
						continue
					}
					bi, ok := call.Call.Value.(*ssa.Builtin)
					if !ok || bi.Name() != "delete" || !isFamMap(call.Call.Args[0]) {
						continue
					}
					n++
					construct := fmt.Sprintf("ModifyColumnFamilies/drop#%d/purge-before-next-modification", n)
					// a purge later in the same block settles it
					sameBlock := false
					for _, later := range b.Instrs[idx+1:] {
						if isPurgeSite(later, 0) {
							sameBlock = true
						}
					}
					if sameBlock {
						c.Ok("R38", construct, call.Pos(), true, "the purge follows the drop directly")
						continue
					}
					// otherwise: from the drop, neither an insertion into the family map nor the end of
					// this function (after which the next modification runs) is reachable without a purge
					var cut []cfgEdge
					nPurge := 0
					for _, pb := range f.Blocks {
						for _, pin := range pb.Instrs {
							if isPurgeSite(pin, 0) {
								nPurge++
								for _, s := range pb.Succs {
									cut = append(cut, cfgEdge{pb, s})
								}
							}
						}
					}
					if nPurge == 0 {
						c.Bad("R38", construct, call.Pos(), "dropping a family is not followed by a purge of its cells")
						continue
					}
					bad := false
					for _, bb := range f.Blocks {
						isTarget := false
						for _, i2 := range bb.Instrs {
							if mu, isMU := i2.(*ssa.MapUpdate); isMU && isFamMap(mu.Map) {
								isTarget = true
							}
							if _, isRet := i2.(*ssa.Return); isRet {
								// a return in a purge block comes after the purge
								hasPurge := false
								for _, pin := range bb.Instrs {
									if isPurgeSite(pin, 0) {
										hasPurge = true
									}
								}
								if !hasPurge {
									isTarget = true
								}
							}
						}
						if isTarget && reachableFromWithout(b, bb, cut) {
							bad = true
						}
					}
					c.Check(!bad, "R38", construct, call.Pos(), "the purge runs before any later create can re-insert the family", "a family created later in the same request can be re-inserted before the dropped family's cells were purged: drop+create of one family in one request keeps the old cells")
				}
			}
		}
		if n == 0 {
			c.Unknown("R38", "ModifyColumnFamilies/drop", fn.Pos(), "no family drop found")
		}
	}}
}

// reachableFromWithout: is `to` reachable from `from` (in ≥1 step) when the cut edges are removed?
func reachableFromWithout(from, to *ssa.BasicBlock, cut []cfgEdge) bool {
	isCut := func(a, b *ssa.BasicBlock) bool {
		for _, e := range cut {
			if e.from == a && e.to == b {
				return true
			}
		}
		return false
	}
	seen := map[*ssa.BasicBlock]bool{}
	stack := []*ssa.BasicBlock{}
	for _, s := range from.Succs {
		if !isCut(from, s) {
			stack = append(stack, s)
		}
	}
	for len(stack) > 0 {
		b := stack[len(stack)-1]
		stack = stack[:len(stack)-1]
		if seen[b] {
			continue
		}
		seen[b] = true
		if b == to {
			return true
		}
		for _, s := range b.Succs {
			if !isCut(b, s) {
				stack = append(stack, s)
			}
		}
	}
	return false
}

// ---------------------------------------------------------------------------
// R39: presence tests on strings.Index
// ---------------------------------------------------------------------------

func R39() Rule {
	return Rule{Name: "R39", Run: func(c *core.Ctx) {
		n := 0
		for _, fn := range c.P.SrcFuncs(core.PkgGcsemu) {
			k := 0
			for _, call := range append(callsTo(fn, "strings", "Index"), callsTo(fn, "bytes", "Index")...) {
				for _, r := range core.Referrers(call) {
					bin, ok := r.(*ssa.BinOp)
					if !ok {
						continue
					}
					cst, isK := core.ConstInt(bin.Y)
					if !isK || bin.X != ssa.Value(call) {
						continue
					}
					n++
					k++
					okForm := false
					switch bin.Op {
					case token.GEQ, token.LSS:
						okForm = cst == 0
					case token.NEQ, token.EQL, token.GTR, token.LEQ:
						okForm = cst == -1
					}
					construct := fmt.Sprintf("%s/strings.Index-presence-test#%d", core.FuncName(fn), k)
					c.Check(okForm, "R39", construct, bin.Pos(), "presence is tested against the 'not found' value -1", fmt.Sprintf("strings.Index's result is tested with `%s %d`: a match at position 0 is treated as 'not found' (or vice versa) — e.g. a delimiter directly after the prefix is not collapsed", bin.Op, cst))
				}
			}
		}
		if n < 1 {
			c.Ok("R39", "no-index-presence-test", token.NoPos, false, "no strings.Index result is used as a presence test")
		}
	}}
}

// ---------------------------------------------------------------------------
// R40: no row is deleted from inside an iteration callback
// ---------------------------------------------------------------------------

// R40: the Rows contract leaves deletion during iteration undefined, and the
// two engines differ (leveldb iterates a snapshot, the btree iterates the live
// tree and skips rows when its structure changes): a callback handed to
// Rows.Ascend* must not (transitively) call Rows.Delete.
func R40() Rule {
	return Rule{Name: "R40", Run: func(c *core.Ctx) {
		P := c.P
		la := Locks(P)
		// functions that may delete
		deletes := map[*ssa.Function]bool{}
		all := P.SrcFuncs(core.PkgBttest)
		for _, fn := range all {
			for _, ci := range core.AllCalls(fn) {
				if isRowsMethod(ci, "Delete", "Clear") {
					deletes[fn] = true
				}
			}
		}
		for changed := true; changed; {
			changed = false
			for _, fn := range all {
				if deletes[fn] {
					continue
				}
				for _, ci := range core.AllCalls(fn) {
					for _, callee := range la.calleesOf(ci) {
						if deletes[callee] {
							deletes[fn] = true
							changed = true
						}
					}
				}
			}
		}
		n := 0
		for _, fn := range all {
			if _, ok := isAscendCallback(fn); !ok {
				continue
			}
			n++
			c.Fn(core.FuncName(fn))
			c.Check(!deletes[fn], "R40", core.FuncName(fn)+"/no-delete-during-iteration", fn.Pos(), "the iteration callback never deletes rows", "the iteration callback (transitively) calls Rows.Delete while the scan is running: the btree engine skips the row after each deleted one, the leveldb engines do not — the engines disagree")
		}
		if n < 2 {
			c.Unknown("R40", "floor/callbacks", token.NoPos, "only %d iteration callbacks found", n)
		}
	}}
}

// ---------------------------------------------------------------------------
// R41: every store call inside a critical section refers to the locked object
// ---------------------------------------------------------------------------

// R41: inside the closure run under lockName(B, N), the (bucket, name)
// arguments of Store.GetMeta / Get / Add / UpdateMeta / Delete are exactly
// (B, N).  Reasoned exceptions: the source arguments of Copy, and the source
// reads of compose (checked in finishCompose by their provenance: the ranged
// source list).
func R41() Rule {
	return Rule{Name: "R41", Run: func(c *core.Ctx) {
		P := c.P
		n := 0
		for _, fn := range P.SrcFuncs(core.PkgGcsemu) {
			sec, _ := sectionOfClosure(P, fn)
			if sec == nil {
				continue
			}
			kb, kn := substKey(sec.bucket, nil, 0), substKey(sec.name, nil, 0)
			k := 0
			// the closure itself and the in-package helpers / "…Locked" methods it calls,
			// with their parameters bound to the arguments at each call
			var walk func(f *ssa.Function, binds []binding, depth int)
			walk = func(f *ssa.Function, binds []binding, depth int) {
				for _, ci := range core.AllCalls(f) {
					var bi, ni int
					switch {
					case isStoreCall(ci, "GetMeta", "Get"):
						bi, ni = 1, 2
					case isStoreCall(ci, "Add", "UpdateMeta", "Delete"):
						bi, ni = 0, 1
					default:
						if call, isCall := ci.Instr.(*ssa.Call); isCall && depth < 3 && ci.Static != nil && ci.Static.Blocks != nil && ci.Static.Pkg != nil && ci.Static.Pkg.Pkg.Path() == core.PkgGcsemu && ci.Static.Parent() == nil {
							walk(ci.Static, append(append([]binding(nil), binds...), binding{callee: ci.Static, call: call}), depth+1)
						}
						continue
					}
					if isStoreCall(ci, "Get") && (elementOfList(ci.Common.Args[ni]) || elementOfListThrough(ci.Common.Args[ni], binds)) {
						// a read of one member of a list of objects (compose sources): by design not the
						// locked object; the per-source check is R12's compose-validates-each-source
						continue
					}
					n++
					k++
					c.Fn(core.FuncName(f))
					construct := fmt.Sprintf("%s/Store.%s#%d/same-object-as-lock", core.FuncName(fn), ci.Method.Name(), k)
					ab, an := substKey(ci.Common.Args[bi], binds, 0), substKey(ci.Common.Args[ni], binds, 0)
					if ab == kb && an == kn {
						c.Ok("R41", construct, ci.Instr.Pos(), true, "operates on the object the critical section is keyed on")
					} else {
						c.Bad("R41", construct, ci.Instr.Pos(), "inside the critical section of (%s, %s) the store is asked about (%s, %s): the answer describes an object this request does not hold", kb, kn, ab, an)
					}
				}
			}
			walk(fn, sec.recvBinds(), 0)
			// … and the locked object is not read back after the section was left: a handler that mutates
			// (bucket, name) under its lock and then asks the store about the same object outside the lock
			// describes whatever another request has made of it in the meantime
			mutates := false
			var chk func(f *ssa.Function, depth int)
			chk = func(f *ssa.Function, depth int) {
				for _, ci := range core.AllCalls(f) {
					if isStoreCall(ci, "Add", "UpdateMeta", "Delete", "Copy") {
						mutates = true
					}
					if depth < 3 && ci.Static != nil && ci.Static.Blocks != nil && core.PkgPathOf(ci.Static) == core.PkgGcsemu && ci.Static.Parent() == nil {
						chk(ci.Static, depth+1)
					}
				}
			}
			chk(fn, 0)
			if mutates && sec.runCall != nil {
				par := sec.runCall.Parent()
				j := 0
				for _, ci := range core.AllCalls(par) {
					if !isStoreCall(ci, "GetMeta", "Get") || !core.InstrReaches(sec.runCall, ci.Instr) {
						continue
					}
					ab, an := substKey(ci.Common.Args[1], nil, 0), substKey(ci.Common.Args[2], nil, 0)
					if ab != kb || an != kn {
						continue
					}
					j++
					c.Bad("R41", fmt.Sprintf("%s/Store.%s#%d/read-back-outside-the-lock", core.FuncName(par), ci.Method.Name(), j), ci.Instr.Pos(), "the object (%s, %s) is mutated under its lock and then read again after the lock was given up: the response can describe another request's object (or report 404 for a successful write)", kb, kn)
				}
			}
		}
		// compose reads its sources inside the destination's critical section: the destination may be one
		// of the sources (the append idiom dest ← dest + piece), and two such composes that both read the
		// old destination outside the lock lose one update
		if h := P.Func(core.PkgGcsemu, "(*GcsEmu).handleGcsCompose"); h != nil && h.Blocks != nil {
			hscope := P.Scope(h, func(f *ssa.Function) bool { return core.PkgPathOf(f) != core.PkgGcsemu })
			hset := setOf(hscope)
			j := 0
			for _, ci := range core.CallsIn(hscope, func(ci *core.CallInfo) bool { return isStoreCall(ci, "Get") }) {
				j++
				var insideSection func(f *ssa.Function, depth int) bool
				insideSection = func(f *ssa.Function, depth int) bool {
					if sec, _ := sectionOfClosure(P, f); sec != nil {
						return true
					}
					if f == h || depth > 4 {
						return false
					}
					nRef := 0
					for _, r := range P.Refs(f) {
						if !hset[r.Instr.Parent()] {
							continue
						}
						nRef++
						if r.Kind != core.RefCall || !insideSection(r.Instr.Parent(), depth+1) {
							return false
						}
					}
					return nRef > 0
				}
				inside := insideSection(ci.Instr.Parent(), 0)
				c.Check(inside, "R41", fmt.Sprintf("(*GcsEmu).handleGcsCompose/Store.Get#%d/source-read-inside-the-destination-lock", j), ci.Instr.Pos(), "the compose sources are read inside the destination's critical section", "compose reads its source objects before taking the destination's lock: when the destination is itself a source (append), two concurrent composes both read the old content and one update is lost")
			}
		}
		if n < 3 {
			c.Unknown("R41", "floor/calls", token.NoPos, "only %d store calls found inside critical sections", n)
		}
	}}
}

// elementOfListThrough: v is a parameter of a helper of the section (or a field of one) that the
// section binds to an element of a list (`g.getComposeSource(…, src)` called for each source).
func elementOfListThrough(v ssa.Value, binds []binding) bool {
	for i := 0; i < 6; i++ {
		v = core.Resolve(v)
		switch x := v.(type) {
		case *ssa.UnOp:
			v = x.X
			continue
		case *ssa.FieldAddr:
			v = x.X
			continue
		case *ssa.Field:
			v = x.X
			continue
		case *ssa.Alloc:
			// the spill cell of a parameter
			sts := core.StoresTo(x)
			if len(sts) != 1 {
				return false
			}
			v = sts[0].Val
			continue
		case *ssa.Parameter:
			for _, b := range binds {
				if b.call == nil || x.Parent() != b.callee {
					continue
				}
				for pi, q := range b.callee.Params {
					if q == x && pi < len(b.call.Call.Args) {
						a := b.call.Call.Args[pi]
						return elementOfList(a) || elementOfListThrough(a, binds)
					}
				}
			}
			return false
		}
		return false
	}
	return false
}

// elementOfList: v is (a field of) an element of a slice being indexed or ranged over.
func elementOfList(v ssa.Value) bool {
	for i := 0; i < 10; i++ {
		v = core.Resolve(v)
		switch x := v.(type) {
		case *ssa.UnOp:
			v = x.X
		case *ssa.FieldAddr:
			v = x.X
		case *ssa.Field:
			v = x.X
		case *ssa.IndexAddr, *ssa.Index:
			return true
		case *ssa.Alloc:
			// the loop variable: a local copy of the current element
			sts := core.StoresTo(x)
			if len(sts) == 0 {
				return false
			}
			for _, st := range sts {
				if !elementOfList(st.Val) {
					return false
				}
			}
			return true
		case *ssa.Extract:
			if _, ok := x.Tuple.(*ssa.Next); ok {
				return true
			}
			return false
		default:
			return false
		}
	}
	return false
}

// ---------------------------------------------------------------------------
// R42: bytes handed out by the store are never appended to
// ---------------------------------------------------------------------------

// R42: the content slice returned by Store.Get is the stored slice itself
// (memory store); appending to it, or to a slice that may alias it, writes
// into spare capacity shared with the stored object and with every other
// slice derived from it.
func R42() Rule {
	return Rule{Name: "R42", Run: func(c *core.Ctx) {
		P := c.P
		fromStore := func(v ssa.Value) bool {
			seen := map[ssa.Value]bool{}
			var walk func(v ssa.Value, d int) bool
			walk = func(v ssa.Value, d int) bool {
				v = core.Strip(v)
				if d > 10 || seen[v] {
					return false
				}
				seen[v] = true
				switch x := v.(type) {
				case *ssa.Extract:
					if call, ok := x.Tuple.(*ssa.Call); ok && x.Index == 1 && isStoreCall(core.Call(call), "Get") {
						return true
					}
				case *ssa.Phi:
					for _, e := range x.Edges {
						if walk(e, d+1) {
							return true
						}
					}
				case *ssa.Slice:
					return walk(x.X, d+1)
				case *ssa.UnOp:
					if cell := core.CellOf(x.X); cell != nil {
						for _, st := range core.StoresTo(cell) {
							if walk(st.Val, d+1) {
								return true
							}
						}
					}
				}
				return false
			}
			return walk(v, 0)
		}
		n, bad := 0, 0
		for _, fn := range P.SrcFuncs(core.PkgGcsemu) {
			k := 0
			for _, b := range fn.Blocks {
				for _, in := range b.Instrs {
					call, ok := in.(*ssa.Call)
					if !ok {
						continue
					}
					bi, ok := call.Call.Value.(*ssa.Builtin)
					if !ok || bi.Name() != "append" {
						continue
					}
					if sl, ok := call.Call.Args[0].Type().Underlying().(*types.Slice); !ok || !types.Identical(sl.Elem(), types.Typ[types.Byte]) {
						continue
					}
					n++
					if fromStore(call.Call.Args[0]) {
						bad++
						k++
						c.Bad("R42", fmt.Sprintf("%s/append-to-stored-bytes#%d", core.FuncName(fn), k), call.Pos(), "append's destination may be the content slice handed out by Store.Get (the stored slice itself in the memory store): the appended bytes land in capacity shared with the stored object and with other results built from it")
					}
				}
			}
		}
		if bad == 0 {
			c.Ok("R42", "no-append-to-stored-bytes", token.NoPos, true, "%d byte-slice appends in gcsemu; none has a Store.Get content slice as its destination", n)
		}

	}}
}

// ---------------------------------------------------------------------------
// R43: scan bounds handed to Rows.Ascend* are never nil
// ---------------------------------------------------------------------------

// R43: the Rows contract gives no meaning to a nil bound and the engines differ
// on it (goleveldb treats a nil Limit as "unbounded", the btree engine compares
// every key with the nil pivot and visits nothing), so a caller that can pass a
// nil slice as a bound makes the engine observable.  Reported: a bound argument
// one of whose origins is an explicit nil — the nil constant, or the result of
// a repository function that returns nil on some path — without a dominating
// test of that value (`x != nil`, `len(x) > 0`, `len(x) == 0` on the other edge).
func R43() Rule {
	return Rule{Name: "R43", Run: func(c *core.Ctx) {
		P := c.P
		mayReturnNil := func(f *ssa.Function) bool {
			if f == nil || f.Blocks == nil || core.PkgPathOf(f) != core.PkgBttest {
				return false
			}
			for _, r := range returnsIn(f) {
				if len(r.Results) == 0 {
					continue
				}
				for _, rv := range returnValues(r.Results[0]) {
					if core.IsNilConst(core.Resolve(rv)) {
						return true
					}
				}
			}
			return false
		}
		var explicitNil func(v ssa.Value, depth int, seen map[ssa.Value]bool) (bool, string)
		explicitNil = func(v ssa.Value, depth int, seen map[ssa.Value]bool) (bool, string) {
			v = core.Resolve(v)
			if depth > 8 || seen[v] {
				return false, ""
			}
			seen[v] = true
			switch x := v.(type) {
			case *ssa.Const:
				if x.Value == nil {
					return true, "the nil constant"
				}
			case *ssa.Call:
				if sc := x.Call.StaticCallee(); mayReturnNil(sc) {
					return true, "the result of " + core.FuncName(sc) + ", which returns nil on some path"
				}
			case *ssa.Phi:
				for _, e := range x.Edges {
					if ok, why := explicitNil(e, depth+1, seen); ok {
						return true, why
					}
				}
			case *ssa.Parameter:
				for _, o := range P.Origins(x, nil) {
					if o != ssa.Value(x) {
						if ok, why := explicitNil(o, depth+1, seen); ok {
							return true, why
						}
					}
				}
			case *ssa.UnOp:
				if cell := core.CellOf(x.X); cell != nil {
					for _, st := range core.StoresTo(cell) {
						if ok, why := explicitNil(st.Val, depth+1, seen); ok {
							return true, why
						}
					}
				}
			}
			return false, ""
		}
		guarded := func(v ssa.Value, at ssa.Instruction) bool {
			for _, f := range core.FactsAtInstr(at) {
				l, op, r, ok := cmpNorm(f)
				if !ok {
					continue
				}
				// x != nil
				if core.IsNilConst(r) && core.SameValue(l, v) && op == token.NEQ {
					return true
				}
				if core.IsNilConst(l) && core.SameValue(r, v) && op == token.NEQ {
					return true
				}
				// len(x) > 0, len(x) != 0, len(x) >= 1
				if la := lenArg(l); la != nil && core.SameValue(la, v) {
					if k, isK := core.ConstInt(r); isK && ((op == token.GTR && k >= 0) || (op == token.NEQ && k == 0) || (op == token.GEQ && k >= 1)) {
						return true
					}
				}
			}
			return false
		}
		n := 0
		for _, fn := range P.SrcFuncs(core.PkgBttest) {
			k := 0
			for _, ci := range core.AllCalls(fn) {
				if !isRowsMethod(ci, "AscendRange", "AscendLessThan", "AscendGreaterOrEqual") {
					continue
				}
				nb := 1
				if ci.Method.Name() == "AscendRange" {
					nb = 2
				}
				for i := 0; i < nb && i < len(ci.Common.Args); i++ {
					n++
					k++
					c.Fn(core.FuncName(fn))
					construct := fmt.Sprintf("%s/%s#%d/bound-%d-not-nil", core.FuncName(fn), ci.Method.Name(), k, i)
					arg := ci.Common.Args[i]
					if isNil, why := explicitNil(arg, 0, map[ssa.Value]bool{}); isNil && !guarded(arg, ci.Instr) {
						c.Bad("R43", construct, ci.Instr.Pos(), "a scan bound can be nil here (%s): the Rows contract gives a nil bound no meaning and the engines differ on it — goleveldb scans without that bound, the btree engine visits nothing", why)
					} else {
						c.Ok("R43", construct, ci.Instr.Pos(), true, "no explicit nil reaches this bound unguarded")
					}
				}
			}
		}
		if n < 3 {
			c.Unknown("R43", "floor/bounds", token.NoPos, "only %d scan-bound arguments found", n)
		}
	}}
}
