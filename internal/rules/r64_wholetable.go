package rules

import (
	"fmt"
	"go/token"
	"go/types"
	"strings"

	"golang.org/x/tools/go/ssa"

	"verif/internal/core"
)

// ---------------------------------------------------------------------------
// R64: "an absent or empty RowSet means the whole table" is decided on the
// request, not on the normalised range list.
//
// ReadRows scans a list of simpleRange values; the whole-table default is the
// list holding one zero-valued range.  Normalisation (merging, dropping
// zero-width ranges, de-duplication) may legitimately produce an *empty* list
// for a RowSet that was not empty — `[a,a)` selects nothing.  If the default is
// chosen by testing the derived list for emptiness, such a request returns
// every row of the table instead of none (C03: "each stored row whose key lies
// in the union of the set", "an absent or empty RowSet means the whole table").
// Structural necessary condition: the branch condition that selects the
// whole-table literal does not data-depend on a value of the derived list's
// type.
// ---------------------------------------------------------------------------

func isSimpleRangeList(t types.Type) bool {
	if sl, ok := t.Underlying().(*types.Slice); ok {
		t = sl.Elem()
	}
	n := core.NamedOf(t)
	return n != nil && n.Obj().Pkg() != nil && n.Obj().Pkg().Path() == core.PkgBttest && core.TName(n) == "simpleRange"
}

// wholeTableLiteral: v is `[]simpleRange{{}}` — a slice of a fresh one-element array whose
// element is only ever assigned the zero value.
func wholeTableLiteral(v ssa.Value) bool {
	sl, ok := v.(*ssa.Slice)
	if !ok || !isSimpleRangeList(sl.Type()) {
		return false
	}
	arr, ok := sl.X.(*ssa.Alloc)
	if !ok {
		return false
	}
	at, ok := arr.Type().Underlying().(*types.Pointer).Elem().Underlying().(*types.Array)
	if !ok || at.Len() != 1 {
		return false
	}
	for _, r := range core.Referrers(arr) {
		ia, ok := r.(*ssa.IndexAddr)
		if !ok {
			continue
		}
		for _, rr := range core.Referrers(ia) {
			switch x := rr.(type) {
			case *ssa.Store:
				if c, ok := x.Val.(*ssa.Const); !ok || c.Value != nil {
					return false
				}
			case *ssa.FieldAddr:
				// a field of the element is assigned: not the zero range
				for _, fr := range core.Referrers(x) {
					if _, ok := fr.(*ssa.Store); ok {
						return false
					}
				}
			}
		}
	}
	return true
}

// dependsOnRangeList: does the backward data slice of v contain a value of the derived list's type?
func dependsOnRangeList(v ssa.Value, seen map[ssa.Value]bool, depth int) ssa.Value {
	if v == nil || depth > 12 || seen[v] {
		return nil
	}
	seen[v] = true
	if isSimpleRangeList(v.Type()) && !wholeTableLiteral(v) {
		return v
	}
	switch x := v.(type) {
	case *ssa.BinOp:
		if r := dependsOnRangeList(x.X, seen, depth+1); r != nil {
			return r
		}
		return dependsOnRangeList(x.Y, seen, depth+1)
	case *ssa.UnOp:
		if x.Op == token.MUL {
			if cell := core.CellOf(x.X); cell != nil {
				for _, st := range core.StoresTo(cell) {
					if r := dependsOnRangeList(st.Val, seen, depth+1); r != nil {
						return r
					}
				}
				return nil
			}
		}
		return dependsOnRangeList(x.X, seen, depth+1)
	case *ssa.Phi:
		for _, e := range x.Edges {
			if r := dependsOnRangeList(e, seen, depth+1); r != nil {
				return r
			}
		}
	case *ssa.Extract:
		return dependsOnRangeList(x.Tuple, seen, depth+1)
	case *ssa.Convert:
		return dependsOnRangeList(x.X, seen, depth+1)
	case *ssa.ChangeType:
		return dependsOnRangeList(x.X, seen, depth+1)
	case *ssa.FieldAddr:
		return dependsOnRangeList(x.X, seen, depth+1)
	case *ssa.IndexAddr:
		return dependsOnRangeList(x.X, seen, depth+1)
	case *ssa.Call:
		for _, a := range x.Call.Args {
			if r := dependsOnRangeList(a, seen, depth+1); r != nil {
				return r
			}
		}
		if x.Call.IsInvoke() {
			return dependsOnRangeList(x.Call.Value, seen, depth+1)
		}
		// the result of an in-repository predicate over the list (`isEmpty(srs)`) is covered by its arguments
	}
	return nil
}

func R64() Rule {
	return Rule{Name: "R64", Run: func(c *core.Ctx) {
		P := c.P
		if P.SPkgs[core.PkgBttest] == nil {
			return
		}
		root := P.MustFunc(core.PkgBttest, rpcReadRows)
		c.Fn(rpcReadRows)
		scope := P.Scope(root, func(f *ssa.Function) bool { return core.PkgPathOf(f) != core.PkgBttest })
		n := 0
		judge := func(where ssa.Instruction, conds []ssa.Value, how string) {
			n++
			construct := fmt.Sprintf("ReadRows/whole-table-default#%d", n)
			for _, cond := range conds {
				if dep := dependsOnRangeList(cond, map[ssa.Value]bool{}, 0); dep != nil {
					pos := where.Pos()
					if in, ok := dep.(ssa.Instruction); ok && in.Pos() != token.NoPos {
						pos = in.Pos()
					}
					c.Bad("R64", construct, pos, "the whole-table default (%s) is selected by a condition computed from the normalised range list: a non-empty RowSet whose ranges normalise to nothing (`[a,a)`, `(a,a]`) is answered with every row of the table instead of none — the default belongs to an absent or empty RowSet and has to be decided on the request's row keys and row ranges", how)
					return
				}
			}
			c.Ok("R64", construct, where.Pos(), true, "the whole-table default (%s) is selected by a condition on the request, not on the derived range list", how)
		}
		for _, fn := range scope {
			for _, b := range fn.Blocks {
				for _, in := range b.Instrs {
					switch x := in.(type) {
					case *ssa.Phi:
						if !isSimpleRangeList(x.Type()) {
							continue
						}
						lit := false
						for _, e := range x.Edges {
							if wholeTableLiteral(e) {
								lit = true
							}
						}
						if !lit || len(x.Edges) < 2 {
							continue
						}
						judge(x, selectorsOfJoin(x.Block()), "φ at the join")
					case *ssa.Store:
						if !wholeTableLiteral(x.Val) {
							continue
						}
						cell := core.CellOf(x.Addr)
						if cell == nil || len(core.StoresTo(cell)) < 2 {
							continue
						}
						// the stores of this variable: the conditions that separate them
						var conds []ssa.Value
						for _, st := range core.StoresTo(cell) {
							dominatingIfs(st, func(ifi *ssa.If, cond ssa.Value) { conds = append(conds, cond) })
						}
						judge(x, conds, "assignment to the range variable")
					case *ssa.Return:
						for _, r := range x.Results {
							if wholeTableLiteral(r) {
								var conds []ssa.Value
								dominatingIfs(x, func(ifi *ssa.If, cond ssa.Value) { conds = append(conds, cond) })
								judge(x, conds, "returned by "+core.FuncName(fn))
							}
						}
					}
				}
			}
		}
		if n == 0 {
			c.Unknown("R64", "ReadRows/whole-table-default", root.Pos(), "no whole-table default list (`[]simpleRange{{}}`) found in the scope of ReadRows: re-confirm how an absent RowSet is turned into a scan")
		}
	}}
}

// selectorsOfJoin: the branch conditions that decide which predecessor edge a join block is
// entered through — the If terminating the join's immediate dominator, and the Ifs between.
func selectorsOfJoin(j *ssa.BasicBlock) []ssa.Value {
	var out []ssa.Value
	id := j.Idom()
	seen := map[*ssa.BasicBlock]bool{}
	var up func(b *ssa.BasicBlock)
	up = func(b *ssa.BasicBlock) {
		if b == nil || seen[b] {
			return
		}
		seen[b] = true
		if ifi, ok := lastIf(b); ok {
			out = append(out, ifi.Cond)
		}
		if b == id {
			return
		}
		for _, p := range b.Preds {
			up(p)
		}
	}
	for _, p := range j.Preds {
		up(p)
	}
	return out
}

func lastIf(b *ssa.BasicBlock) (*ssa.If, bool) {
	if len(b.Instrs) == 0 {
		return nil, false
	}
	ifi, ok := b.Instrs[len(b.Instrs)-1].(*ssa.If)
	return ifi, ok
}

// ---------------------------------------------------------------------------
// R69: a GC pass takes its rules from the table's live family definitions.
//
// C16: "never alters … families without a rule".  The rules a pass applies are
// the `GcRule` fields of the families in `table.def`, read under the table lock
// when the pass starts.  A second copy of the rules kept in another field of
// the table (a cache maintained by ModifyColumnFamilies) has to be invalidated
// on every path that changes a family — drop, re-create without a rule, update —
// and a missed path makes later passes collect cells of a family that has no
// rule.  Structural necessary condition: the rule argument of every applyGC call
// reached from table.gc derives from GcRule field loads, not from a field of
// `table` other than its definition.
// ---------------------------------------------------------------------------

func R69() Rule {
	return Rule{Name: "R69", Run: func(c *core.Ctx) {
		P := c.P
		if P.SPkgs[core.PkgBttest] == nil {
			return
		}
		root := P.MustFunc(core.PkgBttest, "(*table).gc")
		c.Fn("(*table).gc")
		scope := P.Scope(root, func(f *ssa.Function) bool { return core.PkgPathOf(f) != core.PkgBttest })
		apply := P.MustFunc(core.PkgBttest, "applyGC")
		n := 0
		for _, ci := range core.CallsIn(scope, func(ci *core.CallInfo) bool { return ci.Static == apply }) {
			n++
			construct := fmt.Sprintf("(*table).gc/applyGC#%d/rule-from-live-definition", n)
			var ruleArg ssa.Value
			for _, a := range ci.Common.Args {
				if nm := core.NamedOf(a.Type()); nm != nil && nm.Obj().Name() == "GcRule" {
					ruleArg = a
				}
			}
			if ruleArg == nil {
				c.Unknown("R69", construct, ci.Instr.Pos(), "applyGC is called without a *GcRule argument")
				continue
			}
			good, bad := 0, token.NoPos
			badField := ""
			seen := map[ssa.Value]bool{}
			var slice func(v ssa.Value, depth int)
			slice = func(v ssa.Value, depth int) {
				if v == nil || depth > 16 || seen[v] {
					return
				}
				seen[v] = true
				switch x := v.(type) {
				case *ssa.Lookup:
					slice(x.X, depth+1)
				case *ssa.Extract:
					slice(x.Tuple, depth+1)
				case *ssa.Next:
					slice(x.Iter, depth+1)
				case *ssa.Range:
					slice(x.X, depth+1)
				case *ssa.MakeMap:
					for _, r := range core.Referrers(x) {
						if mu, ok := r.(*ssa.MapUpdate); ok && mu.Map == ssa.Value(x) {
							slice(mu.Value, depth+1)
						}
					}
				case *ssa.Phi:
					for _, e := range x.Edges {
						slice(e, depth+1)
					}
				case *ssa.Parameter:
					fn := x.Parent()
					for i, p := range fn.Params {
						if p != x {
							continue
						}
						for _, r := range P.Refs(fn) {
							if call, ok := r.Instr.(ssa.CallInstruction); ok && r.Kind == core.RefCall && i < len(call.Common().Args) {
								slice(call.Common().Args[i], depth+1)
							}
						}
					}
				case *ssa.FreeVar:
					if cell := core.CellOf(x); cell != nil {
						for _, st := range core.StoresTo(cell) {
							slice(st.Val, depth+1)
						}
					} else {
						slice(core.FreeVarValue(x), depth+1)
					}
				case *ssa.Call:
					if callee := x.Call.StaticCallee(); callee != nil && callee.Blocks != nil && core.PkgPathOf(callee) == core.PkgBttest {
						for _, r := range returnsIn(callee) {
							for _, res := range r.Results {
								if types.Identical(res.Type(), x.Type()) || len(r.Results) == 1 {
									slice(res, depth+1)
								}
							}
						}
					}
				case *ssa.UnOp:
					if x.Op != token.MUL {
						return
					}
					if fa, ok := x.X.(*ssa.FieldAddr); ok {
						owner := core.NamedOf(fa.X.Type())
						_, fname, _ := core.FieldName(fa)
						if owner != nil && fname == "GcRule" && owner.Obj().Name() == "ColumnFamily" {
							good++
							return
						}
						if owner != nil && owner.Obj().Pkg() != nil && owner.Obj().Pkg().Path() == core.PkgBttest && core.TName(owner) == "table" && fname != "def" {
							bad, badField = x.Pos(), fname
							return
						}
						return
					}
					if cell := core.CellOf(x.X); cell != nil {
						for _, st := range core.StoresTo(cell) {
							slice(st.Val, depth+1)
						}
						// a map kept in a (captured) variable: what is put into it through any load of the variable
						for _, f := range core.Family(core.Root(cell.Parent())) {
							for _, b := range f.Blocks {
								for _, in := range b.Instrs {
									if mu, ok := in.(*ssa.MapUpdate); ok {
										if ld, ok := core.Strip(mu.Map).(*ssa.UnOp); ok && ld.Op == token.MUL && core.CellOf(ld.X) == cell {
											slice(mu.Value, depth+1)
										}
									}
								}
							}
						}
					}
				}
			}
			slice(ruleArg, 0)
			switch {
			case bad != token.NoPos:
				c.Bad("R69", construct, bad, "the rule this pass applies is taken from table.%s, a copy of the families' GC rules kept beside the table definition: every path that changes a family (drop, re-create without a rule, update) has to keep it in step, and a family that was dropped and re-created without a rule keeps being collected by the stale entry", badField)
			case good > 0:
				c.Ok("R69", construct, ci.Instr.Pos(), true, "the rule derives from the GcRule field of the table's current family definitions (%d load(s))", good)
			default:
				c.Ok("R69", construct, ci.Instr.Pos(), false, "no second copy of the GC rules in a field of the table is involved")
			}
		}
		if n == 0 {
			c.Unknown("R69", "(*table).gc/applyGC", root.Pos(), "table.gc no longer reaches applyGC")
		}
	}}
}

// ---------------------------------------------------------------------------
// R71: the scan callback passes a row over only because of the row itself.
//
// C18 / C03: "rows not written during the scan are returned exactly as stored",
// "each stored row … exactly once".  In ReadRows the function handed to
// Rows.Ascend* may continue the scan (return true) without having evaluated the
// row only when the row's own content says so (it has no families).  A path that
// continues past a row because of scan-level state — a "resumed" flag, a counter,
// a remembered key that is not compared with this row's key — drops a row whose
// identity was never looked at: after a restart of the range behind a deleted
// row, the next (innocent) row is skipped.  Structural necessary condition:
// every path from the callback's entry to a return that can continue the scan
// either passes the filter evaluation of the row, or branches on a condition
// computed from the row parameter.
// ---------------------------------------------------------------------------

func dependsOnValue(v, target ssa.Value, seen map[ssa.Value]bool, depth int) bool {
	if v == nil || depth > 10 || seen[v] {
		return false
	}
	seen[v] = true
	if v == target {
		return true
	}
	switch x := v.(type) {
	case *ssa.UnOp:
		if x.Op == token.MUL {
			if cell := core.CellOf(x.X); cell != nil {
				for _, st := range core.StoresTo(cell) {
					if st.Parent() == x.Parent() && dependsOnValue(st.Val, target, seen, depth+1) {
						return true
					}
				}
				return false
			}
		}
		return dependsOnValue(x.X, target, seen, depth+1)
	case *ssa.FieldAddr:
		return dependsOnValue(x.X, target, seen, depth+1)
	case *ssa.Field:
		return dependsOnValue(x.X, target, seen, depth+1)
	case *ssa.IndexAddr:
		return dependsOnValue(x.X, target, seen, depth+1)
	case *ssa.BinOp:
		return dependsOnValue(x.X, target, seen, depth+1) || dependsOnValue(x.Y, target, seen, depth+1)
	case *ssa.Convert:
		return dependsOnValue(x.X, target, seen, depth+1)
	case *ssa.Extract:
		return dependsOnValue(x.Tuple, target, seen, depth+1)
	case *ssa.Phi:
		for _, e := range x.Edges {
			if dependsOnValue(e, target, seen, depth+1) {
				return true
			}
		}
	case *ssa.Call:
		for _, a := range x.Call.Args {
			if dependsOnValue(a, target, seen, depth+1) {
				return true
			}
		}
		if x.Call.IsInvoke() {
			return dependsOnValue(x.Call.Value, target, seen, depth+1)
		}
	}
	return false
}

func R71() Rule {
	return Rule{Name: "R71", Run: func(c *core.Ctx) {
		P := c.P
		if P.SPkgs[core.PkgBttest] == nil {
			return
		}
		root := P.MustFunc(core.PkgBttest, rpcReadRows)
		c.Fn(rpcReadRows)
		scope := P.Scope(root, func(f *ssa.Function) bool { return core.PkgPathOf(f) != core.PkgBttest })
		within := setOf(scope)
		eval := P.MustFunc(core.PkgBttest, "filterRow")
		cbs := map[*ssa.Function]bool{}
		var order []*ssa.Function
		for _, ci := range core.CallsIn(scope, func(ci *core.CallInfo) bool {
			return isRowsMethod(ci, "Ascend", "AscendRange", "AscendLessThan", "AscendGreaterOrEqual")
		}) {
			for _, a := range ci.Common.Args {
				if _, isFn := a.Type().Underlying().(*types.Signature); !isFn {
					continue
				}
				// the callback itself, or — when the dispatch sits in a helper that takes it as a parameter —
				// what every caller passes
				cands := []ssa.Value{a}
				if closureOf(a) == nil {
					cands = P.Origins(a, within)
				}
				for _, o := range cands {
					if cb := closureOf(o); cb != nil && cb.Blocks != nil && !cbs[cb] {
						cbs[cb] = true
						order = append(order, cb)
					}
				}
			}
		}
		if len(order) == 0 {
			c.Unknown("R71", "ReadRows/scan-callback", root.Pos(), "no function handed to Rows.Ascend* found in the scope of ReadRows")
			return
		}
		for i, cb := range order {
			construct := fmt.Sprintf("ReadRows/scan-callback#%d/rows-passed-over-by-their-own-content", i+1)
			var row *ssa.Parameter
			for _, p := range cb.Params {
				if nm := core.NamedOf(p.Type()); nm != nil && nm.Obj().Name() == "Row" && protoPkgs[pkgPathOfNamed(nm)] {
					row = p
				}
			}
			if row == nil {
				c.Unknown("R71", construct, cb.Pos(), "the scan callback has no row parameter")
				continue
			}
			// blocks in which the row is certainly evaluated (the evaluator is called, directly or through a helper that always does)
			through := map[*ssa.BasicBlock]bool{}
			for _, ci := range core.CallsIn(scope, func(ci *core.CallInfo) bool { return ci.Static == eval }) {
				for _, x := range liftInto(P, ci.Instr, within, true)[cb] {
					through[x.Block()] = true
				}
			}
			if len(through) == 0 {
				c.Unknown("R71", construct, cb.Pos(), "the scan callback never reaches filterRow")
				continue
			}
			// search: entry -> a continuing return, never entering an evaluating block, never crossing a branch decided by the row
			var bad *ssa.Return
			seen := map[*ssa.BasicBlock]bool{}
			stack := []*ssa.BasicBlock{cb.Blocks[0]}
			for len(stack) > 0 && bad == nil {
				b := stack[len(stack)-1]
				stack = stack[:len(stack)-1]
				if seen[b] || through[b] {
					continue
				}
				seen[b] = true
				if len(b.Instrs) == 0 {
					continue
				}
				switch last := b.Instrs[len(b.Instrs)-1].(type) {
				case *ssa.Return:
					if len(last.Results) > 0 {
						if v, isC := core.ConstBool(last.Results[0]); !(isC && !v) {
							bad = last
						}
					}
				case *ssa.If:
					if dependsOnValue(last.Cond, row, map[ssa.Value]bool{}, 0) {
						continue // the row decides: not followed
					}
					stack = append(stack, b.Succs...)
				default:
					stack = append(stack, b.Succs...)
				}
			}
			if bad != nil {
				c.Bad("R71", construct, bad.Pos(), "the scan callback can continue past a row (this return) on a path that neither evaluates the row nor branches on anything computed from it: a row is dropped because of scan-level state (a resume flag, a counter) without its identity having been looked at — e.g. after the range is restarted behind a row that was deleted meanwhile, the next row, which nobody touched, is never returned")
			} else {
				c.Ok("R71", construct, cb.Pos(), true, "every continuing path of the scan callback evaluates the row or is chosen by the row's own content")
			}
		}
	}}
}

// ---------------------------------------------------------------------------
// R81: a chunk buffer that has been sent is emptied before the scan goes on.
//
// C03 / C18: "each stored row … exactly once", "rows in strictly ascending key
// order without duplicates".  ReadRows accumulates chunks in a buffer and sends
// the buffer from inside the scan callback (when it is full, or — in the upstream
// feature that two independent agents ported — as a progress heartbeat).  Every
// send of the buffer made by the callback must be followed, on every path on which
// the callback lets the scan continue, by the buffer's reset; otherwise the rows
// already sent are sent again with the next batch (duplicates, keys going
// backwards).  The send after the scan is over needs no reset.
// ---------------------------------------------------------------------------

func R81() Rule {
	return Rule{Name: "R81", Run: func(c *core.Ctx) {
		P := c.P
		if P.SPkgs[core.PkgBttest] == nil {
			return
		}
		root := P.MustFunc(core.PkgBttest, rpcReadRows)
		c.Fn(rpcReadRows)
		scope := P.Scope(root, func(f *ssa.Function) bool { return core.PkgPathOf(f) != core.PkgBttest })
		within := setOf(scope)
		// the buffer: the location whose value is placed into the Chunks field of a sent ReadRowsResponse
		bufLoc := ""
		var sends []ssa.Instruction
		for _, f := range scope {
			for _, ci := range core.AllCalls(f) {
				if !isServerStreamSend(ci) {
					continue
				}
				args := ci.Args()
				if len(args) == 0 {
					continue
				}
				msg := core.Resolve(args[len(args)-1])
				for _, ref := range core.Referrers(msg) {
					fa, ok := ref.(*ssa.FieldAddr)
					if !ok {
						continue
					}
					if _, fname, _ := core.FieldName(fa); fname != "Chunks" {
						continue
					}
					for _, r2 := range core.Referrers(fa) {
						if st, ok := r2.(*ssa.Store); ok && st.Addr == ssa.Value(fa) {
							// the buffer itself, or — when the sender is a helper that is handed the chunks — what
							// every caller passes
							loc := ""
							flowsFrom(P, st.Val, func(v ssa.Value) bool {
								if l := loadedLocation(v); l != "" && strings.HasPrefix(l, "field:") {
									loc = l
									return true
								}
								return false
							}, map[ssa.Value]bool{}, 0)
							if loc == "" {
								loc = loadedLocation(st.Val)
							}
							if loc != "" {
								bufLoc = loc
								sends = append(sends, ci.Instr)
							}
						}
					}
				}
			}
		}
		if bufLoc == "" {
			c.Ok("R81", "ReadRows/chunk-buffer-not-identified", root.Pos(), false, "the chunks sent by ReadRows are not kept in a variable or field this rule can identify (not decided)")
			return
		}
		// resets: stores of an empty value into the buffer location
		var resets []ssa.Instruction
		for _, f := range scope {
			for _, b := range f.Blocks {
				for _, in := range b.Instrs {
					st, ok := in.(*ssa.Store)
					if !ok || locationOf(st.Addr) != bufLoc {
						continue
					}
					v := core.Strip(st.Val)
					if core.IsNilConst(v) {
						resets = append(resets, st)
						continue
					}
					if sl, ok := v.(*ssa.Slice); ok && sl.High != nil {
						if hi, isC := core.ConstInt(sl.High); isC && hi == 0 {
							resets = append(resets, st)
						}
					}
				}
			}
		}
		// the scan callbacks
		var cbs []*ssa.Function
		seenCb := map[*ssa.Function]bool{}
		for _, ci := range core.CallsIn(scope, func(ci *core.CallInfo) bool {
			return isRowsMethod(ci, "Ascend", "AscendRange", "AscendLessThan", "AscendGreaterOrEqual")
		}) {
			for _, a := range ci.Common.Args {
				if _, isFn := a.Type().Underlying().(*types.Signature); !isFn {
					continue
				}
				cands := []ssa.Value{a}
				if closureOf(a) == nil {
					cands = P.Origins(a, within)
				}
				for _, o := range cands {
					if cb := closureOf(o); cb != nil && cb.Blocks != nil && !seenCb[cb] {
						seenCb[cb] = true
						cbs = append(cbs, cb)
					}
				}
			}
		}
		// unresetAfter: starting just after site s of fn (through which `send` is executed), can control reach
		// a return that lets the caller go on — a continuing return of the callback, a non-failing return of a
		// helper — without passing a reset of the buffer?  A helper that sends and resets (`flush()`) is judged
		// inside first.
		var unresetAfter func(fn *ssa.Function, s ssa.Instruction, send ssa.Instruction, isCb bool, depth int) *ssa.Return
		unresetAfter = func(fn *ssa.Function, s ssa.Instruction, send ssa.Instruction, isCb bool, depth int) *ssa.Return {
			if depth > 4 {
				return nil
			}
			if s != send {
				// the send happens inside a callee: is the buffer reset there on every path back?
				var callee *ssa.Function
				if ci := core.Call(s); ci != nil {
					if ci.Static != nil {
						callee = ci.Static
					} else if !ci.Common.IsInvoke() {
						callee = closureOf(ci.Common.Value)
					}
				}
				if callee != nil && callee.Blocks != nil {
					handled := true
					for _, inner := range sitesThrough(callee, send, false, map[*ssa.Function]bool{}, 0) {
						if unresetAfter(callee, inner, send, false, depth+1) != nil {
							handled = false
						}
					}
					if handled {
						return nil
					}
				}
			}
			isReset := map[ssa.Instruction]bool{}
			for _, r := range resets {
				for _, x := range sitesThrough(fn, r, true, map[*ssa.Function]bool{}, 0) {
					if x != s {
						isReset[x] = true
					}
				}
			}
			seen := map[*ssa.BasicBlock]bool{}
			type item struct {
				b    *ssa.BasicBlock
				from int
			}
			idx := 0
			for i, in := range s.Block().Instrs {
				if in == s {
					idx = i + 1
				}
			}
			stack := []item{{s.Block(), idx}}
			for len(stack) > 0 {
				it := stack[len(stack)-1]
				stack = stack[:len(stack)-1]
				if it.from == 0 {
					if seen[it.b] {
						continue
					}
					seen[it.b] = true
				}
				stopped := false
				for _, in := range it.b.Instrs[it.from:] {
					if isReset[in] {
						stopped = true
						break
					}
					if ret, ok := in.(*ssa.Return); ok {
						if isCb {
							if len(ret.Results) > 0 {
								if v, isC := core.ConstBool(ret.Results[0]); !(isC && !v) {
									return ret
								}
							}
						} else if !certainlyFails(ret) {
							return ret
						}
						stopped = true
						break
					}
				}
				if stopped {
					continue
				}
				for _, su := range it.b.Succs {
					stack = append(stack, item{su, 0})
				}
			}
			return nil
		}
		n := 0
		for _, cb := range cbs {
			for _, send := range sends {
				for _, s := range sitesThrough(cb, send, false, map[*ssa.Function]bool{}, 0) {
					n++
					construct := fmt.Sprintf("ReadRows/scan-callback/send#%d/buffer-emptied-before-the-scan-continues", n)
					if bad := unresetAfter(cb, s, send, true, 0); bad != nil {
						c.Bad("R81", construct, s.Pos(), "the scan callback sends the chunk buffer here and can then let the scan continue (return at %s) without having emptied the buffer: the rows already sent are sent again with the next batch — duplicates, and keys that go backwards", P.Pos(bad.Pos()))
					} else {
						c.Ok("R81", construct, s.Pos(), true, "every continuing path after this send of the chunk buffer passes its reset")
					}
				}
			}
		}
		if n == 0 {
			c.Ok("R81", "ReadRows/scan-callback/no-send", root.Pos(), false, "the scan callback never sends the chunk buffer itself")
		}
	}}
}

// sitesThrough lists the instructions of fn through which target is executed: target itself when it
// belongs to fn, otherwise the calls in fn — static calls of repository functions and calls of
// function values that resolve to a closure (`sendResponse()`) — that (transitively) lead to it.
// With must, a callee only counts when target is certain to run in it (judged on its non-failing returns).
func sitesThrough(fn *ssa.Function, target ssa.Instruction, must bool, visiting map[*ssa.Function]bool, depth int) []ssa.Instruction {
	if target.Parent() == fn {
		return []ssa.Instruction{target}
	}
	if depth > 5 || visiting[fn] || fn.Blocks == nil {
		return nil
	}
	visiting[fn] = true
	defer delete(visiting, fn)
	var out []ssa.Instruction
	for _, ci := range core.AllCalls(fn) {
		if _, isGo := ci.Instr.(*ssa.Go); isGo {
			continue
		}
		var callee *ssa.Function
		if ci.Static != nil {
			callee = ci.Static
		} else if !ci.Common.IsInvoke() {
			callee = closureOf(ci.Common.Value)
		}
		if callee == nil || callee.Blocks == nil {
			continue
		}
		inner := sitesThrough(callee, target, must, visiting, depth+1)
		if len(inner) == 0 {
			continue
		}
		if must {
			ok := false
			for _, x := range inner {
				if certainToRun(x) {
					ok = true
				}
			}
			if !ok {
				continue
			}
		}
		out = append(out, ci.Instr)
	}
	return out
}

// certainlyFails: the return's error result is a freshly built error (fmt.Errorf, errors.New, a gRPC
// status, the repository's coded errors) — as opposed to nil or to the result of a call that may be nil.
func certainlyFails(ret *ssa.Return) bool {
	if len(ret.Results) == 0 {
		return false
	}
	last := ret.Results[len(ret.Results)-1]
	if !isErrorType(last.Type()) {
		return false
	}
	// returned on the branch where it is known to be non-nil: `if err := b.send(); err != nil { return err }`
	for _, f := range core.FactsAt(ret.Block()) {
		if l, op, r, isCmp := cmpNorm(f); isCmp && op == token.NEQ && core.IsNilConst(r) && (l == last || core.Resolve(l) == core.Resolve(last)) {
			return true
		}
	}
	call, ok := core.Resolve(last).(*ssa.Call)
	if !ok {
		return false
	}
	sc := call.Call.StaticCallee()
	if sc == nil || sc.Pkg == nil {
		return false
	}
	switch sc.Pkg.Pkg.Path() + "." + sc.Name() {
	case "fmt.Errorf", "errors.New", "google.golang.org/grpc/status.Errorf", "google.golang.org/grpc/status.Error",
		core.PkgGcsemu + ".fmtErrorfCode":
		return true
	}
	return false
}

// ---------------------------------------------------------------------------
// R82: the value bytes of an existing cell are never written.
//
// C13: "older versions are kept"; C06 / C01: a row is exactly what the applied
// mutations made it.  Cell objects and their value slices are shared between a
// row, its copies and what is stored back (copyRow shares Cell pointers; R36
// forbids assigning a Cell's fields).  Writing *into* the bytes of an existing
// cell's Value — binary.BigEndian.PutUint64(prev, …), copy(prev, …), prev[i] = … —
// changes the older version that must be kept: an increment that encodes its
// result into the previous cell's buffer stores both versions with the new sum.
// ---------------------------------------------------------------------------

func R82() Rule {
	return Rule{Name: "R82", Run: func(c *core.Ctx) {
		P := c.P
		if P.SPkgs[core.PkgBttest] == nil {
			return
		}
		isCellValue := func(v ssa.Value) bool {
			ld, ok := v.(*ssa.UnOp)
			if !ok || ld.Op != token.MUL {
				return false
			}
			fa, ok := ld.X.(*ssa.FieldAddr)
			if !ok {
				return false
			}
			owner := core.NamedOf(fa.X.Type())
			_, fname, _ := core.FieldName(fa)
			return owner != nil && owner.Obj().Name() == "Cell" && protoPkgs[pkgPathOfNamed(owner)] && fname == "Value"
		}
		fromCell := func(v ssa.Value) bool {
			// through reslicing as well: prev[:8] is still the cell's buffer
			seen := map[ssa.Value]bool{}
			var rec func(v ssa.Value, d int) bool
			rec = func(v ssa.Value, d int) bool {
				if d > 4 {
					return false
				}
				if sl, ok := core.Strip(v).(*ssa.Slice); ok {
					return rec(sl.X, d+1)
				}
				return flowsFrom(P, v, isCellValue, seen, 0)
			}
			return rec(v, 0)
		}
		n, nBad := 0, 0
		for _, fn := range P.SrcFuncs(core.PkgBttest) {
			k := 0
			for _, b := range fn.Blocks {
				for _, in := range b.Instrs {
					var target ssa.Value
					what := ""
					switch x := in.(type) {
					case *ssa.Store:
						if ia, ok := x.Addr.(*ssa.IndexAddr); ok {
							if sl, isSl := ia.X.Type().Underlying().(*types.Slice); isSl && isByte(sl.Elem()) {
								target, what = ia.X, "an element assignment"
							}
						}
					case ssa.CallInstruction:
						ci := core.Call(x)
						if ci == nil {
							continue
						}
						if bi, ok := ci.Common.Value.(*ssa.Builtin); ok && bi.Name() == "copy" && len(ci.Common.Args) == 2 {
							if sl, isSl := ci.Common.Args[0].Type().Underlying().(*types.Slice); isSl && isByte(sl.Elem()) {
								target, what = ci.Common.Args[0], "copy"
							}
						}
						if ci.Static != nil && ci.Static.Pkg != nil && ci.Static.Pkg.Pkg.Path() == "encoding/binary" && len(ci.Static.Name()) > 3 && ci.Static.Name()[:3] == "Put" {
							args := ci.Args()
							if len(args) >= 1 {
								target, what = args[0], "binary."+ci.Static.Name()
							}
						}
					}
					if target == nil {
						continue
					}
					n++
					if fromCell(target) {
						nBad++
						k++
						c.Fn(core.FuncName(core.Root(fn)))
						c.Bad("R82", fmt.Sprintf("%s/write-into-cell-value#%d", core.FuncName(core.Root(fn)), k), in.Pos(), "%s writes into a byte slice that can be the Value of an existing cell: cells and their value buffers are shared between a row, its copies and the stored versions, so the older version that has to be kept changes with it (an increment that encodes its sum into the previous cell's buffer stores both versions with the new value)", what)
					}
				}
			}
		}
		if nBad == 0 {
			c.Ok("R82", "no-write-into-cell-values", token.NoPos, n > 0, "no byte-level write (%d sites examined) targets a buffer that can be an existing cell's Value", n)
		}
	}}
}
