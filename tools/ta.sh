#!/bin/sh
# dev helper: ta.sh <variant>...  — run every property on scratch variants, print alarms
cd /verif && GOFLAGS=-mod=mod GOPROXY=off GOSUMDB=off GOTOOLCHAIN=local GOWORK=off go build -o bin/emucheck ./cmd/emucheck || exit 1
for v in "$@"; do
  repo=/tmp/var/$v; [ "$v" = repo ] && repo=/repo
  mods=bigtable,storage
  case $v in B[1-3]-*|B[7-9]-*|B1[345]-*|B18-1|B19-*|B2[01]-*|B2[567]-*|B3[123789]-*|B4[3579]-*|B5[01]-*) mods=bigtable;; B[4-6]-*|B1[0-2]-*|B1[67]-*|B18-2|B2[234]-*|B2[89]-*|B30-*|B3[456]-*|B4[012468]-*|B5[234]-*) mods=storage;; esac
  echo "== $v"
  ./bin/emucheck all -repo $repo -verif /tmp/var.verif -modules $mods | python3 -c "
import json,sys
d=json.load(sys.stdin)
for k in sorted(d):
    if d[k]['exit']:
        print(' ',k,'exit',d[k]['exit'])
        for l in d[k]['lines'][:8]:
            if not l.startswith('KNOWN'): print('     ',l[:300])
"
done
