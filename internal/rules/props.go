package rules

import (
	"regexp"
	"strings"

	"verif/internal/core"
)

// fns builds a construct pattern matching obligations located in the named
// functions (or closures nested in them).
func fns(names ...string) string {
	pat := fnsPattern(names)
	fnsRoots[pat] = names
	return pat
}

func fnsPattern(names []string) string {
	var q []string
	for _, n := range names {
		q = append(q, regexp.QuoteMeta(n))
	}
	return `^(` + strings.Join(q, "|") + `)(\$\d+)*/`
}

// fnsRoots remembers which function names a fns() pattern was built from, so
// that Only can widen the pattern, at run time, to the helpers those functions
// are split into on the tree being analysed (a property keeps reporting an
// obligation when the code it sits in is moved into an extracted helper).
var fnsRoots = map[string][]string{}

// expandFns returns the pattern for the named functions plus every repository
// function reachable from them through static calls and closures.
func expandFns(P *core.Program, pat string) string {
	roots, ok := fnsRoots[pat]
	if !ok {
		return pat
	}
	seen := map[string]bool{}
	var names []string
	add := func(n string) {
		if !seen[n] {
			seen[n] = true
			names = append(names, n)
		}
	}
	for _, r := range roots {
		add(r)
		for _, pkg := range []string{core.PkgBttest, core.PkgGcsemu, core.PkgGcsutil} {
			fn := P.Func(pkg, r)
			if fn == nil || fn.Blocks == nil {
				continue
			}
			for _, f := range P.Scope(fn, nil) {
				if f.Synthetic == "" {
					add(core.FuncName(core.Root(f)))
				}
			}
		}
	}
	return fnsPattern(names)
}

const (
	rpcMutateRow  = "(*server).MutateRow"
	rpcMutateRows = "(*server).MutateRows"
	rpcCAM        = "(*server).CheckAndMutateRow"
	rpcRMW        = "(*server).ReadModifyWriteRow"
	rpcReadRows   = "(*server).ReadRows"
)

var bt = []string{"bigtable"}
var st = []string{"storage"}

func init() {
	writeRPCs := []string{rpcMutateRow, rpcMutateRows, rpcCAM, rpcRMW, "(*table).updateRow", "(*table).getOrCreateRow", "applyMutations"}
	adminRPCs := []string{"(*server).CreateTable", "(*server).DeleteTable", "(*server).GetTable", "(*server).ListTables", "(*server).ModifyColumnFamilies", "(*server).DropRowRange"}
	gcFns := []string{"(*table).gc", "(*server).gcloop", "applyGC"}
	scanFns := []string{"(*server).ReadRows", "(*server).SampleRowKeys", "(*chunkBuilder).add"}
	uploadFns := []string{"(*GcsEmu).finishUpload", "(*GcsEmu).handleGcsNewObject", "(*GcsEmu).handleGcsNewObjectResume"}
	composeCopyFns := []string{"(*GcsEmu).handleGcsCompose", "(*GcsEmu).finishCompose", "(*GcsEmu).handleGcsCopy"}

	Properties["C01"] = &PropertySpec{
		Modules: bt,
		Rules: []Rule{
			R82(),
			R57(),
			Only(R53(), `^a/`),
			R52(),
			R45(),
			R06(),
			Only(R02R03(), fns(rpcMutateRow, rpcMutateRows)),
			R08(Only8("applyMutations")),
			R28(),
			R36(),
			Only(R33(), fns("applyMutations", rpcMutateRows)),
			Only(R07(), fns(rpcMutateRow, rpcMutateRows)),
		},
		Explanation: "Decides the structural part of C01. (1) Invalid requests are answered with an error instead of being stored: every cell insertion / range deletion in applyMutations is dominated by the family-known and timestamp-valid guards on the very values used (R08), the unknown-mutation default returns an error, and a row that went through the applier is written to the store only on the applier's nil edge (R06), with no application-error return reachable after a store (R07). (2) Every writer of Column.Cells re-establishes 'descending timestamps, one cell per timestamp', comparator and sort.Search predicates agree on the direction, families/columns are only constructed after a failed lookup (R28).",
		NotDecided:  []string{"that the values read equal the data model (last-value-wins, server timestamps, exact boundary of a delete range): needs execution"},
		Assumptions: commonAssumptions,
	}
	Properties["C02"] = &PropertySpec{
		Modules: st,
		Rules: []Rule{
			R79(),
			R77(),
			R73(),
			R62(),
			R11(),
			R51(),
			Only(R22(), `filestore\.Add/content`, `recursive-removal`, `metadata-lookup-before-content`),
			Only(R24(), `content-length`),
			Only(R11(), fns("(*GcsEmu).finishUpload")),
			R08(Only8("finishUpload")),
			R34(),
			R35(),
			R29(),
			Only(R16(3, core.PkgGcsemu, core.PkgGcsutil), fns(uploadFns...)),
			Only(R01(nil), `uploadData\.`),
			Only(R04(), fns("(*GcsEmu).handleGcsNewObjectResume")),
		},
		Explanation: "Decides: (i) an upload whose declared MD5 mismatches is rejected before the critical section containing Store.Add (R08: the Add call is dominated by the passing edge of the MD5 comparison whenever an MD5 was declared); (ii) every upload protocol funnels through the one verified write: Store.Add is called only from finishUpload, finishCompose and the stores' own Copy (R29 who-may-call), and both HTTP entry points are registered wrapped in DrainRequestHandler(GzipRequestHandler(h)) (R29); (iii) the write and the metadata read-back happen in the object's critical section after the precondition check (R11), the pending resumable upload is only touched under its mutex (R01/R04), and no maybe-nil store result is dereferenced on the upload path (R16).",
		NotDecided:  []string{"byte-for-byte equality of served content, chunk reassembly arithmetic, multipart parsing, content type: runtime values"},
		Assumptions: commonAssumptions,
	}
	Properties["C03"] = &PropertySpec{
		Modules: bt,
		Rules: []Rule{
			R81(),
			R71(),
			R64(),
			Only(R59(), `^a/|^d/`, `^f/`),
			Only(R54(), `^\(\*server\)\.ReadRows`, `^mergeRowRanges`, `^mergeSimpleRanges`, `^no-carried`),
			Only(R53(), `^b/`),
			Only(R43(), fns("(*server).ReadRows")),
			Only(R09(), `^I1/`, `^I2/`, `^I5/`),
			R08(Only8("ReadRows")),
			R26(),
			Only(R14(1, core.PkgBttest), fns("(*chunkBuilder).add")),
		},
		Explanation: "Decides: an inverted range is rejected before any scan (R08: validateRowRanges' nil edge dominates every Rows.Ascend* in ReadRows; its error is an InvalidArgument status); every engine honours early stop and puts the range bounds into the right backend slots, the dispatch in ReadRows puts range starts only into lower-bound and range ends only into upper-bound parameters, both engines order by bytewise key (R09 I1/I2/I5); rows_limit counts rows that produced output (R26a: the 'added' result is not constant); the commit flag is set on the last chunk under a length guard (R14).",
		NotDecided:  []string{"set-union semantics of range merging, the 0x00 successor encoding of open/closed bounds, SampleRowKeys offsets: data dependent"},
		Assumptions: commonAssumptions,
	}
	Properties["C04"] = &PropertySpec{
		Modules: st,
		Rules: []Rule{
			R65(),
			Only(R10(), `field-store`, `map-update`, `no-in-place`),
			Only(R54(), `GcsEmu`, `^no-carried`),
			R11(),
			R12(),
			Only(R17(), `^\(\*GcsEmu\)\.Handler/`),
		},
		Explanation: "Decides: check-then-act in one critical section — every mutating Store call sits in the closure run under lockName(sameBucket, sameName), after Store.GetMeta of that object and on the success edge of validateConds(thatObject, theRequest'sConditions) (R11, 7 sites); what parseConds writes validateConds reads, every failure branch of validateConds returns 412 for match-kind and 304 for not-match-kind conditions, the nil-object branch passes only for the empty / does-not-exist condition sets, the conditions parsed in Handler reach validateConds on every mutating path including the resumable hand-over through uploadData.Conds and compose's per-source generation match, httpStatusCodeOf returns the code stored by fmtErrorfCode (R12); an unparsable condition is answered 400 followed by return (R17).",
		NotDecided:  []string{"the iff of the whole truth table as a function of runtime values (comparison polarity is checked structurally only for the match/not-match → 412/304 pairing)", "response bodies"},
		Assumptions: commonAssumptions,
	}
	Properties["C05"] = &PropertySpec{
		Modules: bt,
		Rules: []Rule{
			Only(R19("cam"), `selector-is-an-emptiness`, `emptiness-of-filtered`),
			Only(R58(), `^a/`),
			R63(),
			R53(),
			R50(),
			R18(),
			Only(R13(2, core.PkgBttest), fns("filterRow", "filterCells", "includeCell", "modifyCell")),
			Only(R09(), `^I1/`),
			R19(Only19("filter")),
			R36(),
			R26(),
			R08(Only8("ReadRows-filter-error")),
		},
		Explanation: "Decides: every supported filter kind has a handling case in filterRow/includeCell/modifyCell and every rejection is an InvalidArgument status, each argument the property calls invalid has an error return controlled by a test of that argument (R18); request integers are sign-checked before they bound a slice (R13); interleave branches and the condition predicate are evaluated on copies (R19); the cells-per-row-offset arithmetic does not subtract a statically-zero length (R26b); a filter error raised in the scan callback stops the iteration in every engine and is the value ReadRows returns (R09-I1, R08).",
		NotDecided:  []string{"regex semantics, range end inclusivity, chain composition, cell-level results: values"},
		Assumptions: commonAssumptions,
	}
	Properties["C06"] = &PropertySpec{
		Modules: bt,
		Rules: []Rule{
			R82(),
			R36(),
			Only(R59(), `^c/`),
			Only(R58(), `^d/`),
			R50(),
			Only(R01(map[string]int{"table.rows": 7}), `/table\.rows/`, fns(writeRPCs...)),
			Only(R04(), fns(writeRPCs...)),
			Only(R02R03(), fns(writeRPCs...), fns("(*table).gc")),
			R06(),
			Only(R07(), fns(rpcMutateRow, rpcMutateRows, rpcCAM, rpcRMW)),
			Only(R09(), `^I4/`),
			Only(R33(), fns("applyMutations", rpcMutateRows, rpcRMW)),
			R19(Only19("cam")),
		},
		Explanation: "Decides the three mechanisms C06 rests on. (i) Every access to table.rows anywhere holds table.mu in the mode the method needs, and in the four single-row write RPCs the row is fetched and written back under one uninterrupted write hold (R01 lockset on all paths, R02 epoch continuity, R04 balance). (ii) Rows.Get and the iterator hand out private deserialised copies and the store keeps private serialisations in both engines (R09-I4), so nothing is visible before the write-back. (iii) The write-back happens only on the applier's success edge and no application error is returned after it (R06, R07). Per-row linearizability then follows from the mutex.",
		NotDecided:  []string{"the values written; fairness; history-level linearizability is implied by, not checked beyond, the lock discipline"},
		Assumptions: commonAssumptions,
	}
	Properties["C07"] = &PropertySpec{
		Modules: st,
		Rules: []Rule{
			R66(),
			Only(R56(), `^a/`, `^c/`),
			R46(),
			Only(R44(), `memstore`),
			R11(),
			R20(),
			R10(),
			R32(),
			R41(),
			Only(R01(map[string]int{"memBucket.files": 3, "memstore.buckets": 3}), `/memstore\.`, `/memBucket\.`),
			Only(R04(), fns("(*memstore).getBucket", "(*memstore).getOrCreateBucket", "(*memstore).CreateBucket", "(*memstore).Add", "(*memstore).UpdateMeta", "(*memstore).Delete", "(*memstore).Walk", "(*memstore).find")),
			Only(R16(3, core.PkgGcsemu, core.PkgGcsutil), fns("(*GcsEmu).finishUpload", "(*GcsEmu).handleGcsNewObject", "(*GcsEmu).handleGcsNewObjectResume", "(*GcsEmu).handleGcsCopy", "(*GcsEmu).handleGcsUpdateMetadataRequest", "(*GcsEmu).handleGcsCompose", "(*GcsEmu).finishCompose", "(*GcsEmu).handleGcsDelete")),
		},
		Explanation: "Decides: every mutating Store call is inside the per-object critical section keyed on exactly the (bucket, name) it mutates, with the precondition check in the same section (R11); the lock map really excludes (R20 L2–L10); the memory store's maps and btrees are only touched under their mutexes (R01/R04); objects obtained from a store are never mutated in place — the patch decodes into a deep-fresh copy (R10); values read after a critical section ended are nil-checked (R16).",
		NotDecided:  []string{"read consistency of the file store (Get = stat + sidecar + content without the object lock; Add = three file operations): recorded as a known finding", "history-level serialisability beyond the lock discipline"},
		Assumptions: commonAssumptions,
	}
	Properties["C08"] = &PropertySpec{
		Modules: bt,
		Rules: []Rule{
			R75(),
			Only(R55(), `^a/`, `^floor`),
			Only(R48(), `LeveldbDiskStorage`),
			Only(R44(), `server\.tables`),
			R21(),
			Only(R01(nil), `/table\.rows/call (Clear|Close)`),
		},
		Explanation: "Decides: table metadata is replaced atomically (the final path is only ever the target of os.Rename from a temp file written earlier on the same path, R21-D1); every RPC that mutates the table definition persists it afterwards, Create persists it (D2); DeleteTable reaches a storage-level removal of the persisted metadata (D3); start-up registers newTable(t, Open(t)) for every GetTables element before serving and cbtemulator passes -dir as LeveldbDiskStorage.Root (D4); each single-row write is exactly one backend Put or Delete (D5); Clear/Close swap the backend under the table write lock (R01).",
		NotDecided:  []string{"leveldb journal/recovery, interrupted RemoveAll, fsync behaviour, multi-write requests under a crash: crash points and file-system semantics are runtime quantities"},
		Assumptions: commonAssumptions,
	}
	Properties["C09"] = &PropertySpec{
		Modules: st,
		Rules: []Rule{
			R80(),
			R68(),
			Only(R59(), `^b/`),
			Only(R58(), `^c/`, `^e/`),
			R56(),
			R49(),
			Only(R48(), `filestore`),
			R22(),
			R27(),
		},
		Explanation: "Decides sibling agreement of the two stores: both Add implementations set Metageneration=1 after any caller value, both UpdateMeta store the metagen parameter and never write content, both Copy clear TimeCreated and go through their own Add, filestore.Add writes content and sidecar, filestore.Delete removes both, filestore.ReadMeta tolerates a missing sidecar, missing bucket/object are signalled alike (R22); gcsemulator passes -dir to NewFileStore; both Walk implementations must deliver the ascending bytewise order of full names that the listing code assumes (R27).",
		NotDecided:  []string{"equality of responses and persistence across instances (file contents): runtime values"},
		Assumptions: commonAssumptions,
	}
	Properties["C10"] = &PropertySpec{
		Modules: st,
		Rules: []Rule{
			R80(),
			Only(R41(), `read-back-outside-the-lock`),
			Only(R56(), `^a/`),
			Only(R22(), `Metageneration`, `metagen`, `read-only`, `through-Add`),
			R23(),
			R24(),
			R11(),
		},
		Explanation: "Decides: metageneration is 1 after every content write and cannot be overridden by the caller (the store's assignment post-dominates, both stores, R22); a patch stores old.Metageneration+1 with old read in the same critical section, and re-assigns generation and md5Hash from the pre-decode object after decoding the body (R23); read-only store methods write no record field and call no file-writing function (R22 effect sets); failed preconditions reach no mutator (R11); the X-Goog-Generation/Metageneration headers are formatted from the same object that is sent as the body (R24).",
		NotDecided:  []string{"generation strictly greater than every earlier one: both stores take wall-clock nanoseconds / file mtime and never compare with the previous generation — depends on clock and file-system timestamp granularity (runtime)"},
		Assumptions: commonAssumptions,
	}
	Properties["C11"] = &PropertySpec{
		Modules: st,
		Rules: []Rule{
			R84(),
			R78(),
			R67(),
			Only(R56(), `^b/write-time-field`),
			Only(R58(), `^c/`, `^e/`),
			R49(),
			Only(R48(), `filestore`),
			Only(R17(), `handleGcsListBucket`, `makeBucketListResults`),
			R27(),
			Only(R16(3, core.PkgGcsemu, core.PkgGcsutil), fns("(*GcsEmu).makeBucketListResults")),
			Only(R14(10, core.PkgGcsemu, core.PkgGcsutil), fns("(*GcsEmu).makeBucketListResults")),
			Only(R39(), fns("(*GcsEmu).makeBucketListResults")),
		},
		Explanation: "Decides (narrow): a malformed page token or maxResults is answered 400 and a missing bucket 404, each followed by return (R17); token encoder and decoder use the same alphabet and message field (R27); the enumeration order the cursor logic relies on must come from an ordered container keyed by the full name (R27 ordering contract); items resolved after the walk are nil-checked before use (R16/R14); a page cut short by maxResults carries a page token (R84; known finding on the pinned tree), every recorded entry lies behind the page limit (R78), the prefix is never on the inclusive side of the cursor comparison (R67), recorded names carry the prefix and directories are never counted (R58).",
		NotDecided:  []string{"completeness, duplicate-freedom, delimiter collapsing, maxResults cut-off, cursor arithmetic: all data dependent"},
		Assumptions: commonAssumptions,
	}
	Properties["C12"] = &PropertySpec{
		Modules: bt,
		Rules: []Rule{
			R76(),
			R36(),
			Only(R58(), `^a/`),
			R40(),
			R50(),
			R19(Only19("cam")),
			Only(R06(), fns(rpcCAM)),
			Only(R07(), fns(rpcCAM)),
			Only(R02R03(), fns(rpcCAM)),
			R30(),
		},
		Explanation: "Decides: the predicate is evaluated on copyRow of the stored row; the value stored in PredicateMatched is the SSA value that selects between TrueMutations and FalseMutations, with the right polarity, and the selected list is the one applied (R19); an invalid predicate or mutation reaches no store write (R06/R07); rows are mutated only through applyMutations / the read-modify-write loop in all four write RPCs (R30 who-may-mutate); read and write-back under one hold (R02).",
		NotDecided:  []string{"that match && !isEmpty(copy) equals 'yields at least one cell' (evaluator semantics)"},
		Assumptions: commonAssumptions,
	}
	Properties["C13"] = &PropertySpec{
		Modules: bt,
		Rules: []Rule{
			R82(),
			Only(R58(), `^d/`),
			Only(R02R03(), fns(rpcMutateRow, rpcMutateRows, rpcCAM, rpcRMW)),
			Only(R28(), `^c/`),
			R52(),
			R45(),
			R08(Only8("ReadModifyWriteRow")),
			Only(R07(), fns(rpcRMW)),
			Only(R02R03(), fns(rpcRMW)),
			Only(R14(1, core.PkgBttest), fns(rpcRMW)),
			Only(R09(), `^I4/.*/Get$`),
			R37(),
			Only(R33(), fns(rpcRMW)),
		},
		Explanation: "Decides the last sentence of C13: a rule naming an unknown family, or an increment on a value that is not 8 bytes long, fails the whole request and changes nothing — the family-known test dominates the cell insertion, len(prev)==8 dominates BigEndian.Uint64 (R08); all error returns precede the single ReplaceOrInsert (R07); the row edited is a private copy (R09-I4 Get) fetched and stored under one hold (R02); the newest-cell access is length-guarded (R14).",
		NotDecided:  []string{"increment/append arithmetic, timestamp arbitration, response contents: values"},
		Assumptions: commonAssumptions,
	}
	Properties["C14"] = &PropertySpec{
		Modules: bt,
		Rules: []Rule{
			R72(),
			Only(R58(), `^b/`),
			Only(R55(), `^a/`, `^d/`),
			Only(R44(), `server\.tables`),
			Only(R43(), fns("(*server).DropRowRange")),
			Only(R07(), fns(adminRPCs...)),
			Only(R01(map[string]int{"server.tables": 8}), `/server\.tables/`, fns(adminRPCs...)),
			Only(R04(), fns(adminRPCs...)),
			R05(),
			R08(Only8("live-families")),
			Only(R21(), `^D2/`, `^D3/optional`),
			R38(),
			Only(R33(), fns("(*server).ModifyColumnFamilies")),
		},
		Explanation: "Decides: all modifications of a ModifyColumnFamilies request or none — no mutation of the definition, the registry or the rows lies on a path to an application-error return, in any admin RPC (R07); the table registry is only touched under server.mu and definitions only under table.mu (R01/R04); definitions never escape unlocked into responses (R05); later writes to a dropped family are rejected because applyMutations and ReadModifyWriteRow test the live definition map, not a cached copy (R08 provenance); schema changes are persisted after the last mutation (R21-D2).",
		NotDecided:  []string{"prefix arithmetic of DropRowRange; that a purge removes exactly the dropped family's cells"},
		Assumptions: commonAssumptions,
	}
	Properties["C15"] = &PropertySpec{
		Modules: st,
		Rules: []Rule{
			R73(),
			Only(R59(), `^b/`),
			Only(R56(), `^a/`),
			Only(R54(), `Compose`, `^no-carried`),
			R46(),
			R08(Only8("finishCompose")),
			Only(R11(), fns("(*GcsEmu).handleGcsCompose", "(*GcsEmu).finishCompose", "(*GcsEmu).handleGcsCopy")),
			Only(R14(10, core.PkgGcsemu, core.PkgGcsutil), fns(composeCopyFns...)),
			Only(R16(3, core.PkgGcsemu, core.PkgGcsutil), fns(composeCopyFns...)),
			Only(R15(), `handleGcsCompose`, `handleGcsCopy`),
			Only(R22(), `Copy`),
			Only(R10(), `Copy`, `compose`, `Compose`, `decode-target`, `no-in-place`, `map-update-through-stored-object`, `field-store-through-stored-object`),
			Only(R33(), fns("(*GcsEmu).finishCompose")),
			Only(R41(), fns("(*GcsEmu).handleGcsCopy", "(*GcsEmu).handleGcsCompose")),
			R42(),
		},
		Explanation: "Decides: more than 32 sources is 400 and a missing source 404, and both change nothing — the bound check dominates every source read and the Add, every error return of finishCompose precedes its only Add (R08); sources are read and the destination written inside the destination's critical section (R11); the rewrite path split is length-checked on the value that is indexed (R14); a missing destination in the compose body and a missing source object are nil-checked (R16) and answered (R15); both stores' Copy clear TimeCreated and go through Add (R22); a copy does not share mutable metadata with its source in a way a later patch could write through (R10).",
		NotDecided:  []string{"concatenation order/content, metadata cloning details: values"},
		Assumptions: commonAssumptions,
	}
	Properties["C16"] = &PropertySpec{
		Modules: bt,
		Rules: []Rule{
			R69(),
			Only(R59(), `^c/`, `^e/`),
			Only(R55(), `^b/`, `^c/`),
			R47(),
			R45(),
			Only(R02R03(), fns(gcFns...)),
			Only(R13(2, core.PkgBttest), fns("applyGC")),
			Only(R01(nil), fns(gcFns...)),
			Only(R04(), fns(gcFns...)),
			R08(Only8("gc")),
		},
		Explanation: "Decides: writes acknowledged while a pass is running are never reverted — the GC callback, which releases the table lock during the iteration, never writes back the row the iterator handed it; it re-reads under the current hold (R03/R02); the pass does not run on a table in active use — on the non-forced path both activity clocks are compared with the quiescence constant before the lock is taken, and gcloop calls gc only with force=false (R08); it does not block clients indefinitely — the callback contains a lock reversal on a bounded counter (R08); a negative max_num_versions never reaches a slice bound (R13); lock discipline of the pass (R01/R04).",
		NotDecided:  []string{"which cells a rule condemns (cut-off arithmetic, union semantics): values"},
		Assumptions: commonAssumptions,
	}
	Properties["C17"] = &PropertySpec{
		Modules: bt,
		Rules: []Rule{
			R55(),
			Only(R08(Only8("ReadRows")), `-shape`, `-slot`),
			R43(),
			R09(),
			R31(),
			R40(),
		},
		Explanation: "Decides the sibling cross-check of the Rows implementations against the contract in storage.go: early stop on a false callback result (I1), range parameters in the right backend slots and delivered to the backend (I2), synchronous iteration (I3), private copies in and out (I4), same bytewise order (I5); the three Storage implementations construct only those Rows types, and Clear leaves an empty usable store in both (R31).",
		NotDecided:  []string{"response equality on generated programs: needs execution"},
		Assumptions: commonAssumptions,
	}
	Properties["C18"] = &PropertySpec{
		Modules: bt,
		Rules: []Rule{
			R81(),
			R71(),
			Only(R59(), `^a/`, `^f/`),
			R06(),
			Only(R02R03(), fns("(*table).gc")),
			Only(R02R03(), fns(rpcMutateRow, rpcMutateRows, rpcCAM, rpcRMW)),
			Only(R55(), `^c/`, `^d/`),
			Only(R53(), `^b/`),
			Only(R01(nil), `/table\.rows/`),
			Only(R01(nil), fns(scanFns...), fns("scrubRow")),
			Only(R04(), fns(scanFns...)),
			Only(R02R03(), fns(scanFns...)),
			Only(R09(), `^I3/`, `^I4/`),
			R31(),
			Only(R16(3, core.PkgBttest), fns(scanFns...)),
		},
		Explanation: "Decides the three mechanisms C18 anchors: the scan holds table.mu (read) at every Rows access and at every use of the table definition, gives it up only around stream.Send and re-takes it on every path (R01, R04 incl. the reversal closure); it never writes a row back (R03); one backend iterator per range scan, created under the lock (R31); every row delivered is one freshly deserialised stored value, never shared with a writer, and iteration is synchronous (R09 I3/I4).",
		NotDecided:  []string{"that leveldb iterators are snapshots (library contract, trusted); order/duplicates under interleavings: histories"},
		Assumptions: commonAssumptions,
	}
	Properties["C19"] = &PropertySpec{
		Modules: st,
		Rules: []Rule{
			Only(R44(), `TransientLockMap`),
			R20(),
			Only(R01(map[string]int{"TransientLockMap.locks": 2, "countedLock.refcount": 2}), `/TransientLockMap\.`, `/countedLock\.`),
			Only(R04(), fns("(*TransientLockMap).Lock", "(*TransientLockMap).Unlock", "(*TransientLockMap).returnLockObj", "(*TransientLockMap).Run")),
		},
		Explanation: "Decides R20 L1–L10, each a necessary condition of a clause of C19: the map and the reference counts are only touched under the map mutex (L1 = R01/R04); lookup-or-create and refcount++ in one critical section (L2) and eviction only at refcount==0 after the decrement (L9): no eviction while referenced, no leak; nothing blocks under the map mutex (L3): independent keys never block each other; Lock returns false only after giving its reference back and true only on the acquired edge (L4), countedLock.Lock returns true iff the send into the key channel was chosen (L6): false ⇒ holds nothing; Unlock releases before giving the reference back and an unheld key panics (L5, L7); Run unlocks exactly what it locked, registered before f runs (L8); the key channel has capacity 1 (L10): at most one holder.",
		NotDecided:  []string{"absence of lost wake-ups and fairness rest on Go channel semantics (trusted); exhaustive interleaving exploration is model checking, a different family"},
		Assumptions: commonAssumptions,
	}
	Properties["C20"] = &PropertySpec{
		Modules: []string{"bigtable", "storage"},
		Rules: []Rule{
			Only(R58(), `^e/`),
			R83(),
			R74(),
			R73(),
			R72(),
			R70(),
			R60(),
			Only(R59(), `^g/`, `^f/`),
			Only(R24(), `content-length`),
			Only(R56(), `^a/`),
			Only(R55(), `^c/`, `^d/`),
			R54(),
			R51(),
			R46(),
			R44(),
			R13(3, core.PkgBttest, core.PkgGcsemu, core.PkgGcsutil),
			R14(12, core.PkgBttest, core.PkgGcsemu, core.PkgGcsutil),
			R15(),
			R16(15, core.PkgBttest, core.PkgGcsemu, core.PkgGcsutil),
			R01(map[string]int{"server.tables": 8, "table.rows": 7, "table.def": 4, "memBucket.files": 3, "memstore.buckets": 3}),
			R04(),
			R05(),
			R17(),
			R25(),
			R08(Only8("ReadModifyWriteRow")),
		},
		Explanation: "Decides the crash and wedge vectors visible in code shape, for both emulators: request integers are sign- and length-checked before they bound a slice (R13); constant indexing of variable-length parse results is length-checked on the same value (R14); maybe-nil results of store lookups, optional request sub-messages and JSON-decoded pointers are checked before dereference, interprocedurally (R16); every HTTP handler path writes a response and nothing touches the writer after an error response (R15); parse failures are answered 4xx and return (R17); shared maps and definitions are only touched under their mutexes and never escape unlocked into responses — the 'fatal runtime error / data race' clause (R01/R05); no path returns with a lock held (R04); reachable explicit panics and unchecked type assertions are confined to a reasoned table (R25); the Uint64 length precondition (R08); a batch answers every parsed part: each iteration of the dispatch loop hands the sub-request to the stand-alone entry point with a recorder of its own, creates one part and writes the recorded response into it, the request and content-id lists grow together, and the multipart body is closed (R60).",
		NotDecided:  []string{"resource exhaustion, hangs inside libraries, well-formedness of every response body, byte-equality of a batch sub-response with the stand-alone response"},
		Assumptions: commonAssumptions,
	}
}
