package core

import (
	"fmt"
	"go/constant"
	"go/types"
	"sort"
	"strings"

	"golang.org/x/tools/go/ssa"
)

// Anchors.  Where a property names a mechanism that has no type-level handle
// (applyMutations, validateConds, lockName, …) the rules look the function up by
// name.  A rename of an unexported function would make every such rule lose its
// anchor, so lookups go through an alias table: when a frozen name no longer
// exists in its package, the function that took over its role is identified by
// a fingerprint taken on the confirmed tree (arity, external callees, string
// constants, fields of external types, interface methods invoked) — the same
// idea as rename detection in version control.  The alias is accepted only when
// one candidate matches clearly; otherwise the anchor stays unresolved and the
// rules that need it report "anchor gone" (check broken, not a violation).
// Every rule then re-decides its obligations on the aliased function, so a
// wrong guess cannot make a check pass vacuously.

// AnchorFP is the frozen fingerprint of one named function.
type AnchorFP struct {
	Pkg, Name         string
	NParams, NResults int
	FP                []string
}

var canonByFn = map[*ssa.Function]string{}

// fingerprint computes the rename-stable tokens of a function (closures included).
func (p *Program) fingerprint(fn *ssa.Function) []string {
	set := map[string]bool{}
	for _, f := range Family(fn) {
		for _, b := range f.Blocks {
			for _, in := range b.Instrs {
				if ci, ok := in.(ssa.CallInstruction); ok {
					com := ci.Common()
					if com.IsInvoke() {
						set["inv:"+com.Method.Name()] = true
					} else if sc := com.StaticCallee(); sc != nil {
						if !p.inRepo(sc) && sc.Pkg != nil {
							set["call:"+sc.Pkg.Pkg.Path()+"."+sc.Name()] = true
						}
					} else if bi, ok := com.Value.(*ssa.Builtin); ok {
						set["builtin:"+bi.Name()] = true
					}
				}
				for _, op := range in.Operands(nil) {
					if *op == nil {
						continue
					}
					if c, ok := (*op).(*ssa.Const); ok && c.Value != nil && c.Value.Kind() == constant.String {
						s := constant.StringVal(c.Value)
						if len(s) > 48 {
							s = s[:48]
						}
						if s != "" {
							set["str:"+s] = true
						}
					}
				}
				var ft types.Type
				var idx int
				switch x := in.(type) {
				case *ssa.FieldAddr:
					ft, idx = x.X.Type(), x.Field
				case *ssa.Field:
					ft, idx = x.X.Type(), x.Field
				default:
					continue
				}
				if n := NamedOf(ft); n != nil && n.Obj().Pkg() != nil {
					if _, in := p.SPkgs[n.Obj().Pkg().Path()]; !in {
						if st, ok := n.Underlying().(*types.Struct); ok && idx < st.NumFields() {
							set["field:"+n.Obj().Name()+"."+st.Field(idx).Name()] = true
						}
					}
				}
			}
		}
	}
	var out []string
	for k := range set {
		out = append(out, k)
	}
	sort.Strings(out)
	return out
}

// topLevelFuncs lists the named functions and methods (with bodies) of a package.
func (p *Program) topLevelFuncs(pkgPath string) []*ssa.Function {
	var out []*ssa.Function
	for _, f := range p.SrcFuncs(pkgPath) {
		if f.Parent() == nil && f.Synthetic == "" {
			out = append(out, f)
		}
	}
	return out
}

// GenAnchorTable renders the fingerprints of the given names as Go source.
func (p *Program) GenAnchorTable(names map[string][]string) string {
	var sb strings.Builder
	var pkgs []string
	for k := range names {
		pkgs = append(pkgs, k)
	}
	sort.Strings(pkgs)
	for _, pkg := range pkgs {
		ns := append([]string(nil), names[pkg]...)
		sort.Strings(ns)
		for _, n := range ns {
			f := p.funcByName(pkg, n)
			if f == nil || f.Blocks == nil {
				continue
			}
			fmt.Fprintf(&sb, "\t{Pkg: %q, Name: %q, NParams: %d, NResults: %d, FP: []string{", pkg, n, len(f.Params), f.Signature.Results().Len())
			for i, t := range p.fingerprint(f) {
				if i > 0 {
					sb.WriteString(", ")
				}
				fmt.Fprintf(&sb, "%q", t)
			}
			sb.WriteString("}},\n")
		}
	}
	return sb.String()
}

func jaccard(a, b []string) float64 {
	if len(a) == 0 && len(b) == 0 {
		return 0
	}
	m := map[string]bool{}
	for _, x := range a {
		m[x] = true
	}
	inter := 0
	for _, x := range b {
		if m[x] {
			inter++
		}
	}
	union := len(a) + len(b) - inter
	return float64(inter) / float64(union)
}

// resolveAnchors fills the alias table for frozen names that are gone.
func (p *Program) resolveAnchors() {
	p.alias = map[string]*ssa.Function{}
	p.AliasNotes = nil
	byPkg := map[string][]AnchorFP{}
	for _, a := range AnchorTable {
		byPkg[a.Pkg] = append(byPkg[a.Pkg], a)
	}
	for pkg, specs := range byPkg {
		if p.SPkgs[pkg] == nil {
			continue
		}
		present := map[string]bool{}
		var missing []AnchorFP
		for _, a := range specs {
			if f := p.funcByName(pkg, a.Name); f != nil && f.Blocks != nil {
				present[FuncName(f)] = true
			} else {
				missing = append(missing, a)
			}
		}
		if len(missing) == 0 {
			continue
		}
		// candidates: functions of the package that are not themselves frozen names
		var cands []*ssa.Function
		for _, f := range p.topLevelFuncs(pkg) {
			if !present[FuncName(f)] {
				cands = append(cands, f)
			}
		}
		fps := map[*ssa.Function][]string{}
		for _, f := range cands {
			fps[f] = p.fingerprint(f)
		}
		type match struct {
			spec  AnchorFP
			fn    *ssa.Function
			score float64
		}
		var accepted []match
		for _, a := range missing {
			var best, second float64
			var bestFn *ssa.Function
			for _, f := range cands {
				if len(f.Params) != a.NParams || f.Signature.Results().Len() != a.NResults {
					continue
				}
				// methods stay methods, functions stay functions
				if (f.Signature.Recv() != nil) != strings.Contains(a.Name, ".") {
					continue
				}
				s := jaccard(a.FP, fps[f])
				if len(a.FP) == 0 && len(fps[f]) == 0 {
					s = 0.5 // nothing to compare: arity only
				}
				if s > best {
					best, second, bestFn = s, best, f
				} else if s > second {
					second = s
				}
			}
			if bestFn != nil && best >= 0.55 && best-second >= 0.15 {
				accepted = append(accepted, match{a, bestFn, best})
			}
		}
		// one function cannot take over two names
		taken := map[*ssa.Function]int{}
		for _, m := range accepted {
			taken[m.fn]++
		}
		for _, m := range accepted {
			if taken[m.fn] > 1 {
				continue
			}
			p.alias[pkg+"\x00"+m.spec.Name] = m.fn
			canonByFn[m.fn] = m.spec.Name
			p.AliasNotes = append(p.AliasNotes, fmt.Sprintf("%s: frozen anchor %s is now %s (fingerprint similarity %.2f)", pkg[strings.LastIndexByte(pkg, '/')+1:], m.spec.Name, rawFuncName(m.fn), m.score))
		}
	}
	sort.Strings(p.AliasNotes)
}
