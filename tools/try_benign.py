#!/usr/bin/env python3
"""Apply a behaviour-preserving refactoring (from an independent sub-agent) to /repo, run all
twenty quick checks, report every non-zero exit (= false alarm candidate), restore /repo."""
import sys, subprocess, os, json
def sh(cmd): return subprocess.run(cmd, shell=True, capture_output=True, text=True)
def main():
    out={}
    for diff in sys.argv[1:]:
        assert sh('git -C /repo status --porcelain').stdout.strip()=='', 'repo not clean'
        r=sh(f'git -C /repo apply {diff}')
        if r.returncode!=0:
            print(diff,'does not apply:',r.stderr[:200]); continue
        res={}
        try:
            for i in range(1,21):
                p='C%02d'%i
                o=sh(f'/verif/check.sh {p} quick')
                if o.returncode!=0:
                    lines=[l.strip() for l in o.stdout.splitlines() if l.startswith('  ') or l.startswith('CHECK-BROKEN')]
                    res[p]={'exit':o.returncode,'lines':lines[:8]}
        finally:
            sh('git -C /repo reset -q --hard HEAD')
        out[diff]=res
        print('==',diff, 'ALARMS' if res else 'silent')
        for p,v in res.items():
            print('  ',p,'exit',v['exit'])
            for l in v['lines']: print('      ',l[:230])
    assert sh('git -C /repo status --porcelain').stdout.strip()=='', 'repo not restored'
main()
