package rules

import (
	"fmt"
	"go/token"
	"go/types"
	"sort"

	"golang.org/x/tools/go/ssa"

	"verif/internal/core"
)

// ---------------------------------------------------------------------------
// R70: no mutex is acquired again while it is held (re-entrant acquisition).
//
// C20 "never hangs".  sync.Mutex is not re-entrant, and a recursive RLock on a
// sync.RWMutex deadlocks as soon as a writer queues up between the two read
// acquisitions (Go's RWMutex blocks new readers once a writer waits).  The
// pattern is invisible to sequential tests: the inner acquisition succeeds as
// long as nobody else asks for the write lock.
//
// For every call made at a point where lock L is certainly held (must-lockset),
// no function that the call may run synchronously — the static callee, every
// repository implementation of an invoked repository interface method, closures
// passed to functions that invoke them — acquires L on top of the state it was
// entered with.  A callback invoked by an implementation while *that
// implementation* holds L (memstore.Walk calls its visitor under the bucket's
// read lock) is checked against the locks held at the invocation.  A function
// that first releases L and re-takes it (lock reversal) does not count as
// acquiring it.
// ---------------------------------------------------------------------------

type reentrancy struct {
	la    *LockAnalysis
	P     *core.Program
	impls map[string][]*ssa.Function // "iface-method signature key" -> implementations
	may   map[*ssa.Function]map[string]token.Pos
	all   []*ssa.Function
}

func released(s lstate) bool { return s == sRW || s == sRR }

// calleesAt: every repository function the call may run synchronously, with the parameter binding
// needed for callbacks (nil for plain callees).
func (r *reentrancy) calleesAt(c *core.CallInfo) []*ssa.Function {
	out := r.la.calleesOf(c)
	out = append(out, r.implsOf(c)...)
	return out
}

// implsOf: the repository methods an interface invoke may dispatch to.
func (r *reentrancy) implsOf(c *core.CallInfo) []*ssa.Function {
	if c.Method == nil || c.IfaceRecv == nil {
		return nil
	}
	it, ok := c.IfaceRecv.Underlying().(*types.Interface)
	if !ok {
		return nil
	}
	var out []*ssa.Function
	seen := map[*ssa.Function]bool{}
	for _, sp := range r.P.SPkgs {
		sc := sp.Pkg.Scope()
		for _, name := range sc.Names() {
			tn, ok := sc.Lookup(name).(*types.TypeName)
			if !ok {
				continue
			}
			for _, t := range []types.Type{tn.Type(), types.NewPointer(tn.Type())} {
				if _, isIface := t.Underlying().(*types.Interface); isIface {
					continue
				}
				if !types.Implements(t, it) {
					continue
				}
				sel := r.P.SSA.MethodSets.MethodSet(t).Lookup(c.Method.Pkg(), c.Method.Name())
				if sel == nil {
					continue
				}
				if f := r.P.SSA.MethodValue(sel); f != nil && f.Blocks != nil && f.Synthetic == "" && !seen[f] {
					seen[f] = true
					out = append(out, f)
				}
			}
		}
	}
	sort.Slice(out, func(i, j int) bool { return out[i].String() < out[j].String() })
	return out
}

func (r *reentrancy) compute() {
	r.may = map[*ssa.Function]map[string]token.Pos{}
	// direct: an acquisition on top of the entry state
	for _, fn := range r.all {
		m := map[string]token.Pos{}
		for _, c := range core.AllCalls(fn) {
			op, ok := lockOpOf(c)
			if !ok || !op.acq {
				continue
			}
			if released(r.la.LocalAt(c.Instr, op.lock)) {
				continue // re-take after a release: net effect "as entered"
			}
			if _, have := m[op.lock]; !have {
				m[op.lock] = c.Instr.Pos()
			}
		}
		r.may[fn] = m
	}
	for changed := true; changed; {
		changed = false
		for _, fn := range r.all {
			for _, c := range core.AllCalls(fn) {
				if _, isGo := c.Instr.(*ssa.Go); isGo {
					continue
				}
				for _, g := range r.calleesAt(c) {
					for l, pos := range r.may[g] {
						if released(r.la.LocalAt(c.Instr, l)) {
							continue
						}
						if _, have := r.may[fn][l]; !have {
							r.may[fn][l] = pos
							changed = true
						}
					}
				}
			}
		}
	}
}

func R70() Rule {
	return Rule{Name: "R70", Run: func(c *core.Ctx) {
		P := c.P
		la := Locks(P)
		r := &reentrancy{la: la, P: P}
		for fn := range la.Fns {
			r.all = append(r.all, fn)
		}
		sort.Slice(r.all, func(i, j int) bool {
			if r.all[i].Pos() != r.all[j].Pos() {
				return r.all[i].Pos() < r.all[j].Pos()
			}
			return r.all[i].String() < r.all[j].String()
		})
		r.compute()
		n := 0
		count := map[string]int{}
		report := func(at ssa.Instruction, callee *ssa.Function, held map[string]mode, how string) {
			var locks []string
			for l, m := range held {
				if m != mNone {
					locks = append(locks, l)
				}
			}
			sort.Strings(locks)
			for _, l := range locks {
				n++
				c.Calls++
				key := fmt.Sprintf("%s/%s/%s", core.FuncName(core.Root(at.Parent())), core.FuncName(callee), l)
				count[key]++
				construct := key
				if count[key] > 1 {
					construct = fmt.Sprintf("%s#%d", key, count[key])
				}
				c.Fn(core.FuncName(core.Root(at.Parent())))
				if pos, bad := r.may[callee][l]; bad {
					c.Bad("R70", construct, at.Pos(), "%s is held here (%s) and %s — %s — acquires it again at %s: a sync.Mutex deadlocks at once, a recursive RLock deadlocks as soon as a writer queues up between the two acquisitions, and every later request for that lock hangs", l, held[l], core.FuncName(callee), how, P.Pos(pos))
				} else {
					c.Ok("R70", construct, at.Pos(), true, "%s is held (%s); %s never acquires it", l, held[l], core.FuncName(callee))
				}
			}
		}
		for _, fn := range r.all {
			for _, ci := range core.AllCalls(fn) {
				if _, isGo := ci.Instr.(*ssa.Go); isGo {
					continue
				}
				if _, isLockOp := lockOpOf(ci); isLockOp {
					continue
				}
				held := la.AbsAt(ci.Instr)
				any := false
				for _, m := range held {
					if m != mNone {
						any = true
					}
				}
				callees := r.calleesAt(ci)
				if any {
					for _, g := range callees {
						report(ci.Instr, g, held, "which this call may run")
					}
				}
				// callbacks: a closure handed over here runs where the receiving function invokes its parameter
				for ai, a := range ci.Common.Args {
					if _, isFn := a.Type().Underlying().(*types.Signature); !isFn {
						continue
					}
					cl := closureOf(a)
					if cl == nil || !inRepo(P, cl) {
						continue
					}
					var recvs []*ssa.Function
					pi := ai
					if ci.Static != nil && inRepo(P, ci.Static) {
						recvs = []*ssa.Function{ci.Static}
					} else if ci.Method != nil {
						recvs = r.implsOf(ci)
						pi = ai + 1 // the receiver is parameter 0 of the implementation
					}
					for _, w := range recvs {
						sites, _ := la.paramInvocations(w, pi, 0)
						for _, in := range sites {
							h2 := la.AbsAt(in)
							report(in, cl, h2, fmt.Sprintf("the callback passed at %s", P.Pos(ci.Instr.Pos())))
						}
					}
				}
			}
		}
		if n < 8 {
			c.Unknown("R70", "floor/calls-under-a-lock", token.NoPos, "only %d calls made while a mutex is held were found", n)
		}
	}}
}

// ---------------------------------------------------------------------------
// R74: no response is streamed to the client while a table or registry mutex is held.
//
// C20 "never hangs … alone or concurrently with any other requests".  `Send` on a
// gRPC server stream blocks for as long as the client's flow-control window is
// full; a client that stops reading (or a slow link) therefore parks the handler
// inside Send.  If the handler holds table.mu (even for reading) at that point,
// every writer of the table queues behind it, and — sync.RWMutex blocks new
// readers once a writer waits — so does every later reader: one stalled stream
// wedges the table.  ReadRows gives the lock up around its Send for exactly this
// reason; the rule demands it of every streaming call (the same shape as R20-L3,
// "nothing blocks under the map mutex").
// ---------------------------------------------------------------------------

func isServerStreamSend(ci *core.CallInfo) bool {
	if ci.Method == nil || ci.IfaceRecv == nil {
		return false
	}
	switch ci.Method.Name() {
	case "Send", "SendMsg", "SendHeader":
	default:
		return false
	}
	it, ok := ci.IfaceRecv.Underlying().(*types.Interface)
	if !ok {
		return false
	}
	// a grpc server stream: the interface has SendMsg/RecvMsg/Context (embedded grpc.ServerStream)
	need := map[string]bool{"SendMsg": false, "RecvMsg": false, "Context": false}
	for i := 0; i < it.NumMethods(); i++ {
		if _, ok := need[it.Method(i).Name()]; ok {
			need[it.Method(i).Name()] = true
		}
	}
	for _, v := range need {
		if !v {
			return false
		}
	}
	return true
}

func R74() Rule {
	return Rule{Name: "R74", Run: func(c *core.Ctx) {
		P := c.P
		if P.SPkgs[core.PkgBttest] == nil {
			return
		}
		la := Locks(P)
		n := 0
		for _, fn := range P.SrcFuncs(core.PkgBttest) {
			k := 0
			for _, ci := range core.AllCalls(fn) {
				if !isServerStreamSend(ci) {
					continue
				}
				n++
				k++
				c.Calls++
				c.Fn(core.FuncName(core.Root(fn)))
				construct := fmt.Sprintf("%s/stream.%s#%d/no-lock-held", core.FuncName(core.Root(fn)), ci.Method.Name(), k)
				held := la.AbsAt(ci.Instr)
				var locks []string
				for l, m := range held {
					if m != mNone {
						locks = append(locks, fmt.Sprintf("%s (%s)", l, m))
					}
				}
				sort.Strings(locks)
				if len(locks) > 0 {
					c.Bad("R74", construct, ci.Instr.Pos(), "the response is streamed to the client while %v is held: Send blocks as long as the client does not read, and with it every writer of the table and — behind the first waiting writer — every reader; one stalled stream wedges the table (ReadRows releases the lock around its Send for this reason)", locks)
				} else {
					c.Ok("R74", construct, ci.Instr.Pos(), true, "no repository mutex is held when the response is handed to the transport")
				}
			}
		}
		if n < 2 {
			c.Unknown("R74", "floor/stream-sends", token.NoPos, "only %d server-stream sends found", n)
		}
	}}
}

// ---------------------------------------------------------------------------
// R75: a table definition is persisted under the lock that serialises its changes.
//
// C08: after a restart the emulator serves "the … column families with their GC
// rules … produced by all acknowledged requests".  ModifyColumnFamilies changes
// table.def under table.mu; if the definition (or a clone of it) is handed to
// Storage.SetTableMeta after the lock is released, two concurrent requests can
// persist in the opposite order to the one they were applied in: both are
// acknowledged, the live server shows both, and the file on disk keeps the
// older definition.  Structural necessary condition: every SetTableMeta call
// reached from an RPC that mutates table.def happens with table.mu held for
// writing (and Storage.Create, which writes the first definition, with the
// registry mutex held).
// ---------------------------------------------------------------------------

func R75() Rule {
	return Rule{Name: "R75", Run: func(c *core.Ctx) {
		P := c.P
		if P.SPkgs[core.PkgBttest] == nil {
			return
		}
		la := Locks(P)
		n := 0
		for _, fn := range P.SrcFuncs(core.PkgBttest) {
			if nm := core.FuncName(core.Root(fn)); len(nm) < 9 || nm[:9] != "(*server)" {
				continue // the storage implementations' own calls (Create → SetTableMeta) run under their caller's lock
			}
			k := 0
			for _, ci := range core.AllCalls(fn) {
				var need, what string
				switch {
				case ci.IsIfaceMethod(core.PkgBttest, "Storage", "SetTableMeta"):
					need, what = "bttest.table.mu", "the table definition is persisted"
				case ci.IsIfaceMethod(core.PkgBttest, "Storage", "Create"):
					need, what = "bttest.server.mu", "the new table's storage (and first definition) is created"
				default:
					continue
				}
				if _, pre := la.roots[core.Root(fn)]; pre && core.FuncName(core.Root(fn)) == "NewServerWithOptions" {
					continue
				}
				n++
				k++
				c.Fn(core.FuncName(core.Root(fn)))
				construct := fmt.Sprintf("%s/Storage.%s#%d/under-%s", core.FuncName(core.Root(fn)), ci.Method.Name(), k, need)
				_, async := ci.Instr.(*ssa.Go)
				if !async && la.AbsAt(ci.Instr)[need] == mW {
					c.Ok("R75", construct, ci.Instr.Pos(), true, "%s with %s held for writing", what, need)
				} else {
					c.Bad("R75", construct, ci.Instr.Pos(), "%s without %s held for writing: two concurrent requests can persist in the opposite order to the one in which they were applied (or the second creation can overwrite the first one's files), so after a restart the emulator serves an older definition than the one both acknowledged requests left behind", what, need)
				}
			}
		}
		if n < 2 {
			c.Unknown("R75", "floor/persist-sites", token.NoPos, "only %d persistence calls found in the RPC methods", n)
		}
	}}
}
