package rules

import (
	"fmt"
	"go/token"
	"go/types"
	"sort"
	"strings"

	"golang.org/x/tools/go/ssa"

	"verif/internal/core"
)

const (
	pkgBtree   = "github.com/google/btree"
	pkgLdbUtil = "github.com/syndtr/goleveldb/leveldb/util"
	pkgLdb     = "github.com/syndtr/goleveldb/leveldb"
	pkgLdbOpt  = "github.com/syndtr/goleveldb/leveldb/opt"
	pkgLdbCmp  = "github.com/syndtr/goleveldb/leveldb/comparer"
)

// rowsImpls discovers the concrete types implementing bttest.Rows.
func rowsImpls(p *core.Program) []types.Type {
	pkg := p.Pkgs[core.PkgBttest]
	obj := pkg.Types.Scope().Lookup("Rows")
	if obj == nil {
		panic(core.Broken("anchor gone: interface bttest.Rows"))
	}
	iface := obj.Type().Underlying().(*types.Interface)
	var out []types.Type
	names := pkg.Types.Scope().Names()
	sort.Strings(names)
	for _, n := range names {
		tn, ok := pkg.Types.Scope().Lookup(n).(*types.TypeName)
		if !ok || tn.IsAlias() {
			continue
		}
		if _, isIface := tn.Type().Underlying().(*types.Interface); isIface {
			continue
		}
		if types.Implements(tn.Type(), iface) {
			out = append(out, tn.Type())
		} else if types.Implements(types.NewPointer(tn.Type()), iface) {
			out = append(out, types.NewPointer(tn.Type()))
		}
	}
	return out
}

func methodOf(p *core.Program, t types.Type, name string) *ssa.Function {
	sel := p.SSA.MethodSets.MethodSet(t).Lookup(p.Pkgs[core.PkgBttest].Types, name)
	if sel == nil {
		return nil
	}
	return p.SSA.MethodValue(sel)
}

func isRowIteratorType(t types.Type) bool {
	sig, ok := t.Underlying().(*types.Signature)
	if !ok || sig.Params().Len() != 1 || sig.Results().Len() != 1 {
		return false
	}
	if b, ok := sig.Results().At(0).Type().Underlying().(*types.Basic); !ok || b.Kind() != types.Bool {
		return false
	}
	return core.TypeIs(sig.Params().At(0).Type(), "cloud.google.com/go/bigtable/apiv2/bigtablepb", "Row")
}

// implFamily: all functions reachable from the Rows methods of type t through
// static in-package calls and closures.
func implFamily(p *core.Program, t types.Type) []*ssa.Function {
	seen := map[*ssa.Function]bool{}
	var out []*ssa.Function
	var visit func(fn *ssa.Function)
	visit = func(fn *ssa.Function) {
		if fn == nil || seen[fn] || !inRepo(p, fn) {
			return
		}
		seen[fn] = true
		out = append(out, fn)
		for _, a := range fn.AnonFuncs {
			visit(a)
		}
		for _, c := range core.AllCalls(fn) {
			if c.Static != nil {
				visit(c.Static)
			}
		}
	}
	for _, m := range []string{"Ascend", "AscendRange", "AscendLessThan", "AscendGreaterOrEqual", "Get", "ReplaceOrInsert", "Delete", "Clear", "Close"} {
		visit(methodOf(p, t, m))
	}
	sort.Slice(out, func(i, j int) bool { return out[i].Pos() < out[j].Pos() })
	return out
}

func typeLabel(t types.Type) string {
	if n := core.NamedOf(t); n != nil {
		return core.TName(n)
	}
	return t.String()
}

// R09: sibling cross-check of the Rows implementations against the contract in storage.go.
func R09() Rule {
	return Rule{Name: "R09", Run: func(c *core.Ctx) {
		impls := rowsImpls(c.P)
		if len(impls) < 2 {
			c.Unknown("R09", "floor/implementations", token.NoPos, "expected at least two implementations of bttest.Rows, found %d", len(impls))
		}
		fromProto := c.P.MustFunc(core.PkgBttest, "fromProto")
		toProto := c.P.MustFunc(core.PkgBttest, "toProto")
		nIterCalls, nAscend := 0, 0
		for _, t := range impls {
			label := typeLabel(t)
			fam := implFamily(c.P, t)
			// ---- I1 early stop, I3 synchronous, I4 isolation (callback argument)
			for _, fn := range fam {
				c.Fn(core.FuncName(fn))
				k := 0
				for _, b := range fn.Blocks {
					for _, in := range b.Instrs {
						if _, isGo := in.(*ssa.Go); isGo {
							c.Bad("R09", fmt.Sprintf("I3/%s/%s/go", label, core.FuncName(fn)), in.Pos(), "a Rows implementation starts a goroutine: callers run callbacks under the table lock and rely on synchronous iteration")
						}
						if st, ok := in.(*ssa.Store); ok && isRowIteratorType(st.Val.Type()) {
							if core.CellOf(st.Addr) == nil {
								c.Bad("R09", fmt.Sprintf("I3/%s/%s/store-callback", label, core.FuncName(fn)), in.Pos(), "the iterator callback is stored in a heap object: it may run after the caller released the table lock")
							}
						}
						call, ok := in.(*ssa.Call)
						if !ok {
							continue
						}
						ci := core.Call(call)
						if ci.Static != nil || ci.Method != nil {
							continue
						}
						if _, isB := ci.Common.Value.(*ssa.Builtin); isB {
							continue
						}
						if !isRowIteratorType(ci.Common.Value.Type()) {
							continue
						}
						k++
						nIterCalls++
						construct := fmt.Sprintf("I1/%s/%s/iterator-call#%d", label, core.FuncName(fn), k)
						ok1, why := iteratorResultHonoured(call)
						if ok1 {
							c.Ok("R09", construct, call.Pos(), true, "%s", why)
						} else {
							c.Bad("R09", construct, call.Pos(), "the callback's boolean result does not stop the iteration (%s): limits, errors and early exits of callers are ignored by this engine", why)
						}
						// I4: the row handed to the callback is a fresh deserialisation
						construct4 := fmt.Sprintf("I4/%s/%s/callback-arg#%d", label, core.FuncName(fn), k)
						if freshFrom(ci.Common.Args[0], fromProto) {
							c.Ok("R09", construct4, call.Pos(), true, "row passed to the callback is the result of fromProto (private copy)")
						} else {
							c.Bad("R09", construct4, call.Pos(), "row passed to the callback is not a fresh fromProto result: callers mutate it in place")
						}
					}
				}
			}
			// ---- I4 Get / ReplaceOrInsert
			if get := methodOf(c.P, t, "Get"); get != nil && get.Blocks != nil {
				ok := true
				n := 0
				for _, b := range get.Blocks {
					for _, in := range b.Instrs {
						if r, isR := in.(*ssa.Return); isR && len(r.Results) == 1 {
							n++
							for _, v := range returnValues(r.Results[0]) {
								if !core.IsNilConst(v) && !freshFrom(v, fromProto) {
									ok = false
								}
							}
						}
					}
				}
				c.Check(ok && n > 0, "R09", fmt.Sprintf("I4/%s/Get", label), get.Pos(), "every non-nil result of Get is a fresh fromProto deserialisation", "Get returns a row that is not a fresh deserialisation: a caller's in-place edits become visible before the write-back")
			}
			if roi := methodOf(c.P, t, "ReplaceOrInsert"); roi != nil && roi.Blocks != nil {
				found, ok := false, true
				for _, ci := range core.AllCalls(roi) {
					if ci.Static == nil || ci.Static.Pkg == nil {
						continue
					}
					path := ci.Static.Pkg.Pkg.Path()
					if (path == pkgBtree && ci.Static.Name() == "ReplaceOrInsert") || (path == pkgLdb && ci.Static.Name() == "Put") {
						found = true
						// some argument (possibly inside a composite) must come from toProto
						if !anyArgFrom(ci, toProto) {
							ok = false
						}
					}
				}
				c.Check(found && ok, "R09", fmt.Sprintf("I4/%s/ReplaceOrInsert", label), roi.Pos(), "stored value is a fresh toProto serialisation", "the stored value is not produced by toProto: the store would alias the caller's row")
			}
			// ---- I2 slot agreement
			for _, m := range []struct {
				name         string
				lower, upper int // parameter index (excluding receiver), -1 if none
			}{{"AscendRange", 0, 1}, {"AscendLessThan", -1, 0}, {"AscendGreaterOrEqual", 0, -1}, {"Ascend", -1, -1}} {
				fn := methodOf(c.P, t, m.name)
				if fn == nil || fn.Blocks == nil {
					c.Unknown("R09", fmt.Sprintf("I2/%s/%s", label, m.name), token.NoPos, "method not found")
					continue
				}
				nAscend++
				off := 1 // receiver
				check := func(pi int, wantLower bool, pname string) {
					construct := fmt.Sprintf("I2/%s/%s/%s", label, m.name, pname)
					slots := boundSlots(c.P, fn.Params[pi+off])
					if len(slots) == 0 {
						c.Bad("R09", construct, fn.Pos(), "bound parameter %s reaches no range slot of the backend: the scan is unbounded on that side", pname)
						return
					}
					bad := ""
					for _, s := range slots {
						if s.lower != wantLower {
							bad = s.name
						}
					}
					if bad != "" {
						c.Bad("R09", construct, fn.Pos(), "bound parameter %s flows into backend slot %s, which bounds the other end of the range", pname, bad)
					} else {
						var ns []string
						for _, s := range slots {
							ns = append(ns, s.name)
						}
						c.Ok("R09", construct, fn.Pos(), true, "flows only into %s", strings.Join(ns, ","))
					}
				}
				if m.lower >= 0 {
					check(m.lower, true, "greaterOrEqual")
				}
				if m.upper >= 0 {
					check(m.upper, false, "lessThan")
				}
				// a util.Range literal built here must actually be handed to the backend iterator
				for _, b := range fn.Blocks {
					for _, in := range b.Instrs {
						if a, ok := in.(*ssa.Alloc); ok && core.TypeIs(a.Type(), pkgLdbUtil, "Range") {
							construct := fmt.Sprintf("I2/%s/%s/range-delivered", label, m.name)
							if reachesCall(c.P, a, pkgLdb, "NewIterator", map[ssa.Value]bool{}) {
								c.Ok("R09", construct, a.Pos(), true, "the util.Range literal reaches DB.NewIterator")
							} else {
								c.Bad("R09", construct, a.Pos(), "a util.Range is built from the bounds but never reaches DB.NewIterator: the scan ignores the requested range")
							}
						}
					}
				}
				if m.lower < 0 && m.upper < 0 {
					c.Ok("R09", fmt.Sprintf("I2/%s/%s", label, m.name), fn.Pos(), false, "unbounded scan: no bound parameters")
				}
			}
		}
		// fromProto returns a freshly allocated message
		{
			ok := true
			for _, b := range fromProto.Blocks {
				for _, in := range b.Instrs {
					if r, isR := in.(*ssa.Return); isR {
						if _, isAlloc := core.Resolve(r.Results[0]).(*ssa.Alloc); !isAlloc {
							ok = false
						}
					}
				}
			}
			c.Check(ok, "R09", "I4/fromProto-fresh", fromProto.Pos(), "fromProto returns a newly allocated Row", "fromProto does not return a fresh allocation")
		}
		// ---- I5 same order in both engines
		r09Order(c)
		if nIterCalls < 2 {
			c.Unknown("R09", "floor/iterator-calls", token.NoPos, "only %d callback invocations found in Rows implementations", nIterCalls)
		}
		if nAscend < 6 {
			c.Unknown("R09", "floor/ascend-methods", token.NoPos, "only %d Ascend* methods found", nAscend)
		}
	}}
}

func returnValues(v ssa.Value) []ssa.Value {
	v = core.Strip(v)
	if ld, ok := v.(*ssa.UnOp); ok && ld.Op == token.MUL {
		if rs := core.ReachingStores(ld); len(rs) > 0 {
			var out []ssa.Value
			for _, s := range rs {
				out = append(out, s.Val)
			}
			return out
		}
	}
	if phi, ok := v.(*ssa.Phi); ok {
		return phi.Edges
	}
	return []ssa.Value{v}
}

func freshFrom(v ssa.Value, producer *ssa.Function) bool {
	return freshFromDepth(v, producer, 0)
}

// freshFromDepth: v is the result of producer, or of an in-package wrapper every
// return of which is (e.g. a `row()` accessor around fromProto).
func freshFromDepth(v ssa.Value, producer *ssa.Function, depth int) bool {
	v = core.Resolve(v)
	call, ok := v.(*ssa.Call)
	if !ok {
		return false
	}
	callee := call.Call.StaticCallee()
	if callee == producer {
		return true
	}
	if callee == nil || callee.Blocks == nil || depth > 3 || core.PkgPathOf(callee) != core.PkgPathOf(producer) {
		return false
	}
	n := 0
	for _, r := range returnsIn(callee) {
		if len(r.Results) != 1 {
			return false
		}
		for _, rv := range returnValues(r.Results[0]) {
			n++
			if !freshFromDepth(rv, producer, depth+1) {
				return false
			}
		}
	}
	return n > 0
}

// anyArgFrom: some argument of the call, or a field of a struct argument built
// right there, is the result of producer.
func anyArgFrom(ci *core.CallInfo, producer *ssa.Function) bool {
	var check func(v ssa.Value, depth int) bool
	check = func(v ssa.Value, depth int) bool {
		if depth > 6 {
			return false
		}
		v = core.Resolve(v)
		if freshFrom(v, producer) {
			return true
		}
		switch x := v.(type) {
		case *ssa.Call:
			// a constructor helper of the same package: look at what it returns
			if callee := x.Call.StaticCallee(); callee != nil && callee.Blocks != nil && core.PkgPathOf(callee) == core.PkgPathOf(producer) {
				for _, r := range returnsIn(callee) {
					for _, res := range r.Results {
						if check(res, depth+1) {
							return true
						}
					}
				}
			}
		case *ssa.UnOp:
			if x.Op == token.MUL {
				if a, ok := x.X.(*ssa.Alloc); ok {
					// struct literal: look at the stores into its fields
					for _, r := range core.Referrers(a) {
						if fa, ok := r.(*ssa.FieldAddr); ok {
							for _, rr := range core.Referrers(fa) {
								if st, ok := rr.(*ssa.Store); ok && check(st.Val, depth+1) {
									return true
								}
							}
						}
					}
				}
			}
		}
		return false
	}
	for _, a := range ci.Common.Args {
		if check(a, 0) {
			return true
		}
	}
	return false
}

// iteratorResultHonoured: the boolean result of a callback invocation is either
// returned to a backend that stops on false, or controls a branch whose
// false-side leaves the loop around the call.
func iteratorResultHonoured(call *ssa.Call) (bool, string) {
	refs := core.Referrers(call)
	used := false
	for _, r := range refs {
		switch x := r.(type) {
		case *ssa.DebugRef:
		case *ssa.Return:
			used = true
			return true, "result is returned to the backend iterator (btree stops on false)"
		case *ssa.Store:
			// defer-spilled result
			if cell := core.CellOf(x.Addr); cell != nil && cell.Parent() == call.Parent() {
				for _, rr := range core.Referrers(cell) {
					if ld, ok := rr.(*ssa.UnOp); ok {
						for _, r3 := range core.Referrers(ld) {
							if _, ok := r3.(*ssa.Return); ok {
								return true, "result is returned to the backend iterator"
							}
						}
					}
				}
			}
		case *ssa.If:
			used = true
			if stopsLoop(x, call, false) {
				return true, "false result leaves the iteration loop"
			}
		case *ssa.UnOp:
			if x.Op == token.NOT {
				for _, r2 := range core.Referrers(x) {
					if ifi, ok := r2.(*ssa.If); ok {
						used = true
						if stopsLoop(ifi, call, true) {
							return true, "false result leaves the iteration loop"
						}
					}
				}
			}
		}
	}
	if !used {
		return false, "result is discarded"
	}
	return false, "result is tested but the false branch continues the loop"
}

// stopsLoop: on the edge taken when the callback returned false, the call is
// no longer reachable.  negated: the If tests !result.
func stopsLoop(ifi *ssa.If, call *ssa.Call, negated bool) bool {
	b := ifi.Block()
	falseSucc := b.Succs[1] // cond false => result false
	if negated {
		falseSucc = b.Succs[0]
	}
	if falseSucc == call.Block() {
		return false
	}
	reach := core.ReachableFrom(falseSucc, true)
	return !reach[call.Block()]
}

type slot struct {
	name  string
	lower bool
}

// boundSlots follows a key parameter forward to the backend range slots it ends up in.
func boundSlots(p *core.Program, param *ssa.Parameter) []slot {
	var out []slot
	seen := map[ssa.Value]bool{}
	seenSlot := map[string]bool{}
	add := func(s slot) {
		if !seenSlot[s.name] {
			seenSlot[s.name] = true
			out = append(out, s)
		}
	}
	var follow func(v ssa.Value)
	follow = func(v ssa.Value) {
		if seen[v] {
			return
		}
		seen[v] = true
		for _, u := range core.Referrers(v) {
			switch x := u.(type) {
			case *ssa.Store:
				if x.Val != v {
					continue
				}
				if fa, ok := x.Addr.(*ssa.FieldAddr); ok {
					sn, fn, _ := core.FieldName(fa)
					if core.TypeIs(fa.X.Type(), pkgLdbUtil, "Range") {
						switch fn {
						case "Start":
							add(slot{"util.Range.Start", true})
						case "Limit":
							add(slot{"util.Range.Limit", false})
						}
						continue
					}
					_ = sn
					// a struct being built (protoItem{key: k}): the struct value carries the bound
					follow(fa.X)
					for _, r := range core.Referrers(fa.X) {
						if ld, ok := r.(*ssa.UnOp); ok && ld.Op == token.MUL {
							follow(ld)
						}
					}
				} else if cell := core.CellOf(x.Addr); cell != nil {
					for _, r := range core.Referrers(cell) {
						if ld, ok := r.(*ssa.UnOp); ok && ld.Op == token.MUL {
							follow(ld)
						}
					}
				}
			case *ssa.MakeInterface, *ssa.ChangeType, *ssa.Convert, *ssa.Phi, *ssa.Slice:
				follow(x.(ssa.Value))
			case *ssa.Call:
				ci := core.Call(x)
				idx := -1
				for i, a := range ci.Common.Args {
					if a == v {
						idx = i
					}
				}
				if idx < 0 {
					continue
				}
				if ci.Static != nil && ci.Static.Pkg != nil && ci.Static.Pkg.Pkg.Path() == pkgBtree {
					// receiver is arg 0
					switch ci.Static.Name() {
					case "AscendRange":
						if idx == 1 {
							add(slot{"btree.AscendRange(greaterOrEqual)", true})
						} else if idx == 2 {
							add(slot{"btree.AscendRange(lessThan)", false})
						}
					case "AscendLessThan":
						if idx == 1 {
							add(slot{"btree.AscendLessThan(pivot)", false})
						}
					case "AscendGreaterOrEqual":
						if idx == 1 {
							add(slot{"btree.AscendGreaterOrEqual(pivot)", true})
						}
					}
					continue
				}
				if ci.Static != nil && inRepo(p, ci.Static) {
					// into the helper's parameter and, conservatively, its result
					if idx < len(ci.Static.Params) {
						follow(ci.Static.Params[idx])
					}
					follow(x)
				}
			case *ssa.Return:
				// result of a helper: handled at the call site (follow(x) above)
			}
		}
	}
	follow(param)
	return out
}

// r09Order: both engines order rows by bytes.Compare on the key.
func r09Order(c *core.Ctx) {
	// leveldb constructors: Options.Comparer = comparer.DefaultComparer
	n := 0
	for _, fn := range c.P.SrcFuncs(core.PkgBttest) {
		for _, ci := range core.AllCalls(fn) {
			if ci.Static == nil || ci.Static.Pkg == nil || ci.Static.Pkg.Pkg.Path() != pkgLdb {
				continue
			}
			if ci.Static.Name() != "Open" && ci.Static.Name() != "OpenFile" {
				continue
			}
			n++
			construct := fmt.Sprintf("I5/%s/leveldb.%s/comparer", core.FuncName(fn), ci.Static.Name())
			// the options literal: built right here, or by a helper that returns a fresh literal
			var allocs []*ssa.Alloc
			resolved := true
			var collect func(v ssa.Value, depth int)
			collect = func(v ssa.Value, depth int) {
				v = core.Resolve(v)
				switch x := v.(type) {
				case *ssa.Alloc:
					allocs = append(allocs, x)
				case *ssa.Call:
					callee := x.Call.StaticCallee()
					if callee == nil || callee.Blocks == nil || depth > 3 || core.PkgPathOf(callee) != core.PkgBttest {
						resolved = false
						return
					}
					for _, r := range returnsIn(callee) {
						for _, rv := range returnValues(r.Results[0]) {
							collect(rv, depth+1)
						}
					}
				case *ssa.Const:
					if x.Value != nil {
						resolved = false
					}
					// nil options: goleveldb defaults
				default:
					resolved = false
				}
			}
			collect(ci.Common.Args[1], 0)
			if !resolved {
				c.Bad("R09", construct, ci.Instr.Pos(), "options are not a local literal; the comparer cannot be established (default bytewise comparer is required)")
				continue
			}
			val := ssa.Value(nil)
			for _, alloc := range allocs {
				for _, r := range core.Referrers(alloc) {
					if fa, ok := r.(*ssa.FieldAddr); ok {
						if _, fname, _ := core.FieldName(fa); fname == "Comparer" {
							for _, rr := range core.Referrers(fa) {
								if st, ok := rr.(*ssa.Store); ok {
									val = st.Val
								}
							}
						}
					}
				}
			}
			if val == nil {
				// unset => goleveldb defaults to the bytewise comparer
				c.Ok("R09", construct, ci.Instr.Pos(), true, "Comparer unset: goleveldb default (bytewise)")
				continue
			}
			okCmp := false
			if ld, isLd := core.Strip(val).(*ssa.UnOp); isLd {
				if g, isG := ld.X.(*ssa.Global); isG && g.Pkg.Pkg.Path() == pkgLdbCmp && g.Name() == "DefaultComparer" {
					okCmp = true
				}
			}
			c.Check(okCmp, "R09", construct, ci.Instr.Pos(), "Comparer is comparer.DefaultComparer (bytewise)", "leveldb is opened with a comparer other than the bytewise default: row order differs from the btree engine")
		}
	}
	if n < 2 {
		c.Unknown("R09", "floor/leveldb-open", token.NoPos, "expected two leveldb constructors, found %d", n)
	}
	// protoItem.Less = bytes.Compare(recv.key, arg.key) < 0
	less := c.P.Func(core.PkgBttest, "protoItem.Less")
	if less == nil || less.Blocks == nil {
		c.Unknown("R09", "I5/protoItem.Less", token.NoPos, "anchor gone: protoItem.Less")
		return
	}
	ok, why := lessIsBytewiseAscending(less)
	if ok {
		c.Ok("R09", "I5/protoItem.Less", less.Pos(), true, "%s", why)
	} else {
		c.Bad("R09", "I5/protoItem.Less", less.Pos(), "btree item order is not ascending bytewise key order (%s): engines would disagree on scan order and range membership", why)
	}
}

// lessIsBytewiseAscending recognises  bytes.Compare(recv.key, arg.key) < 0  and
// the mirrored  bytes.Compare(arg.key, recv.key) > 0.
func lessIsBytewiseAscending(fn *ssa.Function) (bool, string) {
	var ret *ssa.Return
	for _, b := range fn.Blocks {
		for _, in := range b.Instrs {
			if r, ok := in.(*ssa.Return); ok {
				if ret != nil {
					return false, "more than one return"
				}
				ret = r
			}
		}
	}
	if ret == nil || len(ret.Results) != 1 {
		return false, "no single boolean result"
	}
	bin, ok := core.Resolve(ret.Results[0]).(*ssa.BinOp)
	if !ok {
		return false, "result is not a comparison"
	}
	call, ok := core.Resolve(bin.X).(*ssa.Call)
	zero, zok := core.ConstInt(bin.Y)
	if !ok || !zok || zero != 0 {
		return false, "not a comparison of bytes.Compare(...) with 0"
	}
	sc := call.Call.StaticCallee()
	if sc == nil || sc.Pkg == nil || sc.Pkg.Pkg.Path() != "bytes" || sc.Name() != "Compare" {
		return false, "comparison does not use bytes.Compare"
	}
	side := func(v ssa.Value) string {
		// which object does the key come from: receiver or argument?
		for i := 0; i < 8; i++ {
			v = core.Resolve(v)
			switch x := v.(type) {
			case *ssa.Field:
				v = x.X
			case *ssa.FieldAddr:
				v = x.X
			case *ssa.UnOp:
				v = x.X
			case *ssa.TypeAssert:
				v = x.X
			case *ssa.Parameter:
				if x == fn.Params[0] {
					return "recv"
				}
				return "arg"
			case *ssa.Alloc:
				// spilled parameter
				for _, st := range core.StoresTo(x) {
					v = st.Val
				}
			default:
				return "?"
			}
		}
		return "?"
	}
	a, b := side(call.Call.Args[0]), side(call.Call.Args[1])
	switch {
	case a == "recv" && b == "arg" && bin.Op == token.LSS:
		return true, "bytes.Compare(recv.key, arg.key) < 0"
	case a == "arg" && b == "recv" && bin.Op == token.GTR:
		return true, "bytes.Compare(arg.key, recv.key) > 0"
	}
	return false, fmt.Sprintf("bytes.Compare(%s, %s) %s 0", a, b, bin.Op)
}

// reachesCall: value v flows (through in-repo helper parameters and phis) into
// an argument of a call to pkg.name.
func reachesCall(p *core.Program, v ssa.Value, pkg, name string, seen map[ssa.Value]bool) bool {
	if seen[v] {
		return false
	}
	seen[v] = true
	for _, u := range core.Referrers(v) {
		switch x := u.(type) {
		case *ssa.Phi, *ssa.ChangeType, *ssa.MakeInterface:
			if reachesCall(p, x.(ssa.Value), pkg, name, seen) {
				return true
			}
		case ssa.CallInstruction:
			ci := core.Call(x)
			idx := -1
			for i, a := range ci.Common.Args {
				if a == v {
					idx = i
				}
			}
			if idx < 0 {
				continue
			}
			if ci.Static != nil && ci.Static.Pkg != nil && ci.Static.Pkg.Pkg.Path() == pkg && ci.Static.Name() == name {
				return true
			}
			if ci.Static != nil && inRepo(p, ci.Static) && idx < len(ci.Static.Params) {
				if reachesCall(p, ci.Static.Params[idx], pkg, name, seen) {
					return true
				}
			}
		}
	}
	return false
}
