package core

import (
	"encoding/json"
	"fmt"
	"go/token"
	"os"
	"path/filepath"
	"sort"
	"strings"
	"time"
)

type Status string

const (
	Discharged Status = "discharged"
	Violated   Status = "violated"
	Undecided  Status = "undecided"
	Info       Status = "info"
)

// Obligation is one decided rule instance.  Construct is a stable, line-free
// identifier; Pos is informational.
type Obligation struct {
	Rule       string `json:"rule"`
	Construct  string `json:"construct"`
	Pos        string `json:"pos"`
	Status     Status `json:"status"`
	Detail     string `json:"detail,omitempty"`
	NonTrivial bool   `json:"nontrivial,omitempty"`
}

func (o Obligation) Key() string { return o.Rule + "/" + o.Construct }

// Ctx is what a rule sees.
type Ctx struct {
	P     *Program
	Tier  string
	Obs   []Obligation
	seen  map[string]int
	Funcs map[string]bool // functions analysed (names)
	Calls int             // call sites inspected
	Notes []string
	// Filter restricts which obligations are recorded (property scoping).
	Filter func(rule, construct string) bool
	// Floors: rule -> minimum number of instances that must be found.
	floors map[string]int
	counts map[string]int
}

func NewCtx(p *Program, tier string) *Ctx {
	return &Ctx{P: p, Tier: tier, seen: map[string]int{}, Funcs: map[string]bool{}, floors: map[string]int{}, counts: map[string]int{}}
}

func (c *Ctx) add(o Obligation) {
	if c.Filter != nil && !strings.HasPrefix(o.Construct, "floor/") && !c.Filter(o.Rule, o.Construct) {
		return
	}
	k := o.Key()
	if n, dup := c.seen[k]; dup {
		// Disambiguate deterministically; constructs are expected to be unique
		// but a refactor may duplicate a shape.
		c.seen[k] = n + 1
		o.Construct = fmt.Sprintf("%s#%d", o.Construct, n+1)
	} else {
		c.seen[k] = 1
	}
	c.Obs = append(c.Obs, o)
	if o.Status != Info {
		c.counts[o.Rule]++
	}
}

func (c *Ctx) Ok(rule, construct string, pos token.Pos, nontrivial bool, detail string, args ...interface{}) {
	c.add(Obligation{Rule: rule, Construct: construct, Pos: c.P.Pos(pos), Status: Discharged, Detail: fmt.Sprintf(detail, args...), NonTrivial: nontrivial})
}

func (c *Ctx) Bad(rule, construct string, pos token.Pos, detail string, args ...interface{}) {
	c.add(Obligation{Rule: rule, Construct: construct, Pos: c.P.Pos(pos), Status: Violated, Detail: fmt.Sprintf(detail, args...), NonTrivial: true})
}

func (c *Ctx) Unknown(rule, construct string, pos token.Pos, detail string, args ...interface{}) {
	c.add(Obligation{Rule: rule, Construct: construct, Pos: c.P.Pos(pos), Status: Undecided, Detail: fmt.Sprintf(detail, args...), NonTrivial: true})
}

func (c *Ctx) Infof(rule, construct string, pos token.Pos, detail string, args ...interface{}) {
	c.add(Obligation{Rule: rule, Construct: construct, Pos: c.P.Pos(pos), Status: Info, Detail: fmt.Sprintf(detail, args...)})
}

// Check is shorthand: discharged when ok, violated otherwise.
func (c *Ctx) Check(ok bool, rule, construct string, pos token.Pos, good, bad string) bool {
	if ok {
		c.Ok(rule, construct, pos, true, "%s", good)
	} else {
		c.Bad(rule, construct, pos, "%s", bad)
	}
	return ok
}

// Floor registers the hand-confirmed minimum number of instances a rule (or a
// sub-rule label) must find.  Fewer means the rule went vacuous: check broken.
func (c *Ctx) Floor(rule string, min int) {
	if min > c.floors[rule] {
		c.floors[rule] = min
	}
}

func (c *Ctx) Fn(name string) { c.Funcs[name] = true }

// ---- known findings ----

type KnownFinding struct {
	Property  string `json:"property"`
	Rule      string `json:"rule"`
	Construct string `json:"construct"`
	What      string `json:"what"`
}

type KnownFile struct {
	Comment  string         `json:"_comment,omitempty"`
	Findings []KnownFinding `json:"findings"`
	Fixed    []string       `json:"fixed"`
}

func LoadKnown(path string) (*KnownFile, error) {
	b, err := os.ReadFile(path)
	if err != nil {
		if os.IsNotExist(err) {
			return &KnownFile{}, nil
		}
		return nil, err
	}
	var k KnownFile
	if err := json.Unmarshal(b, &k); err != nil {
		return nil, fmt.Errorf("%s: %v", path, err)
	}
	return &k, nil
}

// ---- evidence ----

type Evidence struct {
	PropertyID  string                 `json:"property_id"`
	Tier        string                 `json:"tier"`
	Seed        int                    `json:"seed"`
	Level       string                 `json:"level"`
	Coverage    map[string]interface{} `json:"coverage"`
	Assumptions []string               `json:"assumptions"`
	WallS       float64                `json:"wall_s"`
	Violations  int                    `json:"violations"`
}

// Outcome of one property run.
type Outcome struct {
	ExitCode int
	Lines    []string
}

// Finish evaluates the ledger against floors and known findings, writes the
// evidence file and replay files, and returns stdout lines + exit code.
func (c *Ctx) Finish(verifDir, prop, explanation string, notDecided []string, assumptions []string, extra map[string]interface{}, start time.Time, seed int) Outcome {
	var out Outcome
	known, err := LoadKnown(filepath.Join(verifDir, "known_findings.json"))
	if err != nil {
		out.Lines = append(out.Lines, "CHECK-BROKEN: "+err.Error())
		out.ExitCode = 2
		return out
	}
	knownSet := map[string]KnownFinding{}
	for _, k := range known.Findings {
		if k.Property == prop {
			knownSet[k.Rule+"/"+k.Construct] = k
		}
	}

	sort.SliceStable(c.Obs, func(i, j int) bool {
		if c.Obs[i].Rule != c.Obs[j].Rule {
			return c.Obs[i].Rule < c.Obs[j].Rule
		}
		return c.Obs[i].Construct < c.Obs[j].Construct
	})

	replayDir := filepath.Join(verifDir, "evidence", "replay")
	_ = os.MkdirAll(replayDir, 0o755)
	// remove stale replay files of this property
	if olds, _ := filepath.Glob(filepath.Join(replayDir, prop+"-*.json")); olds != nil {
		for _, o := range olds {
			_ = os.Remove(o)
		}
	}

	nObl, nDis, nViol, nKnown, nUndec, nNonTriv := 0, 0, 0, 0, 0, 0
	distinct := map[string]bool{}
	ruleInst := map[string]int{}
	var samples []Obligation
	var broken []string
	perRuleSample := map[string]int{}
	for _, o := range c.Obs {
		if o.Status == Info {
			continue
		}
		nObl++
		ruleInst[o.Rule]++
		if o.NonTrivial && !distinct[o.Key()] {
			distinct[o.Key()] = true
			nNonTriv++
		}
		switch o.Status {
		case Discharged:
			nDis++
			if perRuleSample[o.Rule] < 3 {
				perRuleSample[o.Rule]++
				samples = append(samples, o)
			}
		case Undecided:
			nUndec++
			broken = append(broken, fmt.Sprintf("undecided obligation %s at %s: %s", o.Key(), o.Pos, o.Detail))
			samples = append(samples, o)
		case Violated:
			samples = append(samples, o)
			if k, ok := knownSet[o.Key()]; ok {
				nKnown++
				out.Lines = append(out.Lines, fmt.Sprintf("KNOWN-FINDING: property=%s %s [%s at %s]", prop, k.What, o.Key(), o.Pos))
				continue
			}
			nViol++
			rp := filepath.Join(replayDir, fmt.Sprintf("%s-%d.json", prop, nViol))
			rb, _ := json.MarshalIndent(map[string]interface{}{
				"property": prop, "rule": o.Rule, "construct": o.Construct, "pos": o.Pos, "detail": o.Detail,
				"replay": fmt.Sprintf("./check.sh replay %s", rp),
			}, "", "  ")
			_ = os.WriteFile(rp, rb, 0o644)
			out.Lines = append(out.Lines, fmt.Sprintf("VIOLATION property=%s replay=%s", prop, rp))
			out.Lines = append(out.Lines, fmt.Sprintf("  %s: [%s] %s — %s", o.Pos, o.Rule, o.Construct, o.Detail))
		}
	}
	var floorKeys []string
	for r := range c.floors {
		floorKeys = append(floorKeys, r)
	}
	sort.Strings(floorKeys)
	for _, r := range floorKeys {
		if c.counts[r] < c.floors[r] {
			broken = append(broken, fmt.Sprintf("rule %s went vacuous: %d instances found, floor is %d (anchors changed — re-confirm the rule)", r, c.counts[r], c.floors[r]))
		}
	}

	var fns []string
	for f := range c.Funcs {
		fns = append(fns, f)
	}
	sort.Strings(fns)

	cov := map[string]interface{}{
		"explanation":         explanation,
		"clauses_not_decided": notDecided,
		"obligations":         nObl,
		"discharged":          nDis,
		"violated_new":        nViol,
		"violated_known":      nKnown,
		"undecided":           nUndec,
		"evaluations":         nObl,
		"distinct_nontrivial": nNonTriv,
		"rule":                "one evaluation = one rule instance (rule/construct) decided on /repo's current source; non-trivial = its decision needed a dominance, path, lockset or provenance query rather than a mere presence test; distinct by rule/construct key",
		"rule_instances":      ruleInst,
		"functions_analysed":  fns,
		"call_sites":          c.Calls,
		"files_loaded":        c.P.NumFiles,
		"functions_in_scope":  c.P.NumFuncs,
		"samples":             samples,
		"checker_cmd":         fmt.Sprintf("./check.sh %s %s", prop, c.Tier),
		"trusted_base":        []string{"go/types (go1.23.5)", "golang.org/x/tools v0.29.0 go/packages, go/ssa, go/cfg, callgraph", "rule implementations in /verif/internal/rules"},
		"notes":               c.Notes,
		"exhaustive":          true,
	}
	for k, v := range extra {
		cov[k] = v
	}
	if len(samples) == 0 {
		cov["samples"] = []string{"(no obligations)"}
	}
	ev := Evidence{
		PropertyID: prop, Tier: c.Tier, Seed: seed, Level: "other", Coverage: cov,
		Assumptions: assumptions, WallS: time.Since(start).Seconds(), Violations: nViol,
	}
	eb, _ := json.MarshalIndent(ev, "", " ")
	if err := os.WriteFile(filepath.Join(verifDir, "evidence", prop+".json"), eb, 0o644); err != nil {
		broken = append(broken, "cannot write evidence: "+err.Error())
	}

	out.Lines = append(out.Lines, fmt.Sprintf("%s tier=%s obligations=%d discharged=%d violated=%d known=%d undecided=%d rules=%s",
		prop, c.Tier, nObl, nDis, nViol, nKnown, nUndec, fmtCounts(ruleInst)))
	switch {
	case nViol > 0:
		out.ExitCode = 1
	case len(broken) > 0:
		out.ExitCode = 2
	}
	for _, b := range broken {
		out.Lines = append(out.Lines, "CHECK-BROKEN: "+b)
	}
	return out
}

func fmtCounts(m map[string]int) string {
	var ks []string
	for k := range m {
		ks = append(ks, k)
	}
	sort.Strings(ks)
	var sb strings.Builder
	for i, k := range ks {
		if i > 0 {
			sb.WriteByte(',')
		}
		fmt.Fprintf(&sb, "%s:%d", k, m[k])
	}
	return sb.String()
}
