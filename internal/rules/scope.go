package rules

import (
	"go/token"
	"strings"

	"golang.org/x/tools/go/ssa"

	"verif/internal/core"
)

// scopeCallsTo lists the calls to pkg.name made anywhere in the given functions.
func scopeCallsTo(fns []*ssa.Function, pkg, name string) []*ssa.Call {
	var out []*ssa.Call
	for _, f := range fns {
		out = append(out, callsTo(f, pkg, name)...)
	}
	return out
}

func setOf(fns []*ssa.Function) map[*ssa.Function]bool {
	m := map[*ssa.Function]bool{}
	for _, f := range fns {
		m[f] = true
	}
	return m
}

// isLiveFamiliesAnywhere: every origin of v (followed through helper
// parameters) is the table's live column-family map.
func isLiveFamiliesAnywhere(P *core.Program, v ssa.Value) bool {
	return P.AllOrigins(v, nil, isLiveFamilies)
}

// dominatingIfs calls visit for every If whose block dominates `at` (in at's function).
func dominatingIfs(at ssa.Instruction, visit func(ifi *ssa.If, cond ssa.Value)) {
	for b := at.Block(); b != nil; b = b.Idom() {
		if b == at.Block() {
			continue
		}
		if ifi, ok := b.Instrs[len(b.Instrs)-1].(*ssa.If); ok {
			cond := core.Resolve(ifi.Cond)
			if u, ok := cond.(*ssa.UnOp); ok && u.Op == token.NOT {
				cond = core.Resolve(u.X)
			}
			visit(ifi, cond)
		}
	}
}

// mutationSwitchFunc finds, among fns, the function holding the type switch over
// the mutation oneof (≥ min comma-ok assertions on a value of the oneof's interface type).
func mutationSwitchFunc(fns []*ssa.Function, min int) (*ssa.Function, []*ssa.TypeAssert) {
	var best *ssa.Function
	var bestTas []*ssa.TypeAssert
	for _, f := range fns {
		var tas []*ssa.TypeAssert
		for _, b := range f.Blocks {
			for _, in := range b.Instrs {
				if ta, ok := in.(*ssa.TypeAssert); ok && ta.CommaOk {
					if n := core.NamedOf(ta.X.Type()); n != nil && n.Obj().Name() == "isMutation_Mutation" {
						tas = append(tas, ta)
					}
				}
			}
		}
		if len(tas) >= min && len(tas) > len(bestTas) {
			best, bestTas = f, tas
		}
	}
	return best, bestTas
}

// tableOrHelperOf: root is in the table, or it is a private helper all of whose
// uses lie (transitively) in tabled functions.  Returns the table's reason.
func tableOrHelperOf(P *core.Program, root *ssa.Function, table map[string]string) (string, bool) {
	visiting := map[*ssa.Function]bool{}
	var rec func(f *ssa.Function) (string, bool)
	rec = func(f *ssa.Function) (string, bool) {
		if why, ok := table[core.FuncName(f)]; ok {
			return why, true
		}
		if visiting[f] {
			return "", false
		}
		if obj := f.Object(); obj != nil && obj.Exported() {
			return "", false // exported: callable from outside the table
		}
		visiting[f] = true
		defer delete(visiting, f)
		refs := P.Refs(f)
		if len(refs) == 0 {
			return "", false
		}
		why := ""
		for _, r := range refs {
			w, ok := rec(core.Root(r.Instr.Parent()))
			if !ok {
				return "", false
			}
			why = "helper used only by: " + strings.TrimPrefix(w, "helper used only by: ")
		}
		return why, true
	}
	return rec(root)
}
