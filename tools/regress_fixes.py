#!/usr/bin/env python3
"""Both-ways test of the rules against the genuine defects that were repaired:
re-introduce each defect (reverse-apply its fix commit in /repo's working tree),
run the checks of the properties it breaks, require a VIOLATION, restore.
Nothing is committed in /repo; the working tree is restored after every case."""
import json, subprocess, sys, os
REPO='/repo'
CASES=[
 # (commit, properties expected to alarm, expected rule prefix)
 ('659fa0e',['C17','C03','C05'],'R09'),
 ('d9b4edd',['C06','C01'],'R06'),
 ('8e362d8',['C14'],'R07'),
 ('1a3ec83',['C05','C20'],'R13'),
 ('d074582',['C05'],'R26'),
 ('4dbe7f4',['C03'],'R26'),
 ('ff68d64',['C16','C20'],'R13'),
 ('739e5da',['C20','C14'],'R01'),
 ('fbd49ff',['C20','C14'],'R0'),
 ('b6aac37',['C16'],'R03'),
 ('7524623',['C08'],'R21'),
 ('743ce43',['C15','C20'],'R14'),
 ('d247afc',['C20'],'R15'),
 ('2f0bb4d',['C15','C20'],'R16'),
 ('53bf577',['C20'],'R16'),
 ('c70c12b',['C07'],'R10'),
 ('3c0b511',['C10'],'R23'),
 ('9016315',['C07','C20','C02'],'R16'),
 ('4ba9f80',['C11','C20'],'R16'),
 ('2ba22ea',['C20'],'R16'),
 ('e54c65e',['C02','C20'],'R01'),
 ('eced17a',['C11','C09'],'R48'),
 ('b877043',['C07','C10'],'R41'),
 ('7c7d223',['C15','C20'],'R16'),
 ('0b0e65d',['C20'],'R74'),
 ('1035f39',['C20'],'R74'),
]
def sh(*a, **k): return subprocess.run(a, capture_output=True, text=True, **k)
def main():
    only=set(sys.argv[1:])
    bad=0
    assert sh('git','-C',REPO,'status','--porcelain').stdout.strip()=='', 'repo working tree not clean'
    for commit, props, rule in CASES:
        if only and commit not in only: continue
        diff=sh('git','-C',REPO,'diff',commit+'^',commit).stdout
        r=subprocess.run(['git','-C',REPO,'apply','-R','-'],input=diff,capture_output=True,text=True)
        if r.returncode!=0:
            print(f'{commit}: cannot reverse-apply (later fixes touch the same lines): {r.stderr.strip()[:200]}'); 
            sh('git','-C',REPO,'reset','-q','--hard','HEAD'); continue
        try:
            for p in props:
                out=sh('/verif/check.sh',p,'quick')
                hit=[l for l in out.stdout.splitlines() if l.startswith('  ') and '['+rule in l]
                viol='VIOLATION property='+p in out.stdout
                status='caught' if (out.returncode==1 and viol and hit) else 'MISSED'
                if status=='MISSED': bad+=1
                print(f'{commit} {p}: {status} exit={out.returncode} {hit[0].strip()[:160] if hit else out.stdout[-300:]}')
        finally:
            sh('git','-C',REPO,'reset','-q','--hard','HEAD')
    assert sh('git','-C',REPO,'status','--porcelain').stdout.strip()=='', 'repo not restored'
    sys.exit(1 if bad else 0)
main()
