package rules

import "verif/internal/core"

func stub(name string) Rule { return Rule{Name: name, Run: func(c *core.Ctx) {}} }


func R05() Rule          { return stub("R05") }
func R10() Rule          { return stub("R10") }
func R12() Rule          { return stub("R12") }
func R17() Rule          { return stub("R17") }
func R21() Rule          { return stub("R21") }
func R22() Rule          { return stub("R22") }
func R23() Rule          { return stub("R23") }
func R24() Rule          { return stub("R24") }
func R25() Rule          { return stub("R25") }
func R27() Rule          { return stub("R27") }
func R29() Rule          { return stub("R29") }
