package rules

import "verif/internal/core"

func init() {
	Properties["C19"] = &PropertySpec{
		Modules:     []string{"storage"},
		Rules:       []Rule{R01(nil), R04(), R11(), R13(1, core.PkgGcsemu, core.PkgGcsutil), R14(20, core.PkgGcsemu, core.PkgGcsutil), R15(), R16(5, core.PkgGcsemu, core.PkgGcsutil), R20()},
		Explanation: "wip",
		Assumptions: commonAssumptions,
	}
	Properties["C06"] = &PropertySpec{
		Modules:     []string{"bigtable"},
		Rules:       []Rule{R01(nil), R04(), R02R03(), R06(), R07(), R09(), R13(4, core.PkgBttest), R14(3, core.PkgBttest), R16(5, core.PkgBttest)},
		Explanation: "wip",
		Assumptions: commonAssumptions,
	}
	_ = core.PkgBttest
}
