package rules

import "verif/internal/core"

func init() {
	Properties["C19"] = &PropertySpec{
		Modules:     []string{"storage"},
		Rules:       []Rule{R01(nil, nil), R04()},
		Explanation: "wip",
		Assumptions: commonAssumptions,
	}
	Properties["C06"] = &PropertySpec{
		Modules:     []string{"bigtable"},
		Rules:       []Rule{R01(nil, nil), R04(), R02R03(), R06(), R07(), R09()},
		Explanation: "wip",
		Assumptions: commonAssumptions,
	}
	_ = core.PkgBttest
}
