package rules

import (
	"fmt"
	"go/token"
	"go/types"
	"sort"
	"strings"

	"golang.org/x/tools/go/ssa"

	"verif/internal/core"
)

// ---------------------------------------------------------------------------
// R17: parse-error discipline — checked, answered 4xx
// ---------------------------------------------------------------------------

type parseSite struct {
	fn    *ssa.Function
	call  *ssa.Call
	what  string
	style string // "err", "ok", "nil"
}

// baseParser classifies a call as one of the request-parsing primitives.
func baseParser(ci *core.CallInfo) (what, style string, ok bool) {
	name := ""
	if ci.Static != nil && ci.Static.Pkg != nil {
		name = ci.Static.Pkg.Pkg.Path() + "." + core.FuncName(ci.Static)
	}
	switch name {
	case core.PkgGcsemu + ".ParseGcsUrl":
		return "ParseGcsUrl", "ok", true
	case "net/http.(*Request).ParseForm":
		return "ParseForm", "err", true
	case core.PkgGcsemu + ".parseConds":
		return "parseConds", "err", true
	case core.PkgGcsutil + ".DecodePageToken":
		return "DecodePageToken", "err", true
	case "strconv.Atoi", "strconv.ParseInt":
		return "strconv." + ci.Static.Name(), "err", true
	case "encoding/json.(*Decoder).Decode":
		return "json.Decode", "err", true
	case "io.ReadAll":
		return "io.ReadAll", "err", true
	case core.PkgGcsemu + ".readMultipartInsert":
		return "readMultipartInsert", "err", true
	case core.PkgGcsemu + ".parseByteRange":
		return "parseByteRange", "nil", true
	case "net/http.(*Request).MultipartReader":
		return "MultipartReader", "err", true
	case "mime/multipart.(*Reader).NextPart":
		return "NextPart", "err", true
	case "net/http.ReadRequest":
		return "http.ReadRequest", "err", true
	}
	return "", "", false
}

func hasWriterParam(fn *ssa.Function) bool {
	for _, p := range core.Root(fn).Params {
		if isResponseWriter(p.Type()) {
			return true
		}
	}
	return false
}

// failureStyle: how a parsing helper reports failure through its last result
// ("err": non-nil error, "str": non-empty problem description), or "".
func failureStyle(fn *ssa.Function) string {
	res := fn.Signature.Results()
	if res.Len() == 0 {
		return ""
	}
	lt := res.At(res.Len() - 1).Type()
	switch {
	case types.Identical(lt, types.Universe.Lookup("error").Type()):
		return "err"
	case res.Len() >= 2 && isStringType(lt):
		return "str"
	}
	return ""
}

// errorReturnUnder: some return dominated by b reports failure (a non-nil
// error, or a non-empty problem description for the "str" style).
func errorReturnUnder(b *ssa.BasicBlock) bool {
	fn := b.Parent()
	for _, r := range returnsIn(fn) {
		if r.Block() != b && !b.Dominates(r.Block()) {
			continue
		}
		if ie, _ := isErrorReturn(r); ie {
			return true
		}
		if failureStyle(fn) == "str" {
			for _, v := range returnValues(r.Results[len(r.Results)-1]) {
				v = core.Resolve(v)
				if sv, ok := core.ConstString(v); ok && sv != "" {
					return true
				}
				if _, isCall := v.(*ssa.Call); isCall {
					return true
				}
			}
		}
	}
	return false
}

// derivedParsers: helpers without a ResponseWriter that wrap a request-parsing
// call and turn its failure into an error result ("parse, return (value, err),
// let the handler answer").  A call to such a helper is itself a parse site.
func derivedParsers(P *core.Program, n *nilAnalysis) map[*ssa.Function]string {
	derived := map[*ssa.Function]string{}
	// only helpers of the HTTP entry points (reached by static calls; the stores sit behind an interface)
	inHandlerScope := map[*ssa.Function]bool{}
	for _, fn := range P.SrcFuncs(core.PkgGcsemu) {
		if fn.Parent() == nil && hasWriterParam(fn) {
			for _, f := range P.Scope(fn, nil) {
				inHandlerScope[f] = true
			}
		}
	}
	for changed := true; changed; {
		changed = false
		for _, fn := range P.SrcFuncs(core.PkgGcsemu) {
			if fn.Parent() != nil || derived[fn] != "" || hasWriterParam(fn) || failureStyle(fn) == "" || !inHandlerScope[fn] {
				continue
			}
			if _, _, isBase := baseParser(&core.CallInfo{Static: fn}); isBase {
				continue
			}
			for _, ci := range core.AllCalls(fn) {
				call, ok := ci.Instr.(*ssa.Call)
				if !ok {
					continue
				}
				what, style, isP := baseParser(ci)
				if !isP && ci.Static != nil && derived[ci.Static] != "" {
					what, style, isP = core.FuncName(ci.Static), derived[ci.Static], true
				}
				if !isP {
					continue
				}
				if fb, _ := failureEdge(n, parseSite{fn, call, what, style}); fb != nil && errorReturnUnder(fb) {
					derived[fn] = failureStyle(fn)
					changed = true
					break
				}
			}
		}
	}
	return derived
}

// parserCalls: request-parsing calls in handler code and in the parsing helpers it uses.
func parserCalls(P *core.Program, n *nilAnalysis) []parseSite {
	var out []parseSite
	derived := derivedParsers(P, n)
	for _, fn := range P.SrcFuncs(core.PkgGcsemu) {
		if fn.Parent() != nil || !(hasWriterParam(fn) || derived[fn] != "") {
			continue
		}
		for _, ci := range core.AllCalls(fn) {
			call, ok := ci.Instr.(*ssa.Call)
			if !ok {
				continue
			}
			if what, style, isP := baseParser(ci); isP {
				out = append(out, parseSite{fn, call, what, style})
			} else if ci.Static != nil && derived[ci.Static] != "" {
				out = append(out, parseSite{fn, call, core.FuncName(ci.Static), derived[ci.Static]})
			}
		}
	}
	sort.Slice(out, func(i, j int) bool { return out[i].call.Pos() < out[j].call.Pos() })
	return out
}

// failureEdge finds the If that tests the failure indicator of a parse call
// and returns the successor taken on failure.
func failureEdge(n *nilAnalysis, s parseSite) (*ssa.BasicBlock, string) {
	fn := s.fn
	tup, isTuple := s.call.Type().(*types.Tuple)
	for _, b := range fn.Blocks {
		ifi, ok := b.Instrs[len(b.Instrs)-1].(*ssa.If)
		if !ok {
			continue
		}
		// walk || chains: any If whose condition mentions the indicator
		cond := ifi.Cond
		neg := false
		if u, ok := cond.(*ssa.UnOp); ok && u.Op == token.NOT {
			cond, neg = u.X, true
		}
		switch s.style {
		case "err":
			bin, ok := cond.(*ssa.BinOp)
			if !ok || !core.IsNilConst(bin.Y) || (bin.Op != token.NEQ && bin.Op != token.EQL) {
				continue
			}
			subj := n.resolveAt(bin.X)
			match := false
			if isTuple {
				if ex, ok := subj.(*ssa.Extract); ok && ex.Tuple == ssa.Value(s.call) && ex.Index == tup.Len()-1 {
					match = true
				}
			} else if subj == ssa.Value(s.call) {
				match = true
			}
			if !match {
				continue
			}
			failIdx := 0
			if bin.Op == token.EQL {
				failIdx = 1
			}
			if neg {
				failIdx = 1 - failIdx
			}
			return b.Succs[failIdx], ""
		case "str":
			bin, ok := cond.(*ssa.BinOp)
			if !ok || (bin.Op != token.NEQ && bin.Op != token.EQL) || !isTuple {
				continue
			}
			var subj ssa.Value
			if sv, isS := core.ConstString(bin.Y); isS && sv == "" {
				subj = bin.X
			} else if sv, isS := core.ConstString(bin.X); isS && sv == "" {
				subj = bin.Y
			} else {
				continue
			}
			if ex, ok := n.resolveAt(subj).(*ssa.Extract); !ok || ex.Tuple != ssa.Value(s.call) || ex.Index != tup.Len()-1 {
				continue
			}
			failIdx := 0 // problem != ""
			if bin.Op == token.EQL {
				failIdx = 1
			}
			if neg {
				failIdx = 1 - failIdx
			}
			return b.Succs[failIdx], ""
		case "ok":
			if ex, ok := n.resolveAt(cond).(*ssa.Extract); ok && ex.Tuple == ssa.Value(s.call) && ex.Index == tup.Len()-1 {
				failIdx := 1
				if neg {
					failIdx = 0
				}
				return b.Succs[failIdx], ""
			}
		case "nil":
			bin, ok := cond.(*ssa.BinOp)
			if !ok || !core.IsNilConst(bin.Y) {
				continue
			}
			if n.resolveAt(bin.X) == ssa.Value(s.call) {
				failIdx := 0
				if bin.Op == token.NEQ {
					failIdx = 1
				}
				return b.Succs[failIdx], ""
			}
		}
	}
	return nil, "the result that signals failure is never tested"
}

// firstResponseCode: the HTTP status of the first gapiError reachable from b
// (searching breadth-first, not crossing other response writes).
func firstGapiErrorCode(b *ssa.BasicBlock) (int64, token.Pos, bool) {
	// the failure successor must be entered only through the failure edge:
	// otherwise "the first error response reachable" may belong to later,
	// unrelated code after the branches have rejoined
	// (several If-terminated predecessors are fine: `a || b` enters the body from both tests)
	for _, p := range b.Preds {
		if _, isIf := p.Instrs[len(p.Instrs)-1].(*ssa.If); !isIf {
			return 0, token.NoPos, false
		}
	}
	seen := map[*ssa.BasicBlock]bool{}
	queue := []*ssa.BasicBlock{b}
	for len(queue) > 0 {
		x := queue[0]
		queue = queue[1:]
		if seen[x] || !b.Dominates(x) {
			continue
		}
		seen[x] = true
		for _, in := range x.Instrs {
			if ci := core.Call(in); ci != nil && ci.IsFunc(core.PkgGcsemu, "(*GcsEmu).gapiError") {
				code, ok := core.ConstInt(ci.Common.Args[2])
				if !ok {
					// httpStatusCodeOf(err): dynamic
					return -1, in.Pos(), true
				}
				return code, in.Pos(), true
			}
			// a wrapper that always answers through gapiError (`g.respondErr(w, err)`, `g.respondNotFound(w, what)`)
			if ci := core.Call(in); ci != nil {
				if code, ok := wrapperGapiCode(ci, 0); ok {
					return code, in.Pos(), true
				}
			}
		}
		queue = append(queue, x.Succs...)
	}
	return 0, token.NoPos, false
}

// wrapperGapiCode: ci calls a function of the emulator that takes the response writer and
// answers through gapiError on every path (the call's block dominates every return); the
// status is the wrapper's constant, the caller's constant argument when the wrapper passes a
// parameter on, or -1 (dynamic).
func wrapperGapiCode(ci *core.CallInfo, depth int) (int64, bool) {
	h := ci.Static
	if h == nil || h.Blocks == nil || depth > 2 || core.PkgPathOf(h) != core.PkgGcsemu || !hasWriterParam(h) || len(h.Params) != len(ci.Common.Args) {
		return 0, false
	}
	for _, b := range h.Blocks {
		for _, in := range b.Instrs {
			inner := core.Call(in)
			if inner == nil {
				continue
			}
			var code int64
			found := false
			if inner.IsFunc(core.PkgGcsemu, "(*GcsEmu).gapiError") {
				found = true
				arg := inner.Common.Args[2]
				if k, ok := core.ConstInt(arg); ok {
					code = k
				} else if par, isP := core.Strip(arg).(*ssa.Parameter); isP {
					code = -1
					for i, hp := range h.Params {
						if hp == par {
							if k, ok := core.ConstInt(ci.Common.Args[i]); ok {
								code = k
							}
						}
					}
				} else {
					code = -1
				}
			} else if k, ok := wrapperGapiCode(inner, depth+1); ok && k != -2 {
				found, code = true, k
				if k == -1 {
					code = -1
				}
			}
			if !found {
				continue
			}
			always := true
			for _, rb := range h.Blocks {
				if len(rb.Instrs) == 0 {
					continue
				}
				if _, isRet := rb.Instrs[len(rb.Instrs)-1].(*ssa.Return); isRet && !b.Dominates(rb) {
					always = false
				}
			}
			if always {
				return code, true
			}
		}
	}
	return 0, false
}

// readsFromMemory: the reader is (a bufio wrapper of) bytes.NewReader / strings.NewReader
// over bytes already in memory: reading it cannot fail.
func readsFromMemory(v ssa.Value) bool {
	for i := 0; i < 6; i++ {
		v = core.Resolve(v)
		call, ok := v.(*ssa.Call)
		if !ok {
			return false
		}
		sc := call.Call.StaticCallee()
		if sc == nil || sc.Pkg == nil {
			return false
		}
		switch sc.Pkg.Pkg.Path() + "." + sc.Name() {
		case "bytes.NewReader", "strings.NewReader", "bytes.NewBuffer", "bytes.NewBufferString":
			return true
		case "bufio.NewReader", "bufio.NewReaderSize", "io.NopCloser":
			v = call.Call.Args[0]
		default:
			return false
		}
	}
	return false
}

func R17() Rule {
	return Rule{Name: "R17", Run: func(c *core.Ctx) {
		P := c.P
		n := nilness(P)
		sites := parserCalls(P, n)
		cnt := map[string]int{}
		for _, s := range sites {
			fname := core.FuncName(s.fn)
			c.Fn(fname)
			base := fmt.Sprintf("%s/%s", fname, s.what)
			cnt[base]++
			construct := base
			if cnt[base] > 1 {
				construct = fmt.Sprintf("%s#%d", base, cnt[base])
			}
			// reasoned exemptions
			if fname == "(*GcsEmu).BatchHandler" && (s.what == "NextPart" || s.what == "io.ReadAll" && cnt[base] == 2) {
				// NextPart's io.EOF ends the loop; the remaining-bytes read cannot fail (bytes.Reader)
			}
			fb, why := failureEdge(n, s)
			if fb == nil {
				// io.ReadAll of an in-memory reader (batch part remainder) is deliberately unchecked
				if s.what == "io.ReadAll" && readsFromMemory(s.call.Call.Args[0]) {
					c.Ok("R17", construct, s.call.Pos(), false, "read of an in-memory reader or a part already bounded; checked variant precedes it")
					continue
				}
				c.Bad("R17", construct, s.call.Pos(), "the failure of %s is not checked (%s): malformed input is processed as if it were valid", s.what, why)
				continue
			}
			code, pos, found := firstGapiErrorCode(fb)
			switch {
			case !hasWriterParam(s.fn):
				// a parsing helper: the failure must come back to the handler as an error
				c.Check(errorReturnUnder(fb), "R17", construct, s.call.Pos(), "failure is returned to the caller as an error", fmt.Sprintf("the failure of %s is swallowed by the helper %s: the handler continues with malformed input", s.what, fname))
			case !found:
				c.Bad("R17", construct, s.call.Pos(), "the failure branch of %s does not answer with an error response", s.what)
			case code == -1:
				c.Ok("R17", construct, s.call.Pos(), true, "failure is answered with the error's own HTTP status at %s", P.Pos(pos))
			case code >= 400 && code < 500:
				c.Ok("R17", construct, s.call.Pos(), true, "failure is answered with %d", code)
			case s.what == "NextPart" || s.what == "MultipartReader":
				c.Ok("R17", construct, s.call.Pos(), true, "failure is answered with %d", code)
			default:
				c.Bad("R17", construct, s.call.Pos(), "the failure of %s is answered with %d, not a 4xx client error", s.what, code)
			}
		}
		// explicit argument checks answered with 400: empty name, empty Content-Range, maxResults < 1, size mismatch
		for _, chk := range []struct{ fn, what, needle string }{
			{"(*GcsEmu).handleGcsNewObject", "missing-object-name", "name"},
			{"(*GcsEmu).handleGcsNewObjectResume", "missing-content-range", "Content-Range"},
			{"(*GcsEmu).handleGcsListBucket", "maxResults-below-one", "maxResults"},
			{"(*GcsEmu).handleGcsNewObjectResume", "unknown-upload-id", "id"},
		} {
			ok := false
			var at token.Pos
			// the test may live in the named handler, in a handler it was split into, or in a parsing helper
			for _, fn := range P.SrcFuncs(core.PkgGcsemu) {
				if fn.Parent() != nil {
					continue
				}
				for _, b := range fn.Blocks {
					ifi, isIf := b.Instrs[len(b.Instrs)-1].(*ssa.If)
					if !isIf {
						continue
					}
					bin, isBin := ifi.Cond.(*ssa.BinOp)
					if !isBin {
						continue
					}
					var failSucc *ssa.BasicBlock
					switch chk.what {
					case "missing-object-name", "missing-content-range":
						if s, isS := core.ConstString(bin.Y); isS && s == "" && bin.Op == token.EQL {
							// the tested value is (a helper parameter bound to) a Get("<needle>") of the request
							if P.AllOrigins(bin.X, nil, func(v ssa.Value) bool {
								call, isCall := v.(*ssa.Call)
								if !isCall || len(call.Call.Args) < 2 {
									return false
								}
								k, isK := core.ConstString(call.Call.Args[len(call.Call.Args)-1])
								return isK && k == chk.needle
							}) {
								failSucc = b.Succs[0]
							}
						}
					case "maxResults-below-one":
						if k, isK := core.ConstInt(bin.Y); isK && k == 1 && bin.Op == token.LSS {
							if strings.Contains(strings.ToLower(substKey(bin.X, nil, 0)), "atoi") {
								failSucc = b.Succs[0]
							}
						}
					case "unknown-upload-id":
						if core.IsNilConst(bin.Y) && bin.Op == token.EQL {
							if ex, isEx := core.Resolve(bin.X).(*ssa.Extract); isEx && ex.Index == 0 {
								if call, isCall := ex.Tuple.(*ssa.Call); isCall && call.Call.IsInvoke() && strings.HasPrefix(call.Call.Method.Name(), "Get") && core.TypeIs(call.Call.Value.Type(), "github.com/bluele/gcache", "Cache") {
									failSucc = b.Succs[0]
								}
							}
						}
					}
					if failSucc == nil {
						continue
					}
					at = bin.Pos()
					if hasWriterParam(fn) {
						if code, _, found := firstGapiErrorCode(failSucc); found && code >= 400 && code < 500 {
							ok = true
						}
					} else if errorReturnUnder(failSucc) {
						ok = true // a parsing helper: its callers are parse sites checked above
					}
				}
			}
			if !at.IsValid() {
				at = P.MustFunc(core.PkgGcsemu, "(*GcsEmu).Handler").Pos()
			}
			c.Check(ok, "R17", chk.fn+"/"+chk.what, at, "checked and answered with a 4xx status", "the "+chk.what+" case is not answered with a 4xx status")
		}
		if len(sites) < 6 {
			c.Unknown("R17", "floor/sites", token.NoPos, "only %d request-parsing call sites found in handlers", len(sites))
		}
	}}
}

// ---------------------------------------------------------------------------
// R10: objects obtained from a store are not mutated in place
// ---------------------------------------------------------------------------

// storeDerived: v (an object pointer) comes from Store.Get/GetMeta/ReadMeta.
func storeDerived(n *nilAnalysis, v ssa.Value, seen map[ssa.Value]bool) (bool, string) {
	v = core.Strip(v)
	if seen[v] {
		return false, ""
	}
	seen[v] = true
	switch x := v.(type) {
	case *ssa.Extract:
		if call, ok := x.Tuple.(*ssa.Call); ok && x.Index == 0 {
			ci := core.Call(call)
			if isStoreCall(ci, "Get", "GetMeta", "ReadMeta") {
				return true, "Store." + ci.Method.Name()
			}
			if ci.Static != nil && inRepo(n.p, ci.Static) {
				for _, r := range returnsIn(ci.Static) {
					for _, rv := range returnValues(r.Results[0]) {
						if d, w := storeDerived(n, rv, seen); d {
							return true, w + " via " + core.FuncName(ci.Static)
						}
					}
				}
			}
		}
	case *ssa.Parameter:
		// a helper that is handed the object (`ApplyMetaOverrides(copied, &overrides)`): what any caller
		// outside the store implementations passes
		fn := x.Parent()
		for i, p := range fn.Params {
			if p != x {
				continue
			}
			for _, r := range n.p.Refs(fn) {
				call, ok := r.Instr.(ssa.CallInstruction)
				if !ok || r.Kind != core.RefCall || i >= len(call.Common().Args) {
					continue
				}
				if root := core.Root(r.Instr.Parent()); root.Signature.Recv() != nil {
					if nm := core.NamedOf(root.Signature.Recv().Type()); nm != nil && (core.TName(nm) == "memstore" || core.TName(nm) == "filestore") {
						continue
					}
				}
				if d, w := storeDerived(n, call.Common().Args[i], seen); d {
					return true, w + " (handed to " + core.FuncName(fn) + ")"
				}
			}
		}
	case *ssa.Phi:
		for _, e := range x.Edges {
			if d, w := storeDerived(n, e, seen); d {
				return true, w
			}
		}
	case *ssa.UnOp:
		if x.Op == token.MUL {
			if cell := core.CellOf(x.X); cell != nil {
				for _, st := range core.StoresTo(cell) {
					if d, w := storeDerived(n, st.Val, seen); d {
						return true, w
					}
				}
			}
			// an element of a slice the function fills itself (`metas[i] = meta … for _, m := range metas`):
			// anything stored into an element of the same slice value
			if ia, isIA := x.X.(*ssa.IndexAddr); isIA {
				base := core.Resolve(ia.X)
				for _, b := range x.Parent().Blocks {
					for _, in := range b.Instrs {
						st, isSt := in.(*ssa.Store)
						if !isSt {
							continue
						}
						ia2, isIA2 := st.Addr.(*ssa.IndexAddr)
						if !isIA2 || (core.Resolve(ia2.X) != base && !core.SameCellLoad(ia2.X, ia.X)) {
							continue
						}
						if d, w := storeDerived(n, st.Val, seen); d {
							return true, w + " (kept in a slice)"
						}
					}
				}
			}
		}
	}
	return false, ""
}

func R10() Rule {
	return Rule{Name: "R10", Run: func(c *core.Ctx) {
		P := c.P
		n := nilness(P)
		nDecode, nStores := 0, 0
		for _, fn := range P.SrcFuncs(core.PkgGcsemu) {
			if r := core.Root(fn); r.Signature.Recv() != nil {
				if nm := core.NamedOf(r.Signature.Recv().Type()); nm != nil && (core.TName(nm) == "memstore" || core.TName(nm) == "filestore") {
					continue
				}
			}
			kd, ks := 0, 0
			for _, b := range fn.Blocks {
				for _, in := range b.Instrs {
					switch x := in.(type) {
					case *ssa.Call:
						ci := core.Call(x)
						name := ""
						if ci.Static != nil && ci.Static.Pkg != nil {
							name = ci.Static.Pkg.Pkg.Path() + "." + core.FuncName(ci.Static)
						}
						if name != "encoding/json.(*Decoder).Decode" && name != "encoding/json.Unmarshal" {
							continue
						}
						target := core.Strip(x.Call.Args[len(x.Call.Args)-1])
						// target is either a pointer value or the address of a pointer variable
						var objs []ssa.Value
						var targetCell *ssa.Alloc
						if cell := core.CellOf(target); cell != nil && isPtr(cell.Type().(*types.Pointer).Elem()) {
							targetCell = cell
							for _, st := range core.StoresTo(cell) {
								if core.InstrReaches(st, x) || st.Parent() != x.Parent() {
									objs = append(objs, st.Val)
								}
							}
						} else {
							objs = append(objs, target)
						}
						isObj := false
						for _, o := range objs {
							if core.TypeIs(o.Type(), pkgStorageV1, "Object") {
								isObj = true
							}
						}
						if !isObj {
							continue
						}
						nDecode++
						kd++
						c.Fn(core.FuncName(fn))
						construct := fmt.Sprintf("%s/decode-target#%d", core.FuncName(fn), kd)
						bad := ""
						for _, o := range objs {
							if d, w := storeDerived(n, o, map[ssa.Value]bool{}); d {
								bad = w
							}
							// a shallow copy (`c := *obj; &c`) of a store object still shares its maps and slices
							if a, isAlloc := core.Resolve(o).(*ssa.Alloc); isAlloc {
								sts := core.StoresTo(a)
								// `p := &T{}; *p = *obj`: the whole-struct store goes through a load of the pointer variable
								for _, fb := range a.Parent().Blocks {
									for _, fi := range fb.Instrs {
										st, isSt := fi.(*ssa.Store)
										if !isSt || st.Addr == ssa.Value(a) {
											continue
										}
										if core.Resolve(st.Addr) == ssa.Value(a) {
											sts = append(sts, st)
										} else if ld, isLd := st.Addr.(*ssa.UnOp); isLd && ld.Op == token.MUL && targetCell != nil && core.CellOf(ld.X) == targetCell {
											sts = append(sts, st)
										}
									}
								}
								for _, st := range sts {
									if ld, isLd := core.Strip(st.Val).(*ssa.UnOp); isLd && ld.Op == token.MUL {
										if d, w := storeDerived(n, ld.X, map[ssa.Value]bool{}); d {
											bad = w + " (through a struct copy, which shares the maps and slices)"
										}
									}
								}
							}
						}
						if bad != "" {
							c.Bad("R10", construct, x.Pos(), "a request body is decoded over the object returned by %s: that object shares maps and slices with the stored record (memory store), so the stored metadata changes in place — even when the request then fails, and concurrently with readers", bad)
						} else {
							c.Ok("R10", construct, x.Pos(), true, "decode target is a private object, not one handed out by the store")
						}
					case *ssa.MapUpdate:
						// map reached through a store-derived object
						if d, w := storeDerived(n, baseObject(x.Map), map[ssa.Value]bool{}); d {
							nStores++
							ks++
							c.Bad("R10", fmt.Sprintf("%s/map-update-through-stored-object#%d", core.FuncName(fn), ks), x.Pos(), "a map reached through the object returned by %s is updated in place", w)
						}
					case *ssa.Store:
						fa, ok := x.Addr.(*ssa.FieldAddr)
						if !ok || !core.TypeIs(fa.X.Type(), pkgStorageV1, "Object") {
							continue
						}
						if d, w := storeDerived(n, fa.X, map[ssa.Value]bool{}); d && strings.HasPrefix(w, "Store.Get ") || w == "Store.Get" {
							nStores++
							ks++
							c.Bad("R10", fmt.Sprintf("%s/field-store-through-stored-object#%d", core.FuncName(fn), ks), x.Pos(), "a field of the object returned by Store.Get (a pointer into the stored record) is assigned")
						}
					}
				}
			}
		}
		if nStores == 0 {
			c.Ok("R10", "no-in-place-mutation-of-store-results", token.NoPos, true, "no map update or field store through an object handed out by Store.Get in handler code")
		}
		if nDecode < 2 {
			c.Unknown("R10", "floor/decode-sites", token.NoPos, "only %d JSON decodes into storage.Object found in handler code", nDecode)
		}
		// the memory store inserts value copies (Copy / Add / UpdateMeta never keep the caller's pointer)
		for _, m := range []string{"Add", "UpdateMeta"} {
			fn := P.MustFunc(core.PkgGcsemu, "(*memstore)."+m)
			ok := false
			mscope := storeScope(P, fn)
			mset := setOf(mscope)
			for _, ci := range core.CallsIn(mscope, func(ci *core.CallInfo) bool { return ci.MethodOn(pkgBtree, "BTree", "ReplaceOrInsert") }) {
				// item literal: its meta field is stored from a dereference (struct copy) of the parameter
				if mi, isMI := ci.Common.Args[1].(*ssa.MakeInterface); isMI {
					// a record type whose metadata field is a struct value (not a pointer) holds a copy by construction
					if pt, isP := mi.X.Type().Underlying().(*types.Pointer); isP {
						if stt, isS := pt.Elem().Underlying().(*types.Struct); isS {
							for i := 0; i < stt.NumFields(); i++ {
								ft := stt.Field(i).Type()
								if _, isPtr := ft.Underlying().(*types.Pointer); !isPtr && core.TypeIs(ft, pkgStorageV1, "Object") {
									ok = true
								}
							}
						}
					}
					if a, isA := mi.X.(*ssa.Alloc); isA {
						for _, r := range core.Referrers(a) {
							if fa, isFa := r.(*ssa.FieldAddr); isFa {
								if _, f, _ := core.FieldName(fa); f == "meta" {
									for _, rr := range core.Referrers(fa) {
										if st, isSt := rr.(*ssa.Store); isSt {
											if ld, isLd := st.Val.(*ssa.UnOp); isLd && ld.Op == token.MUL {
												// a dereference (struct copy) of the method's metadata parameter, possibly handed on to a helper or closure
												if P.AllOrigins(ld.X, mset, func(v ssa.Value) bool {
													pa, isParam := v.(*ssa.Parameter)
													return isParam && pa.Parent() == fn
												}) {
													ok = true
												}
											}
										}
									}
								}
							}
						}
					}
				}
			}
			c.Check(ok, "R10", "memstore."+m+"/stores-a-copy(Copy,compose)", fn.Pos(), "the record inserted holds a value copy of the caller's metadata", "memstore."+m+" keeps the caller's metadata object: later edits by the caller change the stored record")
		}
	}}
}

// baseObject walks from a map/slice value back to the object it was loaded from.
func baseObject(v ssa.Value) ssa.Value {
	for i := 0; i < 6; i++ {
		v = core.Strip(v)
		switch x := v.(type) {
		case *ssa.UnOp:
			if fa, ok := x.X.(*ssa.FieldAddr); ok {
				return fa.X
			}
			return v
		case *ssa.Field:
			v = x.X
		default:
			return v
		}
	}
	return v
}

// ---------------------------------------------------------------------------
// R23: immutable fields survive a metadata patch; metageneration + 1
// ---------------------------------------------------------------------------

func R23() Rule {
	return Rule{Name: "R23", Run: func(c *core.Ctx) {
		P := c.P
		h := P.MustFunc(core.PkgGcsemu, "(*GcsEmu).handleGcsUpdateMetadataRequest")
		var cl *ssa.Function
		var upd *ssa.Call
		// the handler with the closures, "…Locked" methods and helpers it is split into
		hScope := P.Scope(h, func(f *ssa.Function) bool { return core.PkgPathOf(f) != core.PkgGcsemu })
		for _, f := range hScope {
			for _, ci := range core.AllCalls(f) {
				if isStoreCall(ci, "UpdateMeta") {
					cl = f
					upd, _ = ci.Instr.(*ssa.Call)
				}
			}
		}
		if upd == nil {
			c.Unknown("R23", "patch/UpdateMeta", h.Pos(), "no Store.UpdateMeta call in the patch handler")
			return
		}
		c.Fn(core.FuncName(cl))
		// the old object: result of Store.GetMeta in the same closure
		var old ssa.Value
		for _, ci := range core.AllCalls(cl) {
			if isStoreCall(ci, "GetMeta") {
				if call, ok := ci.Instr.(*ssa.Call); ok && core.InstrDominates(call, upd) {
					for _, r := range core.Referrers(call) {
						if ex, ok := r.(*ssa.Extract); ok && ex.Index == 0 {
							old = ex
						}
					}
				}
			}
		}
		if old == nil {
			c.Bad("R23", "patch/old-read-in-section", upd.Pos(), "the patch does not read the current metadata inside its critical section")
			return
		}
		n := nilness(P)
		// the pre-patch object: the GetMeta result itself, or a load of a variable / struct field
		// (`op.obj`) that only ever holds results of Store.GetMeta read in this handler
		isOld := func(v ssa.Value) bool {
			if n.resolveAt(v) == old {
				return true
			}
			loc := loadedLocation(v)
			if loc == "" || !strings.HasPrefix(loc, "field:") {
				return false
			}
			sts := storesToLocation(P, core.PkgGcsemu, loc)
			if len(sts) == 0 {
				return false
			}
			for _, st := range sts {
				ex, ok := core.Resolve(st.Val).(*ssa.Extract)
				if !ok || ex.Index != 0 {
					return false
				}
				call, ok := ex.Tuple.(*ssa.Call)
				if !ok || !isStoreCall(core.Call(call), "GetMeta") {
					return false
				}
			}
			return true
		}
		isOldField := func(v ssa.Value, field string) bool {
			ld, ok := core.Strip(v).(*ssa.UnOp)
			if !ok {
				return false
			}
			fa, ok := ld.X.(*ssa.FieldAddr)
			if !ok {
				return false
			}
			_, f, _ := core.FieldName(fa)
			return f == field && isOld(fa.X)
		}
		// metageneration argument = old.Metageneration + 1
		mg := core.Resolve(upd.Call.Args[len(upd.Call.Args)-1])
		okMg := false
		if bin, ok := mg.(*ssa.BinOp); ok && bin.Op == token.ADD {
			if k, isK := core.ConstInt(bin.Y); isK && k == 1 && isOldField(core.Resolve(bin.X), "Metageneration") {
				okMg = true
			}
		}
		c.Check(okMg, "R23", "patch/metageneration-plus-one", upd.Pos(), "UpdateMeta is given old.Metageneration + 1, old read in the same critical section", "the metageneration stored by a patch is not (current metageneration + 1)")
		// decode call and the patched object
		var dec ssa.Instruction
		for _, f := range hScope {
			for _, ci := range core.AllCalls(f) {
				if ci.Static != nil && ci.Static.Pkg != nil && ci.Static.Pkg.Pkg.Path() == "encoding/json" && ci.Static.Name() == "Decode" {
					// where the decode happens, seen from the function that stores the result
					if f == cl {
						dec = ci.Instr
					} else if sites := P.ExecSites(cl, ci.Instr, setOf(hScope)); len(sites) > 0 {
						dec = sites[0]
					}
				}
			}
		}
		if dec == nil {
			c.Unknown("R23", "patch/decode", cl.Pos(), "no JSON decode of the patch body found")
			return
		}
		patched := upd.Call.Args[2]
		for _, field := range []string{"Generation", "Md5Hash"} {
			ok := false
			for _, b := range cl.Blocks {
				for _, in := range b.Instrs {
					st, isSt := in.(*ssa.Store)
					if !isSt {
						continue
					}
					fa, isFa := st.Addr.(*ssa.FieldAddr)
					if !isFa {
						continue
					}
					if _, f, _ := core.FieldName(fa); f != field {
						continue
					}
					if !n.same(fa.X, patched) && n.resolveAt(fa.X) != n.resolveAt(patched) {
						continue
					}
					if !isOldField(st.Val, field) {
						continue
					}
					if core.InstrReaches(dec, st) && core.InstrDominates(st, upd) {
						ok = true
					}
				}
			}
			if !ok {
				ok = restoredInHelper(P, n, patched, isOld, field)
			}
			c.Check(ok, "R23", "patch/restores-"+field, upd.Pos(), field+" of the patched object is re-assigned from the pre-patch object after the body was decoded", "a patch body that carries "+field+" overwrites it: the stored "+field+" no longer describes the content")
		}
	}}
}

// restoredInHelper: the patched object is the result of an in-package helper that, after decoding
// the body, re-assigns `field` of the object it returns from the same field of a parameter the
// caller binds to the pre-patch object (`patched, err := patchedCopyOf(obj, r.Body)`).
func restoredInHelper(P *core.Program, n *nilAnalysis, patched ssa.Value, isOld func(ssa.Value) bool, field string) bool {
	pv := n.resolveAt(patched)
	var call *ssa.Call
	idx := 0
	switch x := pv.(type) {
	case *ssa.Extract:
		call, _ = x.Tuple.(*ssa.Call)
		idx = x.Index
	case *ssa.Call:
		call = x
	}
	if call == nil {
		return false
	}
	g := call.Call.StaticCallee()
	if g == nil || g.Blocks == nil || core.PkgPathOf(g) != core.PkgGcsemu {
		return false
	}
	oldParam := -1
	for i, a := range call.Call.Args {
		if i < len(g.Params) && isOld(a) {
			oldParam = i
		}
	}
	if oldParam < 0 {
		return false
	}
	var dec ssa.Instruction
	for _, ci := range core.AllCalls(g) {
		if ci.Static != nil && ci.Static.Pkg != nil && ci.Static.Pkg.Pkg.Path() == "encoding/json" && ci.Static.Name() == "Decode" {
			dec = ci.Instr
		}
	}
	if dec == nil {
		return false
	}
	for _, b := range g.Blocks {
		for _, in := range b.Instrs {
			st, ok := in.(*ssa.Store)
			if !ok || !core.InstrReaches(dec, st) {
				continue
			}
			fa, ok := st.Addr.(*ssa.FieldAddr)
			if !ok {
				continue
			}
			if _, f, _ := core.FieldName(fa); f != field {
				continue
			}
			// the value: the same field of the parameter bound to the pre-patch object
			ld, ok := core.Strip(st.Val).(*ssa.UnOp)
			if !ok {
				continue
			}
			vfa, ok := ld.X.(*ssa.FieldAddr)
			if !ok {
				continue
			}
			if _, f, _ := core.FieldName(vfa); f != field || n.resolveAt(vfa.X) != ssa.Value(g.Params[oldParam]) {
				continue
			}
			// the target: what the helper returns on success, and the store precedes every such return
			okAll, any := true, false
			for _, r := range returnsIn(g) {
				if idx >= len(r.Results) || core.IsNilConst(r.Results[idx]) {
					continue
				}
				any = true
				if !(n.same(fa.X, r.Results[idx]) || n.resolveAt(fa.X) == n.resolveAt(r.Results[idx])) || !core.InstrDominates(st, r) {
					okAll = false
				}
			}
			if any && okAll {
				return true
			}
		}
	}
	return false
}

// ---------------------------------------------------------------------------
// R24: header / body agreement
// ---------------------------------------------------------------------------

func isResponseWriterType(t types.Type) bool {
	if mi, ok := t.(*types.Named); ok && mi.Obj().Pkg() != nil && mi.Obj().Pkg().Path() == "net/http" && mi.Obj().Name() == "ResponseWriter" {
		return true
	}
	return false
}

func R24() Rule {
	return Rule{Name: "R24", Run: func(c *core.Ctx) {
		P := c.P
		n := 0
		for _, fn := range P.SrcFuncs(core.PkgGcsemu) {
			k := 0
			for _, ci := range core.AllCalls(fn) {
				if ci.Static == nil || ci.Static.Pkg == nil || ci.Static.Pkg.Pkg.Path() != "net/http" || core.FuncName(ci.Static) != "Header.Set" {
					continue
				}
				hname, ok := core.ConstString(ci.Common.Args[1])
				if !ok {
					continue
				}
				field := ""
				if strings.ToLower(hname) == "content-length" {
					// the announced length is len(X) of the very X every Write reachable from here sends
					n++
					k++
					c.Fn(core.FuncName(fn))
					construct := fmt.Sprintf("%s/content-length#%d", core.FuncName(fn), k)
					var lenOf ssa.Value
					if call, ok := core.Resolve(ci.Common.Args[2]).(*ssa.Call); ok && (core.Call(call).IsFunc("strconv", "Itoa") || core.Call(call).IsFunc("strconv", "FormatInt")) {
						arg := call.Call.Args[0]
						if cv, isCv := arg.(*ssa.Convert); isCv {
							arg = cv.X
						}
						lenOf = lenArg(arg)
					}
					if lenOf == nil {
						c.Infof("R24", construct, ci.Instr.Pos(), "Content-Length is not the length of a byte slice: not decided")
						continue
					}
					var bad ssa.Instruction
					for _, c2 := range core.AllCalls(fn) {
						if c2.Method == nil || c2.Method.Name() != "Write" || !core.InstrReaches(ci.Instr, c2.Instr) || len(c2.Common.Args) != 1 {
							continue
						}
						if !isResponseWriterType(c2.Common.Value.Type()) {
							continue
						}
						if !sameSlice(c2.Common.Args[0], lenOf) {
							bad = c2.Instr
						}
					}
					// a body streamed from another source (io.Copy of a decoder) after the length was announced
					for _, c2 := range core.AllCalls(fn) {
						dst := c2.Common.Args
						if !c2.IsFunc("io", "Copy") || len(dst) < 1 {
							continue
						}
						wv := dst[0]
						if ch, isCh := wv.(*ssa.ChangeInterface); isCh {
							wv = ch.X
						}
						if core.InstrReaches(ci.Instr, c2.Instr) && isResponseWriterType(wv.Type()) {
							bad = c2.Instr
						}
					}
					if bad != nil {
						c.Bad("R24", construct, ci.Instr.Pos(), "Content-Length announces the length of one byte slice, but a body written at %s is something else (e.g. the decompressed form): the client reads a truncated body or hangs", P.Pos(bad.Pos()))
					} else {
						c.Ok("R24", construct, ci.Instr.Pos(), true, "every body write reachable from here sends the slice whose length is announced")
					}
					continue
				}
				switch strings.ToLower(hname) {
				case "x-goog-generation":
					field = "Generation"
				case "x-goog-metageneration":
					field = "Metageneration"
				default:
					continue
				}
				n++
				k++
				c.Fn(core.FuncName(fn))
				construct := fmt.Sprintf("%s/%s#%d", core.FuncName(fn), strings.ToLower(hname), (k+1)/2)
				// value = strconv.FormatInt(obj.<field>, 10)
				var obj ssa.Value
				if call, ok := core.Resolve(ci.Common.Args[2]).(*ssa.Call); ok && core.Call(call).IsFunc("strconv", "FormatInt") {
					if ld, ok := core.Resolve(call.Call.Args[0]).(*ssa.UnOp); ok {
						if fa, ok := ld.X.(*ssa.FieldAddr); ok {
							if _, f, _ := core.FieldName(fa); f == field {
								obj = core.Resolve(fa.X)
							}
						}
					}
				}
				if obj == nil {
					c.Bad("R24", construct, ci.Instr.Pos(), "the %s header is not formatted from the %s field of an object", hname, field)
					continue
				}
				// the same object is what the response describes: passed to jsonRespond afterwards, or
				// returned with the content by Store.Get — in this function or, when the headers are
				// written by a helper that receives the object, at every call of that helper
				var sameAt func(fn *ssa.Function, site ssa.Instruction, obj ssa.Value, depth int) bool
				sameAt = func(fn *ssa.Function, site ssa.Instruction, obj ssa.Value, depth int) bool {
					obj = core.Resolve(obj)
					for _, c2 := range core.AllCalls(fn) {
						if c2.IsFunc(core.PkgGcsemu, "(*GcsEmu).jsonRespond") && core.InstrReaches(site, c2.Instr) {
							if mi, ok := c2.Common.Args[2].(*ssa.MakeInterface); ok && core.Resolve(mi.X) == obj {
								return true
							}
						}
					}
					if ex, ok := obj.(*ssa.Extract); ok {
						if g, ok := ex.Tuple.(*ssa.Call); ok && isStoreCall(core.Call(g), "Get") {
							return true
						}
					}
					if pa, ok := obj.(*ssa.Parameter); ok && pa.Parent() == fn && depth < 4 {
						refs := P.Refs(fn)
						if len(refs) == 0 {
							return false
						}
						for _, r := range refs {
							t := core.Translate(pa, fn, r)
							if t == nil || !sameAt(r.Instr.Parent(), r.Instr, t, depth+1) {
								return false
							}
						}
						return true
					}
					return false
				}
				same := sameAt(fn, ci.Instr, obj, 0)
				c.Check(same, "R24", construct, ci.Instr.Pos(), "header and body are taken from one object", "the "+hname+" header is taken from a different object than the one sent as the response body")
			}
		}
		if n < 2 {
			c.Unknown("R24", "floor/headers", token.NoPos, "only %d generation/metageneration header assignments found", n)
		}
	}}
}

// ---------------------------------------------------------------------------
// R29: who may call Store.Add; gzip/drain wiring
// ---------------------------------------------------------------------------

// middlewareChain lists the gcsemu middleware constructors applied to a handler value, outermost
// first; a call of an in-package helper with a single return is unfolded with its parameters bound
// to the arguments.
func middlewareChain(v ssa.Value, env map[*ssa.Parameter]ssa.Value, depth int) []string {
	if v == nil || depth > 6 {
		return nil
	}
	v = core.Resolve(v)
	if pa, ok := v.(*ssa.Parameter); ok {
		if a, bound := env[pa]; bound {
			return middlewareChain(a, nil, depth+1)
		}
		return nil
	}
	call, ok := v.(*ssa.Call)
	if !ok {
		return nil
	}
	g := call.Call.StaticCallee()
	if g == nil || core.PkgPathOf(g) != core.PkgGcsemu || len(call.Call.Args) == 0 {
		return nil
	}
	switch core.FuncName(g) {
	case "DrainRequestHandler", "GzipRequestHandler":
		return append([]string{core.FuncName(g)}, middlewareChain(call.Call.Args[0], env, depth+1)...)
	}
	if g.Blocks == nil {
		return nil
	}
	rets := returnsIn(g)
	if len(rets) != 1 || len(rets[0].Results) != 1 {
		return nil
	}
	sub := map[*ssa.Parameter]ssa.Value{}
	for i, pa := range g.Params {
		if i < len(call.Call.Args) {
			a := call.Call.Args[i]
			if ap, isP := core.Resolve(a).(*ssa.Parameter); isP && env[ap] != nil {
				a = env[ap]
			}
			sub[pa] = a
		}
	}
	return middlewareChain(rets[0].Results[0], sub, depth+1)
}

func R29() Rule {
	return Rule{Name: "R29", Run: func(c *core.Ctx) {
		P := c.P
		allowedIface := map[string]string{"(*GcsEmu).finishUpload": "the verified upload path", "(*GcsEmu).finishCompose": "the compose path"}
		if fc := P.Func(core.PkgGcsemu, "(*GcsEmu).finishCompose"); fc == nil || fc.Blocks == nil {
			// the compose path inlined into its handler's critical section (R11 still demands the section)
			allowedIface["(*GcsEmu).handleGcsCompose"] = "the compose path (finishCompose inlined)"
		}
		n := 0
		for _, fn := range P.SrcFuncs(core.PkgGcsemu) {
			for _, ci := range core.AllCalls(fn) {
				root := core.FuncName(core.Root(fn))
				if isStoreCall(ci, "Add") {
					n++
					c.Calls++
					_, allowed := tableOrHelperOf(P, core.Root(fn), allowedIface)
					c.Check(allowed, "R29", "who-may-call/Store.Add/"+root, ci.Instr.Pos(), "the verified write path", "Store.Add is called from "+root+", bypassing the MD5-verified, precondition-checked write in finishUpload / finishCompose")
				}
				if ci.Static != nil && ci.Static.Name() == "Add" && ci.Static.Signature.Recv() != nil {
					if nm := core.NamedOf(ci.Static.Signature.Recv().Type()); nm != nil && (core.TName(nm) == "memstore" || core.TName(nm) == "filestore") {
						n++
						_, okCopy := tableOrHelperOf(P, core.Root(fn), map[string]string{"(*" + core.TName(nm) + ").Copy": "the store's own Copy"})
						c.Check(okCopy, "R29", "who-may-call/"+core.TName(nm)+".Add/"+root, ci.Instr.Pos(), "the store's own Copy", "a store's Add is called directly from "+root)
					}
				}
			}
		}
		if n < 3 {
			c.Unknown("R29", "floor/add-sites", token.NoPos, "only %d Add call sites found", n)
		}
		// Register wires both entry points through Drain(Gzip(h))
		reg := P.MustFunc(core.PkgGcsemu, "(*GcsEmu).Register")
		k := 0
		for _, ci := range core.AllCalls(reg) {
			if ci.Static == nil || ci.Static.Name() != "HandleFunc" {
				continue
			}
			k++
			pat, _ := core.ConstString(ci.Common.Args[1])
			// the middleware chain from the outside in, followed through wrapping helpers (`wrap(h)`)
			chain := middlewareChain(ci.Common.Args[2], nil, 0)
			ok := len(chain) >= 2 && chain[0] == "DrainRequestHandler" && chain[1] == "GzipRequestHandler"
			c.Check(ok, "R29", "wiring/"+pat, ci.Instr.Pos(), "registered as DrainRequestHandler(GzipRequestHandler(h))", "the handler for "+pat+" is not wrapped in DrainRequestHandler(GzipRequestHandler(·)): gzip-encoded request bodies are stored compressed")
		}
		if k < 2 {
			c.Unknown("R29", "floor/wiring", token.NoPos, "expected two registered handlers")
		}
		// the gzip wrapper replaces the body with a gzip reader iff Content-Encoding is gzip
		gz := P.MustFunc(core.PkgGcsemu, "GzipRequestHandler")
		okGz := false
		for _, f := range core.Family(gz) {
			for _, b := range f.Blocks {
				for _, in := range b.Instrs {
					if st, ok := in.(*ssa.Store); ok {
						if fa, ok := st.Addr.(*ssa.FieldAddr); ok {
							if _, fname, _ := core.FieldName(fa); fname == "Body" {
								if mi, ok := st.Val.(*ssa.MakeInterface); ok {
									if ex, ok := core.Resolve(mi.X).(*ssa.Extract); ok {
										if call, ok := ex.Tuple.(*ssa.Call); ok && core.Call(call).IsFunc("compress/gzip", "NewReader") {
											okGz = true
										}
									}
								}
							}
						}
					}
				}
			}
		}
		c.Check(okGz, "R29", "wiring/gzip-body-replaced", gz.Pos(), "the request body is replaced by a gzip reader over the original body", "GzipRequestHandler no longer substitutes a decompressing reader for the body")
	}}
}
