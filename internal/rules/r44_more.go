package rules

import (
	"fmt"
	"go/token"
	"go/types"
	"strings"

	"golang.org/x/tools/go/ssa"

	"verif/internal/core"
)

// releasedBetween: on some path from a to b (same function) the lock is
// released — by a direct Unlock/RUnlock or by a synchronous callee that
// releases and re-takes it (epoch break).
func releasedBetween(la *LockAnalysis, a, b ssa.Instruction, lock string) (ssa.Instruction, bool) {
	fn := a.Parent()
	if fn != b.Parent() {
		return nil, false
	}
	for _, blk := range fn.Blocks {
		for _, in := range blk.Instrs {
			ci := core.Call(in)
			if ci == nil {
				continue
			}
			rel := false
			if op, ok := lockOpOf(ci); ok && op.lock == lock && !op.acq {
				if _, isDefer := in.(*ssa.Defer); !isDefer {
					rel = true
				}
			} else if _, isGo := in.(*ssa.Go); !isGo {
				for _, callee := range la.calleesOf(ci) {
					if la.Breaks[callee][lock] {
						rel = true
					}
				}
			}
			if rel && in != a && in != b && core.InstrReaches(a, in) && core.InstrReaches(in, b) {
				return in, true
			}
		}
	}
	return nil, false
}

// ---------------------------------------------------------------------------
// R44: check-then-act on a guarded map happens under one uninterrupted hold
// ---------------------------------------------------------------------------

// R44: when a function looks a key up in a mutex-guarded map and later inserts
// into / deletes from the same map, the guard is not released in between:
// otherwise two requests can both pass the check and both act (two CreateTable
// of one name both succeed and one table replaces the other; an entry is
// evicted although a new holder took a reference in the gap).
func R44() Rule {
	return Rule{Name: "R44", Run: func(c *core.Ctx) {
		P := c.P
		la := Locks(P)
		n := 0
		var pkgs []string
		for p := range P.SPkgs {
			pkgs = append(pkgs, p)
		}
		for _, pkg := range []string{core.PkgBttest, core.PkgGcsemu, core.PkgGcsutil} {
			if P.SPkgs[pkg] == nil {
				continue
			}
			for _, fn := range P.SrcFuncs(pkg) {
				type acc struct {
					in    ssa.Instruction
					spec  *guardSpec
					write bool
				}
				var accs []acc
				for _, b := range fn.Blocks {
					for _, in := range b.Instrs {
						var m ssa.Value
						write := false
						switch x := in.(type) {
						case *ssa.Lookup:
							m = x.X
						case *ssa.MapUpdate:
							m, write = x.Map, true
						case *ssa.Call:
							if bi, ok := x.Call.Value.(*ssa.Builtin); ok && bi.Name() == "delete" {
								m, write = x.Call.Args[0], true
							}
						}
						if m == nil {
							continue
						}
						if _, isMap := m.Type().Underlying().(*types.Map); !isMap {
							continue
						}
						ld, ok := core.Strip(m).(*ssa.UnOp)
						if !ok {
							continue
						}
						if g := findGuard(ld.X); g != nil && g.kind == gkMap {
							accs = append(accs, acc{in, g, write})
						}
					}
				}
				k := 0
				for _, w := range accs {
					if !w.write {
						continue
					}
					for _, r := range accs {
						if r.write || r.spec != w.spec || !core.InstrReaches(r.in, w.in) {
							continue
						}
						n++
						k++
						c.Fn(core.FuncName(fn))
						construct := fmt.Sprintf("%s/%s.%s/check-then-act#%d", core.FuncName(fn), w.spec.typ, w.spec.field, k)
						if rel, bad := releasedBetween(la, r.in, w.in, w.spec.lock); bad {
							c.Bad("R44", construct, w.in.Pos(), "the lookup at %s and this update of %s.%s are separated by a release of %s at %s: two requests can both pass the check and both act", P.Pos(r.in.Pos()), w.spec.typ, w.spec.field, w.spec.lock, P.Pos(rel.Pos()))
						} else {
							c.Ok("R44", construct, w.in.Pos(), true, "lookup and update under one uninterrupted hold of %s", w.spec.lock)
						}
					}
				}
			}
		}
		_ = pkgs
		if n < 2 {
			c.Unknown("R44", "floor/pairs", token.NoPos, "only %d lookup→update pairs on guarded maps found", n)
		}
	}}
}

// ---------------------------------------------------------------------------
// R46: object locks are never nested
// ---------------------------------------------------------------------------

// R46: the per-object locks are not re-entrant and carry no ordering, so taking
// a second one while holding the first deadlocks (same key: at once; crossing
// keys: under contention) and — inside a batch, whose sub-requests have no
// deadline — wedges the object forever.  No TransientLockMap.Run/Lock may be
// reachable from inside a closure passed to Run.
func R46() Rule {
	return Rule{Name: "R46", Run: func(c *core.Ctx) {
		P := c.P
		n := 0
		for _, fn := range P.SrcFuncs(core.PkgGcsemu) {
			sec, _ := sectionOfClosure(P, fn)
			if sec == nil {
				continue
			}
			n++
			c.Fn(core.FuncName(fn))
			var nested ssa.Instruction
			for _, f := range P.Scope(fn, func(f *ssa.Function) bool { return core.PkgPathOf(f) != core.PkgGcsemu }) {
				for _, ci := range core.AllCalls(f) {
					if ci.MethodOn(core.PkgGcsutil, "TransientLockMap", "Run") || ci.MethodOn(core.PkgGcsutil, "TransientLockMap", "Lock") {
						nested = ci.Instr
					}
				}
			}
			construct := fmt.Sprintf("%s/no-nested-object-lock", core.FuncName(fn))
			if nested != nil {
				c.Bad("R46", construct, nested.Pos(), "a second object lock is taken while the critical section of another is running: the locks are not re-entrant and unordered, so a request naming one object twice hangs and two requests crossing each other deadlock")
			} else {
				c.Ok("R46", construct, fn.Pos(), true, "no object lock is taken inside this critical section")
			}
		}
		if n < 3 {
			c.Unknown("R46", "floor/sections", token.NoPos, "only %d critical sections found", n)
		}
	}}
}

// ---------------------------------------------------------------------------
// R45: data timestamps come from the server's injectable clock
// ---------------------------------------------------------------------------

// R45: the emulator is given its clock (Options.Clock → server.clock); server-assigned cell
// timestamps and garbage-collection cut-offs must be computed from it.  A direct call of
// bigtable.Now / bigtable.Time(time.Now()) in the service code bypasses the injected clock:
// GC then condemns cells by wall-clock age, and server timestamps disagree with the clock the
// embedding test controls.  (The real clock is legitimately read for the *activity stamps*
// lastReadNanos/lastWriteNanos, which are plain int64 nanoseconds, not bigtable.Timestamp.)
func R45() Rule {
	return Rule{Name: "R45", Run: func(c *core.Ctx) {
		P := c.P
		n, clockCalls := 0, 0
		for _, fn := range P.SrcFuncs(core.PkgBttest) {
			k := 0
			for _, ci := range core.AllCalls(fn) {
				// a call through the clock field
				if ci.Static == nil && ci.Method == nil {
					if ld, ok := core.Resolve(ci.Common.Value).(*ssa.UnOp); ok {
						if fa, ok := ld.X.(*ssa.FieldAddr); ok {
							if _, f, _ := core.FieldName(fa); f == "clock" {
								clockCalls++
							}
						}
					}
				}
				if ci.Static == nil || ci.Static.Pkg == nil || ci.Static.Pkg.Pkg.Path() != "cloud.google.com/go/bigtable" {
					continue
				}
				if ci.Static.Name() != "Now" && ci.Static.Name() != "Time" {
					continue
				}
				n++
				k++
				c.Fn(core.FuncName(fn))
				c.Bad("R45", fmt.Sprintf("%s/wall-clock-timestamp#%d", core.FuncName(fn), k), ci.Instr.Pos(), "a bigtable.Timestamp is taken from the wall clock (bigtable.%s) instead of the server's injectable clock: cell timestamps / GC cut-offs no longer follow the clock the server was configured with", ci.Static.Name())
			}
		}
		if n == 0 {
			c.Ok("R45", "timestamps-from-server-clock", token.NoPos, true, "no direct bigtable.Now/Time call in the service; %d reads of the injectable clock", clockCalls)
		}
		if clockCalls < 3 {
			c.Unknown("R45", "floor/clock-reads", token.NoPos, "only %d calls through server.clock found", clockCalls)
		}
	}}
}

// ---------------------------------------------------------------------------
// R47: every single-row write stamps the table's write-activity clock
// ---------------------------------------------------------------------------

// R47: the background collector stands down on tables in active use by looking at
// lastWriteNanos, and a pass clears it; a write RPC that can store a row without
// stamping it (table.write()) is invisible to that test: the pass runs on a table
// that was just written, or the table is never collected again.  In every RPC from
// which updateRow is reachable, a call or defer of (*table).write dominates the path
// to the store.
func R47() Rule {
	return Rule{Name: "R47", Run: func(c *core.Ctx) {
		P := c.P
		stamp := P.MustFunc(core.PkgBttest, "(*table).write")
		upd := P.Func(core.PkgBttest, "(*table).updateRow") // nil when the helper was inlined: the stores are then the backend calls themselves
		// certainly(f): every execution of f stamps (a call or defer of table.write in its entry
		// block, directly, through a helper, or through the function a helper hands back:
		// `defer tbl.lockForWrite()()`)
		var certainly func(f *ssa.Function, d int) bool
		var stampsAt func(in ssa.Instruction, d int) bool
		certainly = func(f *ssa.Function, d int) bool {
			if f == stamp {
				return true
			}
			if f == nil || f.Blocks == nil || d > 4 || core.PkgPathOf(f) != core.PkgBttest {
				return false
			}
			for _, in := range f.Blocks[0].Instrs {
				if stampsAt(in, d+1) {
					return true
				}
			}
			return false
		}
		stampsAt = func(in ssa.Instruction, d int) bool {
			ci := core.Call(in)
			if ci == nil {
				return false
			}
			if _, isGo := in.(*ssa.Go); isGo {
				return false
			}
			if ci.Static != nil {
				return certainly(ci.Static, d)
			}
			if ci.Common.IsInvoke() {
				return false
			}
			if cl := closureOf(ci.Common.Value); cl != nil {
				return certainly(cl, d)
			}
			// the result of a helper: every function it can return stamps
			if call, isC := core.Resolve(ci.Common.Value).(*ssa.Call); isC {
				g := call.Call.StaticCallee()
				if g == nil || g.Blocks == nil || core.PkgPathOf(g) != core.PkgBttest || d > 4 {
					return false
				}
				k := 0
				for _, r := range returnsIn(g) {
					if len(r.Results) != 1 {
						return false
					}
					for _, v := range returnValues(r.Results[0]) {
						cl := closureOf(v)
						if cl == nil || !certainly(cl, d+1) {
							return false
						}
						k++
					}
				}
				return k > 0
			}
			return false
		}
		stamps := func(in ssa.Instruction) bool { return stampsAt(in, 0) }
		n := 0
		for _, fn := range P.SrcFuncs(core.PkgBttest) {
			if fn.Parent() != nil || !isServerMethod(fn) || fn.Object() == nil || !fn.Object().Exported() {
				continue
			}
			scope := P.Scope(fn, func(f *ssa.Function) bool { return core.PkgPathOf(f) != core.PkgBttest || (upd != nil && f == upd) })
			within := setOf(scope)
			var stores []ssa.Instruction
			for _, f := range scope {
				for _, ci := range core.AllCalls(f) {
					if upd != nil && ci.Static == upd {
						stores = append(stores, ci.Instr)
					}
					// (the four single-row write RPCs only: admin operations purge rows without being "writes" to the collector)
					if (upd == nil || upd.Blocks == nil) && isRowsMethod(ci, "ReplaceOrInsert", "Delete") {
						switch core.FuncName(fn) {
						case rpcMutateRow, rpcMutateRows, rpcCAM, rpcRMW:
							stores = append(stores, ci.Instr)
						}
					}
				}
			}
			if len(stores) == 0 {
				continue
			}
			n++
			c.Fn(core.FuncName(fn))
			ok := true
			var at token.Pos = fn.Pos()
			// the stamp dominates the store in the function that contains it, or — failing that — at every
			// place that function is called / created from, up to the RPC method (the locked part of the
			// RPC may be wrapped in a function literal of its own: `func() { defer tbl.lockForWrite()(); … }()`)
			var stampedBefore func(site ssa.Instruction, depth int) bool
			stampedBefore = func(site ssa.Instruction, depth int) bool {
				f := site.Parent()
				for _, b := range f.Blocks {
					for _, in := range b.Instrs {
						if stamps(in) && core.InstrDominates(in, site) {
							return true
						}
					}
				}
				if f == fn || depth > 6 {
					return false
				}
				nRef := 0
				for _, r := range P.Refs(f) {
					if !within[r.Instr.Parent()] {
						continue
					}
					nRef++
					if !stampedBefore(r.Instr, depth+1) {
						return false
					}
				}
				return nRef > 0
			}
			for _, st := range stores {
				if !stampedBefore(st, 0) {
					ok, at = false, st.Pos()
				}
			}
			c.Check(ok, "R47", core.FuncName(fn)+"/write-activity-stamped", at, "every path to the row store passes a call or defer of table.write()", "a row can be stored without the table's write-activity clock being stamped: the background collector does not see the write (it runs on a table in use, and after its next pass the table is never collected again)")
		}
		if n < 3 {
			c.Unknown("R47", "floor/write-rpcs", token.NoPos, "only %d RPCs that reach updateRow found", n)
		}
	}}
}

// ---------------------------------------------------------------------------
// R48: a filepath.Walk callback examines its error before deciding anything
// ---------------------------------------------------------------------------

// R48: filepath.Walk reports a failed lstat/readdir — in particular "the root does
// not exist" — only through the callback's err parameter, together with a nil
// FileInfo.  A callback that can return (nil or otherwise) before looking at err
// swallows that report: listing a bucket that does not exist then succeeds with an
// empty result (the file store answers 200 where the memory store answers 404),
// or dereferences the nil FileInfo.
func R48() Rule {
	return Rule{Name: "R48", Run: func(c *core.Ctx) {
		P := c.P
		n := 0
		for _, pkg := range []string{core.PkgBttest, core.PkgGcsemu} {
			if P.SPkgs[pkg] == nil {
				continue
			}
			for _, fn := range P.SrcFuncs(pkg) {
				for _, ci := range core.AllCalls(fn) {
					if ci.Static == nil || ci.Static.Pkg == nil || ci.Static.Pkg.Pkg.Path() != "path/filepath" || ci.Static.Name() != "Walk" {
						continue
					}
					cb := closureOf(ci.Common.Args[1])
					if cb == nil || cb.Blocks == nil || cb.Signature.Params().Len() != 3 || len(cb.Params) < 3 {
						continue
					}
					n++
					c.Fn(core.FuncName(cb))
					errParam := cb.Params[len(cb.Params)-1] // the callback may be a closure or a (bound) method
					ok := true
					var at token.Pos = cb.Pos()
					for _, r := range returnsIn(cb) {
						examined := false
						for _, f := range core.FactsAt(r.Block()) {
							if b, isB := f.Cond.(*ssa.BinOp); isB && (b.Op == token.EQL || b.Op == token.NEQ) {
								if core.Resolve(b.X) == ssa.Value(errParam) || core.Resolve(b.Y) == ssa.Value(errParam) {
									examined = true
								}
							}
						}
						if !examined {
							ok, at = false, r.Pos()
						}
					}
					c.Check(ok, "R48", core.FuncName(cb)+"/walk-error-examined-first", at, "every return of the callback is reached through a test of its err parameter", "the walk callback can return without having looked at its err parameter: a failed walk (missing root directory) is reported as an empty, successful walk")
				}
			}
		}
		if n < 1 {
			c.Unknown("R48", "floor/walks", token.NoPos, "no filepath.Walk callback found")
		}
	}}
}

// ---------------------------------------------------------------------------
// R49: sibling implementations use the same parameters
// ---------------------------------------------------------------------------

// R49: the two stores implement one interface and must answer alike.  A named
// parameter that one implementation uses and the other silently ignores (e.g. the
// base URL that the object's links are built from, replaced by a constant) is a
// disagreement a client can observe.  Parameters an implementation deliberately
// ignores are written `_` in this code base and are exempt.
// r49Exceptions: reasoned exceptions, one named parameter each.
var r49Exceptions = map[string]string{
	"memstore.Get/baseUrl": "Get's callers (media download, compose source read) consult content type, generation, metageneration, disposition, encoding and the content — never the self/media links the base URL is for; the memory store returns the stored record without baking links",
}

func R49() Rule {
	return Rule{Name: "R49", Run: func(c *core.Ctx) {
		P := c.P
		pkg := P.Pkgs[core.PkgGcsemu]
		iface, _ := pkg.Types.Scope().Lookup("Store").Type().Underlying().(*types.Interface)
		if iface == nil {
			panic(core.Broken("anchor gone: interface gcsemu.Store"))
		}
		used := func(fn *ssa.Function, i int) (bool, bool) { // (used, named)
			pa := fn.Params[i]
			if pa.Name() == "_" || pa.Name() == "" {
				return false, false
			}
			for _, r := range core.Referrers(pa) {
				if _, isDbg := r.(*ssa.DebugRef); !isDbg {
					return true, true
				}
			}
			return false, true
		}
		n := 0
		for i := 0; i < iface.NumMethods(); i++ {
			m := iface.Method(i).Name()
			ms := P.Func(core.PkgGcsemu, "(*memstore)."+m)
			fs := P.Func(core.PkgGcsemu, "(*filestore)."+m)
			if ms == nil || fs == nil || ms.Blocks == nil || fs.Blocks == nil || len(ms.Params) != len(fs.Params) {
				continue
			}
			for k := 1; k < len(ms.Params); k++ {
				n++
				um, nm := used(ms, k)
				uf, nf := used(fs, k)
				construct := fmt.Sprintf("Store.%s/param%d", m, k)
				if why, ok := r49Exceptions["memstore."+m+"/"+ms.Params[k].Name()]; ok && !um {
					c.Ok("R49", construct, ms.Pos(), true, "reasoned exception: %s", why)
					continue
				}
				switch {
				case uf && nm && !um:
					c.Bad("R49", construct, ms.Pos(), "memstore.%s ignores its parameter %q, which filestore.%s uses: the stores answer differently", m, ms.Params[k].Name(), m)
				case um && nf && !uf:
					c.Bad("R49", construct, fs.Pos(), "filestore.%s ignores its parameter %q, which memstore.%s uses: the stores answer differently", m, fs.Params[k].Name(), m)
				default:
					c.Ok("R49", construct, ms.Pos(), false, "used alike (or explicitly ignored)")
				}
			}
		}
		if n < 10 {
			c.Unknown("R49", "floor/params", token.NoPos, "only %d Store parameters compared", n)
		}
	}}
}

// ---------------------------------------------------------------------------
// R50: copyRow does not share cell slices with the row it copies
// ---------------------------------------------------------------------------

// R50: predicates, interleave branches and condition filters are evaluated on
// copyRow(r) precisely so that their in-place editing (reslicing and compacting a
// column's cells) cannot reach r.  That holds only if the copy owns its own
// family, column and *cell-slice* objects (the cells themselves are immutable, R36).
// A copy whose Column.Cells is the source's slice shares the backing array: an
// in-place filter on the copy rewrites the cells of the authoritative row.
func R50() Rule {
	return Rule{Name: "R50", Run: func(c *core.Ctx) {
		P := c.P
		fn := P.MustFunc(core.PkgBttest, "copyRow")
		c.Fn("copyRow")
		n := 0
		for _, f := range P.Scope(fn, func(f *ssa.Function) bool { return core.PkgPathOf(f) != core.PkgBttest }) {
			for _, b := range f.Blocks {
				for _, in := range b.Instrs {
					st, ok := in.(*ssa.Store)
					if !ok {
						continue
					}
					fa, ok := st.Addr.(*ssa.FieldAddr)
					if !ok || !isCellsField(fa) {
						continue
					}
					n++
					fresh := false
					why := "the copy's Cells is " + describeValue(core.Resolve(st.Val))
					switch x := core.Resolve(st.Val).(type) {
					case *ssa.Call:
						if bi, isB := x.Call.Value.(*ssa.Builtin); isB && bi.Name() == "append" {
							// append(<fresh or nil>, src...) allocates a new backing array
							switch base := core.Resolve(x.Call.Args[0]).(type) {
							case *ssa.Slice:
								if _, isAlloc := core.Resolve(base.X).(*ssa.Alloc); isAlloc {
									fresh = true
								}
							case *ssa.Const:
								fresh = base.Value == nil
							case *ssa.MakeSlice:
								fresh = true
							}
							if !fresh {
								why = "the copy's Cells is appended to a slice that is not fresh"
							}
						}
					case *ssa.MakeSlice:
						fresh = true // filled by copy()
					case *ssa.Const:
						fresh = x.Value == nil
					case *ssa.UnOp:
						if fa2, ok := x.X.(*ssa.FieldAddr); ok && isCellsField(fa2) {
							why = "the copy's Cells is the source column's slice itself"
						}
					}
					c.Check(fresh, "R50", fmt.Sprintf("copyRow/cells-slice-is-fresh#%d", n), st.Pos(), "the copy gets its own cell slice (append to a fresh slice / make+copy)", why+": in-place filtering of the copy (predicate, interleave branch, condition) rewrites the cells of the row it was copied from")
				}
			}
		}
		if n < 1 {
			c.Unknown("R50", "copyRow/floor", fn.Pos(), "copyRow assigns no Column.Cells")
		}
	}}
}

// ---------------------------------------------------------------------------
// R51: an identifier taken from an atomic counter is the increment's own result
// ---------------------------------------------------------------------------

// R51: atomic.AddIntN returns the value this caller produced; reading the counter
// again with a separate load returns whatever the latest increment by anyone was.
// Two concurrent requests then obtain the same identifier (the second resumable
// upload session silently replaces the first).  Reported: an atomic.Add whose
// result is discarded while the same counter is read in the same function.
func R51() Rule {
	return Rule{Name: "R51", Run: func(c *core.Ctx) {
		P := c.P
		n := 0
		for _, pkg := range []string{core.PkgBttest, core.PkgGcsemu, core.PkgGcsutil} {
			if P.SPkgs[pkg] == nil {
				continue
			}
			for _, fn := range P.SrcFuncs(pkg) {
				k := 0
				for _, ci := range core.AllCalls(fn) {
					if ci.Static == nil || ci.Static.Pkg == nil || ci.Static.Pkg.Pkg.Path() != "sync/atomic" || (ci.Static.Name() != "AddInt32" && ci.Static.Name() != "AddInt64" && ci.Static.Name() != "AddUint32" && ci.Static.Name() != "AddUint64") {
						continue
					}
					n++
					k++
					c.Fn(core.FuncName(fn))
					construct := fmt.Sprintf("%s/atomic-add#%d", core.FuncName(fn), k)
					call, _ := ci.Instr.(*ssa.Call)
					resultUsed := false
					if call != nil {
						for _, r := range core.Referrers(call) {
							if _, isDbg := r.(*ssa.DebugRef); !isDbg {
								resultUsed = true
							}
						}
					}
					reread := false
					for _, c2 := range core.AllCalls(fn) {
						if c2.Static != nil && c2.Static.Pkg != nil && c2.Static.Pkg.Pkg.Path() == "sync/atomic" && len(c2.Static.Name()) > 4 && c2.Static.Name()[:4] == "Load" {
							if core.SameValue(c2.Common.Args[0], ci.Common.Args[0]) || fieldLoadKeyOfAddr(c2.Common.Args[0]) == fieldLoadKeyOfAddr(ci.Common.Args[0]) {
								reread = true
							}
						}
					}
					if !resultUsed && reread {
						c.Bad("R51", construct, ci.Instr.Pos(), "the counter is incremented atomically but the value used afterwards comes from a separate load: two concurrent callers can read the same value (duplicate upload ids: one session replaces the other)")
					} else {
						c.Ok("R51", construct, ci.Instr.Pos(), true, "the increment's own result is used")
					}
				}
			}
		}
		if n < 1 {
			c.Ok("R51", "no-atomic-counters", token.NoPos, false, "no atomic.Add call in the analysed packages")
		}
	}}
}

// fieldLoadKeyOfAddr: a key for &x.f addresses (struct type + field index + base value).
func fieldLoadKeyOfAddr(v ssa.Value) string {
	if fa, ok := v.(*ssa.FieldAddr); ok {
		return fmt.Sprintf("%p.%d", core.Resolve(fa.X), fa.Field)
	}
	return fmt.Sprintf("%p", v)
}

// ---------------------------------------------------------------------------
// R52: early exits from scans over a column's cells agree with the descending order;
//      nothing but scrubFam relies on the order of a family's columns
// ---------------------------------------------------------------------------

// inLoop: b lies on a cycle of the CFG.
func inLoop(b *ssa.BasicBlock) bool { return core.ReachableFrom(b, false)[b] }

// R52 (a): cells are kept in descending timestamp order.  A linear scan may stop
// early only on a predicate that, once true, stays true for the rest of the slice:
// `cell.ts < X`.  Stopping on `cell.ts > X` (true at the front, false later) skips
// the very cells that can still match — an overwrite of an older version then
// appends a duplicate.  (b): a family's columns are sorted only when a row is
// stored (scrubFam); while a request is being applied new columns are appended at
// the end.  A lookup that relies on qualifier order (binary search, early exit on
// bytes.Compare) misses columns created earlier in the same request.
func R52() Rule {
	return Rule{Name: "R52", Run: func(c *core.Ctx) {
		P := c.P
		nA, nB := 0, 0
		scrub := P.Func(core.PkgBttest, "scrubFam")
		for _, fn := range P.SrcFuncs(core.PkgBttest) {
			ka, kb := 0, 0
			for _, b := range fn.Blocks {
				ifi, ok := b.Instrs[len(b.Instrs)-1].(*ssa.If)
				if !ok || !inLoop(b) {
					continue
				}
				bin, ok := core.Resolve(ifi.Cond).(*ssa.BinOp)
				if !ok {
					continue
				}
				op := bin.Op
				l, r := bin.X, bin.Y
				if !isCellTs(l) && isCellTs(r) {
					l, r = r, l
					op = flipOp(op)
				}
				if !isCellTs(l) || (op != token.LSS && op != token.GTR && op != token.LEQ && op != token.GEQ) {
					continue
				}
				// the cell on the left is the loop's current element (indexed / ranged), the right side is loop-invariant
				if !elementOfList(cellOf(l)) {
					continue
				}
				leaves := func(s *ssa.BasicBlock) bool { return !core.ReachableFrom(s, true)[b] }
				exitOnTrue, exitOnFalse := leaves(b.Succs[0]), leaves(b.Succs[1])
				if !exitOnTrue && !exitOnFalse {
					continue
				}
				nA++
				ka++
				c.Fn(core.FuncName(fn))
				construct := fmt.Sprintf("a/%s/early-exit#%d", core.FuncName(fn), ka)
				bad := (exitOnTrue && (op == token.GTR || op == token.GEQ)) || (exitOnFalse && !exitOnTrue && (op == token.LSS || op == token.LEQ))
				if bad {
					c.Bad("R52", construct, bin.Pos(), "the scan over a column's cells stops as soon as a cell is *newer* than the reference timestamp, but cells are sorted newest first: all the cells that can still match come later and are skipped (an overwrite of an older version appends a duplicate cell)")
				} else {
					c.Ok("R52", construct, bin.Pos(), true, "early exit on a predicate that stays true for the rest of a descending slice")
				}
			}
			// (b) ordering comparisons on qualifiers outside scrubFam
			if scrub != nil && core.Root(fn) == scrub {
				continue
			}
			for _, ci := range core.AllCalls(fn) {
				if !ci.IsFunc("bytes", "Compare") {
					continue
				}
				isQual := func(v ssa.Value) bool {
					ch := ownerFieldChain(v)
					return len(ch) > 0 && ch[len(ch)-1] == "Column.Qualifier"
				}
				if !isQual(ci.Common.Args[0]) && !isQual(ci.Common.Args[1]) {
					continue
				}
				// comparing stored qualifiers against a *filter's* range bounds is value logic, not a lookup
				if fn.Name() == "includeCell" || core.FuncName(core.Root(fn)) == "includeCell" {
					continue
				}
				nB++
				kb++
				c.Fn(core.FuncName(fn))
				c.Bad("R52", fmt.Sprintf("b/%s/qualifier-order#%d", core.FuncName(fn), kb), ci.Instr.Pos(), "%s orders column qualifiers (bytes.Compare): outside scrubFam a family's columns are not sorted — columns created earlier in the same request sit at the end — so a lookup that stops early or bisects misses them (a second write to the column creates a duplicate)", core.FuncName(fn))
			}
		}
		if nB == 0 {
			c.Ok("R52", "b/qualifier-order-only-in-scrubFam", token.NoPos, true, "no ordering comparison of column qualifiers outside scrubFam")
		}
		if nA == 0 {
			c.Ok("R52", "a/no-early-exit-on-cell-order", token.NoPos, true, "no linear cell scan stops early on an ordering comparison")
		}
	}}
}

// cellOf: the *Cell a TimestampMicros load reads from.
func cellOf(v ssa.Value) ssa.Value {
	if ld, ok := core.Resolve(v).(*ssa.UnOp); ok {
		if fa, ok := ld.X.(*ssa.FieldAddr); ok {
			return fa.X
		}
	}
	return nil
}

// ---------------------------------------------------------------------------
// R53: an in-place compaction is truncated before the slice is used;
//      a buffer handed to the transport is not recycled
// ---------------------------------------------------------------------------

// R53 (a): `for … { if keep { s[w] = x; w++ } }; s = s[:w]` — between the first
// element write and the truncation the slice still contains stale tail elements;
// handing it to anything (sort.Slice!) in that window mixes the stale tail into
// the kept prefix (sorting first and truncating afterwards drops kept elements and
// keeps dropped ones).  (b): a slice that was placed into a message given to
// stream.Send must not be re-used by reslicing it to [:0]: the transport (and any
// in-process receiver) may still hold the message, and the next batch overwrites
// the elements it refers to.
func R53() Rule {
	return Rule{Name: "R53", Run: func(c *core.Ctx) {
		P := c.P
		nA, nB := 0, 0
		for _, fn := range P.SrcFuncs(core.PkgBttest) {
			ka := 0
			for _, b := range fn.Blocks {
				for _, in := range b.Instrs {
					st, ok := in.(*ssa.Store)
					if !ok {
						continue
					}
					sl, ok := core.Resolve(st.Val).(*ssa.Slice)
					if !ok || sl.High == nil || sl.Low != nil {
						continue
					}
					key := fieldLoadKey(core.Resolve(sl.X))
					if key == "" || locationOf(st.Addr) == "" || loadedLocation(sl.X) != locationOf(st.Addr) {
						continue // not `F = F[:w]`
					}
					if k, isK := core.ConstInt(sl.High); isK {
						if k != 0 {
							continue
						}
						// (b) recycling: F = F[:0]
						loc := locationOf(st.Addr)
						sent := false
						for _, f2 := range P.SrcFuncs(core.PkgBttest) {
							for _, ci := range core.AllCalls(f2) {
								if ci.Method == nil || len(ci.Method.Name()) < 4 || ci.Method.Name()[:4] != "Send" {
									continue
								}
								for _, a := range ci.Common.Args {
									if msg, isAlloc := core.Resolve(a).(*ssa.Alloc); isAlloc {
										for _, r := range core.Referrers(msg) {
											if fa, isFa := r.(*ssa.FieldAddr); isFa {
												for _, rr := range core.Referrers(fa) {
													if s2, isSt := rr.(*ssa.Store); isSt && loadedLocation(s2.Val) == loc {
														sent = true
													}
												}
											}
										}
									}
								}
							}
						}
						nB++
						c.Fn(core.FuncName(fn))
						c.Check(!sent, "R53", fmt.Sprintf("b/%s/recycles-sent-buffer", core.FuncName(fn)), st.Pos(), "the recycled slice is never handed to a stream", "a slice that is placed into a message passed to stream.Send is re-used by reslicing it to [:0]: the next batch overwrites the elements of a response that was already handed to the transport (rows are lost, duplicated or reordered for any receiver that still holds it)")
						continue
					}
					// (a) compaction: element writes into F before this truncation
					var firstWrite ssa.Instruction
					for _, b2 := range fn.Blocks {
						for _, in2 := range b2.Instrs {
							if s2, isSt := in2.(*ssa.Store); isSt {
								if ia, isIA := s2.Addr.(*ssa.IndexAddr); isIA && fieldLoadKey(core.Resolve(ia.X)) == key && core.InstrReaches(s2, st) {
									firstWrite = s2
								}
							}
						}
					}
					if firstWrite == nil {
						continue
					}
					nA++
					ka++
					c.Fn(core.FuncName(fn))
					var bad ssa.Instruction
					for _, ci := range core.AllCalls(fn) {
						if bi, isB := ci.Common.Value.(*ssa.Builtin); isB && (bi.Name() == "len" || bi.Name() == "cap") {
							continue
						}
						for _, a := range ci.Common.Args {
							if fieldLoadKey(core.Resolve(core.Strip(a))) == key && core.InstrReaches(firstWrite, ci.Instr) && core.InstrReaches(ci.Instr, st) {
								bad = ci.Instr
							}
						}
					}
					construct := fmt.Sprintf("a/%s/compaction-truncated-before-use#%d", core.FuncName(fn), ka)
					if bad != nil {
						c.Bad("R53", construct, bad.Pos(), "the slice being compacted in place is handed to %s before it is truncated to the kept prefix: the stale tail takes part (a sort moves dropped elements into the prefix and kept ones out of it)", core.Call(bad).CalleeName())
					} else {
						c.Ok("R53", construct, st.Pos(), true, "nothing uses the slice between the compaction and its truncation")
					}
				}
			}
		}
		if nA < 1 {
			c.Ok("R53", "a/no-in-place-compaction", token.NoPos, false, "no in-place compaction in the package")
		}
		if nB == 0 {
			c.Ok("R53", "b/no-recycled-buffers", token.NoPos, false, "no slice is recycled with [:0] after being stored in a field")
		}
	}}
}

// ---------------------------------------------------------------------------
// R54: per-iteration scratch values are not carried over from the previous iteration
// ---------------------------------------------------------------------------

// loopOf returns the set of blocks of the innermost natural loop that contains b
// (approximated: blocks that can reach b and are reachable from b), or nil.
func loopOf(b *ssa.BasicBlock) map[*ssa.BasicBlock]bool {
	fwd := core.ReachableFrom(b, false)
	if !fwd[b] {
		return nil
	}
	loop := map[*ssa.BasicBlock]bool{}
	for x := range fwd {
		if core.ReachableFrom(x, false)[b] {
			loop[x] = true
		}
	}
	return loop
}

// escapingUse: v is consumed by something that keeps or forwards it (stored into
// memory, passed to a call/append, sent, returned) — as opposed to merely compared.
func escapingUse(v ssa.Value, inLoop map[*ssa.BasicBlock]bool, depth int, seen map[ssa.Value]bool) ssa.Instruction {
	if depth > 6 || seen[v] {
		return nil
	}
	seen[v] = true
	for _, r := range core.Referrers(v) {
		if !inLoop[r.Block()] {
			continue
		}
		switch x := r.(type) {
		case *ssa.Store:
			if x.Val == v {
				return r
			}
		case ssa.CallInstruction:
			if bi, ok := x.Common().Value.(*ssa.Builtin); ok && (bi.Name() == "len" || bi.Name() == "cap") {
				continue
			}
			return r
		case *ssa.Return, *ssa.Send, *ssa.MapUpdate:
			return r
		case *ssa.Convert, *ssa.ChangeType, *ssa.MakeInterface, *ssa.Slice, *ssa.Field:
			if u := escapingUse(x.(ssa.Value), inLoop, depth+1, seen); u != nil {
				return u
			}
		}
	}
	return nil
}

// R54: a variable declared *outside* a loop that the loop body fills from the
// current element only on some paths (a switch without default, an `if x != nil`)
// and then stores or passes on in the same iteration still holds the previous
// element's value on the other paths: "range 2 inherits the bound of range 1",
// "source 2 inherits the ifGenerationMatch of source 1".  Accumulators (the new
// value is computed from the old one) and latches (a constant is assigned) are
// not scratch values and are not reported.
func R54() Rule {
	return Rule{Name: "R54", Run: func(c *core.Ctx) {
		P := c.P
		nLoops, nBad := 0, 0
		for _, pkg := range []string{core.PkgBttest, core.PkgGcsemu, core.PkgGcsutil} {
			if P.SPkgs[pkg] == nil {
				continue
			}
			for _, fn := range P.SrcFuncs(pkg) {
				if P.IsGenerated(fn.Pos()) {
					continue
				}
				k := 0
				// ---- form A: a struct variable (memory cell) outside the loop, fields filled conditionally inside
				for _, b0 := range fn.Blocks {
					for _, in := range b0.Instrs {
						a, ok := in.(*ssa.Alloc)
						if !ok {
							continue
						}
						st, isStruct := a.Type().(*types.Pointer).Elem().Underlying().(*types.Struct)
						if !isStruct || a.Comment == "" || core.Captured(a) {
							continue
						}
						_ = st
						// field stores and whole-variable loads, grouped by loop
						for _, r := range core.Referrers(a) {
							ld, isLd := r.(*ssa.UnOp)
							if !isLd || ld.Op != token.MUL {
								continue
							}
							loop := loopOf(ld.Block())
							if loop == nil || loop[a.Block()] {
								continue // not in a loop, or the variable is declared inside it
							}
							use := escapingUse(ld, loop, 0, map[ssa.Value]bool{})
							if use == nil {
								continue
							}
							nLoops++
							// every field that is assigned somewhere in the loop must be assigned on every path to the load,
							// or the whole variable must be reset on every path
							reset := false
							type fstore struct {
								field string
								at    ssa.Instruction
							}
							var fstores []fstore
							for _, r2 := range core.Referrers(a) {
								switch x := r2.(type) {
								case *ssa.Store:
									if x.Addr == ssa.Value(a) && loop[x.Block()] && core.InstrDominates(x, ld) {
										reset = true
									}
								case *ssa.FieldAddr:
									_, fname, _ := core.FieldName(x)
									for _, r3 := range core.Referrers(x) {
										if s3, isSt := r3.(*ssa.Store); isSt && s3.Addr == ssa.Value(x) && loop[s3.Block()] {
											fstores = append(fstores, fstore{fname, s3})
										}
									}
								}
							}
							if reset || len(fstores) == 0 {
								continue
							}
							byField := map[string]bool{} // field -> assigned on every path to the load
							for _, fs := range fstores {
								if _, seen := byField[fs.field]; !seen {
									byField[fs.field] = false
								}
								if core.InstrDominates(fs.at, ld) {
									byField[fs.field] = true
								}
							}
							for f, always := range byField {
								if always {
									continue
								}
								nBad++
								k++
								c.Fn(core.FuncName(fn))
								c.Bad("R54", fmt.Sprintf("%s/%s.%s/carried-over#%d", core.FuncName(fn), a.Comment, f, k), use.Pos(), "%s is declared outside the loop and its field %s is assigned from the current element only on some paths; on the others this iteration stores / passes on the value left by the previous element", a.Comment, f)
							}
						}
					}
				}
				// ---- form B: a register variable (φ at the loop header) left unchanged on some path, overwritten with fresh data on another
				for _, hb := range fn.Blocks {
					loop := loopOf(hb)
					if loop == nil {
						continue
					}
					for _, in := range hb.Instrs {
						phi, ok := in.(*ssa.Phi)
						if !ok {
							break
						}
						// header φ: one edge from outside the loop, one from inside
						var back []ssa.Value
						outside := 0
						for i, e := range phi.Edges {
							if loop[hb.Preds[i]] {
								back = append(back, e)
							} else {
								outside++
							}
						}
						if outside == 0 || len(back) == 0 {
							continue
						}
						// values the back edge can carry: follow φs inside the loop
						unchanged, fresh := false, false
						seen := map[ssa.Value]bool{}
						var walk func(v ssa.Value)
						dependsOnPhi := func(v ssa.Value) bool {
							s2 := map[ssa.Value]bool{}
							var dep func(v ssa.Value, d int) bool
							dep = func(v ssa.Value, d int) bool {
								if v == ssa.Value(phi) {
									return true
								}
								if d > 8 || s2[v] {
									return false
								}
								s2[v] = true
								if inst, ok := v.(ssa.Instruction); ok {
									for _, op := range inst.Operands(nil) {
										if *op != nil && dep(*op, d+1) {
											return true
										}
									}
								}
								return false
							}
							return dep(v, 0)
						}
						walk = func(v ssa.Value) {
							if seen[v] {
								return
							}
							seen[v] = true
							if v == ssa.Value(phi) {
								unchanged = true
								return
							}
							if p2, isPhi := v.(*ssa.Phi); isPhi && loop[p2.Block()] {
								for _, e := range p2.Edges {
									walk(e)
								}
								return
							}
							if _, isConst := v.(*ssa.Const); isConst {
								return // latch / reset to a constant
							}
							if !dependsOnPhi(v) {
								fresh = true
							}
						}
						for _, e := range back {
							walk(e)
						}
						if !unchanged || !fresh {
							continue
						}
						// consumed inside the loop by something that keeps it
						var use ssa.Instruction
						for v := range seen {
							if v == nil {
								continue
							}
							if _, isPhi := v.(*ssa.Phi); isPhi || v == ssa.Value(phi) {
								if u := escapingUse(v, loop, 0, map[ssa.Value]bool{}); u != nil {
									use = u
								}
							}
						}
						if u := escapingUse(phi, loop, 0, map[ssa.Value]bool{}); u != nil {
							use = u
						}
						if use == nil {
							continue
						}
						nLoops++
						nBad++
						k++
						c.Fn(core.FuncName(fn))
						name := phi.Comment
						if name == "" {
							name = "a variable"
						}
						c.Bad("R54", fmt.Sprintf("%s/%s/carried-over#%d", core.FuncName(fn), name, k), use.Pos(), "%s is declared outside the loop, assigned from the current element only on some paths, and stored / passed on in the same iteration: on the other paths the previous element's value is used", name)
					}
				}
			}
		}
		if nBad == 0 {
			c.Ok("R54", "no-carried-over-scratch-values", token.NoPos, true, "%d loop-consumed outer variables inspected; none is conditionally filled from the current element and then passed on", nLoops)
		}
	}}
}

// ---------------------------------------------------------------------------
// R55: engine-level contracts of the Rows / Storage implementations
// ---------------------------------------------------------------------------

// R55 (a) every reopen closure stored in a leveldbRows (`newFunc`) hands its own
// `nuke` parameter to the database constructor, and Create opens with nuke = true
// on every path (a table that is created or cleared starts empty; (b) a Rows method
// has only the effect its name says: ReplaceOrInsert never deletes from the backend,
// Delete never inserts, Get/Ascend* do neither (the callers iterate while writing
// back: a delete inside a btree walk makes it skip rows); (c) the engines take no
// locks of their own: all serialisation is the table mutex's, which scans release
// and re-take from inside the iteration callback — an engine lock held across that
// callback deadlocks against a writer that holds the table lock and waits for the
// engine; (d) Rows.Close is called only when the server shuts down: a table handle
// obtained before a DeleteTable is still used by in-flight requests.
func isLeveldbDB(t types.Type) bool {
	pt, ok := t.Underlying().(*types.Pointer)
	if !ok {
		return false
	}
	n := core.NamedOf(pt.Elem())
	return n != nil && n.Obj().Pkg() != nil && n.Obj().Pkg().Path() == pkgLdb && n.Obj().Name() == "DB"
}

func R55() Rule {
	return Rule{Name: "R55", Run: func(c *core.Ctx) {
		P := c.P
		impls := rowsImpls(P)
		isImplRecv := func(fn *ssa.Function) bool {
			r := core.Root(fn)
			if r.Signature.Recv() == nil {
				return false
			}
			for _, it := range impls {
				if core.NamedOf(it) != nil && core.NamedOf(it) == core.NamedOf(r.Signature.Recv().Type()) {
					return true
				}
			}
			return false
		}
		// (a) reopen functions, Create and Clear.  An "open call" is any call that yields a
		// *leveldb.DB and takes a bool (the constructor, a reopen closure, a method of an
		// opener object, an interface invoke of one): the shape survives turning the closure
		// into a type.
		openArg := func(ci *core.CallInfo) ssa.Value {
			if ci.Common == nil || ci.Instr == nil {
				return nil
			}
			res := ci.Common.Signature().Results()
			if res.Len() != 1 || !isLeveldbDB(res.At(0).Type()) {
				return nil
			}
			args := ci.Common.Args
			for i := len(args) - 1; i >= 0; i-- {
				if isBoolType(args[i].Type()) {
					return args[i]
				}
			}
			return nil
		}
		hasBoolParam := func(fn *ssa.Function) bool {
			for _, pa := range fn.Params {
				if isBoolType(pa.Type()) {
					return true
				}
			}
			return false
		}
		// the disk constructor: whatever opens a leveldb directory (newDiskDb, or the reopen closures
		// themselves when it is inlined into them — those are checked by R31's "<opener>-nuke")
		opensDir := map[*ssa.Function]bool{}
		for _, fn := range P.SrcFuncs(core.PkgBttest) {
			for _, ci := range core.AllCalls(fn) {
				if ci.IsFunc(pkgLdb, "OpenFile") {
					opensDir[fn] = true
				}
			}
		}
		reachesDisk := map[*ssa.Function]bool{}
		nClos := 0
		for _, fn := range P.SrcFuncs(core.PkgBttest) {
			for _, ci := range core.AllCalls(fn) {
				if ci.Static != nil && opensDir[ci.Static] {
					reachesDisk[fn] = true
				}
			}
			if opensDir[fn] && hasBoolParam(fn) {
				nClos++ // an opener that takes the nuke flag itself
			}
		}
		for _, fn := range P.SrcFuncs(core.PkgBttest) {
			if !hasBoolParam(fn) || !reachesDisk[fn] {
				continue
			}
			for _, ci := range core.AllCalls(fn) {
				arg := openArg(ci)
				if arg == nil {
					continue
				}
				nClos++
				c.Fn(core.FuncName(fn))
				pa, isP := core.Resolve(arg).(*ssa.Parameter)
				c.Check(isP && pa.Parent() == fn, "R55", fmt.Sprintf("a/%s/reopen-passes-nuke", core.FuncName(fn)), ci.Instr.Pos(), "the reopen function hands its nuke parameter to the constructor", "the reopen closure does not pass its nuke parameter on: Clear() (drop all rows) reopens the same directory without wiping it — the rows stay")
			}
		}
		for _, it := range []struct{ name, good, bad string }{
			{"LeveldbDiskStorage.Create", "a created table always starts from a wiped directory", "Create does not (always) wipe the table's row directory: a table re-created after DeleteTable comes back with the deleted table's rows"},
			{"(*leveldbRows).Clear", "dropping all rows reopens a wiped directory", "Clear reopens the database without wiping it: DropRowRange(all) / DeleteAllRows leaves the rows in place"},
		} {
			fn := P.Func(core.PkgBttest, it.name)
			if fn == nil || fn.Blocks == nil {
				continue
			}
			scope := P.Scope(fn, func(f *ssa.Function) bool { return core.PkgPathOf(f) != core.PkgBttest })
			okNuke, n := true, 0
			for _, f := range scope {
				for _, ci := range core.AllCalls(f) {
					arg := openArg(ci)
					if arg == nil {
						continue
					}
					for _, o := range P.Origins(arg, setOf(scope)) {
						if bv, isB := core.ConstBool(o); isB {
							if bv {
								n++
							} else {
								okNuke = false
							}
						} else if _, isP := o.(*ssa.Parameter); !isP {
							okNuke = false // a computed flag: not provably "wipe"
						}
					}
				}
			}
			c.Check(okNuke && n > 0, "R55", "a/"+it.name+"/opens-with-nuke", fn.Pos(), it.good, it.bad)
		}
		// (b) effects per Rows method
		nEff := 0
		for _, fn := range P.SrcFuncs(core.PkgBttest) {
			if fn.Parent() != nil || !isImplRecv(fn) {
				continue
			}
			m := fn.Name()
			var forbid []string
			switch {
			case m == "ReplaceOrInsert":
				forbid = []string{"Delete", "Clear"}
			case m == "Delete":
				forbid = []string{"ReplaceOrInsert", "Put"}
			case m == "Get" || strings.HasPrefix(m, "Ascend"):
				forbid = []string{"ReplaceOrInsert", "Put", "Delete", "Clear"}
			default:
				continue
			}
			nEff++
			c.Fn(core.FuncName(fn))
			var bad *core.CallInfo
			transitiveCalls(P, fn, map[*ssa.Function]bool{}, func(from *ssa.Function, ci *core.CallInfo) {
				if ci.Static == nil || ci.Static.Pkg == nil {
					return
				}
				path := ci.Static.Pkg.Pkg.Path()
				if path != pkgBtree && path != pkgLdb {
					return
				}
				for _, f := range forbid {
					if ci.Static.Name() == f {
						bad = ci
					}
				}
			})
			construct := fmt.Sprintf("b/%s/only-its-own-effect", core.FuncName(fn))
			if bad != nil {
				c.Bad("R55", construct, bad.Instr.Pos(), "%s also performs a backend %s: callers write rows back from inside an iteration, where removing an item makes the btree walk skip rows (and the engines then disagree)", core.FuncName(fn), bad.Static.Name())
			} else {
				c.Ok("R55", construct, fn.Pos(), true, "no foreign backend effect")
			}
		}
		// (c) engines take no locks
		nLock := 0
		for _, fn := range P.SrcFuncs(core.PkgBttest) {
			if !isImplRecv(fn) {
				continue
			}
			for _, ci := range core.AllCalls(fn) {
				if op, ok := lockOpOf(ci); ok && op.acq {
					nLock++
					c.Bad("R55", fmt.Sprintf("c/%s/engine-lock#%d", core.FuncName(fn), nLock), ci.Instr.Pos(), "the storage engine takes a lock of its own (%s): scans call back into code that releases and re-takes the table lock, so a writer holding the table lock and waiting for the engine lock deadlocks with the scan", op.lock)
				}
			}
		}
		if nLock == 0 {
			c.Ok("R55", "c/engines-take-no-locks", token.NoPos, true, "no mutex is acquired inside a Rows implementation")
		}
		// (d) who may close a table's rows
		nClose := 0
		for _, fn := range P.SrcFuncs(core.PkgBttest) {
			for _, ci := range core.AllCalls(fn) {
				if !isRowsMethod(ci, "Close") {
					continue
				}
				nClose++
				root := core.FuncName(core.Root(fn))
				_, okWho := tableOrHelperOf(P, core.Root(fn), map[string]string{"(*Server).Close": "server shutdown", "(*server).Close": "server shutdown", "(*leveldbRows).Clear": "reopen"})
				c.Check(okWho, "R55", fmt.Sprintf("d/%s/closes-rows", root), ci.Instr.Pos(), "rows are closed at server shutdown only", "a table's rows are closed outside server shutdown: requests that looked the table up earlier (or a scan that released the lock to stream a message) continue on a closed handle and panic the process")
			}
		}
		if nClos < 1 || nEff < 8 {
			c.Unknown("R55", "floor", token.NoPos, "only %d reopen closures / %d Rows methods found", nClos, nEff)
		}
		_ = nClose
	}}
}

// ---------------------------------------------------------------------------
// R56: stored memory-store records are immutable; scrubbed fields are recomputed
// ---------------------------------------------------------------------------

// R56 (a) a memFile that is (or may be) in the tree is never assigned to: readers
// (Get, GetMeta, find) hand the stored record out without holding the bucket lock,
// which is only sound because records are replaced, never updated — an in-place
// field store is a torn read for a concurrent GET and changes the *source* of a
// copy; (b) every field ScrubMeta clears before a record is stored is recomputed by
// InitMetaWithUrls when it is served (a field scrubbed but not recomputed is served
// empty by the store that does not set it otherwise).
func R56() Rule {
	return Rule{Name: "R56", Run: func(c *core.Ctx) {
		P := c.P
		n := 0
		for _, fn := range P.SrcFuncs(core.PkgGcsemu) {
			r := core.Root(fn)
			if r.Signature.Recv() == nil || core.NamedOf(r.Signature.Recv().Type()) == nil || core.TName(core.NamedOf(r.Signature.Recv().Type())) != "memstore" {
				continue
			}
			k := 0
			for _, b := range fn.Blocks {
				for _, in := range b.Instrs {
					st, ok := in.(*ssa.Store)
					if !ok {
						continue
					}
					base := st.Addr
					depth := 0
					for {
						fa, isFa := base.(*ssa.FieldAddr)
						if !isFa {
							break
						}
						base = fa.X
						depth++
					}
					if depth == 0 || !core.TypeIs(base.Type(), core.PkgGcsemu, "memFile") {
						continue
					}
					n++
					if _, fresh := core.Resolve(base).(*ssa.Alloc); fresh {
						continue // building a new record
					}
					k++
					c.Fn(core.FuncName(fn))
					c.Bad("R56", fmt.Sprintf("a/%s/in-place-store#%d", core.FuncName(fn), k), st.Pos(), "a field of a stored record (%s) is assigned in place: records are handed to readers without the bucket lock and shared with copies — they may only be replaced by a new record", strings.Join(fieldChain(st.Addr), "."))
				}
			}
		}
		c.Ok("R56", "a/records-are-replaced-not-updated", token.NoPos, true, "%d stores into memFile values inspected (construction only)", n)
		scrub := P.Func(core.PkgGcsemu, "ScrubMeta")
		initU := P.Func(core.PkgGcsemu, "InitMetaWithUrls")
		if scrub == nil || initU == nil {
			c.Unknown("R56", "b/anchors", token.NoPos, "ScrubMeta / InitMetaWithUrls not found")
			return
		}
		fieldsSet := func(fn *ssa.Function) map[string]bool {
			out := map[string]bool{}
			for _, f := range P.Scope(fn, func(f *ssa.Function) bool { return core.PkgPathOf(f) != core.PkgGcsemu }) {
				for _, b := range f.Blocks {
					for _, in := range b.Instrs {
						if st, ok := in.(*ssa.Store); ok {
							if fa, ok := st.Addr.(*ssa.FieldAddr); ok && core.TypeIs(fa.X.Type(), pkgStorageV1, "Object") {
								_, fname, _ := core.FieldName(fa)
								out[fname] = true
							}
						}
					}
				}
			}
			return out
		}
		cleared, baked := fieldsSet(scrub), fieldsSet(initU)
		for _, f := range keysOf(cleared) {
			c.Check(baked[f], "R56", "b/scrubbed-field-is-recomputed/"+f, scrub.Pos(), "InitMetaWithUrls recomputes "+f, "ScrubMeta clears Object."+f+" before a record is stored, but InitMetaWithUrls does not recompute it when the record is served: the field comes back empty from a store that does not set it itself (the stores disagree)")
		}
		if len(cleared) < 3 {
			c.Unknown("R56", "b/floor", token.NoPos, "only %d fields cleared by ScrubMeta", len(cleared))
		}
		// (c) memstore.Get returns the metadata and the content of one lookup: readers hold no object lock,
		// so two lookups can straddle a write and pair one version's metadata with another's bytes
		if get := P.Func(core.PkgGcsemu, "(*memstore).Get"); get != nil && get.Blocks != nil {
			c.Fn("(*memstore).Get")
			okOne, nRet := true, 0
			recordOf := func(v ssa.Value) ssa.Value {
				// &rec.meta, rec.data, or a copy / load of such a field → rec
				for i := 0; i < 6; i++ {
					v = core.Resolve(v)
					switch x := v.(type) {
					case *ssa.FieldAddr:
						if core.TypeIs(x.X.Type(), core.PkgGcsemu, "memFile") {
							return core.Resolve(x.X)
						}
						v = x.X
					case *ssa.UnOp:
						v = x.X
					case *ssa.Alloc:
						sts := core.StoresTo(x)
						if len(sts) != 1 {
							return nil
						}
						v = sts[0].Val
					default:
						return nil
					}
				}
				return nil
			}
			for _, r := range returnsIn(get) {
				if len(r.Results) != 3 || core.IsNilConst(core.Resolve(r.Results[0])) {
					continue
				}
				nRet++
				m, d := recordOf(r.Results[0]), recordOf(r.Results[1])
				if m == nil || d == nil || m != d {
					okOne = false
				}
			}
			if nRet > 0 {
				c.Check(okOne, "R56", "c/memstore.Get-one-record", get.Pos(), "metadata and content come from the same stored record", "memstore.Get assembles its answer from more than one lookup (metadata from one, content from another): a write landing in between yields the metadata of one version with the bytes of another")
			}
		}
		// … and every field the write-time initialiser bakes into the stored record (name, content type)
		// is also baked at read time: an object whose sidecar is missing (a file placed in the directory,
		// a legacy store) is served from InitMetaWithUrls alone
		if initS := P.Func(core.PkgGcsemu, "InitScrubbedMeta"); initS != nil && initS.Blocks != nil {
			c.Fn("InitScrubbedMeta")
			written := fieldsSet(initS)
			for _, f := range keysOf(written) {
				if cleared[f] {
					continue
				}
				c.Check(baked[f], "R56", "b/write-time-field-is-baked-at-read-time/"+f, initU.Pos(), "InitMetaWithUrls sets "+f+" as well", "InitScrubbedMeta sets Object."+f+" when an object is written but InitMetaWithUrls does not set it when one is read: an object without a metadata sidecar is served (and listed) without it")
			}
		}
	}}
}

// ---------------------------------------------------------------------------
// R57: validTimestamp rejects sub-millisecond timestamps unconditionally
// ---------------------------------------------------------------------------

// R57: "a timestamp that is not a whole millisecond is answered with an error"
// holds for every table: in validTimestamp every path that returns true passes the
// `ts % 1000 == 0` test (the result is that comparison, or the return is only
// reachable through its true edge) — not just tables whose definition carries an
// explicit granularity (CreateTable leaves it unspecified).
func R57() Rule {
	return Rule{Name: "R57", Run: func(c *core.Ctx) {
		P := c.P
		fn := funcOr(P, core.PkgBttest, "(*table).validTimestamp", "validTimestamp")
		c.Fn("(*table).validTimestamp")
		isMsTest := func(v ssa.Value) bool {
			bin, ok := core.Resolve(v).(*ssa.BinOp)
			if !ok || bin.Op != token.EQL {
				return false
			}
			rem, ok := core.Resolve(bin.X).(*ssa.BinOp)
			if !ok || rem.Op != token.REM {
				return false
			}
			z, isZ := core.ConstInt(bin.Y)
			k, isK := core.ConstInt(rem.Y)
			return isZ && z == 0 && isK && k == 1000
		}
		// onlyMs(f): every path on which f returns true passed the whole-millisecond test,
		// directly or in a predicate helper f consults
		memo := map[*ssa.Function]bool{}
		var onlyMs func(f *ssa.Function, depth int) (bool, int)
		var msValue func(v ssa.Value, depth int) bool
		msValue = func(v ssa.Value, depth int) bool {
			if isMsTest(v) {
				return true
			}
			if call, isC := core.Resolve(v).(*ssa.Call); isC && depth < 4 {
				if g := call.Call.StaticCallee(); g != nil && g.Blocks != nil && core.PkgPathOf(g) == core.PkgBttest && g.Signature.Results().Len() == 1 && isBoolType(g.Signature.Results().At(0).Type()) {
					if done, seen := memo[g]; seen {
						return done
					}
					memo[g] = false
					r, k := onlyMs(g, depth+1)
					memo[g] = r && k > 0
					return memo[g]
				}
			}
			return false
		}
		onlyMs = func(f *ssa.Function, depth int) (bool, int) {
			var cut []cfgEdge
			for _, b := range f.Blocks {
				if ifi, ok := b.Instrs[len(b.Instrs)-1].(*ssa.If); ok && msValue(ifi.Cond, depth) {
					cut = append(cut, cfgEdge{b, b.Succs[0]})
				}
			}
			ok, n := true, 0
			for _, r := range returnsIn(f) {
				for _, v := range returnValues(r.Results[0]) {
					n++
					if msValue(v, depth) {
						continue
					}
					if bv, isB := core.ConstBool(v); isB && !bv {
						continue
					}
					// may be true: only through the test's true edge
					if len(cut) == 0 || reachableWithoutEdges(f, r.Block(), cut) {
						ok = false
					}
				}
			}
			return ok, n
		}
		ok, n := onlyMs(fn, 0)
		c.Check(ok && n > 0, "R57", "validTimestamp/whole-milliseconds-on-every-accepting-path", fn.Pos(), "a timestamp is accepted only through the `ts % 1000 == 0` test", "validTimestamp can accept a timestamp without the whole-millisecond test (the test is conditional): sub-millisecond timestamps are stored instead of rejected")
	}}
}

// ---------------------------------------------------------------------------
// R58: small semantic anchors that several independent seeded changes aimed at
// ---------------------------------------------------------------------------

// R58 (a) isEmpty ("the row has no cell") answers false only on the evidence of a
// cell: every `return false` is dominated by a test that a column's Cells slice is
// non-empty.  Filters leave families and columns with zero cells behind, so
// "has a column" is not "has a cell" (CheckAndMutateRow would take the true
// branch for a predicate that strips every cell).  (b) ListTables matches a
// table's parent with the "/tables/" separator included: a prefix test against the
// bare parent also lists the tables of every parent whose name merely starts with
// it.  (c) in the listing walk, a directory entry never reaches the per-object
// logic: every path from the IsDir edge leaves the callback.  (d) the timestamp
// of the cell written by ReadModifyWriteRow depends on the newest existing cell's
// timestamp (arbitration against a cell dated in the future).
func R58() Rule {
	return Rule{Name: "R58", Run: func(c *core.Ctx) {
		P := c.P
		if P.SPkgs[core.PkgBttest] != nil {
			// (a)
			if fn := P.Func(core.PkgBttest, "isEmpty"); fn != nil && fn.Blocks != nil {
				c.Fn("isEmpty")
				// evidence of a cell: a branch fact `len(col.Cells) > 0` (or ≥ 1, ≠ 0), or the true edge of a
				// predicate helper that answers true only on such evidence (columnHasCells, familyHasCells)
				isCellCmp := func(l ssa.Value, op token.Token, rr ssa.Value) bool {
					la := lenArg(l)
					k, isK := core.ConstInt(rr)
					if la == nil || !isK {
						return false
					}
					ld, isLd := core.Resolve(la).(*ssa.UnOp)
					if !isLd {
						return false
					}
					fa, isFa := ld.X.(*ssa.FieldAddr)
					if !isFa || !isCellsField(fa) {
						return false
					}
					return (op == token.GTR && k >= 0) || (op == token.NEQ && k == 0) || (op == token.GEQ && k >= 1)
				}
				memo := map[*ssa.Function]bool{}
				var hasCellsPred func(g *ssa.Function, depth int) bool
				var evidenceAt func(b *ssa.BasicBlock, depth int) bool
				evidenceAt = func(b *ssa.BasicBlock, depth int) bool {
					for _, f := range core.FactsAt(b) {
						if l, op, rr, isCmp := cmpNorm(f); isCmp && isCellCmp(l, op, rr) {
							return true
						}
						if call, isC := core.Resolve(f.Cond).(*ssa.Call); isC && f.Polarity && hasCellsPred(call.Call.StaticCallee(), depth+1) {
							return true
						}
						// slices.ContainsFunc(columns, pred) with such a predicate
						if call, isC := core.Resolve(f.Cond).(*ssa.Call); isC && f.Polarity && isStdGeneric(call, "slices", "ContainsFunc") && len(call.Call.Args) == 2 {
							if hasCellsPred(closureOf(call.Call.Args[1]), depth+1) {
								return true
							}
						}
					}
					return false
				}
				hasCellsPred = func(g *ssa.Function, depth int) bool {
					if g == nil || g.Blocks == nil || depth > 4 || core.PkgPathOf(g) != core.PkgBttest || g.Signature.Results().Len() != 1 || !isBoolType(g.Signature.Results().At(0).Type()) {
						return false
					}
					if r, seen := memo[g]; seen {
						return r
					}
					memo[g] = false
					okG, k := true, 0
					for _, r := range returnsIn(g) {
						for _, v := range returnValues(r.Results[0]) {
							k++
							if bv, isB := core.ConstBool(v); isB {
								if bv && !evidenceAt(r.Block(), depth) {
									okG = false
								}
								continue
							}
							if bin, isBin := core.Resolve(v).(*ssa.BinOp); isBin && isCellCmp(bin.X, bin.Op, bin.Y) {
								continue
							}
							if call, isC := core.Resolve(v).(*ssa.Call); isC && hasCellsPred(call.Call.StaticCallee(), depth+1) {
								continue
							}
							okG = false
						}
					}
					memo[g] = okG && k > 0
					return memo[g]
				}
				ok, n := true, 0
				for _, r := range returnsIn(fn) {
					for _, v := range returnValues(r.Results[0]) {
						if bv, isB := core.ConstBool(v); isB && bv {
							continue
						}
						n++
						if !evidenceAt(r.Block(), 0) {
							ok = false
						}
					}
				}
				c.Check(ok && n > 0, "R58", "a/isEmpty-looks-at-cells", fn.Pos(), "isEmpty answers 'not empty' only after finding a column with at least one cell", "isEmpty answers 'not empty' without having seen a cell (e.g. because a family has columns): a filtered copy keeps families and columns whose cells were all stripped, so a predicate that yields no cell is reported as matched")
			}
			// (b)
			if fn := P.Func(core.PkgBttest, "(*server).ListTables"); fn != nil && fn.Blocks != nil {
				c.Fn("(*server).ListTables")
				k := 0
				for _, f := range P.Scope(fn, func(f *ssa.Function) bool { return core.PkgPathOf(f) != core.PkgBttest }) {
					for _, ci := range core.AllCalls(f) {
						if !ci.IsFunc("strings", "HasPrefix") {
							continue
						}
						k++
						// the prefix ends with the "/tables/" separator
						withSep := false
						for _, o := range P.Origins(ci.Common.Args[1], nil) {
							if bin, isBin := o.(*ssa.BinOp); isBin && bin.Op == token.ADD {
								if sv, isS := core.ConstString(bin.Y); isS && strings.HasPrefix(sv, "/") && strings.HasSuffix(sv, "/") {
									withSep = true
								}
							}
						}
						c.Check(withSep, "R58", fmt.Sprintf("b/ListTables/parent-prefix-includes-separator#%d", k), ci.Instr.Pos(), "the table name is matched against parent + \"/tables/\"", "ListTables matches table names against a prefix that does not end with the \"/tables/\" separator: a parent whose name is a prefix of another parent's also lists that parent's tables")
					}
				}
			}
			// (d)
			if fn := P.Func(core.PkgBttest, rpcRMW); fn != nil && fn.Blocks != nil {
				rmwStop := map[string]bool{"appendOrReplaceCell": true, "getOrCreateFamily": true, "getOrCreateColumn": true, "(*table).getOrCreateRow": true, "(*table).updateRow": true, "scrubRow": true}
				scope := P.Scope(fn, func(f *ssa.Function) bool { return core.PkgPathOf(f) != core.PkgBttest || rmwStop[core.FuncName(f)] })
				within := setOf(scope)
				nTs, okArb := 0, true
				for _, sf := range scope {
					for _, b := range sf.Blocks {
						for _, in := range b.Instrs {
							st, ok := in.(*ssa.Store)
							if !ok {
								continue
							}
							fa, ok := st.Addr.(*ssa.FieldAddr)
							if !ok || !core.TypeIs(fa.X.Type(), pkgBtpb, "Cell") {
								continue
							}
							if _, f, _ := core.FieldName(fa); f != "TimestampMicros" {
								continue
							}
							nTs++
							dep := false
							seen := map[ssa.Value]bool{}
							var walk func(v ssa.Value, d int)
							walk = func(v ssa.Value, d int) {
								v = core.Strip(v)
								if d > 14 || seen[v] || dep {
									return
								}
								seen[v] = true
								if isCellTs(v) {
									dep = true
									return
								}
								switch x := v.(type) {
								case *ssa.Parameter:
									for _, o := range P.Origins(x, within) {
										if o != ssa.Value(x) {
											walk(o, d+1)
										}
									}
								case *ssa.UnOp:
									if cell := core.CellOf(x.X); cell != nil {
										for _, s2 := range core.StoresTo(cell) {
											walk(s2.Val, d+1)
										}
									}
								case *ssa.Call:
									for _, a := range x.Call.Args {
										walk(a, d+1)
									}
									// a helper of the RPC: what it returns (`latestValueAndWriteTimestamp(col, clock)`)
									if sc := x.Call.StaticCallee(); sc != nil && sc.Blocks != nil && core.PkgPathOf(sc) == core.PkgBttest {
										for _, r := range returnsIn(sc) {
											for _, res := range r.Results {
												walk(res, d+1)
											}
										}
									}
								default:
									if inst, isI := v.(ssa.Instruction); isI {
										for _, op := range inst.Operands(nil) {
											if *op != nil {
												walk(*op, d+1)
											}
										}
									}
								}
							}
							walk(st.Val, 0)
							if !dep {
								okArb = false
							}
						}
					}
				}
				if nTs > 0 {
					c.Check(okArb, "R58", "d/ReadModifyWriteRow/timestamp-arbitrated-against-newest-cell", fn.Pos(), "the new cell's timestamp depends on the newest existing cell's timestamp", "the timestamp of the cell written by ReadModifyWriteRow no longer depends on the newest existing cell: when that cell is dated after the server clock the result is stored behind it and every later rule re-reads the old operand (increments are lost)")
				}
			}
		}
		// (c)
		if P.SPkgs[core.PkgGcsemu] != nil {
			if fn := P.Func(core.PkgGcsemu, "(*GcsEmu).makeBucketListResults"); fn != nil && fn.Blocks != nil {
				for _, f := range P.Scope(fn, func(f *ssa.Function) bool { return core.PkgPathOf(f) != core.PkgGcsemu }) {
					for _, b := range f.Blocks {
						ifi, ok := b.Instrs[len(b.Instrs)-1].(*ssa.If)
						if !ok {
							continue
						}
						call, isCall := core.Resolve(ifi.Cond).(*ssa.Call)
						if !isCall || !call.Call.IsInvoke() || call.Call.Method.Name() != "IsDir" {
							continue
						}
						c.Fn(core.FuncName(f))
						// from the directory edge no per-object bookkeeping (an append, a counter update) is reachable
						reach := core.ReachableFrom(b.Succs[0], true)
						var bad ssa.Instruction
						for rb := range reach {
							for _, in := range rb.Instrs {
								switch x := in.(type) {
								case *ssa.Call:
									if bi, isB := x.Call.Value.(*ssa.Builtin); isB && bi.Name() == "append" {
										bad = in
									}
								case *ssa.MapUpdate:
									bad = in
								}
							}
						}
						construct := fmt.Sprintf("c/%s/directories-never-counted", core.FuncName(f))
						if bad != nil {
							c.Bad("R58", construct, bad.Pos(), "a directory entry of the file store's walk can reach the per-object bookkeeping of the listing: directories are counted against maxResults and recorded as found (pages come out short, a page of directories ends the listing)")
						} else {
							c.Ok("R58", construct, ifi.Pos(), true, "the directory branch leaves the callback on every path")
						}
					}
				}
				// (e) only names that carry the requested prefix are recorded: every append / map update in the
				// walk callback is dominated by the true edge of strings.HasPrefix(<the callback's name>, _)
				lscope := P.ScopeSet(fn, func(f *ssa.Function) bool { return core.PkgPathOf(f) != core.PkgGcsemu })
				for _, f := range P.Scope(fn, func(f *ssa.Function) bool { return core.PkgPathOf(f) != core.PkgGcsemu }) {
					// the walk callback: (ctx, filename string, fInfo os.FileInfo) error, as a closure or a method
					var nameParam *ssa.Parameter
					nStr := 0
					hasInfo := false
					for _, pa := range f.Params {
						if isStringType(pa.Type()) {
							nStr++
							nameParam = pa
						}
						if nn := core.NamedOf(pa.Type()); nn != nil && nn.Obj().Name() == "FileInfo" {
							hasInfo = true
						}
					}
					if !hasInfo || nStr != 1 || f == fn {
						continue
					}
					k := 0
					for _, b := range f.Blocks {
						for _, in := range b.Instrs {
							isRecord := false
							switch x := in.(type) {
							case *ssa.Call:
								if bi, isB := x.Call.Value.(*ssa.Builtin); isB && bi.Name() == "append" {
									isRecord = true
								}
							case *ssa.MapUpdate:
								isRecord = true
							}
							if !isRecord {
								continue
							}
							k++
							// … directly, or at the deciding return of a predicate helper (`if l.shouldSkip(name) { return nil }`)
							okPfx := P.InAllContexts(in, []ssa.Value{nameParam}, lscope, func(at ssa.Instruction, vals []ssa.Value) bool {
								if vals[0] == nil {
									return false
								}
								for _, fct := range core.FactsAt(at.Block()) {
									hp, isC := core.Resolve(fct.Cond).(*ssa.Call)
									if !isC || !fct.Polarity || !core.Call(hp).IsFunc("strings", "HasPrefix") {
										continue
									}
									if core.Resolve(hp.Call.Args[0]) == core.Resolve(vals[0]) {
										return true
									}
								}
								return false
							})
							c.Check(okPfx, "R58", fmt.Sprintf("e/%s/recorded-names-carry-the-prefix#%d", core.FuncName(f), k), in.Pos(), "recorded only under strings.HasPrefix(name, prefix)", "the listing records a name without having established strings.HasPrefix(name, prefix): objects outside the requested prefix (e.g. one whose name is a proper prefix of it) are returned, take a maxResults slot and can become the page cursor")
						}
					}
				}
			}
		}
	}}
}

// ---------------------------------------------------------------------------
// R59: fold steps, dead copy loops, monotone flags
// ---------------------------------------------------------------------------

// R59 (a) the range-merge fold: the value computed by the merge step and stored into the
// accumulator slot (`srs[last] = merged`, or an accumulator variable) is computed *from* that
// slot — a step that merges the current range with some other element (its input neighbour)
// and then overwrites the accumulator loses what the accumulator had absorbed: rows of a
// swallowed range are scanned twice / dropped.  (b) a `for … range m` over a map that the
// same function has just made and not filled is a dead loop (the classic "copied from the
// wrong map" slip: the destination keeps none of the source's entries).  (c) a boolean that
// is set inside a loop and consulted after it ("did anything change → write back") is
// monotone: once true it stays true; an assignment that ignores the previous value makes the
// decision depend on the last element only.
func R59() Rule {
	return Rule{Name: "R59", Run: func(c *core.Ctx) {
		P := c.P
		// (a)
		if P.SPkgs[core.PkgBttest] != nil {
			if fn := P.Func(core.PkgBttest, "mergeSimpleRanges"); fn != nil && fn.Blocks != nil {
				c.Fn("mergeSimpleRanges")
				n := 0
				for _, sf := range P.Scope(fn, func(f *ssa.Function) bool { return core.PkgPathOf(f) != core.PkgBttest }) {
					for _, b := range sf.Blocks {
						for _, in := range b.Instrs {
							st, ok := in.(*ssa.Store)
							if !ok || !core.TypeIs(st.Val.Type(), core.PkgBttest, "simpleRange") {
								continue
							}
							// the stored value is (the first result of) a call with ≥ 2 range arguments: a fold step
							var call *ssa.Call
							switch x := core.Strip(st.Val).(type) {
							case *ssa.Extract:
								call, _ = x.Tuple.(*ssa.Call)
							case *ssa.Call:
								call = x
							}
							if call == nil {
								continue
							}
							var rangeArgs []ssa.Value
							for _, a := range call.Call.Args {
								if core.TypeIs(a.Type(), core.PkgBttest, "simpleRange") {
									rangeArgs = append(rangeArgs, a)
								}
							}
							if len(rangeArgs) < 2 {
								continue
							}
							n++
							fromSlot := false
							for _, a := range rangeArgs {
								if ld, isLd := core.Strip(a).(*ssa.UnOp); isLd && ld.Op == token.MUL && sameSlot(ld.X, st.Addr) {
									fromSlot = true
								}
							}
							c.Check(fromSlot, "R59", fmt.Sprintf("a/%s/fold-step-reads-its-accumulator#%d", core.FuncName(sf), n), st.Pos(), "the merged range stored into the accumulator slot is computed from that slot", "the merge step stores its result into the accumulator slot but was not computed from it (it merges the current range with another element): what the accumulator had absorbed is lost — a range swallowed by a wider one becomes the comparison base, rows are returned twice and out of order or dropped")
						}
					}
				}
				if n == 0 {
					c.Infof("R59", "a/fold-steps", fn.Pos(), "no fold step of the form slot = merge(…) in mergeSimpleRanges")
				}
			}
		}
		// (d) SampleRowKeys: what the scan leaves behind for the trailing response is decided per row
		if P.SPkgs[core.PkgBttest] != nil {
			if fn := P.Func(core.PkgBttest, "(*server).SampleRowKeys"); fn != nil && fn.Blocks != nil {
				c.Fn("(*server).SampleRowKeys")
				nVars := 0
				for _, cb := range P.Scope(fn, func(f *ssa.Function) bool { return core.PkgPathOf(f) != core.PkgBttest }) {
					if _, isCb := isAscendCallback(cb); !isCb || len(cb.Params) == 0 {
						continue
					}
					elem := cb.Params[len(cb.Params)-1]
					// captured variables assigned from the element in the callback and read outside it
					byCell := map[*ssa.Alloc][]*ssa.Store{}
					for _, b := range cb.Blocks {
						for _, in := range b.Instrs {
							if st, ok := in.(*ssa.Store); ok {
								if cell := core.CellOf(st.Addr); cell != nil && cell.Parent() != cb {
									byCell[cell] = append(byCell[cell], st)
								}
							}
						}
					}
					for cell, sts := range byCell {
						fromElem := false
						for _, st := range sts {
							if core.Resolve(st.Val) == ssa.Value(elem) {
								fromElem = true
							}
						}
						readOutside := false
						for _, r := range core.Referrers(cell) {
							if ld, isLd := r.(*ssa.UnOp); isLd && ld.Op == token.MUL && ld.Parent() != cb {
								readOutside = true
							}
						}
						if !fromElem || !readOutside {
							continue
						}
						nVars++
						// every continuing path of the callback assigns the variable
						assigns := map[*ssa.BasicBlock]bool{}
						for _, st := range sts {
							assigns[st.Block()] = true
						}
						var bad *ssa.Return
						for _, ret := range returnsIn(cb) {
							if bv, isB := core.ConstBool(ret.Results[0]); isB && !bv {
								continue
							}
							// reachable from entry without passing an assigning block?
							seen := map[*ssa.BasicBlock]bool{}
							var reach func(b *ssa.BasicBlock) bool
							reach = func(b *ssa.BasicBlock) bool {
								if seen[b] || assigns[b] {
									return false
								}
								seen[b] = true
								if b == ret.Block() {
									return true
								}
								for _, s := range b.Succs {
									if reach(s) {
										return true
									}
								}
								return false
							}
							if reach(cb.Blocks[0]) {
								bad = ret
							}
						}
						// … and a row whose key this invocation has already sent is not remembered for the trailing response
						for _, st := range sts {
							if core.Resolve(st.Val) != ssa.Value(elem) {
								continue
							}
							// (the send may sit in a helper or closure of its own: `send(resp)` that gives the lock up around stream.Send)
							var sendSites []ssa.Instruction
							for _, sf := range P.Scope(fn, func(f *ssa.Function) bool { return core.PkgPathOf(f) != core.PkgBttest }) {
								for _, sci := range core.AllCalls(sf) {
									if sci.Method != nil && sci.Method.Name() == "Send" {
										sendSites = append(sendSites, sitesThrough(cb, sci.Instr, false, map[*ssa.Function]bool{}, 0)...)
									}
								}
							}
							reported := false
							for _, site := range sendSites {
								if !reported && core.InstrReaches(site, st) {
									reported = true
									c.Bad("R59", fmt.Sprintf("d/%s/%s-not-a-row-already-sent", core.FuncName(cb), cell.Comment), st.Pos(), "a row whose key was just sent is remembered in %q for the trailing response: when the sampler picks the table's final row its key is sent twice", cell.Comment)
								}
							}
						}
						construct := fmt.Sprintf("d/%s/%s-decided-for-every-row", core.FuncName(cb), cell.Comment)
						if bad != nil {
							c.Bad("R59", construct, bad.Pos(), "the scan callback remembers a row in %q for the response sent after the scan, but a continuing path leaves it as an earlier row set it: a row that was already sent (or an older one) is reported again as the table's last key, out of order and with a wrong offset", cell.Comment)
						} else {
							c.Ok("R59", construct, cb.Pos(), true, "every continuing path of the callback assigns the variable")
						}
					}
				}
				if nVars == 0 {
					c.Infof("R59", "d/trailing-row", fn.Pos(), "the scan callback keeps no row for a trailing response")
				}
			}
		}
		// (b) and (c), every package
		nRange, nFlag, nBadB, nBadC := 0, 0, 0, 0
		for _, pkg := range []string{core.PkgBttest, core.PkgGcsemu, core.PkgGcsutil} {
			if P.SPkgs[pkg] == nil {
				continue
			}
			for _, fn := range P.SrcFuncs(pkg) {
				for _, b := range fn.Blocks {
					for _, in := range b.Instrs {
						rg, ok := in.(*ssa.Range)
						if !ok {
							continue
						}
						if _, isMap := rg.X.Type().Underlying().(*types.Map); !isMap {
							continue
						}
						nRange++
						mm, filled := freshEmptyMap(rg)
						if mm == nil || filled {
							continue
						}
						nBadB++
						c.Bad("R59", fmt.Sprintf("b/%s/range-over-just-made-map#%d", core.FuncName(fn), nBadB), rg.Pos(), "this loop ranges over a map that was made at %s and has not been given any entry: the body never runs (copying from the destination instead of the source: the copy keeps none of the entries)", P.Pos(mm.Pos()))
					}
				}
				// (c)
				for _, hb := range fn.Blocks {
					loop := loopOf(hb)
					if loop == nil || !loopHeader(hb) {
						continue
					}
					for _, in := range hb.Instrs {
						phi, ok := in.(*ssa.Phi)
						if !ok {
							break
						}
						if !isBoolType(phi.Type()) {
							continue
						}
						if bad := nonMonotoneFlag(phi, hb, loop); bad != nil {
							nBadC++
							c.Bad("R59", fmt.Sprintf("c/%s/flag-overwritten-in-loop#%d", core.FuncName(fn), nBadC), bad.Pos(), "a boolean consulted after the loop is assigned inside it without regard to its previous value: only the last element decides (an earlier element's 'changed' is forgotten and its update is not written back)")
						} else {
							nFlag++
						}
					}
				}
			}
		}
		// (e) work with side effects is not made conditional on the flag still being false
		// (`changed = changed || collect(x)` skips collect once changed is true); (f) a method with a value
		// receiver does not assign the receiver's fields (the assignment is lost with the copy)
		nBadE, nBadF := 0, 0
		for _, pkg := range []string{core.PkgBttest, core.PkgGcsemu, core.PkgGcsutil} {
			if P.SPkgs[pkg] == nil {
				continue
			}
			for _, fn := range P.SrcFuncs(pkg) {
				for _, hb := range fn.Blocks {
					loop := loopOf(hb)
					if loop == nil || !loopHeader(hb) {
						continue
					}
					for _, in := range hb.Instrs {
						phi, ok := in.(*ssa.Phi)
						if !ok {
							break
						}
						if !isBoolType(phi.Type()) {
							continue
						}
						for _, r := range core.Referrers(phi) {
							ifi, isIf := r.(*ssa.If)
							if !isIf || !loop[ifi.Block()] || len(ifi.Block().Succs) != 2 {
								continue
							}
							// the false edge: the flag is still unset
							fs := ifi.Block().Succs[1]
							for b := range loop {
								if b != fs && !fs.Dominates(b) {
									continue
								}
								if core.EdgeDominates(ifi.Block(), 0, b) {
									continue
								}
								for _, bi := range b.Instrs {
									ci := core.Call(bi)
									if ci == nil || ci.Static == nil || ci.Static.Blocks == nil || core.PkgPathOf(ci.Static) != pkg {
										continue
									}
									if writesThroughParams(ci.Static) {
										nBadE++
										c.Bad("R59", fmt.Sprintf("e/%s/effectful-call-skipped-once-flag-is-set#%d", core.FuncName(fn), nBadE), bi.Pos(), "%s changes what its arguments point to, but is only called while the loop's flag is still false (a short-circuit `flag = flag || f(x)`): once one element set the flag the remaining elements are not processed", core.FuncName(ci.Static))
									}
								}
							}
						}
					}
				}
				// (f)
				if fn.Signature.Recv() != nil && fn.Parent() == nil && len(fn.Params) > 0 {
					if _, isPtr := fn.Signature.Recv().Type().Underlying().(*types.Pointer); !isPtr {
						if _, isStruct := fn.Signature.Recv().Type().Underlying().(*types.Struct); isStruct {
							recv := fn.Params[0]
							var spill *ssa.Alloc
							for _, r := range core.Referrers(recv) {
								if st, isSt := r.(*ssa.Store); isSt && st.Val == ssa.Value(recv) {
									spill, _ = st.Addr.(*ssa.Alloc)
								}
							}
							if spill != nil {
								for _, r := range core.Referrers(spill) {
									fa, isFa := r.(*ssa.FieldAddr)
									if !isFa {
										continue
									}
									for _, rr := range core.Referrers(fa) {
										st, isSt := rr.(*ssa.Store)
										if !isSt || st.Addr != ssa.Value(fa) {
											continue
										}
										// read again afterwards? (then the copy is used as a scratch value)
										usedLater := false
										for _, r2 := range core.Referrers(spill) {
											if in2, isIn := r2.(ssa.Instruction); isIn && in2 != ssa.Instruction(fa) && in2 != ssa.Instruction(st) && core.InstrReaches(st, in2) {
												if _, isDbg := r2.(*ssa.DebugRef); !isDbg {
													usedLater = true
												}
											}
										}
										if !usedLater {
											nBadF++
											_, fname, _ := core.FieldName(fa)
											c.Bad("R59", fmt.Sprintf("f/%s/value-receiver-field-assignment#%d", core.FuncName(fn), nBadF), st.Pos(), "%s has a value receiver and assigns its field %s: the assignment changes a copy and is lost (the caller's value keeps its old state — a builder that is never emptied re-sends what it already sent)", core.FuncName(fn), fname)
										}
									}
								}
							}
						}
					}
				}
			}
		}
		// (g) every table object is built around a definition whose family map is non-nil: the admin RPCs
		// insert into it, and definitions loaded from storage (a table without families) unmarshal with a nil map
		if P.SPkgs[core.PkgBttest] != nil {
			nLit := 0
			for _, fn := range P.SrcFuncs(core.PkgBttest) {
				for _, b := range fn.Blocks {
					for _, in := range b.Instrs {
						a, isA := in.(*ssa.Alloc)
						if !isA || !a.Heap || !core.TypeIs(a.Type().(*types.Pointer).Elem(), core.PkgBttest, "table") {
							continue
						}
						if _, isNamed := types.Unalias(a.Type().(*types.Pointer).Elem()).(*types.Named); !isNamed {
							continue
						}
						var def ssa.Value
						for _, r := range core.Referrers(a) {
							if fa, isFa := r.(*ssa.FieldAddr); isFa {
								if _, fname, _ := core.FieldName(fa); fname == "def" {
									for _, rr := range core.Referrers(fa) {
										if st, isSt := rr.(*ssa.Store); isSt && st.Addr == ssa.Value(fa) {
											def = st.Val
										}
									}
								}
							}
						}
						if def == nil {
							continue
						}
						nLit++
						ensured := false
						for _, b2 := range fn.Blocks {
							for _, in2 := range b2.Instrs {
								st, isSt := in2.(*ssa.Store)
								if !isSt {
									continue
								}
								fa, isFa := st.Addr.(*ssa.FieldAddr)
								if !isFa {
									continue
								}
								if _, fname, _ := core.FieldName(fa); fname != "ColumnFamilies" {
									continue
								}
								if _, isMM := core.Resolve(st.Val).(*ssa.MakeMap); !isMM {
									continue
								}
								if core.Resolve(fa.X) != core.Resolve(def) && !core.SameValue(fa.X, def) {
									continue
								}
								// the nil test that guards the default dominates the construction
								if idom := b2.Idom(); idom != nil && (idom.Dominates(a.Block())) && core.InstrReaches(st, a) {
									ensured = true
								}
							}
						}
						c.Check(ensured, "R59", fmt.Sprintf("g/%s/table-definition-has-a-family-map", core.FuncName(fn)), a.Pos(), "the constructor defaults a nil ColumnFamilies map before building the table", "a table object is built around a definition whose ColumnFamilies map may be nil (a stored table without families unmarshals that way): ModifyColumnFamilies then panics with 'assignment to entry in nil map' and kills the process")
					}
				}
			}
			if nLit == 0 {
				c.Infof("R59", "g/table-literals", token.NoPos, "no table literal found")
			}
		}
		if nBadE == 0 {
			c.Ok("R59", "e/no-effectful-call-behind-a-set-flag", token.NoPos, true, "no side-effecting helper is called only while a loop flag is unset")
		}
		if nBadF == 0 {
			c.Ok("R59", "f/no-value-receiver-field-assignment", token.NoPos, true, "no method with a value receiver assigns a receiver field without using it afterwards")
		}
		if nBadB == 0 {
			c.Ok("R59", "b/no-range-over-just-made-map", token.NoPos, true, "%d map range loops inspected", nRange)
		}
		if nBadC == 0 {
			c.Ok("R59", "c/loop-flags-are-monotone", token.NoPos, true, "%d boolean loop-carried variables inspected", nFlag)
		}
	}}
}

// sameSlot: two addresses denote the same variable or the same element of the same slice
// (same index value, same slice value or two loads of the same slice variable).
func sameSlot(a, b ssa.Value) bool {
	if a == b || core.SameValue(a, b) {
		return true
	}
	ia, okA := a.(*ssa.IndexAddr)
	ib, okB := b.(*ssa.IndexAddr)
	if !okA || !okB || core.Strip(ia.Index) != core.Strip(ib.Index) {
		return false
	}
	return ia.X == ib.X || core.SameValue(ia.X, ib.X) || core.SameCellLoad(ia.X, ib.X)
}

// writesThroughParams: g stores into memory reachable from its parameters (a field or element
// of something a parameter points to).
func writesThroughParams(g *ssa.Function) bool {
	fromParam := func(v ssa.Value) bool {
		for i := 0; i < 8; i++ {
			v = core.Resolve(v)
			switch x := v.(type) {
			case *ssa.Parameter:
				return true
			case *ssa.FieldAddr:
				v = x.X
			case *ssa.IndexAddr:
				v = x.X
			case *ssa.UnOp:
				v = x.X
			case *ssa.Phi:
				if len(x.Edges) == 0 {
					return false
				}
				v = x.Edges[0]
			case *ssa.Extract:
				v = x.Tuple
			case *ssa.Next:
				v = x.Iter
			case *ssa.Range:
				v = x.X
			default:
				return false
			}
		}
		return false
	}
	for _, b := range g.Blocks {
		for _, in := range b.Instrs {
			if st, ok := in.(*ssa.Store); ok {
				switch st.Addr.(type) {
				case *ssa.FieldAddr, *ssa.IndexAddr:
					if fromParam(st.Addr) {
						return true
					}
				}
			}
		}
	}
	return false
}

// freshEmptyMap: the map ranged over is a make(map…) of the same function, reached through
// a local variable or a field of a local struct; filled reports whether any update of that
// map can happen before the range.
func freshEmptyMap(rg *ssa.Range) (mm *ssa.MakeMap, filled bool) {
	fn := rg.Parent()
	v := core.Strip(rg.X)
	var addr ssa.Value
	if m, ok := core.Resolve(v).(*ssa.MakeMap); ok {
		mm = m
	} else if ld, ok := v.(*ssa.UnOp); ok && ld.Op == token.MUL {
		addr = ld.X
		// the closest dominating store to the same place
		var best *ssa.Store
		for _, b := range fn.Blocks {
			for _, in := range b.Instrs {
				st, isSt := in.(*ssa.Store)
				if !isSt || !core.SameValue(st.Addr, addr) || !core.InstrDominates(st, rg) {
					continue
				}
				if best == nil || core.InstrDominates(best, st) {
					best = st
				}
			}
		}
		if best == nil {
			return nil, false
		}
		// no other store to the place may lie between
		for _, b := range fn.Blocks {
			for _, in := range b.Instrs {
				st, isSt := in.(*ssa.Store)
				if isSt && st != best && core.SameValue(st.Addr, addr) && core.InstrReaches(best, st) && core.InstrReaches(st, rg) {
					return nil, false
				}
			}
		}
		m, isMM := core.Resolve(best.Val).(*ssa.MakeMap)
		if !isMM {
			return nil, false
		}
		mm = m
	}
	if mm == nil || mm.Parent() != fn {
		return nil, false
	}
	for _, b := range fn.Blocks {
		for _, in := range b.Instrs {
			switch x := in.(type) {
			case *ssa.MapUpdate:
				same := core.Resolve(x.Map) == ssa.Value(mm)
				if ld, isLd := core.Strip(x.Map).(*ssa.UnOp); isLd && addr != nil && core.SameValue(ld.X, addr) {
					same = true
				}
				if same && core.InstrReaches(x, rg) {
					return mm, true
				}
			case ssa.CallInstruction:
				// handed to anything before the range: it may have been filled there
				for _, a := range x.Common().Args {
					if core.Resolve(a) == ssa.Value(mm) && core.InstrReaches(in, rg) {
						return mm, true
					}
				}
			}
		}
	}
	return mm, false
}

// nonMonotoneFlag: phi is a boolean loop-header φ whose value is consulted after the loop and
// whose back-edge value can be a fresh, non-constant value on a path on which the variable
// was (possibly) already true.  Returns the offending definition.
func nonMonotoneFlag(phi *ssa.Phi, hb *ssa.BasicBlock, loop map[*ssa.BasicBlock]bool) ssa.Instruction {
	// the web: boolean φs inside the loop connected to phi
	web := map[ssa.Value]bool{phi: true}
	var back []ssa.Value
	outside := 0
	for i, e := range phi.Edges {
		if loop[hb.Preds[i]] {
			back = append(back, e)
		} else {
			outside++
		}
	}
	if outside == 0 || len(back) == 0 {
		return nil
	}
	// not the loop's own condition (for ok := it.First(); ok; ok = it.Next())
	for _, r := range core.Referrers(phi) {
		if ifi, isIf := r.(*ssa.If); isIf && loop[ifi.Block()] {
			for _, s := range ifi.Block().Succs {
				if !loop[s] {
					return nil
				}
			}
		}
	}
	type leaf struct {
		v    ssa.Value
		from *ssa.BasicBlock // block the value arrives from (edge into a φ of the web), nil = directly on the back edge
	}
	var leaves []leaf
	seen := map[ssa.Value]bool{}
	var walk func(v ssa.Value, from *ssa.BasicBlock)
	walk = func(v ssa.Value, from *ssa.BasicBlock) {
		if v == ssa.Value(phi) {
			return
		}
		if p2, isPhi := v.(*ssa.Phi); isPhi && loop[p2.Block()] {
			if seen[v] {
				return
			}
			seen[v] = true
			web[p2] = true
			for i, e := range p2.Edges {
				walk(e, p2.Block().Preds[i])
			}
			return
		}
		leaves = append(leaves, leaf{v, from})
	}
	for i, e := range phi.Edges {
		if loop[hb.Preds[i]] {
			walk(e, hb.Preds[i])
		}
	}
	// consulted after the loop?
	after := false
	for w := range web {
		for _, r := range core.Referrers(w) {
			if loop[r.Block()] {
				continue
			}
			switch r.(type) {
			case *ssa.If, *ssa.Return, *ssa.Store:
				after = true
			case *ssa.Phi:
				after = true
			}
		}
	}
	if !after {
		return nil
	}
	for _, lf := range leaves {
		if _, isK := core.ConstBool(lf.v); isK {
			continue
		}
		// a fresh value: fine only where the variable is known to be false
		guarded := false
		if lf.from != nil {
			facts := core.FactsAt(lf.from)
			if ifi, isIf := lf.from.Instrs[len(lf.from.Instrs)-1].(*ssa.If); isIf {
				_ = ifi
			}
			for _, f := range facts {
				if web[f.Cond] && !f.Polarity {
					guarded = true
				}
			}
		}
		// `x = x || y` computes y in a block entered on the false edge of x; `x = y || x` and
		// `x = x | y`-style BinOps that mention the variable are monotone as well
		if !guarded {
			if bin, isBin := lf.v.(*ssa.BinOp); isBin && (bin.Op == token.OR || bin.Op == token.LOR) && (web[bin.X] || web[bin.Y]) {
				guarded = true
			}
		}
		if !guarded {
			if in, isIn := lf.v.(ssa.Instruction); isIn {
				return in
			}
			return phi
		}
	}
	return nil
}

// isStdGeneric: call is a call of (an instantiation of) the generic standard-library function pkg.name.
func isStdGeneric(call *ssa.Call, pkg, name string) bool {
	f := call.Call.StaticCallee()
	if f == nil {
		return false
	}
	if o := f.Origin(); o != nil {
		f = o
	}
	return f.Pkg != nil && f.Pkg.Pkg.Path() == pkg && f.Name() == name
}
