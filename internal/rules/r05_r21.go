package rules

import (
	"fmt"
	"go/token"
	"go/types"
	"strings"

	"golang.org/x/tools/go/ssa"

	"verif/internal/core"
)

// ---------------------------------------------------------------------------
// R05: guarded references do not escape into responses
// ---------------------------------------------------------------------------

func isServerMethod(fn *ssa.Function) bool {
	r := core.Root(fn)
	return r.Signature.Recv() != nil && core.TypeIs(r.Signature.Recv().Type(), core.PkgBttest, "server")
}

func R05() Rule {
	return Rule{Name: "R05", Run: func(c *core.Ctx) {
		P := c.P
		gr := Guarded(P)
		nEsc := 0
		for _, e := range gr.escapes {
			if !isServerMethod(e.fn) && core.Root(e.fn).Pkg.Pkg.Path() == core.PkgBttest {
				// helpers: reported where the value finally leaves
			}
			if core.Root(e.fn).Pkg.Pkg.Path() != core.PkgBttest {
				continue
			}
			nEsc++
			c.Bad("R05", fmt.Sprintf("%s/%s.%s/escape#%d", core.FuncName(e.fn), e.spec.typ, e.spec.field, nEsc), e.instr.Pos(),
				"%s: the reference is used after the lock is released (gRPC marshals responses after the handler returned) and races with writers holding %s", e.what, e.spec.lock)
		}
		// every RPC method that returns a message: the returned pointer is not derived from table.def
		nRet := 0
		for _, fn := range P.SrcFuncs(core.PkgBttest) {
			if fn.Parent() != nil || !isServerMethod(fn) {
				continue
			}
			res := fn.Signature.Results()
			if res.Len() != 2 || !isPtr(res.At(0).Type()) {
				continue
			}
			for _, r := range returnsIn(fn) {
				for _, v := range returnValues(r.Results[0]) {
					if core.IsNilConst(v) {
						continue
					}
					nRet++
				}
			}
			c.Fn(core.FuncName(fn))
		}
		if nEsc == 0 {
			c.Ok("R05", "no-escape-of-guarded-references", token.NoPos, true, "%d message-returning paths of RPC methods inspected; no value derived from table.def / server.tables is returned, stored into a heap object or handed to a goroutine", nRet)
		}
		if nRet < 5 {
			c.Unknown("R05", "floor/returns", token.NoPos, "only %d message returns found in RPC methods", nRet)
		}
		// ownership transfer: what is handed to newTable / Storage.Create becomes guarded state;
		// it must not also flow into the response.
		for _, fn := range P.SrcFuncs(core.PkgBttest) {
			if !isServerMethod(fn) {
				continue
			}
			var given []ssa.Value
			for _, ci := range core.AllCalls(fn) {
				if ci.IsFunc(core.PkgBttest, "newTable") {
					given = append(given, ci.Common.Args[0])
				}
			}
			if len(given) == 0 {
				continue
			}
			// derived set: the given message, loads of its fields, getters on it / on the request field holding it
			derived := map[ssa.Value]bool{}
			var keys []string
			for _, g := range given {
				keys = append(keys, fieldLoadKey(core.Resolve(g)))
			}
			isGiven := func(v ssa.Value) bool {
				v = core.Resolve(v)
				for i, g := range given {
					if core.Resolve(g) == v {
						return true
					}
					if k := fieldLoadKey(v); k != "" && k == keys[i] {
						return true
					}
				}
				return false
			}
			for changed := true; changed; {
				changed = false
				for _, b := range fn.Blocks {
					for _, in := range b.Instrs {
						v, ok := in.(ssa.Value)
						if !ok || derived[v] {
							continue
						}
						d := false
						switch x := in.(type) {
						case *ssa.UnOp:
							if x.Op == token.MUL {
								if isGiven(x) {
									d = true
								}
								if fa, ok := x.X.(*ssa.FieldAddr); ok && derived[fa.X] && isRefType(x.Type()) {
									d = true
								}
							}
						case *ssa.FieldAddr:
							if derived[x.X] {
								d = true
							}
						case *ssa.Call:
							// protobuf getters return the field itself
							if sc := x.Call.StaticCallee(); sc != nil && strings.HasPrefix(sc.Name(), "Get") && sc.Signature.Recv() != nil && len(x.Call.Args) == 1 {
								recv := x.Call.Args[0]
								if derived[recv] && isRefType(x.Type()) {
									d = true
								}
								// req.GetTable(): getter of the very field that was given away
								if p, ok := core.Resolve(recv).(*ssa.Parameter); ok {
									for _, g := range given {
										if ld, ok := core.Resolve(g).(*ssa.UnOp); ok {
											if fa, ok := ld.X.(*ssa.FieldAddr); ok && core.Resolve(fa.X) == ssa.Value(p) {
												if _, f, _ := core.FieldName(fa); "Get"+f == sc.Name() {
													d = true
												}
											}
										}
									}
								}
							}
						case *ssa.Phi:
							for _, e := range x.Edges {
								if derived[e] {
									d = true
								}
							}
						}
						if d {
							derived[v] = true
							changed = true
						}
					}
				}
			}
			bad := false
			for _, b := range fn.Blocks {
				for _, in := range b.Instrs {
					switch x := in.(type) {
					case *ssa.Store:
						if derived[x.Val] && isRefType(x.Val.Type()) {
							if fa, ok := x.Addr.(*ssa.FieldAddr); ok {
								if _, fresh := core.Resolve(fa.X).(*ssa.Alloc); fresh {
									bad = true
									c.Bad("R05", core.FuncName(fn)+"/shares-given-away-state", x.Pos(), "a reference into the message that was handed to newTable (now guarded by the table lock) is stored into the response: the response is marshalled unlocked while ModifyColumnFamilies may write the same map")
								}
							}
						}
					case *ssa.Return:
						for _, rv := range x.Results {
							if derived[rv] && isRefType(rv.Type()) {
								bad = true
								c.Bad("R05", core.FuncName(fn)+"/returns-given-away-state", x.Pos(), "the message handed to newTable is also returned to the client")
							}
						}
					}
				}
			}
			// use after transfer: once the table is constructed the message belongs to it (guarded by
			// the table lock, which this RPC does not hold): it must not be read any more — not even to
			// copy it for the response
			var transfer ssa.Instruction
			for _, ci := range core.AllCalls(fn) {
				if ci.IsFunc(core.PkgBttest, "newTable") {
					transfer = ci.Instr
				}
			}
			if transfer != nil {
				for _, b := range fn.Blocks {
					for _, in := range b.Instrs {
						if in == transfer || !core.InstrReaches(transfer, in) || core.InstrDominates(in, transfer) {
							continue // (a use that dominates the hand-over precedes it; it is reached "after" only round a loop, with the next message)
						}
						used := false
						switch x := in.(type) {
						case ssa.CallInstruction:
							for _, a := range x.Common().Args {
								if isGiven(a) || derived[a] {
									used = true
								}
							}
						case *ssa.FieldAddr:
							if isGiven(x.X) || derived[x.X] {
								used = true
							}
						}
						if used && !bad {
							bad = true
							c.Bad("R05", core.FuncName(fn)+"/reads-given-away-state", in.Pos(), "the message handed to newTable is read after the table was constructed from it: from then on it is the table's definition, guarded by the table lock, and a concurrent ModifyColumnFamilies writes its family map while it is being read here (fatal concurrent map access)")
						}
					}
				}
			}
			if !bad {
				c.Ok("R05", core.FuncName(fn)+"/ownership-transfer", fn.Pos(), true, "nothing derived from the message given to newTable flows into the response or is read after the hand-over")
			}
		}
	}}
}

// freshMessage: v, used in function f, is a message allocated by this very invocation of f —
// an allocation of f itself, or the result of a helper called here every non-nil result of
// which is the helper's own allocation.
func freshMessage(v ssa.Value, f *ssa.Function, depth int) bool {
	v = core.Resolve(v)
	switch x := v.(type) {
	case *ssa.Alloc:
		return x.Parent() == f
	case *ssa.Call:
		g := x.Call.StaticCallee()
		if x.Parent() != f || g == nil || g.Blocks == nil || depth > 3 {
			return false
		}
		n := 0
		for _, r := range returnsIn(g) {
			if len(r.Results) < 1 {
				return false
			}
			for _, rv := range returnValues(r.Results[0]) {
				if core.IsNilConst(core.Resolve(rv)) {
					continue
				}
				if !freshMessage(rv, g, depth+1) {
					return false
				}
				n++
			}
		}
		return n > 0
	case *ssa.Phi:
		for _, e := range x.Edges {
			if !core.IsNilConst(core.Resolve(e)) && !freshMessage(e, f, depth+1) {
				return false
			}
		}
		return len(x.Edges) > 0
	}
	return false
}

// ---------------------------------------------------------------------------
// R21: durability ordering and wiring
// ---------------------------------------------------------------------------

func R21() Rule {
	return Rule{Name: "R21", Run: func(c *core.Ctx) {
		P := c.P
		// ---- D1 SetTableMeta: write temp, then rename over the final path
		set := P.MustFunc(core.PkgBttest, "LeveldbDiskStorage.SetTableMeta")
		c.Fn(core.FuncName(set))
		var writes, renames []*ssa.Call
		// SetTableMeta together with the phases it is split into
		setScope := P.Scope(set, func(f *ssa.Function) bool { return core.PkgPathOf(f) != core.PkgBttest })
		setSet := setOf(setScope)
		isWrite := func(ci *core.CallInfo) bool {
			return ci.IsFunc("os", "WriteFile") || ci.IsFunc("os", "Create") || ci.IsFunc("os", "OpenFile") || ci.IsFunc("io/ioutil", "WriteFile")
		}
		for _, sf := range setScope {
			for _, ci := range core.AllCalls(sf) {
				call, ok := ci.Instr.(*ssa.Call)
				if !ok {
					continue
				}
				switch {
				case isWrite(ci):
					writes = append(writes, call)
				case ci.IsFunc("os", "Rename"):
					renames = append(renames, call)
				}
			}
		}
		ok := len(writes) == 1 && len(renames) == 1
		why := fmt.Sprintf("expected one file write and one rename, found %d and %d", len(writes), len(renames))
		if ok {
			r := renames[0]
			// the rename is reached only after a successful write of the very file it renames: at the
			// rename, in every calling context, or at the success return of a phase helper
			// (validator / predicate summaries of core.InAllContexts)
			written := P.InAllContexts(r, []ssa.Value{r.Call.Args[0]}, setSet, func(at ssa.Instruction, vals []ssa.Value) bool {
				if vals[0] == nil {
					return false
				}
				for _, ci := range core.AllCalls(at.Parent()) {
					w, isCall := ci.Instr.(*ssa.Call)
					if !isCall || !isWrite(ci) || !core.SameValue(w.Call.Args[0], vals[0]) {
						continue
					}
					if core.InstrDominates(w, at) && errNilEdge(w, at.Block()) {
						return true
					}
				}
				return false
			})
			switch {
			case core.SameValue(r.Call.Args[0], r.Call.Args[1]):
				ok, why = false, "rename source and target are the same path"
			case !written:
				ok, why = false, "the rename is not preceded, on every path, by a successful write of the file it renames (a truncated or missing file replaces the good one)"
			}
			// the final path must contain the metadata suffix and differ from tmp
			if ok && !P.AllOrigins(r.Call.Args[1], setSet, func(o ssa.Value) bool {
				s, isS := suffixConst(o)
				return isS && strings.HasSuffix(s, ".table.proto")
			}) {
				ok, why = false, "the rename target is not the *.table.proto file GetTables looks for"
			}
		}
		c.Check(ok, "R21", "D1/SetTableMeta-atomic-replace", set.Pos(), "metadata is written to a temp file and renamed over <name>.table.proto only if the write succeeded", "D1: "+why+": a crash can leave a torn metadata file")

		// ---- D2 schema mutations are followed by SetTableMeta
		for _, fn := range P.SrcFuncs(core.PkgBttest) {
			if fn.Parent() != nil || !isServerMethod(fn) {
				continue
			}
			gr := Guarded(P)
			var defWrites []ssa.Instruction
			for _, a := range gr.accesses {
				if a.need == mW && a.spec.field == "def" && core.Root(a.fn) == fn {
					defWrites = append(defWrites, a.instr)
				}
			}
			if len(defWrites) == 0 {
				continue
			}
			c.Fn(core.FuncName(fn))
			var persist []*ssa.Call
			for _, ci := range core.AllCalls(fn) {
				if ci.IsIfaceMethod(core.PkgBttest, "Storage", "SetTableMeta") {
					if call, ok := ci.Instr.(*ssa.Call); ok {
						persist = append(persist, call)
					}
				}
			}
			okP := len(persist) > 0
			whyP := "the definition is modified but never persisted"
			if okP {
				for _, r := range returnsIn(fn) {
					if ie, _ := isErrorReturn(r); ie {
						continue
					}
					// success return reachable from a write must be dominated by a persist that comes after all writes
					for _, w := range defWrites {
						if w.Parent() != fn || !core.InstrReaches(w, r) {
							continue
						}
						covered := false
						for _, p := range persist {
							if core.InstrDominates(p, r) && !core.InstrReaches(p, w) {
								covered = true
							}
						}
						if !covered {
							okP, whyP = false, "a success path modifies the definition without a later SetTableMeta"
						}
					}
				}
			}
			c.Check(okP, "R21", "D2/"+core.FuncName(fn)+"/persist-after-modify", fn.Pos(), "every success path that modified the definition passes through Storage.SetTableMeta after the last modification", "D2: "+whyP+": an acknowledged schema change is lost on restart")
		}
		// Create persists the definition
		create := P.MustFunc(core.PkgBttest, "LeveldbDiskStorage.Create")
		okC := false
		crScope := P.Scope(create, func(f *ssa.Function) bool { return core.PkgPathOf(f) != core.PkgBttest || f == set })
		crSet := setOf(crScope)
		for _, ci := range core.CallsIn(crScope, func(ci *core.CallInfo) bool { return ci.Static == set }) {
			for _, site := range P.ExecSites(create, ci.Instr, crSet) {
				if site.Parent() != create {
					continue
				}
				dom := true
				for _, r := range returnsIn(create) {
					if !core.InstrDominates(site, r) {
						dom = false
					}
				}
				if dom {
					okC = true
				}
			}
		}
		c.Check(okC, "R21", "D2/LeveldbDiskStorage.Create/persists", create.Pos(), "Create calls SetTableMeta on every path", "D2: a created table's definition is not persisted: the table is gone after a restart")

		// ---- D3 DeleteTable removes the persisted metadata
		del := P.MustFunc(core.PkgBttest, "(*server).DeleteTable")
		c.Fn(core.FuncName(del))
		okD := false
		delScope := P.Scope(del, func(f *ssa.Function) bool { return core.PkgPathOf(f) != core.PkgBttest })
		delSet := setOf(delScope)
		isDTM := func(ci *core.CallInfo) bool { return ci.Method != nil && ci.Method.Name() == "DeleteTableMeta" }
		for _, ci := range core.CallsIn(delScope, isDTM) {
			for _, site := range P.ExecSites(del, ci.Instr, delSet) {
				if site.Parent() != del {
					continue
				}
				okD = true
				for _, r := range returnsIn(del) {
					if ie, _ := isErrorReturn(r); !ie && !core.InstrDominates(site, r) {
						// the call sits under the `if d, ok := storage.(deleter)` edge; require reachability instead
						if !core.InstrReaches(site, r) {
							okD = false
						}
					}
				}
			}
		}
		impl := P.Func(core.PkgBttest, "LeveldbDiskStorage.DeleteTableMeta")
		okImpl := false
		if impl != nil && impl.Blocks != nil {
			implScope := P.Scope(impl, func(f *ssa.Function) bool { return core.PkgPathOf(f) != core.PkgBttest })
			for _, ci := range core.CallsIn(implScope, func(*core.CallInfo) bool { return true }) {
				if ci.IsFunc("os", "Remove") || ci.IsFunc("os", "RemoveAll") {
					if P.AllOrigins(ci.Common.Args[0], setOf(implScope), func(o ssa.Value) bool {
						s, isS := suffixConst(o)
						return isS && strings.HasSuffix(s, ".table.proto")
					}) {
						okImpl = true
					}
				}
			}
		}
		// the optional interface is asserted on the Storage *value* the server was given: a storage
		// type that satisfies Storage as a value (and is passed around as one) must have the method
		// in its value method set — with a pointer receiver the assertion fails silently
		if impl != nil && impl.Signature.Recv() != nil {
			if nm := core.NamedOf(impl.Signature.Recv().Type()); nm != nil {
				if stObj := P.Pkgs[core.PkgBttest].Types.Scope().Lookup("Storage"); stObj != nil {
					if iface, isI := stObj.Type().Underlying().(*types.Interface); isI && types.Implements(nm, iface) {
						inValueSet := types.NewMethodSet(nm).Lookup(nm.Obj().Pkg(), impl.Name()) != nil
						c.Check(inValueSet, "R21", "D3/optional-method-in-value-method-set", impl.Pos(), "the storage type is used as a value and declares the optional method on the value receiver", "D3: "+core.TName(nm)+" satisfies Storage as a value but declares "+impl.Name()+" on the pointer receiver: the server's `storage.(interface{ "+impl.Name()+"(string) })` assertion fails silently for the value it holds, the metadata file stays, and a deleted table reappears after a restart")
						if !inValueSet {
							okImpl = false
						}
					}
				}
			}
		}
		// … and with the asserted signature: `storage.(interface{ DeleteTableMeta(name string) })` is satisfied
		// by name AND type — a method that grows a result (`… error`) no longer matches and the assertion
		// fails just as silently
		for _, sf := range delScope {
			for _, b := range sf.Blocks {
				for _, in := range b.Instrs {
					ta, isTA := in.(*ssa.TypeAssert)
					if !isTA || !ta.CommaOk {
						continue
					}
					ifc, isI := ta.AssertedType.Underlying().(*types.Interface)
					if !isI || ifc.NumMethods() == 0 {
						continue
					}
					stObj := P.Pkgs[core.PkgBttest].Types.Scope().Lookup("Storage")
					if stObj == nil {
						continue
					}
					stIface, _ := stObj.Type().Underlying().(*types.Interface)
					for _, name := range P.Pkgs[core.PkgBttest].Types.Scope().Names() {
						tn, isTN := P.Pkgs[core.PkgBttest].Types.Scope().Lookup(name).(*types.TypeName)
						if !isTN || stIface == nil {
							continue
						}
						var t types.Type = tn.Type()
						if !types.Implements(t, stIface) {
							t = types.NewPointer(tn.Type())
							if !types.Implements(t, stIface) {
								continue
							}
						}
						// a storage that has every optional method by name must have them by signature
						ms := types.NewMethodSet(t)
						hasAllByName := true
						for i := 0; i < ifc.NumMethods(); i++ {
							if ms.Lookup(tn.Pkg(), ifc.Method(i).Name()) == nil {
								hasAllByName = false
							}
						}
						if !hasAllByName {
							continue
						}
						c.Check(types.Implements(t, ifc), "R21", "D3/optional-interface-signature/"+core.TName(core.NamedOf(tn.Type())), ta.Pos(), "the storage's method has the signature the server asserts", "D3: "+tn.Name()+" has a method named like the optional interface the server asserts here, but with a different signature: the assertion fails silently and the optional step (removing the table's persisted metadata) is skipped — a deleted table reappears after a restart")
					}
				}
			}
		}
		// the removal happens in the same critical section of the registry as the map delete:
		// otherwise a CreateTable of the same name can slip in and have its fresh metadata removed
		la := Locks(P)
		okLocked := false
		for _, ci := range core.CallsIn(delScope, isDTM) {
			okLocked = la.AbsAt(ci.Instr)["bttest.server.mu"] == mW
		}
		if okD {
			c.Check(okLocked, "R21", "D3/metadata-removed-under-registry-lock", del.Pos(), "DeleteTableMeta runs while server.mu is held (same critical section as the registry delete)", "D3: the metadata removal runs after server.mu was released: a CreateTable of the same name admitted in between gets its fresh metadata file removed and is gone after a restart")
		}
		c.Check(okD && okImpl, "R21", "D3/DeleteTable-removes-metadata", del.Pos(), "DeleteTable asks the storage to forget the table; the disk storage removes <name>.table.proto", "D3: DeleteTable reaches no storage-level removal of the table's metadata: a deleted table reappears after restart")

		// ---- D4b GetTables hands out one freshly allocated message per metadata file
		gt := P.MustFunc(core.PkgBttest, "LeveldbDiskStorage.GetTables")
		okFresh, nApp := true, 0
		for _, f := range P.Scope(gt, func(f *ssa.Function) bool { return core.PkgPathOf(f) != core.PkgBttest }) {
			for _, b := range f.Blocks {
				for _, in := range b.Instrs {
					call, ok := in.(*ssa.Call)
					if !ok {
						continue
					}
					if bi, ok := call.Call.Value.(*ssa.Builtin); !ok || bi.Name() != "append" || len(call.Call.Args) < 2 {
						continue
					}
					sl, ok := call.Call.Args[1].(*ssa.Slice)
					if !ok {
						continue
					}
					arr, ok := sl.X.(*ssa.Alloc)
					if !ok {
						continue
					}
					for _, r := range core.Referrers(arr) {
						if ia, ok := r.(*ssa.IndexAddr); ok {
							for _, rr := range core.Referrers(ia) {
								if st, ok := rr.(*ssa.Store); ok && core.TypeIs(st.Val.Type(), "cloud.google.com/go/bigtable/admin/apiv2/adminpb", "Table") {
									nApp++
									if !freshMessage(st.Val, f, 0) {
										okFresh = false
									}
								}
							}
						}
					}
				}
			}
		}
		c.Check(okFresh && nApp > 0, "R21", "D4/GetTables-distinct-messages", gt.Pos(), "each table appended to the result is a message allocated in that very callback invocation", "D4: GetTables appends a message that is shared between callback invocations (allocated outside the per-file callback): after a restart every entry aliases the last table read")

		// ---- D4 start-up wiring
		ns := P.MustFunc(core.PkgBttest, "NewServerWithOptions")
		c.Fn("NewServerWithOptions")
		okW := false
		// the constructor and the helpers it is split into
		for _, nsf := range P.Scope(ns, func(f *ssa.Function) bool {
			return core.PkgPathOf(f) != core.PkgBttest || core.FuncName(f) == "newTable"
		}) {
			for _, b := range nsf.Blocks {
				for _, in := range b.Instrs {
					mu, isMU := in.(*ssa.MapUpdate)
					if !isMU {
						continue
					}
					nt, isCall := core.Resolve(mu.Value).(*ssa.Call)
					if !isCall || !core.Call(nt).IsFunc(core.PkgBttest, "newTable") {
						continue
					}
					op, isOpen := core.Resolve(nt.Call.Args[1]).(*ssa.Call)
					if !isOpen || !core.Call(op).IsIfaceMethod(core.PkgBttest, "Storage", "Open") {
						continue
					}
					if !core.SameValue(op.Call.Args[0], nt.Call.Args[0]) {
						continue
					}
					// the element comes from GetTables()
					src := strings.Join(fieldChain(nt.Call.Args[0]), ".")
					_ = src
					fromGet := false
					if ld, ok := core.Resolve(nt.Call.Args[0]).(*ssa.UnOp); ok {
						if ia, ok := ld.X.(*ssa.IndexAddr); ok {
							if call, ok := core.Resolve(ia.X).(*ssa.Call); ok && core.Call(call).IsIfaceMethod(core.PkgBttest, "Storage", "GetTables") {
								fromGet = true
							}
						}
					}
					if fromGet && prePublication(P, in) {
						okW = true
					}
				}
			}
		}
		c.Check(okW, "R21", "D4/startup-registers-stored-tables", ns.Pos(), "every table returned by Storage.GetTables is registered with newTable(t, Open(t)) before the server starts serving", "D4: tables found in storage are not (all) registered before serving: persisted data is not served after a restart")
		if main := P.Func(core.PkgCbtemu, "main"); main != nil {
			okDir := false
			for _, b := range main.Blocks {
				for _, in := range b.Instrs {
					st, isSt := in.(*ssa.Store)
					if !isSt {
						continue
					}
					fa, isFa := st.Addr.(*ssa.FieldAddr)
					if !isFa {
						continue
					}
					if _, f, _ := core.FieldName(fa); f != "Root" || !core.TypeIs(fa.X.Type(), core.PkgBttest, "LeveldbDiskStorage") {
						continue
					}
					// value: **dir
					if l1, ok := core.Strip(st.Val).(*ssa.UnOp); ok {
						if l2, ok := l1.X.(*ssa.UnOp); ok {
							if g, ok := l2.X.(*ssa.Global); ok && g.Name() == "dir" {
								okDir = true
							}
						}
					}
				}
			}
			c.Check(okDir, "R21", "D4/cbtemulator-dir-wiring", main.Pos(), "the -dir flag is the Root of the LeveldbDiskStorage handed to the server", "D4: cbtemulator does not pass -dir to the disk storage")
		} else {
			c.Unknown("R21", "D4/cbtemulator-dir-wiring", token.NoPos, "cbtemulator main not found")
		}

		// ---- D6 a stored table opens whatever state a crash left its row directory in: the leveldb options
		// never demand that the directory exists / does not exist (a crash between SetTableMeta and the first
		// open, or inside Clear, leaves metadata without a row directory; the restart must still come up)
		nOpt := 0
		for _, f := range P.SrcFuncs(core.PkgBttest) {
			for _, b := range f.Blocks {
				for _, in := range b.Instrs {
					st, isSt := in.(*ssa.Store)
					if !isSt {
						continue
					}
					fa, isFa := st.Addr.(*ssa.FieldAddr)
					if !isFa {
						continue
					}
					nn := core.NamedOf(fa.X.Type())
					if nn == nil || nn.Obj().Pkg() == nil || !strings.HasSuffix(nn.Obj().Pkg().Path(), "goleveldb/leveldb/opt") || nn.Obj().Name() != "Options" {
						continue
					}
					_, fname, _ := core.FieldName(fa)
					switch fname {
					case "ErrorIfMissing", "ErrorIfExist", "ReadOnly":
						nOpt++
						if bv, isB := core.ConstBool(st.Val); !isB || bv {
							c.Bad("R21", fmt.Sprintf("D6/%s/leveldb-option-%s", core.FuncName(f), fname), st.Pos(), "D6: the row database is opened with %s set: after a crash that left the table's metadata without (or with) its row directory the restart panics instead of recovering", fname)
						}
					}
				}
			}
		}
		if nOpt == 0 {
			c.Ok("R21", "D6/leveldb-open-options", token.NoPos, true, "no open option makes the presence or absence of the row directory an error")
		}

		// ---- D5 one backend write per row write
		upd := P.Func(core.PkgBttest, "(*table).updateRow")
		if upd == nil || upd.Blocks == nil {
			c.Infof("R21", "D5/updateRow-single-backend-write", token.NoPos, "no updateRow helper on this tree (inlined): each write site calls the backend itself")
			upd = nil
		}
		var ws []ssa.Instruction
		if upd != nil {
			for _, ci := range core.AllCalls(upd) {
				if isRowsMethod(ci, "ReplaceOrInsert", "Delete") {
					ws = append(ws, ci.Instr)
				}
			}
			okOne := len(ws) == 2 && !core.InstrReaches(ws[0], ws[1]) && !core.InstrReaches(ws[1], ws[0])
			if okOne {
				for _, r := range returnsIn(upd) {
					if !core.InstrDominates(ws[0], r) && !core.InstrDominates(ws[1], r) {
						// exactly one of them on each path: the return is reachable from one and not both
						if !(core.InstrReaches(ws[0], r) || core.InstrReaches(ws[1], r)) {
							okOne = false
						}
					}
				}
			}
			c.Check(okOne, "R21", "D5/updateRow-single-backend-write", upd.Pos(), "each path through updateRow performs exactly one of Rows.Delete / Rows.ReplaceOrInsert", "D5: a row write is split into several backend operations: a crash in between leaves half a write")
		}
		for _, m := range []struct{ method, backend string }{{"ReplaceOrInsert", "Put"}, {"Delete", "Delete"}} {
			fn := P.MustFunc(core.PkgBttest, "(*leveldbRows)."+m.method)
			n := 0
			for _, ci := range core.AllCalls(fn) {
				if ci.MethodOn(pkgLdb, "DB", "Put") || ci.MethodOn(pkgLdb, "DB", "Delete") || ci.MethodOn(pkgLdb, "DB", "Write") {
					n++
				}
			}
			c.Check(n == 1, "R21", "D5/leveldbRows."+m.method, fn.Pos(), "exactly one journalled leveldb operation", fmt.Sprintf("D5: %d leveldb operations per row %s", n, m.method))
		}
	}}
}

// suffixConst finds a trailing string constant of a path expression such as
// filepath.Join(x + ".table.proto") or x + ".table.proto".
func suffixConst(v ssa.Value) (string, bool) {
	for i := 0; i < 10; i++ {
		v = core.Resolve(v)
		switch x := v.(type) {
		case *ssa.BinOp:
			if x.Op == token.ADD {
				if s, ok := constStringDeep(x.Y); ok {
					return s, true
				}
				v = x.Y
				continue
			}
			return "", false
		case *ssa.Call:
			if core.Call(x).IsFunc("path/filepath", "Join") {
				// variadic: last element of the literal
				if sl, ok := x.Call.Args[0].(*ssa.Slice); ok {
					if arr, ok := sl.X.(*ssa.Alloc); ok {
						var last ssa.Value
						for _, r := range core.Referrers(arr) {
							if ia, ok := r.(*ssa.IndexAddr); ok {
								for _, rr := range core.Referrers(ia) {
									if st, ok := rr.(*ssa.Store); ok {
										last = st.Val
									}
								}
							}
						}
						if last != nil {
							v = last
							continue
						}
					}
				}
			}
			// a path helper of the repository: continue with what it returns
			if callee := x.Call.StaticCallee(); callee != nil && callee.Blocks != nil {
				var rets []*ssa.Return
				for _, b := range callee.Blocks {
					if r, ok := b.Instrs[len(b.Instrs)-1].(*ssa.Return); ok && len(r.Results) == 1 {
						rets = append(rets, r)
					}
				}
				if len(rets) == 1 {
					v = rets[0].Results[0]
					continue
				}
			}
			return "", false
		case *ssa.Const:
			return core.ConstString(x)
		default:
			return "", false
		}
	}
	return "", false
}
