#!/usr/bin/env python3
"""Regenerates seeded/EXPECT.json from regress/matrix.json (written by tools/matrix.py):
per seeded change, the properties whose check exits 1 on it and whether its own property is among them."""
import json, os
V = os.path.dirname(os.path.dirname(os.path.abspath(__file__)))
m = json.load(open(os.path.join(V, 'regress', 'matrix.json')))
out = {}
for k, res in sorted(m.items()):
    if not k.startswith('seeded-'):
        continue
    name = k[len('seeded-'):]
    alarms = sorted(p for p, v in res.items() if isinstance(v, dict) and v.get('exit') == 1)
    out[name] = {'alarms': alarms, 'own': name.split('-')[0] in alarms}
json.dump(out, open(os.path.join(V, 'seeded', 'EXPECT.json'), 'w'), indent=1, sort_keys=True)
own = sum(1 for v in out.values() if v['own'])
print(f'{len(out)} seeded changes, {own} reported under their own property, {sum(1 for v in out.values() if v["alarms"])} under some property')
