package rules

import (
	"fmt"
	"go/token"
	"go/types"

	"golang.org/x/tools/go/ssa"

	"verif/internal/core"
)

// releasedBetween: on some path from a to b (same function) the lock is
// released — by a direct Unlock/RUnlock or by a synchronous callee that
// releases and re-takes it (epoch break).
func releasedBetween(la *LockAnalysis, a, b ssa.Instruction, lock string) (ssa.Instruction, bool) {
	fn := a.Parent()
	if fn != b.Parent() {
		return nil, false
	}
	for _, blk := range fn.Blocks {
		for _, in := range blk.Instrs {
			ci := core.Call(in)
			if ci == nil {
				continue
			}
			rel := false
			if op, ok := lockOpOf(ci); ok && op.lock == lock && !op.acq {
				if _, isDefer := in.(*ssa.Defer); !isDefer {
					rel = true
				}
			} else if _, isGo := in.(*ssa.Go); !isGo {
				for _, callee := range la.calleesOf(ci) {
					if la.Breaks[callee][lock] {
						rel = true
					}
				}
			}
			if rel && in != a && in != b && core.InstrReaches(a, in) && core.InstrReaches(in, b) {
				return in, true
			}
		}
	}
	return nil, false
}

// ---------------------------------------------------------------------------
// R44: check-then-act on a guarded map happens under one uninterrupted hold
// ---------------------------------------------------------------------------

// R44: when a function looks a key up in a mutex-guarded map and later inserts
// into / deletes from the same map, the guard is not released in between:
// otherwise two requests can both pass the check and both act (two CreateTable
// of one name both succeed and one table replaces the other; an entry is
// evicted although a new holder took a reference in the gap).
func R44() Rule {
	return Rule{Name: "R44", Run: func(c *core.Ctx) {
		P := c.P
		la := Locks(P)
		n := 0
		var pkgs []string
		for p := range P.SPkgs {
			pkgs = append(pkgs, p)
		}
		for _, pkg := range []string{core.PkgBttest, core.PkgGcsemu, core.PkgGcsutil} {
			if P.SPkgs[pkg] == nil {
				continue
			}
			for _, fn := range P.SrcFuncs(pkg) {
				type acc struct {
					in    ssa.Instruction
					spec  *guardSpec
					write bool
				}
				var accs []acc
				for _, b := range fn.Blocks {
					for _, in := range b.Instrs {
						var m ssa.Value
						write := false
						switch x := in.(type) {
						case *ssa.Lookup:
							m = x.X
						case *ssa.MapUpdate:
							m, write = x.Map, true
						case *ssa.Call:
							if bi, ok := x.Call.Value.(*ssa.Builtin); ok && bi.Name() == "delete" {
								m, write = x.Call.Args[0], true
							}
						}
						if m == nil {
							continue
						}
						if _, isMap := m.Type().Underlying().(*types.Map); !isMap {
							continue
						}
						ld, ok := core.Strip(m).(*ssa.UnOp)
						if !ok {
							continue
						}
						if g := findGuard(ld.X); g != nil && g.kind == gkMap {
							accs = append(accs, acc{in, g, write})
						}
					}
				}
				k := 0
				for _, w := range accs {
					if !w.write {
						continue
					}
					for _, r := range accs {
						if r.write || r.spec != w.spec || !core.InstrReaches(r.in, w.in) {
							continue
						}
						n++
						k++
						c.Fn(core.FuncName(fn))
						construct := fmt.Sprintf("%s/%s.%s/check-then-act#%d", core.FuncName(fn), w.spec.typ, w.spec.field, k)
						if rel, bad := releasedBetween(la, r.in, w.in, w.spec.lock); bad {
							c.Bad("R44", construct, w.in.Pos(), "the lookup at %s and this update of %s.%s are separated by a release of %s at %s: two requests can both pass the check and both act", P.Pos(r.in.Pos()), w.spec.typ, w.spec.field, w.spec.lock, P.Pos(rel.Pos()))
						} else {
							c.Ok("R44", construct, w.in.Pos(), true, "lookup and update under one uninterrupted hold of %s", w.spec.lock)
						}
					}
				}
			}
		}
		_ = pkgs
		if n < 2 {
			c.Unknown("R44", "floor/pairs", token.NoPos, "only %d lookup→update pairs on guarded maps found", n)
		}
	}}
}

// ---------------------------------------------------------------------------
// R46: object locks are never nested
// ---------------------------------------------------------------------------

// R46: the per-object locks are not re-entrant and carry no ordering, so taking
// a second one while holding the first deadlocks (same key: at once; crossing
// keys: under contention) and — inside a batch, whose sub-requests have no
// deadline — wedges the object forever.  No TransientLockMap.Run/Lock may be
// reachable from inside a closure passed to Run.
func R46() Rule {
	return Rule{Name: "R46", Run: func(c *core.Ctx) {
		P := c.P
		n := 0
		for _, fn := range P.SrcFuncs(core.PkgGcsemu) {
			sec, _ := sectionOfClosure(P, fn)
			if sec == nil {
				continue
			}
			n++
			c.Fn(core.FuncName(fn))
			var nested ssa.Instruction
			for _, f := range P.Scope(fn, func(f *ssa.Function) bool { return core.PkgPathOf(f) != core.PkgGcsemu }) {
				for _, ci := range core.AllCalls(f) {
					if ci.MethodOn(core.PkgGcsutil, "TransientLockMap", "Run") || ci.MethodOn(core.PkgGcsutil, "TransientLockMap", "Lock") {
						nested = ci.Instr
					}
				}
			}
			construct := fmt.Sprintf("%s/no-nested-object-lock", core.FuncName(fn))
			if nested != nil {
				c.Bad("R46", construct, nested.Pos(), "a second object lock is taken while the critical section of another is running: the locks are not re-entrant and unordered, so a request naming one object twice hangs and two requests crossing each other deadlock")
			} else {
				c.Ok("R46", construct, fn.Pos(), true, "no object lock is taken inside this critical section")
			}
		}
		if n < 3 {
			c.Unknown("R46", "floor/sections", token.NoPos, "only %d critical sections found", n)
		}
	}}
}

// ---------------------------------------------------------------------------
// R45: data timestamps come from the server's injectable clock
// ---------------------------------------------------------------------------

// R45: the emulator is given its clock (Options.Clock → server.clock); server-assigned cell
// timestamps and garbage-collection cut-offs must be computed from it.  A direct call of
// bigtable.Now / bigtable.Time(time.Now()) in the service code bypasses the injected clock:
// GC then condemns cells by wall-clock age, and server timestamps disagree with the clock the
// embedding test controls.  (The real clock is legitimately read for the *activity stamps*
// lastReadNanos/lastWriteNanos, which are plain int64 nanoseconds, not bigtable.Timestamp.)
func R45() Rule {
	return Rule{Name: "R45", Run: func(c *core.Ctx) {
		P := c.P
		n, clockCalls := 0, 0
		for _, fn := range P.SrcFuncs(core.PkgBttest) {
			k := 0
			for _, ci := range core.AllCalls(fn) {
				// a call through the clock field
				if ci.Static == nil && ci.Method == nil {
					if ld, ok := core.Resolve(ci.Common.Value).(*ssa.UnOp); ok {
						if fa, ok := ld.X.(*ssa.FieldAddr); ok {
							if _, f, _ := core.FieldName(fa); f == "clock" {
								clockCalls++
							}
						}
					}
				}
				if ci.Static == nil || ci.Static.Pkg == nil || ci.Static.Pkg.Pkg.Path() != "cloud.google.com/go/bigtable" {
					continue
				}
				if ci.Static.Name() != "Now" && ci.Static.Name() != "Time" {
					continue
				}
				n++
				k++
				c.Fn(core.FuncName(fn))
				c.Bad("R45", fmt.Sprintf("%s/wall-clock-timestamp#%d", core.FuncName(fn), k), ci.Instr.Pos(), "a bigtable.Timestamp is taken from the wall clock (bigtable.%s) instead of the server's injectable clock: cell timestamps / GC cut-offs no longer follow the clock the server was configured with", ci.Static.Name())
			}
		}
		if n == 0 {
			c.Ok("R45", "timestamps-from-server-clock", token.NoPos, true, "no direct bigtable.Now/Time call in the service; %d reads of the injectable clock", clockCalls)
		}
		if clockCalls < 3 {
			c.Unknown("R45", "floor/clock-reads", token.NoPos, "only %d calls through server.clock found", clockCalls)
		}
	}}
}

// ---------------------------------------------------------------------------
// R47: every single-row write stamps the table's write-activity clock
// ---------------------------------------------------------------------------

// R47: the background collector stands down on tables in active use by looking at
// lastWriteNanos, and a pass clears it; a write RPC that can store a row without
// stamping it (table.write()) is invisible to that test: the pass runs on a table
// that was just written, or the table is never collected again.  In every RPC from
// which updateRow is reachable, a call or defer of (*table).write dominates the path
// to the store.
func R47() Rule {
	return Rule{Name: "R47", Run: func(c *core.Ctx) {
		P := c.P
		stamp := P.MustFunc(core.PkgBttest, "(*table).write")
		upd := P.MustFunc(core.PkgBttest, "(*table).updateRow")
		stamps := func(in ssa.Instruction) bool {
			ci := core.Call(in)
			if ci == nil || ci.Static == nil {
				return false
			}
			if ci.Static == stamp {
				return true
			}
			// a helper that certainly stamps (call or defer on every path)
			if core.PkgPathOf(ci.Static) == core.PkgBttest && ci.Static.Blocks != nil {
				for _, b := range ci.Static.Blocks {
					for _, i2 := range b.Instrs {
						if c2 := core.Call(i2); c2 != nil && c2.Static == stamp && b == ci.Static.Blocks[0] {
							return true
						}
					}
				}
			}
			return false
		}
		n := 0
		for _, fn := range P.SrcFuncs(core.PkgBttest) {
			if fn.Parent() != nil || !isServerMethod(fn) || fn.Object() == nil || !fn.Object().Exported() {
				continue
			}
			scope := P.Scope(fn, func(f *ssa.Function) bool { return core.PkgPathOf(f) != core.PkgBttest || f == upd })
			within := setOf(scope)
			var stores []ssa.Instruction
			for _, f := range scope {
				for _, ci := range core.AllCalls(f) {
					if ci.Static == upd {
						stores = append(stores, ci.Instr)
					}
				}
			}
			if len(stores) == 0 {
				continue
			}
			n++
			c.Fn(core.FuncName(fn))
			ok := true
			var at token.Pos = fn.Pos()
			for _, st := range stores {
				for _, site := range P.ExecSites(fn, st, within) {
					dominated := false
					for _, b := range fn.Blocks {
						for _, in := range b.Instrs {
							if stamps(in) && core.InstrDominates(in, site) {
								dominated = true
							}
						}
					}
					if !dominated {
						ok, at = false, site.Pos()
					}
				}
			}
			c.Check(ok, "R47", core.FuncName(fn)+"/write-activity-stamped", at, "every path to the row store passes a call or defer of table.write()", "a row can be stored without the table's write-activity clock being stamped: the background collector does not see the write (it runs on a table in use, and after its next pass the table is never collected again)")
		}
		if n < 3 {
			c.Unknown("R47", "floor/write-rpcs", token.NoPos, "only %d RPCs that reach updateRow found", n)
		}
	}}
}

// ---------------------------------------------------------------------------
// R48: a filepath.Walk callback examines its error before deciding anything
// ---------------------------------------------------------------------------

// R48: filepath.Walk reports a failed lstat/readdir — in particular "the root does
// not exist" — only through the callback's err parameter, together with a nil
// FileInfo.  A callback that can return (nil or otherwise) before looking at err
// swallows that report: listing a bucket that does not exist then succeeds with an
// empty result (the file store answers 200 where the memory store answers 404),
// or dereferences the nil FileInfo.
func R48() Rule {
	return Rule{Name: "R48", Run: func(c *core.Ctx) {
		P := c.P
		n := 0
		for _, pkg := range []string{core.PkgBttest, core.PkgGcsemu} {
			if P.SPkgs[pkg] == nil {
				continue
			}
			for _, fn := range P.SrcFuncs(pkg) {
				for _, ci := range core.AllCalls(fn) {
					if ci.Static == nil || ci.Static.Pkg == nil || ci.Static.Pkg.Pkg.Path() != "path/filepath" || ci.Static.Name() != "Walk" {
						continue
					}
					cb := closureOf(ci.Common.Args[1])
					if cb == nil || len(cb.Params) != 3 {
						continue
					}
					n++
					c.Fn(core.FuncName(cb))
					errParam := cb.Params[2]
					ok := true
					var at token.Pos = cb.Pos()
					for _, r := range returnsIn(cb) {
						examined := false
						for _, f := range core.FactsAt(r.Block()) {
							if b, isB := f.Cond.(*ssa.BinOp); isB && (b.Op == token.EQL || b.Op == token.NEQ) {
								if core.Resolve(b.X) == ssa.Value(errParam) || core.Resolve(b.Y) == ssa.Value(errParam) {
									examined = true
								}
							}
						}
						if !examined {
							ok, at = false, r.Pos()
						}
					}
					c.Check(ok, "R48", core.FuncName(cb)+"/walk-error-examined-first", at, "every return of the callback is reached through a test of its err parameter", "the walk callback can return without having looked at its err parameter: a failed walk (missing root directory) is reported as an empty, successful walk")
				}
			}
		}
		if n < 1 {
			c.Unknown("R48", "floor/walks", token.NoPos, "no filepath.Walk callback found")
		}
	}}
}
