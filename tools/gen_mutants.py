#!/usr/bin/env python3
"""Writes /verif/mutants.json: single-edit variants of /repo's current code used by the
thorough tier (applied in memory through packages.Config.Overlay, never on disk).
Each mutant must still type-check and the named rule must report the named construct."""
import json
BT='bigtable/bttest/inmem.go'
GCS='storage/gcsemu/gcsemu.go'
M=[]
def m(name, prop, file, old, new, expect, why=''):
    M.append(dict(name=name, property=prop, file=file, old=old, new=new, expect=expect, why=why))

# ---- C06 / lock discipline
m('mutaterow-unlock-before-update','C06',BT,
  '''	if err := applyMutations(tbl, r, req.Mutations, now); err != nil {
		return nil, err
	}
	tbl.updateRow(r)
	return &btpb.MutateRowResponse{}, nil''',
  '''	if err := applyMutations(tbl, r, req.Mutations, now); err != nil {
		return nil, err
	}
	tbl.mu.Unlock()
	tbl.mu.Lock()
	tbl.updateRow(r)
	return &btpb.MutateRowResponse{}, nil''','R02/(*server).MutateRow','lock released between read and write-back')
m('rmw-rlock-instead-of-lock','C06',BT,
  '''	defer tbl.write()
	tbl.mu.Lock()
	defer tbl.mu.Unlock()
	now := s.clock()
	r := tbl.getOrCreateRow(req.RowKey)
	resultRow := &btpb.Row{Key: req.RowKey} // copy of updated cells''',
  '''	defer tbl.write()
	tbl.mu.RLock()
	defer tbl.mu.RUnlock()
	now := s.clock()
	r := tbl.getOrCreateRow(req.RowKey)
	resultRow := &btpb.Row{Key: req.RowKey} // copy of updated cells''','R01/(*server).ReadModifyWriteRow/table.rows/call ReplaceOrInsert','read lock while writing')
m('cam-get-before-lock','C06',BT,
  '''	defer tbl.write()
	tbl.mu.Lock()
	defer tbl.mu.Unlock()
	now := s.clock()
	r := tbl.getOrCreateRow(req.RowKey)

	// Figure out which mutation to apply.''',
  '''	defer tbl.write()
	r := tbl.getOrCreateRow(req.RowKey)
	tbl.mu.Lock()
	defer tbl.mu.Unlock()
	now := s.clock()

	// Figure out which mutation to apply.''','R01/(*table).getOrCreateRow/table.rows','row fetched before the lock')
m('mutaterows-store-on-failure','C06',BT,
  '''			msg = err.Error()
		} else {
			tbl.updateRow(r)
		}''','''			msg = err.Error()
		}
		tbl.updateRow(r)''','R06/(*server).MutateRows')
m('btree-get-shares-row','C06','bigtable/bttest/store_btree.go',
  '''	return fromProto(item.(protoItem).buf)
}''','''	var cached btpb.Row
	_ = proto.Unmarshal(item.(protoItem).buf, &cached)
	return rowCache(&cached)
}

var lastRow *btpb.Row

func rowCache(r *btpb.Row) *btpb.Row {
	if lastRow != nil && string(lastRow.Key) == string(r.Key) {
		return lastRow
	}
	lastRow = r
	return r
}''','R09/I4/btreeRows/Get','Get hands out a shared row')
# ---- C01
m('setcell-skip-timestamp-check','C01',BT,
  '''			if !tbl.validTimestamp(ts) {
				return fmt.Errorf("invalid timestamp %d", ts)
			}
			fam := set.FamilyName''','''			if !tbl.validTimestamp(set.TimestampMicros) && set.TimestampMicros != -1 {
				return fmt.Errorf("invalid timestamp %d", ts)
			}
			fam := set.FamilyName''','R08/applyMutations/SetCell/timestamp-valid','validates the request value, stores the computed one')
m('appendorreplace-no-sort-plain-append','C01',BT,
  '''			c.Cells = appendOrReplaceCell(c.Cells, newCell)
		case *btpb.Mutation_DeleteFromColumn_:''','''			c.Cells = append(c.Cells, newCell)
		case *btpb.Mutation_DeleteFromColumn_:''','R28/a/applyMutations/store-Cells')
m('bydescts-ascending','C01',BT,
  '''func (b byDescTS) Less(i, j int) bool { return b[i].TimestampMicros > b[j].TimestampMicros }''',
  '''func (b byDescTS) Less(i, j int) bool { return b[i].TimestampMicros < b[j].TimestampMicros }''','R28/b/byDescTS.Less')
m('delete-search-predicate-flipped','C01',BT,
  '''					ei = sort.Search(len(cs), func(i int) bool { return cs[i].TimestampMicros < tsr.StartTimestampMicros })''',
  '''					ei = sort.Search(len(cs), func(i int) bool { return cs[i].TimestampMicros > tsr.StartTimestampMicros })''','R28/b/search-predicate/applyMutations$1')
m('deletefromcolumn-no-family-check','C01',BT,
  '''			del := mut.DeleteFromColumn
			if _, ok := fs[del.FamilyName]; !ok {
				return fmt.Errorf("unknown family %q", del.FamilyName)
			}''','''			del := mut.DeleteFromColumn''','R08/applyMutations/DeleteFromColumn/family-known')
# ---- C03 / C17
m('leveldb-ignore-callback-result','C17','bigtable/bttest/store_leveldb.go',
  '''		if !iterator(fromProto(it.Value())) {
			break
		}''','''		iterator(fromProto(it.Value()))''','R09/I1/leveldbRows')
m('leveldb-range-drop-limit','C17','bigtable/bttest/store_leveldb.go',
  '''	rows.ascendRange(&util.Range{
		Start: greaterOrEqual,
		Limit: lessThan,
	}, iterator)''','''	rows.ascendRange(&util.Range{
		Start: greaterOrEqual,
	}, iterator)''','R09/I2/leveldbRows/AscendRange/lessThan')
m('btree-lessthan-uses-greaterorequal','C17','bigtable/bttest/store_btree.go',
  '''	b.tree.AscendLessThan(b.key(lessThan), b.adaptIterator(iterator))''','''	b.tree.AscendGreaterOrEqual(b.key(lessThan), b.adaptIterator(iterator))''','R09/I2/btreeRows/AscendLessThan/lessThan')
m('protoitem-less-descending','C17','bigtable/bttest/store_btree.go',
  '''	return bytes.Compare(bi.key, i.(protoItem).key) < 0''','''	return bytes.Compare(bi.key, i.(protoItem).key) > 0''','R09/I5/protoItem.Less')
m('leveldb-clear-without-nuke','C17','bigtable/bttest/store_leveldb.go',
  '''	rows.db = rows.newFunc(true)''','''	rows.db = rows.newFunc(false)''','R31/clear/leveldbRows')
m('readrows-scan-before-validation','C03',BT,
  '''	if err := validateRowRanges(req); err != nil {
		return err
	}

	srs := []simpleRange{{}} // infinite range unless specified''','''	if err := validateRowRanges(req); err != nil {
		log.Printf("invalid row ranges: %v", err)
	}

	srs := []simpleRange{{}} // infinite range unless specified''','R08/ReadRows/')
m('readrows-swap-range-ends','C03',BT,
  '''			tbl.rows.AscendRange(sr.start, sr.end, addRow)''','''			tbl.rows.AscendRange(sr.end, sr.start, addRow)''','R08/ReadRows/AscendRange/arg0-slot')
m('chunkbuilder-add-always-true','C03',BT,
  '''	return !newRow
}''','''	return true
}''','R26/a/(*server).ReadRows')
# ---- C05
m('filter-negative-limit-unchecked','C05',BT,
  '''		if lim < 0 {
			return false, status.Errorf(codes.InvalidArgument, "cells_per_column_limit_filter must not be negative")
		}
''','','R13/filterRow/RowFilter_CellsPerColumnLimitFilter')
m('filter-interleave-shared-row','C05',BT,
  '''			sr := copyRow(r)
			match, err := filterRow(sub, sr)''','''			sr := r
			match, err := filterRow(sub, sr)''','R19/filter/interleave-branch')
m('filter-wrong-status-code','C05',BT,
  '''			return false, status.Errorf(codes.InvalidArgument, "Chain must contain at least two RowFilters")''',
  '''			return false, status.Errorf(codes.Internal, "Chain must contain at least two RowFilters")''','R18/')
m('filter-rowsample-case-removed','C05',BT,
  '''	case *btpb.RowFilter_RowSampleFilter:
		// The row sample filter "matches all cells from a row with probability
		// p, and matches no cells from the row with probability 1-p."
		// See https://github.com/googleapis/googleapis/blob/master/google/bigtable/v2/data.proto
		if f.RowSampleFilter <= 0.0 || f.RowSampleFilter >= 1.0 {
			return false, status.Error(codes.InvalidArgument, "row_sample_filter argument must be between 0.0 and 1.0")
		}
		return randFloat() < f.RowSampleFilter, nil
	}''','''	}''','R18/kind/RowFilter_RowSampleFilter')
m('offset-subtract-after-truncate','C05',BT,
  '''				offset -= len(col.Cells)
				col.Cells = col.Cells[:0]''','''				col.Cells = col.Cells[:0]
				offset -= len(col.Cells)''','R26/b/filterRow')
# ---- C12 / C13
m('cam-predicate-on-real-row','C12',BT,
  '''		nr := copyRow(r)

		match, err := filterRow(req.PredicateFilter, nr)''','''		nr := r

		match, err := filterRow(req.PredicateFilter, nr)''','R19/cam/predicate-on-copy')
m('cam-branches-swapped','C12',BT,
  '''	muts := req.FalseMutations
	if whichMut {
		muts = req.TrueMutations
	}''','''	muts := req.TrueMutations
	if whichMut {
		muts = req.FalseMutations
	}''','R19/cam/selector-polarity')
m('cam-reported-flag-differs','C12',BT,
  '''	res.PredicateMatched = whichMut
	muts := req.FalseMutations''','''	res.PredicateMatched = req.PredicateFilter != nil
	muts := req.FalseMutations''','R19/cam/selector-identity')
m('rmw-no-length-check','C13',BT,
  '''				if len(prevVal) != 8 {
					return nil, fmt.Errorf("increment on non-64-bit value")
				}
''','','R08/ReadModifyWriteRow/uint64-length')
m('rmw-write-before-validation','C13',BT,
  '''	for _, rule := range req.Rules {
		if _, ok := cols[rule.FamilyName]; !ok {
			return nil, fmt.Errorf("unknown family %q", rule.FamilyName)
		}
''','''	for _, rule := range req.Rules {
		tbl.rows.ReplaceOrInsert(r)
		if _, ok := cols[rule.FamilyName]; !ok {
			return nil, fmt.Errorf("unknown family %q", rule.FamilyName)
		}
''','R07/(*server).ReadModifyWriteRow')
# ---- C14
m('gettable-returns-live-def','C14',BT,
  '''	return proto.Clone(tbl.def).(*btapb.Table), nil
}

func (s *server) DeleteTable''','''	return tbl.def, nil
}

func (s *server) DeleteTable''','R05/')
m('listtables-without-lock','C14',BT,
  '''	s.mu.Lock()
	for tbl := range s.tables {
		if strings.HasPrefix(tbl, prefix) {
			res.Tables = append(res.Tables, &btapb.Table{Name: tbl})
		}
	}
	s.mu.Unlock()''','''	for tbl := range s.tables {
		if strings.HasPrefix(tbl, prefix) {
			res.Tables = append(res.Tables, &btapb.Table{Name: tbl})
		}
	}''','R01/(*server).ListTables/server.tables')
m('modifycf-no-persist','C14',BT,
  '''	s.storage.SetTableMeta(tbl.def)
	// The response is marshalled''','''	// The response is marshalled''','R21/D2/(*server).ModifyColumnFamilies')
# ---- C08
m('settablemeta-write-final-directly','C08','bigtable/bttest/store_leveldb_disk.go',
  '''	if err := os.WriteFile(tmpPath, buf, 0666); err != nil {''','''	if err := os.WriteFile(outPath, buf, 0666); err != nil {''','R21/D1')
m('deletetable-keeps-metadata','C08',BT,
  '''	if d, ok := s.storage.(interface{ DeleteTableMeta(name string) }); ok {
		d.DeleteTableMeta(req.Name)
	}
''','','R21/D3')
# ---- C16 / C18
m('gc-write-back-iterator-row','C16',BT,
  '''		if r = t.rows.Get(r.Key); r != nil {''','''		if r != nil {''','R03/(*table).gc$1')
m('gc-skip-read-quiescence','C16',BT,
  '''		if lw == 0 || realNow-lw < quiesceNanos || realNow-lr < quiesceNanos {''','''		if lw == 0 || realNow-lw < quiesceNanos || lr == 0 {''','R08/gc/quiescent/lastReadNanos')
m('readrows-sendresponse-no-relock','C18',BT,
  '''		tbl.mu.RUnlock()
		defer tbl.mu.RLock()
		return stream.Send(&btpb.ReadRowsResponse{Chunks: cb.chunks})''','''		tbl.mu.RUnlock()
		return stream.Send(&btpb.ReadRowsResponse{Chunks: cb.chunks})''','R04/(*server).ReadRows$1')
m('samplerowkeys-no-lock','C18',BT,
  '''	tbl.mu.RLock()
	defer tbl.mu.RUnlock()

	// The return value of SampleRowKeys is very loosely defined.''','''	// The return value of SampleRowKeys is very loosely defined.''','R01/(*server).SampleRowKeys/table.rows')
# ---- storage: C04 / C07
m('delete-validate-outside-lock','C07',GCS,
  '''	err := g.locks.Run(ctx, lockName(bucket, filename), func(ctx context.Context) error {
		// Find the existing file / meta.
		obj, err := g.store.GetMeta(dontNeedUrls, bucket, filename)
		if err != nil {
			return fmt.Errorf("failed to check existence of %s/%s: %w", bucket, filename, err)
		}

		if err := validateConds(obj, conds); err != nil {
			return err
		}

		if err := g.store.Delete(bucket, filename); err != nil {''','''	obj, gerr := g.store.GetMeta(dontNeedUrls, bucket, filename)
	if gerr != nil {
		g.gapiError(w, http.StatusInternalServerError, gerr.Error())
		return
	}
	err := g.locks.Run(ctx, lockName(bucket, filename), func(ctx context.Context) error {
		if err := validateConds(obj, conds); err != nil {
			return err
		}

		if err := g.store.Delete(bucket, filename); err != nil {''','R11/(*GcsEmu).handleGcsDelete$1/Store.Delete#1/check-then-act')
m('copy-locks-source-name','C07',GCS,
  '''	err := g.locks.Run(ctx, lockName(b2, f2), func(ctx context.Context) error {
		if ok, err := g.store.Copy(b1, f1, b2, f2); err != nil {''','''	err := g.locks.Run(ctx, lockName(b1, f1), func(ctx context.Context) error {
		if ok, err := g.store.Copy(b1, f1, b2, f2); err != nil {''','R11/(*GcsEmu).handleGcsCopy$1/Store.Copy#1/key-')
m('upload-ignores-conditions','C04',GCS,
  '''		if err := validateConds(existing, conds); err != nil {
			return err
		}

		if existing != nil {''','''		if err := validateConds(existing, emptyConds); err != nil {
			return err
		}

		if existing != nil {''','R11/(*GcsEmu).finishUpload$1/Store.Add#1/check-then-act')
m('validateconds-notmatch-412','C04',GCS,
  '''	if cond.GenerationNotMatch != 0 && obj.Generation == cond.GenerationNotMatch {
		// not-match failures use a different code
		return fmtErrorfCode(http.StatusNotModified, "precondition failed")''','''	if cond.GenerationNotMatch != 0 && obj.Generation == cond.GenerationNotMatch {
		// not-match failures use a different code
		return fmtErrorfCode(http.StatusPreconditionFailed, "precondition failed")''','R12/b/failure-code/GenerationNotMatch')
m('validateconds-drop-metagen-match','C04',GCS,
  '''	if cond.MetagenerationMatch != 0 && obj.Metageneration != cond.MetagenerationMatch {
		return fmtErrorfCode(http.StatusPreconditionFailed, "precondition failed")
	}
''','','R12/a/parsed-field-is-validated/MetagenerationMatch')
m('resumable-drops-conditions','C04',GCS,
  '''		_ = g.uploadIds.Set(id, &uploadData{
			Object: obj,
			Conds:  conds,
		})''','''		_ = g.uploadIds.Set(id, &uploadData{
			Object: obj,
		})''','R12/c/(*GcsEmu).finishUpload$1/validateConds#1/conditions-come-from-the-request')
m('parseconds-error-ignored','C04',GCS,
  '''	conds, err := parseConds(r.Form)
	if err != nil {
		g.gapiError(w, http.StatusBadRequest, err.Error())
		return
	}''','''	conds, _ := parseConds(r.Form)''','R17/(*GcsEmu).Handler/parseConds')
m('memstore-find-without-bucket-lock','C07','storage/gcsemu/memstore.go',
  '''		b.mu.Lock()
		defer b.mu.Unlock()
		f := b.files.Get(ms.key(filename))''','''		f := b.files.Get(ms.key(filename))''','R01/(*memstore).find/memBucket.files')
m('patch-decodes-into-store-object','C07',GCS,
  '''		err = json.NewDecoder(r.Body).Decode(&patched)''','''		patched = obj
		err = json.NewDecoder(r.Body).Decode(&patched)''','R10/(*GcsEmu).handleGcsUpdateMetadataRequest$1/decode-target')
# ---- C02
m('md5-mismatch-only-logged','C02',GCS,
  '''		if !bytes.Equal(contentHash, h) {
			return nil, fmtErrorfCode(http.StatusBadRequest, "md5 hash %s != expected %s", obj.Md5Hash, md5Hash)
		}''','''		if !bytes.Equal(contentHash, h) {
			g.log(nil, "md5 hash %s != expected %s", obj.Md5Hash, md5Hash)
		}''','R08/finishUpload/md5-mismatch-rejected')
m('register-without-gzip','C02',GCS,
  '''	mux.HandleFunc("/", DrainRequestHandler(GzipRequestHandler(g.Handler)))''','''	mux.HandleFunc("/", DrainRequestHandler(g.Handler))''','R29/wiring//')
m('resume-without-upload-mutex','C02',GCS,
  '''	u.mu.Lock()
	defer u.mu.Unlock()
''','','R01/(*GcsEmu).handleGcsNewObjectResume/uploadData')
# ---- C10
m('memstore-add-keeps-caller-metageneration','C10','storage/gcsemu/memstore.go',
  '''	InitScrubbedMeta(meta, filename)
	meta.Metageneration = 1

	// Cannot be overridden by caller''','''	InitScrubbedMeta(meta, filename)
	if meta.Metageneration == 0 {
		meta.Metageneration = 1
	}

	// Cannot be overridden by caller''','R22/memstore.Add/Metageneration-is-1')
m('patch-metagen-not-incremented','C10',GCS,
  '''		if err := g.store.UpdateMeta(bucket, filename, patched, metagen+1); err != nil {''','''		if err := g.store.UpdateMeta(bucket, filename, patched, metagen); err != nil {''','R23/patch/metageneration-plus-one')
m('patch-keeps-client-generation','C10',GCS,
  '''		patched.Generation = obj.Generation
''','','R23/patch/restores-Generation')
m('upload-header-from-request-object','C10',GCS,
  '''		w.Header().Set("x-goog-generation", strconv.FormatInt(meta.Generation, 10))
		w.Header().Set("X-Goog-Metageneration", strconv.FormatInt(meta.Metageneration, 10))
		g.jsonRespond(w, meta)
		return
	case "resumable":''','''		w.Header().Set("x-goog-generation", strconv.FormatInt(obj.Generation, 10))
		w.Header().Set("X-Goog-Metageneration", strconv.FormatInt(meta.Metageneration, 10))
		g.jsonRespond(w, meta)
		return
	case "resumable":''','R24/(*GcsEmu).handleGcsNewObject/x-goog-generation#1')
# ---- C09
m('filestore-updatemeta-touches-content','C09','storage/gcsemu/filestore.go',
  '''	fMeta := metaFilename(fs.filename(bucket, filename))
	if err := os.WriteFile(fMeta, mustJson(meta), 0666); err != nil {
		return fmt.Errorf("could not write metadata file: %s: %w", fMeta, err)
	}

	return nil
}

func (fs *filestore) Copy(''','''	fMeta := metaFilename(fs.filename(bucket, filename))
	if err := os.WriteFile(fMeta, mustJson(meta), 0666); err != nil {
		return fmt.Errorf("could not write metadata file: %s: %w", fMeta, err)
	}
	now := time.Now()
	_ = os.Chtimes(fs.filename(bucket, filename), now, now)

	return nil
}

func (fs *filestore) Copy(''','R22/filestore.UpdateMeta/writes-only-the-sidecar')
m('filestore-delete-leaves-sidecar','C09','storage/gcsemu/filestore.go',
  '''		err := os.Remove(metaFilename(f))
		if os.IsNotExist(err) {
			// Legacy files do not have an accompanying metadata file.
			return nil
		}
		return err''','''		return nil''','R22/filestore.Delete/removes-content-and-sidecar')
m('pagetoken-url-encoding-on-encode','C11','storage/gcsutil/gcspagetoken.go',
  '''	return base64.StdEncoding.EncodeToString(bytes)''','''	return base64.URLEncoding.EncodeToString(bytes)''','R27/pagetoken/same-base64-alphabet')
# ---- C11
m('list-nil-item-appended','C11','storage/gcsemu/walk.go',
  '''		} else if obj != nil {
			// nil: the object was deleted after the walk found it
			items = append(items, obj)
		}''','''		} else {
			items = append(items, obj)
		}''','R16/(*GcsEmu).makeBucketListResults')
m('list-bad-token-ignored','C11',GCS,
  '''		if err != nil {
			g.gapiError(w, http.StatusBadRequest, fmt.Sprintf("invalid pageToken parameter (failed to decode) %s: %s", pageToken, err))
			return
		}
		cursor = lastFilename''','''		if err == nil {
			cursor = lastFilename
		}''','R17/(*GcsEmu).handleGcsListBucket/DecodePageToken')
# ---- C15
m('compose-bound-after-reads','C15',GCS,
  '''	if len(srcs) > gcsMaxComposeSources {
		return nil, fmtErrorfCode(http.StatusBadRequest, "too many sources")
	}

	// TODO: consider moving this to disk to handle very large compose operations''','''	// TODO: consider moving this to disk to handle very large compose operations''','R08/finishCompose/')
m('copy-destparts-wrong-guard','C15',GCS,
  '''	if len(destParts) != 2 {''','''	if len(parts) != 2 {''','R14/(*GcsEmu).handleGcsCopy/destParts[1]')
m('compose-destination-unchecked','C15',GCS,
  '''	if req.Destination == nil {
		g.gapiError(w, http.StatusBadRequest, "bad compose request: missing destination")
		return
	}
''','','R16/(*GcsEmu).handleGcsCompose')
# ---- C19
m('lockmap-refcount-outside-mutex','C19','storage/gcsutil/transient_lock_map.go',
  '''		lock.refcount++ // incremented while holding _map_ lock
		return lock
	}()
''','''		return lock
	}()
	lock.refcount++
''','R01/(*TransientLockMap).Lock/countedLock.refcount')
m('lockmap-failed-lock-keeps-reference','C19','storage/gcsutil/transient_lock_map.go',
  '''	if !lock.Lock(ctx) {
		l.returnLockObj(key, lock)
		return false
	}''','''	if !lock.Lock(ctx) {
		return false
	}''','R20/L4')
m('lockmap-evict-before-release','C19','storage/gcsutil/transient_lock_map.go',
  '''	lock.Unlock()
	l.returnLockObj(key, lock)
}''','''	l.returnLockObj(key, lock)
	lock.Unlock()
}''','R20/L5/unlock-order')
m('lockmap-always-evict','C19','storage/gcsutil/transient_lock_map.go',
  '''	if lock.refcount == 0 {
		delete(l.locks, key)
	}''','''	if lock.refcount <= 1 {
		delete(l.locks, key)
	}''','R20/L9')
m('countedlock-capacity-two','C19','storage/gcsutil/counted_lock.go',
  '''		ch:       make(chan struct{}, 1),''','''		ch:       make(chan struct{}, 2),''','R20/L10')
m('countedlock-unlock-silent','C19','storage/gcsutil/counted_lock.go',
  '''	default:
		panic("BUG: lock not held")
	}''','''	default:
		return
	}''','R20/L7')
m('run-defer-before-lock-check','C19','storage/gcsutil/transient_lock_map.go',
  '''	if !l.Lock(ctx, key) {
		return ctx.Err()
	}
	defer l.Unlock(key)
	return f(ctx)''','''	defer l.Unlock(key)
	if !l.Lock(ctx, key) {
		return ctx.Err()
	}
	return f(ctx)''','R20/L8')
# ---- C20
m('media-missing-return-after-error','C20',GCS,
  '''				g.gapiError(w, http.StatusInternalServerError, fmt.Sprintf("failed to gunzip from %s/%s: %s", bucket, filename, err))
				return
			}''','''				g.gapiError(w, http.StatusInternalServerError, fmt.Sprintf("failed to gunzip from %s/%s: %s", bucket, filename, err))
			}''','R15/a/*GcsEmu.handleGcsMediaRequest')
m('metadata-request-nil-deref','C20',GCS,
  '''	if obj == nil {
		g.gapiError(w, http.StatusNotFound, fmt.Sprintf("%s/%s not found", bucket, filename))
		return
	}

	w.Header().Set("Content-Type", obj.ContentType)''','''	w.Header().Set("Content-Type", obj.ContentType)''','R16/(*GcsEmu).handleGcsMediaRequest')
m('consistency-token-unlocked','C20',BT,
  '''	// Check that the table exists.
	s.mu.Lock()
	_, ok := s.tables[req.Name]
	s.mu.Unlock()
	if !ok {
		return nil, status.Errorf(codes.NotFound, "table %q not found", req.Name)
	}

	return &btapb.GenerateConsistencyTokenResponse{''','''	// Check that the table exists.
	_, ok := s.tables[req.Name]
	if !ok {
		return nil, status.Errorf(codes.NotFound, "table %q not found", req.Name)
	}

	return &btapb.GenerateConsistencyTokenResponse{''','R01/(*server).GenerateConsistencyToken')
m('droprowrange-early-return-holding-lock','C20',BT,
  '''	tbl.mu.Lock()
	defer tbl.mu.Unlock()
	if req.GetDeleteAllDataFromTable() {
		tbl.rows.Clear()''','''	tbl.mu.Lock()
	if req.GetDeleteAllDataFromTable() {
		tbl.rows.Clear()
		return &emptypb.Empty{}, nil
	}
	defer tbl.mu.Unlock()
	if req.GetDeleteAllDataFromTable() {
		tbl.rows.Clear()''','R04/(*server).DropRowRange')
m('gc-negative-versions-unchecked','C20',BT,
  '''		if n < 0 {
			// Invalid rule; never use a negative count as a slice bound.
			return cells
		}
''','','R13/applyGC')
m('new-panic-in-handler','C20',GCS,
  '''	if found == nil {
		g.gapiError(w, http.StatusNotFound, "no such id")
		return
	}''','''	if found == nil {
		panic("no such upload id")
	}''','R25/panic/(*GcsEmu).handleGcsNewObjectResume')
m('createtable-nil-table-deref','C20',BT,
  '''	if req.Table == nil {
		req.Table = &btapb.Table{}
	}
''','','R16/(*server).CreateTable')
# ---- R43: a nil scan bound (engines differ)
m('droprowrange-nil-upper-bound','C17',BT,
  '''		tbl.rows.AscendGreaterOrEqual(prefixBytes, func(r *btpb.Row) bool {
			if bytes.HasPrefix(r.Key, prefixBytes) {''',
  '''		var noEnd keyType
		if len(prefixBytes) == 0 {
			noEnd = keyType{}
		}
		tbl.rows.AscendRange(prefixBytes, noEnd, func(r *btpb.Row) bool {
			if bytes.HasPrefix(r.Key, prefixBytes) {''','R43/(*server).DropRowRange','a nil upper bound: unbounded in leveldb, nothing in btree')
# ---- R55/R57/R58 anchors
LDB='bigtable/bttest/store_leveldb.go'
m('clear-reopens-without-wipe','C17',LDB,
  '''	rows.db = rows.newFunc(true)''','''	rows.db = rows.newFunc(false)''','R55/a/(*leveldbRows).Clear/opens-with-nuke','DropRowRange(all) leaves the rows in place on the disk engine')
m('validtimestamp-granularity-conditional','C01',BT,
  '''	// Assume millisecond granularity is required.
	return ts%1000 == 0''','''	if t.def.Granularity == btapb.Table_MILLIS {
		return ts%1000 == 0
	}
	return true''','R57/validTimestamp','sub-millisecond timestamps accepted for tables without explicit granularity')
m('isempty-looks-at-columns','C12',BT,
  '''			if len(cs.Cells) > 0 {
				return false
			}''','''			if cs != nil {
				return false
			}''','R58/a/isEmpty-looks-at-cells','a predicate that strips every cell still counts as matched')
m('listtables-bare-parent-prefix','C14',BT,
  '''	prefix := req.Parent + "/tables/"
''','''	prefix := req.Parent
''','R58/b/ListTables','tables of every parent whose name starts with the requested one are listed')
m('resume-offset-beyond-received-unchecked','C20',GCS,
  '''	if len(u.data) < int(byteRange.lo) {
		g.gapiError(w, http.StatusBadRequest, "missing content")
		return
	}
''','','R13/(*GcsEmu).handleGcsNewObjectResume/byteRange.lo','a chunk whose offset lies beyond the received bytes panics with slice bounds out of range')
m('mergeranges-merge-with-previous-input','C03',BT,
  '''		merged, didMerge := merge(srs[last], srs[i])''','''		merged, didMerge := merge(srs[i-1], srs[i])''','R59/a/mergeSimpleRanges','a range swallowed by a wider one becomes the comparison base')
m('gc-changed-flag-overwritten','C16',BT,
  '''						changed = changed || n != len(col.Cells)''','''						changed = n != len(col.Cells)''','R59/c/(*table).gc','only the last column decides whether the row is written back')
m('readrows-limit-counter-reset-on-flush','C03',BT,
  '''				cb.reset()
			}
			return true''','''				cb.reset()
				count = 0
			}
			return true''','R08/ReadRows/limit-counter-survives-the-flush','rows_limit is enforced per flushed batch instead of per request')
# ---- C20 / batch (R60)
BATCH='storage/gcsemu/batch.go'
m('batch-skips-part-without-content','C20',BATCH,
  '''		rsp := rw.Result()
		rsp.ContentLength = int64(rw.Body.Len())
''','''		rsp := rw.Result()
		rsp.ContentLength = int64(rw.Body.Len())
		if rsp.ContentLength == 0 && rsp.StatusCode == http.StatusNoContent {
			continue
		}
''','R60/batch/dispatch#1/every-iteration/create-part','a sub-request answered 204 gets no part: the client waits for a response to that content id')
m('batch-recorder-hoisted','C20',BATCH,
  '''	for i := range reqs {
		req, contentId := reqs[i], contentIds[i]

		rw := httptest.NewRecorder()
''','''	rw := httptest.NewRecorder()
	for i := range reqs {
		req, contentId := reqs[i], contentIds[i]

''','R60/batch/dispatch#1/fresh-recorder','every later part repeats the earlier sub-responses')
m('batch-content-id-only-when-present','C20',BATCH,
  '''		reqs = append(reqs, req)
		contentIds = append(contentIds, contentId)''','''		reqs = append(reqs, req)
		if contentId != "" {
			contentIds = append(contentIds, contentId)
		}''','R60/batch/dispatch#1/lockstep','the content ids drift against the requests after the first part without an id (and the index runs out of range)')
m('batch-close-skipped-when-empty','C20',BATCH,
  '''	if err := mw.Close(); err != nil {
		g.log(err, "failed to close")
		return
	}''','''	if len(reqs) == 0 {
		return
	}
	if err := mw.Close(); err != nil {
		g.log(err, "failed to close")
		return
	}''','R60/batch/dispatch#1/closing-boundary','an empty batch is answered without the closing boundary')
# ---- side doors: a mutator reached through a narrower interface is still a mutator call
m('delete-through-narrow-interface-outside-lock','C07',GCS,
  '''func (g *GcsEmu) handleGcsDelete(ctx context.Context, w http.ResponseWriter, bucket string, filename string, conds cloudstorage.Conditions) {
	err := g.locks.Run(ctx, lockName(bucket, filename), func(ctx context.Context) error {''',
  '''func (g *GcsEmu) handleGcsDelete(ctx context.Context, w http.ResponseWriter, bucket string, filename string, conds cloudstorage.Conditions) {
	if conds == (cloudstorage.Conditions{}) {
		var d interface{ Delete(bucket string, filename string) error } = g.store
		if d.Delete(bucket, filename) == nil {
			w.WriteHeader(http.StatusNoContent)
			return
		}
	}
	err := g.locks.Run(ctx, lockName(bucket, filename), func(ctx context.Context) error {''',
  'R11/','an unconditional delete bypasses the object lock through a locally declared interface')
# ---- C02 / R62: the declared Content-Length never bounds a body read (gzip bodies are longer than declared)
m('upload-body-sized-by-content-length','C02',GCS,
  '''		contents, err := io.ReadAll(r.Body)
		if err != nil {
			g.gapiError(w, http.StatusBadRequest, "failed to read body")
			return
		}''','''		var contents []byte
		var err error
		if r.ContentLength > 0 {
			contents = make([]byte, r.ContentLength)
			_, err = io.ReadFull(r.Body, contents)
		} else {
			contents, err = io.ReadAll(r.Body)
		}
		if err != nil {
			g.gapiError(w, http.StatusBadRequest, "failed to read body")
			return
		}''','R62/','a gzip-encoded media upload is truncated to its compressed length')
# ---- C03 / R64: the whole-table default is decided on the request
m('readrows-default-on-derived-list','C03',BT,
  '''	srs := []simpleRange{{}} // infinite range unless specified
	if len(req.GetRows().GetRowKeys())+len(req.GetRows().GetRowRanges()) > 0 {
		srs = mergeRowRanges(req.GetRows().GetRowKeys(), req.GetRows().GetRowRanges())
	}''','''	srs := mergeRowRanges(req.GetRows().GetRowKeys(), req.GetRows().GetRowRanges())
	if len(srs) == 0 {
		srs = []simpleRange{{}} // infinite range unless specified
	}''','R64/ReadRows/whole-table-default','a RowSet that normalises to nothing returns the whole table')
m('valuerange-presence-by-emptiness','C05',BT,
  '''		inRangeEnd := func() bool { return true }
		switch ev := f.ValueRangeFilter.EndValue.(type) {
		case *btpb.ValueRange_EndValueClosed:
			inRangeEnd = func() bool { return bytes.Compare(v, ev.EndValueClosed) <= 0 }
		case *btpb.ValueRange_EndValueOpen:
			inRangeEnd = func() bool { return bytes.Compare(v, ev.EndValueOpen) < 0 }
		}''','''		inRangeEnd := func() bool { return true }
		if ec := f.ValueRangeFilter.GetEndValueClosed(); len(ec) > 0 {
			inRangeEnd = func() bool { return bytes.Compare(v, ec) <= 0 }
		} else if eo := f.ValueRangeFilter.GetEndValueOpen(); len(eo) > 0 {
			inRangeEnd = func() bool { return bytes.Compare(v, eo) < 0 }
		}''','R63/','an explicitly empty end bound is treated as absent')
# ---- C04 / R65: every compose source has its own precondition evaluated
m('compose-validates-first-occurrence-only','C04',GCS,
  '''		if err := validateConds(meta, src.conds); err != nil {
			return nil, err
		}
		data = append(data, contents...)''','''		if i == 0 || srcs[i-1].filename != src.filename {
			if err := validateConds(meta, src.conds); err != nil {
				return nil, err
			}
		}
		data = append(data, contents...)''','R65/','a source repeated right after itself is not validated against its own ifGenerationMatch')
# ---- C07 / R66: nothing written under the lock is computed from a read made before the lock
m('patch-metageneration-from-unlocked-read','C07',GCS,
  '''	var obj *storage.Object
	err := g.locks.Run(ctx, lockName(bucket, filename), func(ctx context.Context) error {
		// Find the existing file / meta.
		var err error
		obj, err = g.store.GetMeta(baseUrl, bucket, filename)
		if err != nil {
			return fmt.Errorf("failed to check existence of %s/%s: %w", bucket, filename, err)
		}

		if obj == nil {
			return nil
		}

		if err := validateConds(obj, conds); err != nil {
			return err
		}

		// Update via json decode, applied to a private deep copy: the object
		// handed out by the store may share maps and slices with the stored
		// record (and with copies of it), which a failed or concurrent patch
		// must never touch.
		metagen := obj.Metageneration''','''	var obj *storage.Object
	pre, _ := g.store.GetMeta(baseUrl, bucket, filename)
	err := g.locks.Run(ctx, lockName(bucket, filename), func(ctx context.Context) error {
		// Find the existing file / meta.
		var err error
		obj, err = g.store.GetMeta(baseUrl, bucket, filename)
		if err != nil {
			return fmt.Errorf("failed to check existence of %s/%s: %w", bucket, filename, err)
		}

		if obj == nil || pre == nil {
			return nil
		}

		if err := validateConds(obj, conds); err != nil {
			return err
		}

		// Update via json decode, applied to a private deep copy: the object
		// handed out by the store may share maps and slices with the stored
		// record (and with copies of it), which a failed or concurrent patch
		// must never touch.
		metagen := pre.Metageneration''','R66/','two concurrent patches both compute metageneration+1 from the same unlocked read: one increment is lost')
# ---- C11 / R67, C09 / R68
m('list-cursor-and-prefix-folded','C11','storage/gcsemu/walk.go',
  '''		if filename <= cursor {''','''		if filename <= max(cursor, prefix) {''','R67/','the object named exactly like the prefix is never listed')
m('filestore-add-mkdir-only-for-nested-names','C09','storage/gcsemu/filestore.go',
  '''	if err := os.MkdirAll(filepath.Dir(f), 0777); err != nil {
		return fmt.Errorf("could not create dirs for:  %s: %w", f, err)
	}''','''	if strings.Contains(filename, "/") {
		if err := os.MkdirAll(filepath.Dir(f), 0777); err != nil {
			return fmt.Errorf("could not create dirs for:  %s: %w", f, err)
		}
	}''','R68/','a top-level object in a bucket whose directory was removed cannot be written')
# ---- C20 / R70: re-entrant acquisition
m('listing-resolves-metadata-inside-the-walk','C20','storage/gcsemu/walk.go',
  '''		if count >= maxResults {
			moreResults = true''','''		if m, _ := g.store.ReadMeta(baseUrl, bucket, filename, fInfo); m == nil {
			return nil
		}
		if count >= maxResults {
			moreResults = true''','R70/','the memory store walks under the bucket lock and ReadMeta takes it again: the listing deadlocks')
# ---- C18 / R71: the scan callback passes a row over only because of the row itself
m('readrows-skips-first-row-after-flush','C18',BT,
  '''	for _, sr := range srs {
		addRow := func(r *btpb.Row) bool {
			if limit > 0 && count >= limit {
				return false
			}
''','''	skipNext := false
	for _, sr := range srs {
		addRow := func(r *btpb.Row) bool {
			if limit > 0 && count >= limit {
				return false
			}
			if skipNext {
				skipNext = false
				return true
			}
''','R71/','a row is passed over because of a flag, not because of its content')
# ---- C14 / R72: a missing table is NotFound
m('deletetable-idempotent-on-missing','C14',BT,
  '''	if _, ok := s.tables[req.Name]; !ok {
		return nil, status.Errorf(codes.NotFound, "table %q not found", req.Name)
	}''','''	if _, ok := s.tables[req.Name]; !ok {
		return &emptypb.Empty{}, nil
	}''','R72/(*server).DeleteTable','deleting a table that does not exist is acknowledged')
m('readrows-missing-table-internal','C14',BT,
  '''	tbl, ok := s.tables[req.TableName]
	s.mu.Unlock()
	if !ok {
		return status.Errorf(codes.NotFound, "table %q not found", req.TableName)
	}

	if err := validateRowRanges(req); err != nil {''','''	tbl, ok := s.tables[req.TableName]
	s.mu.Unlock()
	if !ok {
		return status.Errorf(codes.Internal, "table %q not found", req.TableName)
	}

	if err := validateRowRanges(req); err != nil {''','R72/(*server).ReadRows','a scan of a deleted table answers Internal')
# ---- C02 / R73: an absent object is 404
m('metadata-of-missing-object-500','C02',GCS,
  '''	if obj == nil {
		g.gapiError(w, http.StatusNotFound, fmt.Sprintf("%s/%s not found", bucket, filename))
		return
	}
	g.jsonRespond(w, obj)
}''','''	if obj == nil {
		g.gapiError(w, http.StatusInternalServerError, fmt.Sprintf("%s/%s not found", bucket, filename))
		return
	}
	g.jsonRespond(w, obj)
}''','R73/','a deleted object is reported as a server error by the metadata GET')
# ---- C12 / R76: the predicate is evaluated on every successful path
m('cam-predicate-skipped-for-empty-rows','C12',BT,
  '''	whichMut := false
	if req.PredicateFilter == nil {
		// Use true_mutations iff row contains any cells.
		whichMut = !isEmpty(r)
	} else {''','''	whichMut := false
	if req.PredicateFilter == nil || isEmpty(r) {
		// Use true_mutations iff row contains any cells.
		whichMut = !isEmpty(r)
	} else {''','R76/','an invalid predicate is not rejected when the row has no cells')
# ---- C08 / R75: the definition is persisted under the lock that serialises its changes
m('modify-families-persist-after-unlock','C08',BT,
  '''	s.storage.SetTableMeta(tbl.def)
	// The response is marshalled after the table lock is released: return a copy.
	return proto.Clone(tbl.def).(*btapb.Table), nil''','''	out := proto.Clone(tbl.def).(*btapb.Table)
	go s.storage.SetTableMeta(proto.Clone(tbl.def).(*btapb.Table))
	return out, nil''','R75/','the definition is written to disk asynchronously, in no particular order with respect to later modifications')
# ---- C02 / R77: bytes handed to the store are not recycled
m('resumable-buffer-recycled-after-store','C02',GCS,
  '''	g.uploadIds.Remove(id)
	w.Header().Set("x-goog-generation", strconv.FormatInt(meta.Generation, 10))''','''	g.uploadIds.Remove(id)
	u.data = u.data[:0] // keep the capacity for a retry of the same upload id
	w.Header().Set("x-goog-generation", strconv.FormatInt(meta.Generation, 10))''','R77/','the stored object shares its bytes with a buffer that is written again')
# ---- C11 / R84: a page cut short by maxResults carries a token (the pinned tree's own violation is a known finding;
# this variant is a different one and must be reported as such)
m('list-token-never-set','C11','storage/gcsemu/walk.go',
  '''		lastItemName := items[len(items)-1].Name
		nextPageToken = gcsutil.EncodePageToken(lastItemName)''','''		lastItemName := items[len(items)-1].Name
		_ = gcsutil.EncodePageToken(lastItemName)''','R84/listing/page-token-never-set','no page token is ever produced: every listing ends after its first page')
# ---- C11 / R78: a page is bounded by maxResults
m('list-prefixes-do-not-count','C11','storage/gcsemu/walk.go',
  '''		if count >= maxResults {
			moreResults = true
			return errAbort
		}
		count++

		if delimiter != "" {''','''		if count >= maxResults {
			moreResults = true
			return errAbort
		}

		if delimiter != "" {''','R78/','collapsed prefixes are not counted: a page can hold any number of them')
# ---- C02 / R79: the recorded MD5 is the hash of the stored bytes
m('upload-records-declared-md5','C02',GCS,
  '''			return nil, fmtErrorfCode(http.StatusBadRequest, "md5 hash %s != expected %s", obj.Md5Hash, md5Hash)
		}
	}
	obj.Md5Hash = md5Hash''','''			return nil, fmtErrorfCode(http.StatusBadRequest, "md5 hash %s != expected %s", obj.Md5Hash, md5Hash)
		}
		md5Hash = obj.Md5Hash // keep the client's spelling of the hash
	}
	obj.Md5Hash = md5Hash''','R79/','the recorded hash is whatever string the client declared')
# ---- C09 / R80: computed fields are baked from final values
m('medialink-carries-the-generation','C09','storage/gcsemu/meta.go',
  '''	meta.Size = size
	meta.StorageClass = "STANDARD"
}''','''	meta.Size = size
	meta.StorageClass = "STANDARD"
	if meta.Generation != 0 {
		meta.MediaLink += fmt.Sprintf("&generation=%d", meta.Generation)
	}
}''','R80/','the file store bakes the link from the sidecar generation and overwrites the generation afterwards')
# ---- C03 / R81: a sent chunk buffer is emptied before the scan goes on
m('readrows-heartbeat-without-reset','C03',BT,
  '''			} else if !match {
				return true
			}
''','''			} else if !match {
				if len(cb.chunks) > 512 {
					if err = sendResponse(); err != nil {
						return false
					}
				}
				return true
			}
''','R81/','rows already sent are sent again with the next batch')
# ---- C13 / R82: the value bytes of an existing cell are never written
m('rmw-increment-encodes-into-previous-cell','C13',BT,
  '''			v += rule.IncrementAmount
			var val [8]byte
			binary.BigEndian.PutUint64(val[:], uint64(v))
			newCell = &btpb.Cell{TimestampMicros: ts, Value: val[:]}''','''			v += rule.IncrementAmount
			val := prevVal
			if val == nil {
				val = make([]byte, 8)
			}
			binary.BigEndian.PutUint64(val, uint64(v))
			newCell = &btpb.Cell{TimestampMicros: ts, Value: val}''','R82/','the previous version is rewritten with the new sum')
# ---- C20 / R83: API-level errors are JSON
m('delete-answers-plain-text-error','C20',GCS,
  '''	if err != nil {
		g.gapiError(w, httpStatusCodeOf(err), err.Error())
		return
	}

	w.WriteHeader(http.StatusNoContent)
}''','''	if err != nil {
		http.Error(w, err.Error(), httpStatusCodeOf(err))
		return
	}

	w.WriteHeader(http.StatusNoContent)
}''','R83/','the delete handler answers its errors as text/plain')
json.dump(M, open('/verif/mutants.json','w'), indent=1)
print(len(M),'mutants')
