#!/bin/sh
# usage: ./check.sh <property> [quick|thorough]   |   ./check.sh replay <file>   |   ./check.sh selftest [Cxx]
# Builds the checker from /verif's sources (cached) and runs it against /repo's
# current working tree.  Nothing is executed from /repo: the checker only reads,
# type-checks and analyses its source.
cd "$(dirname "$0")" || exit 2
export GOFLAGS=-mod=mod GOPROXY=off GOSUMDB=off GOTOOLCHAIN=local GOWORK=off
mkdir -p bin evidence
tmp="bin/emucheck.$$"
if ! go build -o "$tmp" ./cmd/emucheck 2>bin/build.$$.log; then
  cat bin/build.$$.log; rm -f "$tmp" bin/build.$$.log
  echo "CHECK-BROKEN: cannot build emucheck"; exit 2
fi
rm -f bin/build.$$.log
mv -f "$tmp" bin/emucheck
case "$1" in
  replay)   exec ./bin/emucheck replay "$2" ;;
  selftest) if [ -n "$2" ]; then exec ./bin/emucheck selftest -prop "$2"; else exec ./bin/emucheck selftest; fi ;;
  list)     exec ./bin/emucheck list ;;
  *)        tier="${2:-${VERIF_TIER:-quick}}"
            if [ "$tier" = thorough ]; then
              # thorough = quick + overlay mutants (emucheck) + the committed regression corpora
              # (independently seeded breaking changes must be reported, independent
              # behaviour-preserving refactorings must stay silent), on scratch copies of /repo
              ./bin/emucheck check -prop "$1" -tier thorough; rc=$?
              [ $rc -ne 0 ] && exit $rc
              exec python3 tools/corpus_check.py "$1"
            fi
            exec ./bin/emucheck check -prop "$1" -tier "$tier" ;;
esac
