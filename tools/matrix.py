#!/usr/bin/env python3
"""Development regression matrix (not a registered check).

Runs the whole checker against three corpora, each variant on its own scratch copy of
/repo's working tree under /tmp (removed afterwards), several in parallel:

  benign/*.diff          behaviour-preserving refactorings  -> every property must stay silent (exit 0)
  seeded/*/patch.diff    independently seeded breaking changes -> the seeded property should alarm (exit 1)
  fix reversals          each repaired defect re-introduced   -> the listed properties must alarm (exit 1)

usage: matrix.py [benign|seeded|fixes|all] [name-filter ...]   (-v prints the lines of unexpected results)
Results are written to /verif/regress/matrix.json."""
import sys, os, subprocess, json, glob, shutil, concurrent.futures as cf
V='/verif'; REPO='/repo'
ENV=dict(os.environ, GOFLAGS='-mod=mod', GOPROXY='off', GOSUMDB='off', GOTOOLCHAIN='local', GOWORK='off')
FIXES=[('659fa0e',['C17','C03','C05']),('d9b4edd',['C06','C01']),('8e362d8',['C14']),('1a3ec83',['C05','C20']),
 ('d074582',['C05']),('4dbe7f4',['C03']),('ff68d64',['C16','C20']),('739e5da',['C20','C14']),('fbd49ff',['C20','C14']),
 ('b6aac37',['C16']),('7524623',['C08']),('743ce43',['C15','C20']),('d247afc',['C20']),('2f0bb4d',['C15','C20']),
 ('53bf577',['C20']),('c70c12b',['C07']),('3c0b511',['C10']),('9016315',['C07','C20','C02']),('4ba9f80',['C11','C20']),
 ('2ba22ea',['C20']),('e54c65e',['C02','C20']),('eced17a',['C11','C09']),('b877043',['C07','C10']),('7c7d223',['C15','C20']),('0b0e65d',['C20']),('1035f39',['C20'])]
def sh(cmd, cwd=None, inp=None):
    return subprocess.run(cmd, shell=True, cwd=cwd, env=ENV, capture_output=True, text=True, input=inp)
def run_variant(name, diff_text, reverse=False):
    d=f'/tmp/mx-{name}'; vd=d+'.verif'
    shutil.rmtree(d, ignore_errors=True); shutil.rmtree(vd, ignore_errors=True)
    try:
        r=sh(f'rsync -a --exclude .git {REPO}/ {d}/'); assert r.returncode==0, r.stderr
        os.makedirs(vd); shutil.copy(f'{V}/known_findings.json', vd)
        r=sh('git apply '+('-R ' if reverse else '')+'-', cwd=d, inp=diff_text)
        if r.returncode!=0:
            return name, {'error':'patch does not apply: '+r.stderr[:200]}
        mods=sorted({l.split()[1].split('/')[1] for l in diff_text.splitlines() if l.startswith('+++ b/')})
        mods=[m for m in mods if m in ('bigtable','storage')]
        r=sh(f'{V}/bin/emucheck all -repo {d} -verif {vd} -modules {",".join(mods)}')
        try: return name, json.loads(r.stdout)
        except Exception: return name, {'error':'no json: '+(r.stdout+r.stderr)[-400:]}
    finally:
        shutil.rmtree(d, ignore_errors=True); shutil.rmtree(vd, ignore_errors=True)
def main():
    args=[a for a in sys.argv[1:] if a!='-v']; verbose='-v' in sys.argv
    which=args[0] if args else 'all'; filt=args[1:]
    r=sh('go build -o bin/emucheck ./cmd/emucheck', cwd=V); assert r.returncode==0, r.stderr
    jobs=[]  # (name, diff, reverse, expect: dict prop->exit or None(all zero))
    if which in('benign','all'):
        for f in sorted(glob.glob(f'{V}/benign/*.diff')):
            jobs.append(('benign-'+os.path.basename(f)[:-5], open(f).read(), False, None))
    if which in('seeded','all'):
        for f in sorted(glob.glob(f'{V}/seeded/*/patch.diff')):
            n=f.split('/')[-2]; jobs.append(('seeded-'+n, open(f).read(), False, {n.split('-')[0]:1}))
    if which in('fixes','all'):
        for c,props in FIXES:
            jobs.append(('fix-'+c, sh(f'git -C {REPO} diff {c}^ {c}').stdout, True, {p:1 for p in props}))
    if filt: jobs=[j for j in jobs if any(x in j[0] for x in filt)]
    results={}
    with cf.ThreadPoolExecutor(max_workers=6) as ex:
        futs={ex.submit(run_variant,j[0],j[1],j[2]):j for j in jobs}
        for fu in cf.as_completed(futs):
            name,res=fu.result(); results[name]=res
    bad=0
    for name,_,_,expect in jobs:
        res=results[name]
        if 'error' in res:
            print(f'{name:24s} ERROR {res["error"]}'); bad+=1; continue
        alarms={p:v for p,v in res.items() if v['exit']!=0}
        if expect is None:
            ok=not alarms
            al=" ".join("%s:%d"%(p,v["exit"]) for p,v in sorted(alarms.items()))
            print('%-24s %s'%(name, "silent" if ok else "FALSE-ALARM "+al))
            if not ok:
                bad+=1
                if verbose:
                    for p,v in sorted(alarms.items()):
                        for l in v['lines'][:6]: print(f'      {p} {l[:260]}')
        else:
            miss=[p for p,e in expect.items() if res.get(p,{}).get('exit')!=e]
            extra=[f'{p}:{v["exit"]}' for p,v in sorted(alarms.items()) if p not in expect]
            ms=",".join("%s(exit %s)"%(p,res.get(p,{}).get("exit")) for p in miss)
            print('%-24s %s  also=%s'%(name, "caught" if not miss else "MISSED "+ms, " ".join(extra)))
            if miss:
                bad+=1
                if verbose:
                    for p in miss:
                        for l in res.get(p,{}).get('lines',[])[:4]: print(f'      {p} {l[:260]}')
    os.makedirs(f'{V}/regress', exist_ok=True)
    json.dump(results, open(f'{V}/regress/matrix.json','w'), indent=1, sort_keys=True)
    print('unexpected:',bad,'of',len(jobs))
main()
