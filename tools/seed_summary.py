#!/usr/bin/env python3
"""Summarise the logs written by try_seed.py runs under /tmp/seedlogs."""
import json,glob,os
own=anyp=conf=0
for f in sorted(glob.glob('/tmp/seedlogs/*.log')):
    t=open(f).read(); i=t.find('{')
    n=os.path.basename(f)[:-4]
    try: d=json.loads(t[i:])
    except Exception: print(n,'unparsed',t[-200:]); continue
    if not d.get('confirmed'):
        print(n,'NOT CONFIRMED',{k:v for k,v in d.items() if k.startswith('suite_') and k!='suite_output' or k.startswith('demo_')}); continue
    conf+=1
    o=d.get('detected_by_own_property'); a=d.get('alarming_properties')
    own+=bool(o); anyp+=bool(a)
    print(n,'own' if o else 'MISS', a)
print('confirmed',conf,'own',own,'any',anyp)
