package rules

import (
	"fmt"
	"go/token"
	"go/types"
	"sort"

	"golang.org/x/tools/go/ssa"

	"verif/internal/core"
)

const tableLock = "bttest.table.mu"

// ---- row provenance -------------------------------------------------------

type rowSrcKind int

const (
	srcReader      rowSrcKind = iota // result of Rows.Get (directly or via a helper such as getOrCreateRow)
	srcCallback                      // parameter of a callback handed to Rows.Ascend*
	srcFresh                         // freshly allocated row
	srcParam                         // parameter of a named in-repo function (obligation moves to callers)
	srcNil                           // the nil constant (an unset variable)
	srcLoopCarried                   // value carried over from the previous loop iteration (φ at a loop header)
	srcContainer                     // taken out of a map / slice of row objects kept by the function (a per-request cache)
	srcUnknown
)

type rowSrc struct {
	kind  rowSrcKind
	instr ssa.Instruction // reader call (srcReader)
	fn    *ssa.Function   // callback / function owning the parameter
	param int
	val   ssa.Value
}

// returnsParam reports i if every return of fn yields (as result 0) its i-th
// parameter (identity helpers such as scrubRow), else -1.
func returnsParam(fn *ssa.Function) int { return returnsParamDepth(fn, 0) }

func returnsParamDepth(fn *ssa.Function, depth int) int {
	if fn == nil || fn.Blocks == nil || depth > 3 {
		return -1
	}
	idx := -2
	for _, b := range fn.Blocks {
		for _, in := range b.Instrs {
			r, ok := in.(*ssa.Return)
			if !ok || len(r.Results) == 0 {
				continue
			}
			v := core.Resolve(r.Results[0])
			// a wrapper around another identity helper: `func (t *table) scrubRow(r) (…) { return scrubRow(r, t.cols()) }`
			var inner *ssa.Call
			switch x := v.(type) {
			case *ssa.Extract:
				if c, isC := x.Tuple.(*ssa.Call); isC && x.Index == 0 {
					inner = c
				}
			case *ssa.Call:
				inner = x
			}
			if inner != nil {
				if j := returnsParamDepth(inner.Call.StaticCallee(), depth+1); j >= 0 && j < len(inner.Call.Args) {
					v = core.Resolve(inner.Call.Args[j])
				}
			}
			p, ok := v.(*ssa.Parameter)
			if !ok {
				return -1
			}
			pi := -1
			for i, q := range fn.Params {
				if q == p {
					pi = i
				}
			}
			if idx == -2 {
				idx = pi
			} else if idx != pi {
				return -1
			}
		}
	}
	if idx < 0 {
		return -1
	}
	return idx
}

func isRowsMethod(c *core.CallInfo, names ...string) bool {
	for _, n := range names {
		if c.IsIfaceMethod(core.PkgBttest, "Rows", n) {
			return true
		}
	}
	return false
}

// isAscendCallback reports whether fn is a closure passed to a Rows.Ascend* call.
func isAscendCallback(fn *ssa.Function) (ssa.Instruction, bool) {
	par := fn.Parent()
	if par == nil {
		return nil, false
	}
	for _, f := range core.Family(core.Root(par)) {
		for _, c := range core.AllCalls(f) {
			if !isRowsMethod(c, "Ascend", "AscendRange", "AscendLessThan", "AscendGreaterOrEqual") {
				continue
			}
			for _, a := range c.Common.Args {
				if closureOf(a) == fn {
					return c.Instr, true
				}
			}
		}
	}
	return nil, false
}

// rowSources slices a row value back to where it came from.
func rowSources(p *core.Program, v ssa.Value, seen map[ssa.Value]bool) []rowSrc {
	v = core.Resolve(v)
	if seen[v] {
		return nil
	}
	seen[v] = true
	switch x := v.(type) {
	case *ssa.Const:
		if x.Value == nil {
			return []rowSrc{{kind: srcNil, val: v}}
		}
	case *ssa.Phi:
		var out []rowSrc
		if loopHeader(x.Block()) {
			// one of the edges is the back edge: the row survives from the previous iteration
			out = append(out, rowSrc{kind: srcLoopCarried, val: v})
		}
		for _, e := range x.Edges {
			out = append(out, rowSources(p, e, seen)...)
		}
		return out
	case *ssa.Extract:
		if call, ok := x.Tuple.(*ssa.Call); ok && x.Index == 0 {
			return rowSourcesOfCall(p, call, seen, v)
		}
		if lk, ok := x.Tuple.(*ssa.Lookup); ok && x.Index == 0 {
			if _, isMap := lk.X.Type().Underlying().(*types.Map); isMap {
				return []rowSrc{{kind: srcContainer, val: v}}
			}
		}
	case *ssa.Lookup:
		if _, isMap := x.X.Type().Underlying().(*types.Map); isMap {
			return []rowSrc{{kind: srcContainer, val: v}}
		}
	case *ssa.Call:
		return rowSourcesOfCall(p, x, seen, v)
	case *ssa.Alloc:
		return []rowSrc{{kind: srcFresh, val: v}}
	case *ssa.Parameter:
		fn := x.Parent()
		pi := -1
		for i, q := range fn.Params {
			if q == x {
				pi = i
			}
		}
		if _, ok := isAscendCallback(fn); ok {
			return []rowSrc{{kind: srcCallback, fn: fn, param: pi, val: v}}
		}
		return []rowSrc{{kind: srcParam, fn: fn, param: pi, val: v}}
	case *ssa.UnOp:
		if x.Op == token.MUL {
			// a field of a per-request struct of this package (`w.row` of a rowWrite): union over
			// everything the package ever stores into that field
			if fa, isFa := x.X.(*ssa.FieldAddr); isFa {
				if n := core.NamedOf(fa.X.Type()); n != nil && n.Obj().Pkg() != nil && n.Obj().Pkg().Path() == core.PkgBttest {
					if loc := locationOf(fa); loc != "" {
						var out []rowSrc
						for _, st := range storesToLocation(p, core.PkgBttest, loc) {
							out = append(out, rowSources(p, st.Val, seen)...)
						}
						if len(out) > 0 {
							return out
						}
					}
				}
			}
			// load of a multiply-assigned cell: union over all stores
			if cell := core.CellOf(x.X); cell != nil {
				var out []rowSrc
				for _, st := range core.StoresTo(cell) {
					out = append(out, rowSources(p, st.Val, seen)...)
				}
				if len(out) > 0 {
					return out
				}
			}
		}
	}
	return []rowSrc{{kind: srcUnknown, val: v}}
}

func rowSourcesOfCall(p *core.Program, call *ssa.Call, seen map[ssa.Value]bool, v ssa.Value) []rowSrc {
	ci := core.Call(call)
	if isRowsMethod(ci, "Get") {
		return []rowSrc{{kind: srcReader, instr: call, val: v}}
	}
	if ci.Static != nil && inRepo(p, ci.Static) {
		if i := returnsParam(ci.Static); i >= 0 && i < len(call.Call.Args) {
			return rowSources(p, call.Call.Args[i], seen)
		}
		// helper returning a reader result or a fresh row (getOrCreateRow)
		kinds := map[rowSrcKind]bool{}
		for _, b := range ci.Static.Blocks {
			for _, in := range b.Instrs {
				if r, ok := in.(*ssa.Return); ok && len(r.Results) > 0 {
					for _, s := range rowSources(p, r.Results[0], map[ssa.Value]bool{}) {
						kinds[s.kind] = true
					}
				}
			}
		}
		if len(kinds) > 0 && !kinds[srcUnknown] && !kinds[srcParam] && !kinds[srcCallback] {
			if kinds[srcReader] {
				return []rowSrc{{kind: srcReader, instr: call, val: v}}
			}
			return []rowSrc{{kind: srcFresh, val: v}}
		}
	}
	return []rowSrc{{kind: srcUnknown, val: v}}
}

// ---- writers --------------------------------------------------------------

type rowWriter struct {
	fn    *ssa.Function
	call  *core.CallInfo
	what  string
	row   ssa.Value // the row (or key) written
	isKey bool
}

// rowWriters finds every place a row is handed to the store: Rows.ReplaceOrInsert,
// Rows.Delete, and in-repo helpers that do so with one of their parameters.
func rowWriters(p *core.Program) (writers []rowWriter, writerFns map[*ssa.Function]int) {
	writerFns = map[*ssa.Function]int{}
	fns := p.SrcFuncs(core.PkgBttest)
	implFn := func(fn *ssa.Function) bool {
		// methods of the Rows implementations themselves are below the interface
		r := core.Root(fn)
		if r.Signature.Recv() == nil {
			return false
		}
		n := core.NamedOf(r.Signature.Recv().Type())
		return n != nil && (core.TName(n) == "btreeRows" || core.TName(n) == "leveldbRows")
	}
	for changed := true; changed; {
		changed = false
		writers = writers[:0]
		for _, fn := range fns {
			if implFn(fn) {
				continue
			}
			for _, c := range core.AllCalls(fn) {
				var row ssa.Value
				what := ""
				isKey := false
				switch {
				case isRowsMethod(c, "ReplaceOrInsert"):
					row, what = c.Common.Args[0], "Rows.ReplaceOrInsert"
				case isRowsMethod(c, "Delete"):
					row, what, isKey = c.Common.Args[0], "Rows.Delete", true
				case c.Static != nil && writerFns[c.Static] > 0:
					row, what = c.Common.Args[writerFns[c.Static]-1], core.FuncName(c.Static)
				default:
					continue
				}
				if isKey {
					// key := r.Key — follow to the row
					if ld, ok := core.Resolve(row).(*ssa.UnOp); ok && ld.Op == token.MUL {
						if fa, ok := ld.X.(*ssa.FieldAddr); ok {
							if _, fname, ok := core.FieldName(fa); ok && fname == "Key" {
								row = fa.X
								isKey = false
							}
						}
					}
				}
				writers = append(writers, rowWriter{fn: fn, call: c, what: what, row: row, isKey: isKey})
				if !isKey {
					for _, s := range rowSources(p, row, map[ssa.Value]bool{}) {
						if s.kind == srcParam && s.fn == fn && fn.Parent() == nil && writerFns[fn] == 0 {
							writerFns[fn] = s.param + 1
							changed = true
						}
					}
				}
			}
		}
	}
	return writers, writerFns
}

// epochEvents lists instructions in fn after which the table lock has been
// given up at least momentarily: an Unlock/RUnlock of table.mu or a call that
// (transitively) reverses it.
func epochEvents(la *LockAnalysis, fn *ssa.Function) []ssa.Instruction {
	var out []ssa.Instruction
	for _, c := range core.AllCalls(fn) {
		if op, ok := lockOpOf(c); ok && op.lock == tableLock && !op.acq {
			if _, isDefer := c.Instr.(*ssa.Defer); !isDefer {
				out = append(out, c.Instr)
			}
			continue
		}
		if _, isGo := c.Instr.(*ssa.Go); isGo {
			continue
		}
		for _, callee := range la.calleesOf(c) {
			if la.Breaks[callee][tableLock] {
				out = append(out, c.Instr)
			}
		}
	}
	return out
}

// R02R03: read-modify-write of a row happens under one uninterrupted hold of
// the table lock; a callback of a suspended iteration never writes back the
// row it was handed.
func R02R03() Rule {
	return Rule{Name: "R02", Run: func(c *core.Ctx) {
		la := Locks(c.P)
		writers, _ := rowWriters(c.P)
		sort.SliceStable(writers, func(i, j int) bool { return writers[i].call.Instr.Pos() < writers[j].call.Instr.Pos() })
		cnt := map[string]int{}
		for _, w := range writers {
			fname := core.FuncName(w.fn)
			c.Fn(fname)
			base := fmt.Sprintf("%s/%s", fname, w.what)
			cnt[base]++
			construct := fmt.Sprintf("%s#%d", base, cnt[base])
			pos := w.call.Instr.Pos()
			events := epochEvents(la, w.fn)
			if w.isKey {
				// delete by a key that is not tied to a row value: sound as long as
				// the function never gives up the lock at all
				if len(events) == 0 && !la.Breaks[w.fn][tableLock] {
					c.Ok("R02", construct, pos, true, "delete by key; the function never releases %s", tableLock)
				} else {
					c.Bad("R02", construct, pos, "delete by a collected key in a function that releases %s in between (%s)", tableLock, c.P.Pos(events[0].Pos()))
				}
				continue
			}
			srcs := rowSources(c.P, w.row, map[ssa.Value]bool{})
			ok := true
			var why []string
			for _, s := range srcs {
				switch s.kind {
				case srcFresh:
					why = append(why, "fresh row")
				case srcNil:
					why = append(why, "nil (unset)")
				case srcLoopCarried:
					ok = false
					c.Bad("R02", construct+"/carried-across-iterations", pos, "the row written here can be the row object of the previous loop iteration (it is kept in a variable across iterations instead of being read afresh): mutations of a previous element — including the partial mutations of an element that failed — are carried into this element's write")
				case srcContainer:
					ok = false
					c.Bad("R02", construct+"/row-object-reused", pos, "the row written here is taken out of a map of row objects kept across the elements of the request instead of being read afresh: the applier mutates rows in place and stops at the first invalid mutation, so the half-mutated row of an element that failed is stored by a later element for the same key")
				case srcParam:
					why = append(why, fmt.Sprintf("parameter %d of %s (obligation carried by its callers)", s.param, core.FuncName(s.fn)))
				case srcReader:
					bad := false
					if s.instr.Parent() != w.fn && core.Root(s.instr.Parent()) != core.Root(w.fn) {
						// read in one helper, written in another (`beginRowWrite` … `commit`): the hold is
						// uninterrupted iff no function that runs both ever releases and re-takes the lock
						nRoots := 0
						for _, root := range c.P.SrcFuncs(core.PkgBttest) {
							if root.Parent() != nil {
								continue
							}
							sc := c.P.ScopeSet(root, func(f *ssa.Function) bool { return core.PkgPathOf(f) != core.PkgBttest })
							if !sc[core.Root(s.instr.Parent())] || !sc[core.Root(w.fn)] {
								continue
							}
							nRoots++
							// only a release that can happen *between* the read and the write-back interrupts the
							// hold (an unlock after the last write-back — before the response is sent — does not)
							between := 0
							rs := c.P.ExecSites(root, s.instr, sc)
							ws := c.P.ExecSites(root, w.call.Instr, sc)
							for _, ev := range epochEvents(la, root) {
								for _, r := range rs {
									for _, w2 := range ws {
										if ev.Parent() == r.Parent() && ev.Parent() == w2.Parent() && core.InstrReaches(r, ev) && core.InstrReaches(ev, w2) {
											between++
										}
									}
								}
							}
							if between > 0 {
								c.Bad("R02", construct, pos, "row read at %s (in %s) is written back here, and %s — which runs both — releases %s in between: the write can overwrite a concurrent update", c.P.Pos(s.instr.Pos()), core.FuncName(s.instr.Parent()), core.FuncName(root), tableLock)
								bad = true
								break
							}
						}
						if nRoots == 0 && !bad {
							c.Unknown("R02", construct, pos, "the row written here is read in %s, and no function running both was found", core.FuncName(s.instr.Parent()))
							bad = true
						}
						if bad {
							ok = false
						} else {
							why = append(why, fmt.Sprintf("read at %s in a helper; none of the %d functions running both releases %s", c.P.Pos(s.instr.Pos()), nRoots, tableLock))
						}
						continue
					}
					for _, e := range events {
						if core.InstrReaches(s.instr, e) && core.InstrReaches(e, w.call.Instr) {
							c.Bad("R02", construct, pos, "row read at %s is written back here, but %s is released in between at %s: the write can overwrite a concurrent update", c.P.Pos(s.instr.Pos()), tableLock, c.P.Pos(e.Pos()))
							bad = true
							break
						}
					}
					if bad {
						ok = false
					} else {
						why = append(why, fmt.Sprintf("read at %s, no release of %s on any path to the write", c.P.Pos(s.instr.Pos()), tableLock))
					}
				case srcCallback:
					if la.Breaks[s.fn][tableLock] {
						ok = false
						c.Bad("R03", construct, pos, "iterator callback %s releases and re-takes %s during the iteration and writes back the row it was handed by the iterator (a snapshot taken before the release): a write acknowledged meanwhile is reverted; re-read the row under the current hold", core.FuncName(s.fn), tableLock)
					} else {
						why = append(why, fmt.Sprintf("callback parameter of %s, which never releases %s", core.FuncName(s.fn), tableLock))
					}
				default:
					ok = false
					c.Unknown("R02", construct, pos, "cannot determine where the written row comes from (%s)", s.val)
				}
			}
			if ok {
				c.Ok("R02", construct, pos, true, "%v", why)
			}
		}
		// callbacks with an epoch break and no write (scan): informational discharge
		for _, fn := range c.P.SrcFuncs(core.PkgBttest) {
			if _, ok := isAscendCallback(fn); !ok || !la.Breaks[fn][tableLock] {
				continue
			}
			wrote := false
			for _, w := range writers {
				if w.fn == fn {
					wrote = true
				}
			}
			if !wrote {
				c.Ok("R03", core.FuncName(fn)+"/no-write-back", fn.Pos(), true, "callback releases %s while streaming but never writes a row back", tableLock)
			}
		}
	}}
}
