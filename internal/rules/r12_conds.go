package rules

import (
	"fmt"
	"go/token"
	"sort"
	"strings"

	"golang.org/x/tools/go/ssa"

	"verif/internal/core"
)

func isConditions(v ssa.Value) bool { return core.TypeIs(v.Type(), pkgCloudStorage, "Conditions") }

// condFieldsTouched lists the Conditions fields whose address is taken or
// which are read in fn (on any value of type Conditions).
func condFieldsTouched(fn *ssa.Function) map[string]bool {
	out := map[string]bool{}
	for _, f := range core.Family(fn) {
		for _, b := range f.Blocks {
			for _, in := range b.Instrs {
				switch x := in.(type) {
				case *ssa.FieldAddr:
					if core.TypeIs(x.X.Type(), pkgCloudStorage, "Conditions") {
						_, n, _ := core.FieldName(x)
						out[n] = true
					}
				case *ssa.Field:
					if core.TypeIs(x.X.Type(), pkgCloudStorage, "Conditions") {
						_, n, _ := core.FieldName(x)
						out[n] = true
					}
				}
			}
		}
	}
	return out
}

func keysOf(m map[string]bool) []string {
	var out []string
	for k := range m {
		out = append(out, k)
	}
	sort.Strings(out)
	return out
}

// R12: conditions plumbing and truth-table agreement.
func R12() Rule {
	return Rule{Name: "R12", Run: func(c *core.Ctx) {
		P := c.P
		parse := P.MustFunc(core.PkgGcsemu, "parseConds")
		validate := P.MustFunc(core.PkgGcsemu, "validateConds")
		c.Fn("parseConds")
		c.Fn("validateConds")
		// (a) what the parser writes the validator reads
		w, r := condFieldsTouched(parse), condFieldsTouched(validate)
		for _, f := range keysOf(w) {
			c.Check(r[f], "R12", "a/parsed-field-is-validated/"+f, parse.Pos(), "validateConds reads "+f, "parseConds sets Conditions."+f+" but validateConds never looks at it: the precondition is accepted and silently ignored")
		}
		for _, f := range keysOf(r) {
			c.Check(w[f], "R12", "a/validated-field-is-parsed/"+f, validate.Pos(), "parseConds sets "+f, "validateConds tests Conditions."+f+" but parseConds never sets it: the precondition can never take effect")
		}
		if len(w) < 5 {
			c.Unknown("R12", "floor/fields", token.NoPos, "only %d Conditions fields handled by parseConds", len(w))
		}
		// (b) failure kind → status code
		nRet := 0
		var objParam *ssa.Parameter
		for _, p := range validate.Params {
			if isPtr(p.Type()) {
				objParam = p
			}
		}
		for i, ret := range returnsIn(validate) {
			for _, v := range returnValues(ret.Results[0]) {
				v = core.Resolve(v)
				if core.IsNilConst(v) {
					// success: on the nil-object side only for the empty / does-not-exist condition sets
					objNil := false
					whitelisted := false
					for _, f := range core.FactsAt(ret.Block()) {
						bin, ok := f.Cond.(*ssa.BinOp)
						if !ok {
							continue
						}
						if core.IsNilConst(bin.Y) && objParam != nil && core.Resolve(bin.X) == ssa.Value(objParam) && (bin.Op == token.EQL) == f.Polarity {
							objNil = true
						}
					}
					if objNil {
						// every path to this return passes a struct equality with one of the two globals
						whitelisted = nilSuccessOnlyForWhitelistedConds(validate, ret)
						c.Check(whitelisted, "R12", fmt.Sprintf("b/nil-object-success#%d", i+1), ret.Pos(), "an absent object passes only when the conditions equal the empty or the does-not-exist set", "an absent object passes validateConds for condition sets other than 'none' / 'must not exist'")
					}
					continue
				}
				call, ok := v.(*ssa.Call)
				if !ok || !core.Call(call).IsFunc(core.PkgGcsemu, "fmtErrorfCode") {
					c.Bad("R12", fmt.Sprintf("b/failure#%d", i+1), ret.Pos(), "validateConds fails with an error that carries no HTTP status")
					continue
				}
				nRet++
				code, _ := core.ConstInt(call.Call.Args[0])
				fields := map[string]bool{}
				for _, f := range core.FactsAt(ret.Block()) {
					if !f.Polarity {
						continue
					}
					for _, n := range condFieldsIn(f.Cond) {
						fields[n] = true
					}
				}
				want := int64(412)
				for n := range fields {
					if strings.HasSuffix(n, "NotMatch") {
						want = 304
					}
				}
				construct := fmt.Sprintf("b/failure-code/%s", strings.Join(keysOf(fields), "+"))
				if len(fields) == 0 {
					construct = fmt.Sprintf("b/failure-code/absent-object#%d", i+1)
				}
				c.Check(code == want, "R12", construct, ret.Pos(), fmt.Sprintf("fails with %d", want), fmt.Sprintf("a failing %v precondition is answered with %d, expected %d (412 for match-kind and existence conditions, 304 for not-match ones)", keysOf(fields), code, want))
			}
		}
		if nRet < 6 {
			c.Unknown("R12", "floor/failures", token.NoPos, "only %d coded failure returns in validateConds", nRet)
		}
		// status code round trip
		fe := P.MustFunc(core.PkgGcsemu, "fmtErrorfCode")
		sc := P.MustFunc(core.PkgGcsemu, "httpStatusCodeOf")
		stored := false
		for _, b := range fe.Blocks {
			for _, in := range b.Instrs {
				if st, ok := in.(*ssa.Store); ok {
					if fa, ok := st.Addr.(*ssa.FieldAddr); ok {
						if _, f, _ := core.FieldName(fa); f == "code" && core.Resolve(st.Val) == ssa.Value(fe.Params[0]) {
							stored = true
						}
					}
				}
			}
		}
		loaded := false
		for _, ret := range returnsIn(sc) {
			for _, v := range returnValues(ret.Results[0]) {
				if strings.HasSuffix(strings.Join(fieldChain(v), "."), "code") {
					loaded = true
				}
			}
		}
		c.Check(stored && loaded, "R12", "b/status-code-roundtrip", fe.Pos(), "fmtErrorfCode stores its code in httpError.code and httpStatusCodeOf returns that field", "the HTTP code given to fmtErrorfCode is not what httpStatusCodeOf reports")

		// (c) plumbing
		handler := P.MustFunc(core.PkgGcsemu, "(*GcsEmu).Handler")
		c.Fn("(*GcsEmu).Handler")
		fromParse := func(v ssa.Value) bool {
			k := substKey(v, nil, 0)
			return strings.Contains(k, "parseConds") && strings.HasSuffix(k, "#0")
		}
		n := 0
		for _, ci := range core.AllCalls(handler) {
			if ci.Static == nil || !inRepo(P, ci.Static) {
				continue
			}
			for i, a := range ci.Common.Args {
				if !isConditions(a) {
					continue
				}
				n++
				c.Check(fromParse(a), "R12", fmt.Sprintf("c/Handler->%s/arg%d", core.FuncName(ci.Static), i), ci.Instr.Pos(), "receives the conditions parsed from the request", "the handler is not given the request's parsed conditions: preconditions of this operation are ignored")
			}
		}
		if n < 5 {
			c.Unknown("R12", "floor/handler-plumbing", token.NoPos, "only %d handlers receive conditions from Handler", n)
		}
		paramKey := func(fn *ssa.Function) string {
			p := condsParamOf(fn)
			if p == nil {
				return "<none>"
			}
			return substKey(p, nil, 0)
		}
		// uploads
		newObj := P.MustFunc(core.PkgGcsemu, "(*GcsEmu).handleGcsNewObject")
		fu := P.MustFunc(core.PkgGcsemu, "(*GcsEmu).finishUpload")
		k := 0
		for _, ci := range core.AllCalls(newObj) {
			if ci.Static == fu {
				k++
				a := ci.Common.Args[len(ci.Common.Args)-1]
				c.Check(substKey(a, nil, 0) == paramKey(newObj), "R12", fmt.Sprintf("c/handleGcsNewObject->finishUpload#%d", k), ci.Instr.Pos(), "passes its conditions on", "an upload protocol drops the request's preconditions on the way to finishUpload")
			}
		}
		if k < 2 {
			c.Unknown("R12", "floor/upload-plumbing", token.NoPos, "expected two finishUpload calls in handleGcsNewObject")
		}
		storedConds := false
		for _, b := range newObj.Blocks {
			for _, in := range b.Instrs {
				if st, ok := in.(*ssa.Store); ok {
					if fa, ok := st.Addr.(*ssa.FieldAddr); ok {
						if _, f, _ := core.FieldName(fa); f == "Conds" && core.TypeIs(fa.X.Type(), core.PkgGcsemu, "uploadData") {
							storedConds = substKey(st.Val, nil, 0) == paramKey(newObj)
						}
					}
				}
			}
		}
		c.Check(storedConds, "R12", "c/resumable-initiation-stores-conditions", newObj.Pos(), "the pending upload records the initiating request's conditions", "a resumable upload does not record the conditions of its initiating request")
		resume := P.MustFunc(core.PkgGcsemu, "(*GcsEmu).handleGcsNewObjectResume")
		okResume := false
		for _, ci := range core.AllCalls(resume) {
			if ci.Static == fu {
				a := ci.Common.Args[len(ci.Common.Args)-1]
				ch := fieldChain(a)
				okResume = len(ch) > 0 && ch[len(ch)-1] == "Conds"
			}
		}
		c.Check(okResume, "R12", "c/resumable-completion-uses-stored-conditions", resume.Pos(), "completion evaluates the conditions recorded at initiation", "a resumable upload is completed without the conditions recorded at initiation")
		// compose
		comp := P.MustFunc(core.PkgGcsemu, "(*GcsEmu).handleGcsCompose")
		dstConds, srcConds := false, false
		for _, b := range comp.Blocks {
			for _, in := range b.Instrs {
				st, ok := in.(*ssa.Store)
				if !ok {
					continue
				}
				ch := fieldChain(st.Addr)
				if len(ch) == 0 {
					continue
				}
				last := ch[len(ch)-1]
				if last == "conds" && isConditions(st.Val) && substKey(st.Val, nil, 0) == paramKey(comp) {
					dstConds = true
				}
				if last == "GenerationMatch" {
					// value comes from ObjectPreconditions.IfGenerationMatch
					if strings.Contains(substKey(st.Val, nil, 0), "IfGenerationMatch") || phiHasField(st.Val, "IfGenerationMatch") {
						srcConds = true
					}
				}
			}
		}
		c.Check(dstConds, "R12", "c/compose-destination-conditions", comp.Pos(), "the destination carries the request's conditions", "compose drops the request's preconditions for the destination")
		c.Check(srcConds, "R12", "c/compose-source-generation-match", comp.Pos(), "each source carries its ifGenerationMatch", "compose drops the per-source ifGenerationMatch")
		fc := P.MustFunc(core.PkgGcsemu, "(*GcsEmu).finishCompose")
		nv := 0
		srcChecked := false
		for _, call := range callsTo(fc, core.PkgGcsemu, "validateConds") {
			nv++
			ch := strings.Join(fieldChain(call.Call.Args[1]), ".")
			obj := core.Resolve(call.Call.Args[0])
			if ex, ok := obj.(*ssa.Extract); ok {
				if g, ok := ex.Tuple.(*ssa.Call); ok && isStoreCall(core.Call(g), "Get") && strings.HasSuffix(ch, "conds") {
					srcChecked = true
				}
			}
		}
		c.Check(srcChecked && nv >= 2, "R12", "c/compose-validates-each-source", fc.Pos(), "every source read is checked against that source's conditions", "compose does not check the per-source generation match")
	}}
}

func phiHasField(v ssa.Value, field string) bool {
	seen := map[ssa.Value]bool{}
	var walk func(v ssa.Value, d int) bool
	walk = func(v ssa.Value, d int) bool {
		v = core.Strip(v)
		if d > 8 || seen[v] {
			return false
		}
		seen[v] = true
		for _, f := range fieldChain(v) {
			if f == field {
				return true
			}
		}
		switch x := v.(type) {
		case *ssa.Phi:
			for _, e := range x.Edges {
				if walk(e, d+1) {
					return true
				}
			}
		case *ssa.UnOp:
			if cell := core.CellOf(x.X); cell != nil {
				for _, st := range core.StoresTo(cell) {
					if walk(st.Val, d+1) {
						return true
					}
				}
			}
		}
		return false
	}
	return walk(v, 0)
}

// condFieldsIn lists Conditions fields read in the expression tree of cond.
func condFieldsIn(v ssa.Value) []string {
	var out []string
	seen := map[ssa.Value]bool{}
	var walk func(v ssa.Value, d int)
	walk = func(v ssa.Value, d int) {
		v = core.Strip(v)
		if d > 6 || seen[v] {
			return
		}
		seen[v] = true
		switch x := v.(type) {
		case *ssa.BinOp:
			walk(x.X, d+1)
			walk(x.Y, d+1)
		case *ssa.UnOp:
			if fa, ok := x.X.(*ssa.FieldAddr); ok && core.TypeIs(fa.X.Type(), pkgCloudStorage, "Conditions") {
				_, n, _ := core.FieldName(fa)
				out = append(out, n)
				return
			}
			walk(x.X, d+1)
		case *ssa.Field:
			if core.TypeIs(x.X.Type(), pkgCloudStorage, "Conditions") {
				_, n, _ := core.FieldName(x)
				out = append(out, n)
			}
		}
	}
	walk(v, 0)
	return out
}

// nilSuccessOnlyForWhitelistedConds: the success return on the nil-object side
// is only reachable through struct-equality tests against package-level
// Conditions values (emptyConds / doesNotExistConds).
func nilSuccessOnlyForWhitelistedConds(fn *ssa.Function, ret *ssa.Return) bool {
	var cut []cfgEdge
	n := 0
	for _, b := range fn.Blocks {
		ifi, ok := b.Instrs[len(b.Instrs)-1].(*ssa.If)
		if !ok {
			continue
		}
		bin, ok := ifi.Cond.(*ssa.BinOp)
		if !ok || bin.Op != token.EQL || !isConditions(bin.X) {
			continue
		}
		isGlobal := func(v ssa.Value) bool {
			if ld, ok := core.Strip(v).(*ssa.UnOp); ok {
				_, g := ld.X.(*ssa.Global)
				return g
			}
			return false
		}
		if isGlobal(bin.X) || isGlobal(bin.Y) {
			n++
			cut = append(cut, cfgEdge{b, b.Succs[0]})
		}
	}
	return n >= 1 && !reachableWithoutEdges(fn, ret.Block(), cut)
}
