#!/usr/bin/env python3
"""Thorough tier, part 2: both-ways regression of one property's check against the committed corpora.

For property Cxx, on scratch copies of /repo's *current* working tree (created under a private temp
directory and removed afterwards, several in parallel):

  seeded/<name>/patch.diff   independently seeded breaking changes that this property's check is
                             recorded to report (seeded/EXPECT.json)           -> must exit 1
  benign/<name>.diff         independent behaviour-preserving refactorings of the module(s) the
                             property analyses                                  -> must exit 0

A patch that no longer applies to the current tree is skipped (reported, not failed): the corpora
were taken on the pinned tree.  A benign variant that alarms or an expected catch that is missed is
a defect of the *checker* (exit 2, CHECK-BROKEN), never a VIOLATION of the property.
The result is merged into evidence/<Cxx>.json under coverage.corpus.
usage: corpus_check.py Cxx"""
import sys, os, json, glob, shutil, subprocess, tempfile, concurrent.futures as cf
V = os.path.dirname(os.path.dirname(os.path.abspath(__file__)))
REPO = '/repo'
ENV = dict(os.environ, GOFLAGS='-mod=mod', GOPROXY='off', GOSUMDB='off', GOTOOLCHAIN='local', GOWORK='off')
BT = {'C01', 'C03', 'C05', 'C06', 'C08', 'C12', 'C13', 'C14', 'C16', 'C17', 'C18'}

def sh(cmd, cwd=None, inp=None):
    return subprocess.run(cmd, shell=True, cwd=cwd, env=ENV, capture_output=True, text=True, input=inp)

def modules_of(prop):
    if prop == 'C20':
        return {'bigtable', 'storage'}
    return {'bigtable'} if prop in BT else {'storage'}

def touched(diff):
    return {l.split()[1].split('/')[1] for l in diff.splitlines() if l.startswith('+++ b/')}

def run(prop, name, diff, base):
    d = os.path.join(base, name); vd = d + '.verif'
    try:
        r = sh(f'rsync -a --exclude .git {REPO}/ {d}/')
        if r.returncode != 0:
            return name, None, 'copy failed: ' + r.stderr[-200:]
        os.makedirs(os.path.join(vd, 'evidence'))
        shutil.copy(os.path.join(V, 'known_findings.json'), vd)
        r = sh('git apply -', cwd=d, inp=diff)
        if r.returncode != 0:
            return name, None, 'patch does not apply to the current tree'
        r = sh(f'{V}/bin/emucheck check -prop {prop} -tier quick -repo {d} -verif {vd}')
        lines = [l.strip() for l in r.stdout.splitlines() if '[R' in l or l.startswith('CHECK-BROKEN')]
        return name, r.returncode, '; '.join(lines[:2])[:300]
    finally:
        shutil.rmtree(d, ignore_errors=True); shutil.rmtree(vd, ignore_errors=True)

def main():
    prop = sys.argv[1]
    expect = json.load(open(os.path.join(V, 'seeded', 'EXPECT.json')))
    jobs = []
    for name, e in sorted(expect.items()):
        if prop in e.get('alarms', []):
            jobs.append(('seeded-' + name, open(os.path.join(V, 'seeded', name, 'patch.diff')).read(), 1))
    mods = modules_of(prop)
    for f in sorted(glob.glob(os.path.join(V, 'benign', '*.diff'))):
        diff = open(f).read()
        if touched(diff) & mods:
            jobs.append(('benign-' + os.path.basename(f)[:-5], diff, 0))
    base = tempfile.mkdtemp(prefix=f'verif-corpus-{prop}-')
    res = {}
    try:
        with cf.ThreadPoolExecutor(max_workers=6) as ex:
            futs = {ex.submit(run, prop, j[0], j[1], base): j for j in jobs}
            for fu in cf.as_completed(futs):
                name, code, note = fu.result()
                res[name] = (code, note, futs[fu][2])
    finally:
        shutil.rmtree(base, ignore_errors=True)
    bad = 0
    summary = {'seeded_expected_caught': 0, 'seeded_caught': 0, 'benign': 0, 'benign_silent': 0, 'skipped_patch_does_not_apply': [], 'unexpected': []}
    for name in sorted(res):
        code, note, want = res[name]
        kind = 'seeded' if name.startswith('seeded-') else 'benign'
        if code is None:
            summary['skipped_patch_does_not_apply'].append(name)
            print(f'corpus {name}: SKIP ({note})')
            continue
        if kind == 'seeded':
            summary['seeded_expected_caught'] += 1
            if code == want:
                summary['seeded_caught'] += 1
        else:
            summary['benign'] += 1
            if code == want:
                summary['benign_silent'] += 1
        if code != want:
            bad += 1
            summary['unexpected'].append({'variant': name, 'exit': code, 'wanted': want, 'note': note})
            print(f'corpus {name}: UNEXPECTED exit {code}, wanted {want} — {note}')
    print(f"corpus {prop}: {summary['seeded_caught']}/{summary['seeded_expected_caught']} seeded changes reported, "
          f"{summary['benign_silent']}/{summary['benign']} behaviour-preserving refactorings silent, "
          f"{len(summary['skipped_patch_does_not_apply'])} skipped")
    evp = os.path.join(V, 'evidence', prop + '.json')
    try:
        ev = json.load(open(evp))
        ev['coverage']['corpus'] = summary
        ev['coverage']['corpus_rule'] = 'each variant = /repo current tree + one committed patch, analysed by the same check; seeded changes were produced by independent sub-agents that saw only the property text (confirmed: suite passes, demonstration fails with the change and passes without); benign variants are independent behaviour-preserving refactorings'
        json.dump(ev, open(evp, 'w'), indent=1)
    except Exception as e:
        print('CHECK-BROKEN: cannot merge corpus result into evidence:', e); return 2
    if bad:
        print(f'CHECK-BROKEN: the check of {prop} disagrees with its regression corpus on {bad} variant(s) (checker defect, not a property violation)')
        return 2
    return 0

sys.exit(main())
