package rules

import (
	"fmt"
	"go/token"
	"go/types"
	"sort"
	"strings"

	"golang.org/x/tools/go/ssa"

	"verif/internal/core"
)

const pkgBtpb = "cloud.google.com/go/bigtable/apiv2/bigtablepb"

// The filter kinds C05 lists as supported (oneof wrapper type names).
var supportedFilters = []string{
	"RowFilter_PassAllFilter", "RowFilter_BlockAllFilter", "RowFilter_RowKeyRegexFilter",
	"RowFilter_FamilyNameRegexFilter", "RowFilter_ColumnQualifierRegexFilter", "RowFilter_ValueRegexFilter",
	"RowFilter_ColumnRangeFilter", "RowFilter_ValueRangeFilter", "RowFilter_TimestampRangeFilter",
	"RowFilter_CellsPerRowLimitFilter", "RowFilter_CellsPerRowOffsetFilter", "RowFilter_CellsPerColumnLimitFilter",
	"RowFilter_StripValueTransformer", "RowFilter_ApplyLabelTransformer",
	"RowFilter_Chain_", "RowFilter_Interleave_", "RowFilter_Condition_", "RowFilter_RowSampleFilter",
}

// Kinds whose arguments can be invalid: an InvalidArgument return must exist in their handling case.
var validatedFilters = []string{
	"RowFilter_PassAllFilter", "RowFilter_BlockAllFilter", "RowFilter_RowKeyRegexFilter",
	"RowFilter_FamilyNameRegexFilter", "RowFilter_ColumnQualifierRegexFilter", "RowFilter_ValueRegexFilter",
	"RowFilter_TimestampRangeFilter",
	"RowFilter_CellsPerRowLimitFilter", "RowFilter_CellsPerRowOffsetFilter", "RowFilter_CellsPerColumnLimitFilter",
	"RowFilter_ApplyLabelTransformer",
	"RowFilter_Chain_", "RowFilter_Interleave_", "RowFilter_RowSampleFilter",
}

var unsupportedFilters = map[string]string{
	"RowFilter_Sink": "sink filters are documented as unsupported",
}

type filterCase struct {
	fn      *ssa.Function
	ta      *ssa.TypeAssert
	kind    string
	trivial bool // the case body is just `return <const>, nil`
}

func filterCases(fn *ssa.Function) []filterCase {
	var out []filterCase
	for _, b := range fn.Blocks {
		for _, in := range b.Instrs {
			ta, ok := in.(*ssa.TypeAssert)
			if !ok || !ta.CommaOk {
				continue
			}
			n := core.NamedOf(ta.AssertedType)
			if n == nil || n.Obj().Pkg() == nil || n.Obj().Pkg().Path() != pkgBtpb || !strings.HasPrefix(n.Obj().Name(), "RowFilter_") {
				continue
			}
			fc := filterCase{fn: fn, ta: ta, kind: n.Obj().Name()}
			// the ok successor
			for _, r := range core.Referrers(ta) {
				if ex, ok := r.(*ssa.Extract); ok && ex.Index == 1 {
					for _, rr := range core.Referrers(ex) {
						if ifi, ok := rr.(*ssa.If); ok {
							body := ifi.Block().Succs[0]
							fc.trivial = len(body.Instrs) == 1
							if ret, ok := body.Instrs[0].(*ssa.Return); ok && fc.trivial {
								_ = ret
							} else {
								fc.trivial = false
							}
						}
					}
				}
			}
			out = append(out, fc)
		}
	}
	return out
}

// okRegion: blocks dominated by the ok edge of the type assertion.
func (fc filterCase) okBlock() *ssa.BasicBlock {
	for _, r := range core.Referrers(fc.ta) {
		if ex, ok := r.(*ssa.Extract); ok && ex.Index == 1 {
			for _, rr := range core.Referrers(ex) {
				if ifi, ok := rr.(*ssa.If); ok {
					return ifi.Block().Succs[0]
				}
			}
		}
	}
	return nil
}

// R18: every supported filter kind has a handler; rejections are InvalidArgument.
func R18() Rule {
	return Rule{Name: "R18", Run: func(c *core.Ctx) {
		P := c.P
		fRow := P.MustFunc(core.PkgBttest, "filterRow")
		fInc := P.MustFunc(core.PkgBttest, "includeCell")
		fMod := P.MustFunc(core.PkgBttest, "modifyCell")
		fCells := P.MustFunc(core.PkgBttest, "filterCells")
		for _, f := range []*ssa.Function{fRow, fInc, fMod, fCells} {
			c.Fn(core.FuncName(f))
		}
		// all kinds of the pinned API
		pb := P.Pkgs[core.PkgBttest].Imports[pkgBtpb]
		if pb == nil {
			panic(core.Broken("anchor gone: bigtablepb import"))
		}
		ifaceObj := pb.Types.Scope().Lookup("isRowFilter_Filter")
		if ifaceObj == nil {
			panic(core.Broken("anchor gone: bigtablepb.isRowFilter_Filter"))
		}
		iface := ifaceObj.Type().Underlying().(*types.Interface)
		var allKinds []string
		for _, name := range pb.Types.Scope().Names() {
			tn, ok := pb.Types.Scope().Lookup(name).(*types.TypeName)
			if !ok || !strings.HasPrefix(name, "RowFilter_") {
				continue
			}
			if types.Implements(types.NewPointer(tn.Type()), iface) {
				allKinds = append(allKinds, name)
			}
		}
		sort.Strings(allKinds)
		handled := map[string]filterCase{}
		for _, fn := range []*ssa.Function{fRow, fMod, fInc} {
			for _, fc := range filterCases(fn) {
				if fn == fInc && fc.trivial {
					continue // "row-level filter, nothing to do per cell"
				}
				if _, dup := handled[fc.kind]; !dup {
					handled[fc.kind] = fc
				}
			}
		}
		sup := map[string]bool{}
		for _, k := range supportedFilters {
			sup[k] = true
			if fc, ok := handled[k]; ok {
				c.Ok("R18", "kind/"+k, fc.ta.Pos(), false, "handled in %s", core.FuncName(fc.fn))
			} else {
				c.Bad("R18", "kind/"+k, fRow.Pos(), "supported filter kind %s has no handling case in filterRow, includeCell or modifyCell: it is silently ignored (treated as pass-all)", k)
			}
		}
		for _, k := range allKinds {
			if sup[k] {
				continue
			}
			if why, ok := unsupportedFilters[k]; ok {
				c.Infof("R18", "kind/"+k, fRow.Pos(), "not supported by design: %s", why)
			} else {
				c.Unknown("R18", "kind/"+k, fRow.Pos(), "filter kind %s of the pinned API is neither in the supported nor in the unsupported table — re-confirm the rule", k)
			}
		}
		if len(allKinds) < 18 {
			c.Unknown("R18", "floor/kinds", token.NoPos, "only %d RowFilter kinds found in bigtablepb", len(allKinds))
		}
		// (b) error discipline
		evaluator := map[*ssa.Function]bool{fRow: true, fInc: true, fMod: true, fCells: true}
		evalList := []*ssa.Function{fRow, fInc, fMod, fCells}
		// per-kind helpers the evaluator is split into: reachable from it, take (part of) a row and return an error
		for _, root := range []*ssa.Function{fRow, fInc, fMod, fCells} {
			for _, f := range P.Scope(root, func(f *ssa.Function) bool { return core.PkgPathOf(f) != core.PkgBttest }) {
				if evaluator[f] || f.Parent() != nil || f.Synthetic != "" || !lastResultIsErrorType(f) {
					continue
				}
				takesRowPart := false
				for _, pa := range f.Params {
					t := pa.Type()
					if sl, ok := t.Underlying().(*types.Slice); ok {
						t = sl.Elem()
					}
					if n := core.NamedOf(t); n != nil && n.Obj().Pkg() != nil && n.Obj().Pkg().Path() == pkgBtpb {
						switch n.Obj().Name() {
						case "Row", "Family", "Column", "Cell":
							takesRowPart = true
						}
					}
				}
				if takesRowPart {
					evaluator[f] = true
					evalList = append(evalList, f)
					c.Fn(core.FuncName(f))
				}
			}
		}
		// rejecting helpers: in-repository functions every error of which is an InvalidArgument
		// status (`newFilterRegexp(field, pat)`), directly or through another such helper
		rejMemo := map[*ssa.Function]bool{}
		var rejecting func(g *ssa.Function, depth int) bool
		var invalidArg func(v ssa.Value, depth int) bool
		invalidArg = func(v ssa.Value, depth int) bool {
			v = core.Resolve(v)
			if isInvalidArgumentStatus(v) {
				return true
			}
			var call *ssa.Call
			switch x := v.(type) {
			case *ssa.Extract:
				call, _ = x.Tuple.(*ssa.Call)
			case *ssa.Call:
				call = x
			}
			if call == nil || depth > 3 {
				return false
			}
			return rejecting(call.Call.StaticCallee(), depth+1)
		}
		rejecting = func(g *ssa.Function, depth int) bool {
			if g == nil || g.Blocks == nil || core.PkgPathOf(g) != core.PkgBttest || !lastResultIsErrorType(g) {
				return false
			}
			if r, seen := rejMemo[g]; seen {
				return r
			}
			rejMemo[g] = false
			n, ok := 0, true
			for _, r := range returnsIn(g) {
				for _, v := range returnValues(r.Results[len(r.Results)-1]) {
					if core.IsNilConst(core.Resolve(v)) {
						continue
					}
					n++
					if !invalidArg(v, depth) {
						ok = false
					}
				}
			}
			rejMemo[g] = ok && n > 0
			return rejMemo[g]
		}
		nErr := 0
		for _, fn := range evalList {
			k := 0
			for _, r := range returnsIn(fn) {
				last := r.Results[len(r.Results)-1]
				for _, v := range returnValues(last) {
					v = core.Resolve(v)
					if core.IsNilConst(v) {
						continue
					}
					k++
					nErr++
					construct := fmt.Sprintf("error/%s#%d", core.FuncName(fn), k)
					if isInvalidArgumentStatus(v) {
						c.Ok("R18", construct, r.Pos(), true, "InvalidArgument status")
						continue
					}
					if invalidArg(v, 0) {
						c.Ok("R18", construct, r.Pos(), true, "propagated from a helper every error of which is an InvalidArgument status")
						continue
					}
					// propagated from a recursive evaluator call
					if ex, ok := v.(*ssa.Extract); ok {
						if call, ok := ex.Tuple.(*ssa.Call); ok && evaluator[call.Call.StaticCallee()] {
							c.Ok("R18", construct, r.Pos(), true, "propagated unchanged from %s", core.FuncName(call.Call.StaticCallee()))
							continue
						}
					}
					c.Bad("R18", construct, r.Pos(), "the filter evaluator returns an error that is neither an InvalidArgument status nor propagated from a nested evaluation: clients see the wrong status code")
				}
			}
		}
		if nErr < 5 {
			c.Unknown("R18", "floor/error-sites", token.NoPos, "only %d error returns found in the filter evaluator", nErr)
		}
		// (b') no error of a nested evaluation is dropped: the error result of every evaluator call
		// made by the evaluator is returned on its non-nil edge (an invalid filter nested in an
		// interleave / chain / condition is rejected, not treated as "no match")
		nNested := 0
		for _, fn := range evalList {
			k := 0
			for _, ci := range core.AllCalls(fn) {
				call, isCall := ci.Instr.(*ssa.Call)
				if !isCall || ci.Static == nil || !evaluator[ci.Static] || !lastResultIsErrorType(ci.Static) {
					continue
				}
				nNested++
				k++
				construct := fmt.Sprintf("error-propagated/%s#%d", core.FuncName(fn), k)
				// the error value of this call
				var errVals []ssa.Value
				last := ci.Static.Signature.Results().Len() - 1
				if last == 0 {
					errVals = append(errVals, call)
				}
				for _, r := range core.Referrers(call) {
					if ex, isEx := r.(*ssa.Extract); isEx && ex.Index == last {
						errVals = append(errVals, ex)
					}
				}
				propagated := false
				for _, r := range returnsIn(fn) {
					for _, v := range returnValues(r.Results[len(r.Results)-1]) {
						for _, ev := range errVals {
							if core.Resolve(v) == ev || core.SameValue(v, ev) {
								propagated = true
							}
						}
					}
					// the whole call returned directly: `return filterRow(sub, r)`
					if len(r.Results) == 1 {
						if core.Resolve(r.Results[0]) == ssa.Value(call) {
							propagated = true
						}
					}
					for _, res := range r.Results {
						if ex, isEx := core.Resolve(res).(*ssa.Extract); isEx && ex.Tuple == ssa.Value(call) && ex.Index == last {
							propagated = true
						}
					}
				}
				// … or any error is returned on the edge where this one is known non-nil (a wrapped error)
				for _, r := range returnsIn(fn) {
					if ie, _ := isErrorReturn(r); ie && errNonNilEdge(call, r.Block()) {
						propagated = true
					}
				}
				// stored into an error variable that the caller consults (ReadRows keeps the scan's error in a captured variable)
				for _, ev := range errVals {
					for _, r := range core.Referrers(ev) {
						if st, isSt := r.(*ssa.Store); isSt && st.Val == ev {
							propagated = true
						}
					}
				}
				c.Check(propagated, "R18", construct, call.Pos(), "the nested evaluation's error is returned", "the error of a nested filter evaluation is dropped (it is compared with nil but never returned): an invalid filter inside an interleave / chain / condition is treated as 'no match' and the request succeeds")
			}
		}
		_ = nNested
		// (c) validation presence
		for _, k := range validatedFilters {
			found := false
			var pos token.Pos = fRow.Pos()
			for _, fn := range []*ssa.Function{fRow, fInc, fMod} {
				for _, fc := range filterCases(fn) {
					if fc.kind != k {
						continue
					}
					ob := fc.okBlock()
					if ob == nil {
						continue
					}
					pos = fc.ta.Pos()
					for _, r := range returnsIn(fn) {
						if !ob.Dominates(r.Block()) {
							continue
						}
						for _, v := range returnValues(r.Results[len(r.Results)-1]) {
							if invalidArg(v, 0) {
								// the rejection must depend on the filter's own argument: some
								// dominating branch between the case entry and the return
								if r.Block() != ob {
									found = true
								}
							}
						}
					}
					// … or the case hands the filter to a per-kind helper that rejects conditionally
					for _, hb := range fn.Blocks {
						if hb != ob && !ob.Dominates(hb) {
							continue
						}
						for _, in := range hb.Instrs {
							ci := core.Call(in)
							if ci == nil || ci.Static == nil || !evaluator[ci.Static] || ci.Static == fRow || ci.Static == fInc || ci.Static == fMod || ci.Static == fCells {
								continue
							}
							for _, r := range returnsIn(ci.Static) {
								if r.Block() == ci.Static.Blocks[0] {
									continue
								}
								for _, v := range returnValues(r.Results[len(r.Results)-1]) {
									if isInvalidArgumentStatus(v) {
										found = true
									}
								}
							}
						}
					}
				}
			}
			if found {
				c.Ok("R18", "validation/"+k, pos, true, "the handling case contains a conditional InvalidArgument rejection")
			} else {
				c.Bad("R18", "validation/"+k, pos, "the handling case of %s has no conditional InvalidArgument rejection: invalid arguments of this filter are accepted (ignored) or crash later", k)
			}
		}
	}}
}

// ---------------------------------------------------------------------------
// R19: evaluate on a copy; selector identity
// ---------------------------------------------------------------------------

// fieldChain returns the names of the fields loaded to obtain v, innermost last,
// e.g. f.Interleave.Filters[i] -> ["Interleave","Filters"].
func fieldChain(v ssa.Value) []string {
	var out []string
	for i := 0; i < 12; i++ {
		v = core.Resolve(v)
		switch x := v.(type) {
		case *ssa.UnOp:
			v = x.X
		case *ssa.IndexAddr:
			v = x.X
		case *ssa.Index:
			v = x.X
		case *ssa.FieldAddr:
			_, f, _ := core.FieldName(x)
			out = append([]string{f}, out...)
			v = x.X
		case *ssa.Field:
			_, f, _ := core.FieldName(x)
			out = append([]string{f}, out...)
			v = x.X
		case *ssa.Extract:
			v = x.Tuple
		case *ssa.Next:
			v = x.Iter
		case *ssa.Range:
			v = x.X
		default:
			return out
		}
	}
	return out
}

func isCopyRowCall(v ssa.Value) bool {
	call, ok := core.Resolve(v).(*ssa.Call)
	return ok && core.FuncIs(call.Call.StaticCallee(), core.PkgBttest, "copyRow")
}

// Only19 names one group of R19 instances.
func Only19(s string) string { return s }

func R19(group string) Rule {
	return Rule{Name: "R19", Run: func(c *core.Ctx) {
		P := c.P
		switch group {
		case "filter":
			fRow := P.MustFunc(core.PkgBttest, "filterRow")
			c.Fn("filterRow")
			nInter, nPred, nBranch := 0, 0, 0
			// recursive evaluations in filterRow or the per-kind helpers it is split into
			fscope := P.Scope(fRow, func(f *ssa.Function) bool {
				return core.PkgPathOf(f) != core.PkgBttest || core.FuncName(f) == "copyRow"
			})
			for _, call := range scopeCallsTo(fscope, core.PkgBttest, "filterRow") {
				chain := strings.Join(ownerFieldChain(call.Call.Args[0]), " ")
				switch {
				case strings.Contains(chain, "RowFilter_Interleave.Filters"):
					nInter++
					c.Check(isCopyRowCall(call.Call.Args[1]), "R19", fmt.Sprintf("filter/interleave-branch#%d", nInter), call.Pos(),
						"each interleave branch is evaluated on copyRow(r)", "an interleave branch is evaluated on the shared row: one branch's filtering is visible to the next (branches are not independent)")
				case strings.Contains(chain, "RowFilter_Condition.PredicateFilter"):
					nPred++
					c.Check(isCopyRowCall(call.Call.Args[1]), "R19", fmt.Sprintf("filter/condition-predicate#%d", nPred), call.Pos(),
						"the condition predicate is evaluated on copyRow(r)", "the condition predicate is evaluated on the row itself: the selected branch then filters a row already stripped by the predicate")
				case strings.Contains(chain, "RowFilter_Condition.TrueFilter"), strings.Contains(chain, "RowFilter_Condition.FalseFilter"):
					// the selected branch filters the row the evaluator was given — not the scratch copy the
					// predicate ran on (its result would be thrown away and the row returned unfiltered)
					nBranch++
					_, onOwnRow := core.Resolve(call.Call.Args[1]).(*ssa.Parameter)
					c.Check(onOwnRow, "R19", fmt.Sprintf("filter/condition-branch-on-the-row#%d", nBranch), call.Pos(),
						"the selected branch filter is applied to the evaluator's own row", "the selected branch of a condition filter is applied to a copy (the predicate's scratch row) instead of the row being filtered: the row itself comes back unfiltered and untransformed")
				}
			}
			if nInter < 1 || nPred < 1 {
				c.Unknown("R19", "filter/floor", fRow.Pos(), "expected recursive evaluations for interleave and condition-predicate, found %d and %d", nInter, nPred)
			}
		case "cam":
			fn := P.MustFunc(core.PkgBttest, rpcCAM)
			c.Fn(rpcCAM)
			// the RPC together with the helpers it is split into (the evaluator, the applier and
			// the row helpers are anchors of their own and are not entered)
			anchors := map[string]bool{"filterRow": true, "applyMutations": true, "copyRow": true, "isEmpty": true, "(*table).getOrCreateRow": true, "(*table).updateRow": true}
			scope := P.Scope(fn, func(f *ssa.Function) bool { return anchors[core.FuncName(f)] || core.PkgPathOf(f) != core.PkgBttest })
			within := setOf(scope)
			// (a) predicate on a copy of the stored row
			fcalls := scopeCallsTo(scope, core.PkgBttest, "filterRow")
			if len(fcalls) == 0 {
				c.Unknown("R19", "cam/predicate-call", fn.Pos(), "no filterRow call reachable from CheckAndMutateRow")
				return
			}
			acalls := scopeCallsTo(scope, core.PkgBttest, "applyMutations")
			for fi, fc := range fcalls {
				sfx := ""
				if fi > 0 {
					sfx = fmt.Sprintf("#%d", fi+1)
				}
				okCopy := false
				var copiedFrom []ssa.Value // what the evaluated copy was made of, seen from the RPC
				if cp, ok := core.Resolve(fc.Call.Args[1]).(*ssa.Call); ok && core.FuncIs(cp.Call.StaticCallee(), core.PkgBttest, "copyRow") {
					copiedFrom = P.Origins(cp.Call.Args[0], within)
					okCopy = len(copiedFrom) > 0
					// the row read from the store — or, where the lookup-or-create is written out inline, the
					// fresh row made when the store has none
					anyReader := false
					for _, o := range copiedFrom {
						for _, s := range rowSources(P, o, map[ssa.Value]bool{}) {
							switch s.kind {
							case srcReader:
								anyReader = true
							case srcFresh, srcNil:
							default:
								okCopy = false
							}
						}
					}
					okCopy = okCopy && anyReader
				}
				c.Check(okCopy, "R19", "cam/predicate-on-copy"+sfx, fc.Pos(), "the predicate runs on copyRow of the row read from the store", "the predicate filter is evaluated on the authoritative row: cells it strips are lost when the row is written back")
				c.Check(P.AllOrigins(fc.Call.Args[0], within, func(o ssa.Value) bool {
					return strings.Contains(strings.Join(fieldChain(o), "."), "PredicateFilter")
				}), "R19", "cam/predicate-is-request's"+sfx, fc.Pos(), "the evaluated filter is req.PredicateFilter", "the evaluated filter is not the request's predicate")
				// the row the decision is based on and the row that is written back come from one read
				if len(acalls) == 1 {
					same := len(copiedFrom) > 0
					written := P.Origins(acalls[0].Call.Args[1], within)
					// the two origin sets coincide (each may be {read row, fresh row} when lookup-or-create is inline)
					for _, o := range copiedFrom {
						found := false
						for _, w := range written {
							if sameRow(P, o, w) {
								found = true
							}
						}
						if !found {
							same = false
						}
					}
					for _, w := range written {
						found := false
						for _, o := range copiedFrom {
							if sameRow(P, o, w) {
								found = true
							}
						}
						if !found {
							same = false
						}
					}
					c.Check(same, "R19", "cam/decision-and-write-on-one-read"+sfx, acalls[0].Pos(), "the predicate is evaluated on (a copy of) the very row read that is then mutated and stored", "the predicate is evaluated on one read of the row and the mutations are applied to another read: a write admitted in between is neither seen by the predicate nor excluded — two check-and-mutates can both act on a state only one of them could have seen")
				}
				// emptiness ("yields at least one cell") is judged on the filtered copy
				for i, ec := range callsTo(fc.Parent(), core.PkgBttest, "isEmpty") {
					if !core.InstrReaches(fc, ec) {
						continue // the no-predicate branch looks at the row itself
					}
					c.Check(core.SameValue(ec.Call.Args[0], fc.Call.Args[1]), "R19", fmt.Sprintf("cam/emptiness-of-filtered-copy%s#%d", sfx, i+1), ec.Pos(), "isEmpty is applied to the row the predicate filtered", "after the predicate ran, emptiness is tested on a different row than the one the predicate filtered: a predicate that strips every cell still reports a match")
				}
			}
			// (b) selector identity
			var sel ssa.Value
			var selStore *ssa.Store
			for _, f := range scope {
				for _, b := range f.Blocks {
					for _, in := range b.Instrs {
						if st, ok := in.(*ssa.Store); ok {
							if fa, ok := st.Addr.(*ssa.FieldAddr); ok {
								if _, fld, _ := core.FieldName(fa); fld == "PredicateMatched" {
									sel, selStore = st.Val, st
								}
							}
						}
					}
				}
			}
			if sel == nil {
				c.Bad("R19", "cam/selector", fn.Pos(), "PredicateMatched is never set")
				return
			}
			if len(acalls) != 1 {
				c.Unknown("R19", "cam/apply-call", fn.Pos(), "expected one applyMutations call, found %d", len(acalls))
				return
			}
			// the list handed to the applier, as seen from the RPC (it may be a helper's parameter)
			listV := acalls[0].Call.Args[2]
			for hop := 0; hop < 4; hop++ {
				pa, isParam := core.Resolve(listV).(*ssa.Parameter)
				if !isParam {
					break
				}
				var args []ssa.Value
				for _, r := range P.Refs(pa.Parent()) {
					if within[r.Instr.Parent()] {
						if t := core.Translate(pa, pa.Parent(), r); t != nil {
							args = append(args, t)
						}
					}
				}
				if len(args) != 1 {
					break
				}
				listV = args[0]
			}
			cond, okPol, found := mutationChoice(P, listV)
			if !found {
				c.Bad("R19", "cam/selector", acalls[0].Pos(), "the applied mutation list is not a choice between true_mutations and false_mutations")
				return
			}
			sameFn := false
			if ci, isIn := core.Resolve(listV).(ssa.Instruction); isIn {
				sameFn = ci.Parent() == selStore.Parent()
			}
			// the selector is an emptiness test on every path: each of its possible values is a constant or
			// (the negation of) isEmpty of a row — the stored row without a predicate, the filtered copy with
			// one.  "The row was found", "the filter said match" alone are not "yields at least one cell".
			var emptinessOnly func(v ssa.Value, depth int) bool
			emptinessOnly = func(v ssa.Value, depth int) bool {
				v = core.Resolve(v)
				if depth > 6 {
					return false
				}
				if _, isK := core.ConstBool(v); isK {
					return true
				}
				switch x := v.(type) {
				case *ssa.Phi:
					for _, e := range x.Edges {
						if !emptinessOnly(e, depth+1) {
							return false
						}
					}
					return true
				case *ssa.UnOp:
					if x.Op == token.NOT {
						return emptinessOnly(x.X, depth+1)
					}
					if x.Op == token.MUL {
						if cell := core.CellOf(x.X); cell != nil {
							sts := core.StoresTo(cell)
							for _, st := range sts {
								if !emptinessOnly(st.Val, depth+1) {
									return false
								}
							}
							return len(sts) > 0
						}
					}
					return false
				case *ssa.Call:
					g := x.Call.StaticCallee()
					if g != nil && core.FuncName(g) == "isEmpty" && core.PkgPathOf(g) == core.PkgBttest {
						return true
					}
					if g != nil && g.Blocks != nil && core.PkgPathOf(g) == core.PkgBttest && g.Signature.Results().Len() == 1 {
						for _, r := range returnsIn(g) {
							for _, rv := range returnValues(r.Results[0]) {
								if !emptinessOnly(rv, depth+1) {
									return false
								}
							}
						}
						return true
					}
					return false
				case *ssa.Extract:
					call, isCall := x.Tuple.(*ssa.Call)
					if !isCall {
						return false
					}
					g := call.Call.StaticCallee()
					if g == nil || g.Blocks == nil || core.PkgPathOf(g) != core.PkgBttest || core.FuncName(g) == "filterRow" {
						return false
					}
					for _, r := range returnsIn(g) {
						if x.Index >= len(r.Results) {
							return false
						}
						for _, rv := range returnValues(r.Results[x.Index]) {
							if !emptinessOnly(rv, depth+1) {
								return false
							}
						}
					}
					return true
				}
				return false
			}
			if isE := P.Func(core.PkgBttest, "isEmpty"); isE != nil && isE.Blocks != nil {
				c.Check(emptinessOnly(sel, 0), "R19", "cam/selector-is-an-emptiness-test", selStore.Pos(), "predicate_matched is, on every path, (the negation of) isEmpty of the row or of the filtered copy", "predicate_matched is not decided by an emptiness test on every path (it is the lookup's 'found' flag, or the filter's own verdict): a row without cells, or a predicate whose filter strips every cell, selects the true branch")
			}
			okSel := cond != nil && sameFn && core.Resolve(cond) == core.Resolve(sel)
			c.Check(okSel, "R19", "cam/selector-identity", selStore.Pos(), "the value reported as predicate_matched is the very value that selects the branch", "predicate_matched and the branch selector are different values: the response can report one branch while the other is applied")
			c.Check(okPol, "R19", "cam/selector-polarity", acalls[0].Pos(), "true_mutations is chosen on the true edge, false_mutations otherwise", "the branch lists are swapped or something other than the request's two lists is applied")
		default:
			panic(core.Broken("unknown R19 group %q", group))
		}
	}}
}

// mutationChoice recognises "true_mutations if C else false_mutations" — as a φ
// in the RPC, or as the result of a helper that makes that choice on one of its
// parameters — and returns C as seen at the use site together with whether the
// polarity is right.
func mutationChoice(P *core.Program, v ssa.Value) (cond ssa.Value, polarityOK bool, found bool) {
	v = core.Resolve(v)
	switch x := v.(type) {
	case *ssa.Phi:
		var chooser *ssa.If
		for b := x.Block().Idom(); b != nil; b = b.Idom() {
			if ifi, ok := b.Instrs[len(b.Instrs)-1].(*ssa.If); ok {
				chooser = ifi
				break
			}
		}
		if chooser == nil {
			return nil, false, true
		}
		okPol := true
		nT, nF := 0, 0
		for i, e := range x.Edges {
			pred := x.Block().Preds[i]
			chain := strings.Join(fieldChain(e), ".")
			fromTrue := chooser.Block().Succs[0] == pred || chooser.Block().Succs[0].Dominates(pred)
			fromFalse := pred == chooser.Block() || (chooser.Block().Succs[1] != x.Block() && chooser.Block().Succs[1].Dominates(pred))
			switch {
			case strings.Contains(chain, "TrueMutations"):
				nT++
				if !fromTrue || pred == chooser.Block() {
					okPol = false
				}
			case strings.Contains(chain, "FalseMutations"):
				nF++
				if !fromFalse && fromTrue {
					okPol = false
				}
			default:
				okPol = false
			}
		}
		return chooser.Cond, okPol && nT == 1 && nF == 1, true
	case *ssa.Call:
		g := x.Call.StaticCallee()
		if g == nil || g.Blocks == nil || g.Signature.Results().Len() != 1 {
			return nil, false, false
		}
		// inside the helper: one parameter-controlled If; the true side returns TrueMutations, every other return FalseMutations
		var chooser *ssa.If
		var param *ssa.Parameter
		for _, b := range g.Blocks {
			if ifi, ok := b.Instrs[len(b.Instrs)-1].(*ssa.If); ok {
				if pa, ok := core.Resolve(ifi.Cond).(*ssa.Parameter); ok && pa.Parent() == g {
					if chooser != nil {
						return nil, false, false
					}
					chooser, param = ifi, pa
				}
			}
		}
		if chooser == nil {
			// a φ inside the helper
			for _, r := range returnsIn(g) {
				if c2, ok2, f2 := mutationChoice(P, r.Results[0]); f2 {
					if pa, ok := core.Resolve(c2).(*ssa.Parameter); ok && pa.Parent() == g {
						for i, q := range g.Params {
							if q == pa && i < len(x.Call.Args) {
								return x.Call.Args[i], ok2, true
							}
						}
					}
				}
			}
			return nil, false, false
		}
		okPol := true
		nT, nF := 0, 0
		trueSucc, falseSucc := chooser.Block().Succs[0], chooser.Block().Succs[1]
		for _, r := range returnsIn(g) {
			for _, rv := range returnValues(r.Results[0]) {
				chain := strings.Join(fieldChain(rv), ".")
				underTrue := core.EdgeDominates(chooser.Block(), 0, r.Block()) || trueSucc == r.Block() && len(trueSucc.Preds) == 1
				reachableFromTrue := trueSucc == r.Block() || core.ReachableFrom(trueSucc, true)[r.Block()]
				_ = falseSucc
				switch {
				case strings.Contains(chain, "TrueMutations"):
					nT++
					if !underTrue {
						okPol = false
					}
				case strings.Contains(chain, "FalseMutations"):
					nF++
					if reachableFromTrue {
						okPol = false
					}
				default:
					okPol = false
				}
			}
		}
		for i, q := range g.Params {
			if q == param && i < len(x.Call.Args) {
				return x.Call.Args[i], okPol && nT >= 1 && nF >= 1, true
			}
		}
	}
	return nil, false, false
}

func lastResultIsErrorType(f *ssa.Function) bool {
	res := f.Signature.Results()
	return res.Len() > 0 && isErrorType(res.At(res.Len()-1).Type())
}

// ownerFieldChain is fieldChain with each field qualified by the struct type it
// belongs to ("RowFilter_Interleave.Filters"), so that a value is recognised by
// what it is a part of even when the enclosing message is a helper's parameter.
func ownerFieldChain(v ssa.Value) []string {
	var out []string
	add := func(x ssa.Value, structT types.Type, idx int) {
		n := core.NamedOf(structT)
		_, f, _ := core.FieldName(x)
		if n != nil {
			out = append([]string{n.Obj().Name() + "." + f}, out...)
		} else {
			out = append([]string{f}, out...)
		}
	}
	for i := 0; i < 12; i++ {
		v = core.Resolve(v)
		switch x := v.(type) {
		case *ssa.UnOp:
			v = x.X
		case *ssa.IndexAddr:
			v = x.X
		case *ssa.Index:
			v = x.X
		case *ssa.FieldAddr:
			add(x, x.X.Type(), x.Field)
			v = x.X
		case *ssa.Field:
			add(x, x.X.Type(), x.Field)
			v = x.X
		case *ssa.Extract:
			v = x.Tuple
		case *ssa.Next:
			v = x.Iter
		case *ssa.Range:
			v = x.X
		default:
			return out
		}
	}
	return out
}
