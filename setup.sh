#!/bin/sh
# Offline setup: build the checker and warm the Go build cache by loading both
# repository modules once (go list -export compiles the dependencies' export data).
cd "$(dirname "$0")" || exit 2
export GOFLAGS=-mod=mod GOPROXY=off GOSUMDB=off GOTOOLCHAIN=local GOWORK=off
mkdir -p bin evidence
go build -o bin/emucheck ./cmd/emucheck || exit 1
./bin/emucheck warm || exit 1
echo "setup ok"
