package rules

import (
	"fmt"
	"go/constant"
	"go/token"
	"go/types"
	"sort"

	"golang.org/x/tools/go/ssa"

	"verif/internal/core"
)

const pkgCloudStorage = "cloud.google.com/go/storage"

// storeMutators: interface methods of gcsemu.Store that change an object or
// bucket, with the argument indexes of the (bucket, name) they change.
var storeMutators = map[string][2]int{
	"Add":          {0, 1},
	"UpdateMeta":   {0, 1},
	"Delete":       {0, 1},
	"Copy":         {2, 3}, // destination
	"CreateBucket": {0, -1},
}

func isStoreCall(c *core.CallInfo, names ...string) bool {
	for _, n := range names {
		if c.IsIfaceMethod(core.PkgGcsemu, "Store", n) {
			return true
		}
	}
	return false
}

// critSection describes the per-object critical section a function body runs in.
type critSection struct {
	closure *ssa.Function // the closure (or bound method: `op.run`) passed to Run
	runCall *ssa.Call
	bucket  ssa.Value // arguments of lockName(bucket, name)
	name    ssa.Value
	recv    ssa.Value // for a bound method: the receiver object at the Run call
}

// recvBinds: for a section that is a bound method, the binding of its receiver parameter to the
// object it was bound to at the Run call (fields of the receiver then denote what the handler put there).
func (s *critSection) recvBinds() []binding {
	if s == nil || s.recv == nil || len(s.closure.Params) == 0 {
		return nil
	}
	return []binding{{callee: s.closure, recv: s.recv}}
}

// lockWrapper: an in-repository function that does nothing with its function parameter
// but run it under locks.Run(ctx, lockName(b, n), ·) — `g.withObjectLock(ctx, bucket, name, fn)`.
type lockWrapper struct {
	fnParam        int       // index (in Params) of the function parameter that is run under the lock
	bucketP, nameP int       // indexes of the parameters lockName is built from, or -1
	bucketC, nameC ssa.Value // … or the constants used instead
}

var lockWrapperCache = map[*core.Program]map[*ssa.Function]*lockWrapper{}

func lockWrappers(p *core.Program) map[*ssa.Function]*lockWrapper {
	if m, ok := lockWrapperCache[p]; ok {
		return m
	}
	m := map[*ssa.Function]*lockWrapper{}
	lockWrapperCache[p] = m
	if p.SPkgs[core.PkgGcsemu] == nil {
		return m
	}
	paramIdx := func(fn *ssa.Function, v ssa.Value) int {
		v = core.Resolve(v)
		for i, pa := range fn.Params {
			if v == ssa.Value(pa) {
				return i
			}
		}
		return -1
	}
	for _, fn := range p.SrcFuncs(core.PkgGcsemu) {
		if fn.Parent() != nil {
			continue
		}
		for _, ci := range core.AllCalls(fn) {
			if !ci.MethodOn(core.PkgGcsutil, "TransientLockMap", "Run") {
				continue
			}
			if _, isCall := ci.Instr.(*ssa.Call); !isCall {
				continue
			}
			args := ci.Args()
			if len(args) != 3 {
				continue
			}
			fi := paramIdx(fn, args[2])
			if fi < 0 {
				continue
			}
			kb, kn, ok := lockKeyParts(args[1])
			if !ok {
				continue
			}
			w := &lockWrapper{fnParam: fi, bucketP: paramIdx(fn, kb), nameP: paramIdx(fn, kn)}
			if w.bucketP < 0 {
				if _, isK := core.Resolve(kb).(*ssa.Const); !isK {
					continue
				}
				w.bucketC = core.Resolve(kb)
			}
			if w.nameP < 0 {
				if _, isK := core.Resolve(kn).(*ssa.Const); !isK {
					continue
				}
				w.nameC = core.Resolve(kn)
			}
			// the function parameter is used for nothing else
			only := true
			for _, r := range core.Referrers(fn.Params[fi]) {
				switch x := r.(type) {
				case *ssa.DebugRef:
				case ssa.CallInstruction:
					if x != ci.Instr {
						only = false
					}
				default:
					only = false
				}
			}
			if only {
				m[fn] = w
			}
		}
	}
	return m
}

// lockKeyParts splits a lock key into the (bucket, name) it is built from: lockName(b, n), or
// the same concatenation written inline (`b + "/" + n`; `b + "/"` for the bucket itself).
func lockKeyParts(v ssa.Value) (bucket, name ssa.Value, ok bool) {
	v = core.Resolve(v)
	if call, isCall := v.(*ssa.Call); isCall {
		if core.FuncIs(call.Call.StaticCallee(), core.PkgGcsemu, "lockName") && len(call.Call.Args) == 2 {
			return call.Call.Args[0], call.Call.Args[1], true
		}
		return nil, nil, false
	}
	outer, isBin := v.(*ssa.BinOp)
	if !isBin || outer.Op != token.ADD {
		return nil, nil, false
	}
	isSep := func(x ssa.Value) bool { sv, isS := core.ConstString(x); return isS && sv == "/" }
	// b + "/"
	if isSep(outer.Y) {
		return outer.X, ssa.NewConst(constant.MakeString(""), outer.Y.Type()), true
	}
	// (b + "/") + n
	if inner, isIn := core.Resolve(outer.X).(*ssa.BinOp); isIn && inner.Op == token.ADD && isSep(inner.Y) {
		return inner.X, outer.Y, true
	}
	// b + ("/" + n)
	if inner, isIn := core.Resolve(outer.Y).(*ssa.BinOp); isIn && inner.Op == token.ADD && isSep(inner.X) {
		return outer.X, inner.Y, true
	}
	return nil, nil, false
}

// isLockRunCall: a call of TransientLockMap.Run or of a lock wrapper.
func isLockRunCall(p *core.Program, ci *core.CallInfo) bool {
	if ci.MethodOn(core.PkgGcsutil, "TransientLockMap", "Run") {
		return true
	}
	return ci.Static != nil && lockWrappers(p)[ci.Static] != nil
}

// sectionOfClosure: fn is the closure passed as `f` to (*TransientLockMap).Run
// whose key is lockName(b, n) — directly, or through a lock wrapper.
func sectionOfClosure(p *core.Program, fn *ssa.Function) (*critSection, string) {
	par := fn.Parent()
	var search []*ssa.Function
	if par == nil {
		// a method handed to Run as a bound method value (`g.locks.Run(ctx, key, op.run)`)
		if fn.Signature.Recv() == nil || fn.Pkg == nil {
			return nil, "not a closure"
		}
		search = p.SrcFuncs(fn.Pkg.Pkg.Path())
	} else {
		search = core.Family(core.Root(par))
	}
	boundRecv := func(v ssa.Value) ssa.Value {
		if par != nil {
			return nil
		}
		if mc, isMC := core.Resolve(v).(*ssa.MakeClosure); isMC && len(mc.Bindings) == 1 {
			return mc.Bindings[0]
		}
		return nil
	}
	for _, f := range search {
		for _, ci := range core.AllCalls(f) {
			if w := lockWrappers(p)[ci.Static]; ci.Static != nil && w != nil {
				if w.fnParam >= len(ci.Common.Args) || closureOf(ci.Common.Args[w.fnParam]) != fn {
					continue
				}
				call, ok := ci.Instr.(*ssa.Call)
				if !ok {
					return nil, "the lock wrapper is not called directly (go/defer)"
				}
				sec := &critSection{closure: fn, runCall: call, bucket: w.bucketC, name: w.nameC, recv: boundRecv(ci.Common.Args[w.fnParam])}
				if par == nil && sec.recv == nil {
					continue
				}
				if w.bucketP >= 0 {
					sec.bucket = ci.Common.Args[w.bucketP]
				}
				if w.nameP >= 0 {
					sec.name = ci.Common.Args[w.nameP]
				}
				return sec, ""
			}
			if !ci.MethodOn(core.PkgGcsutil, "TransientLockMap", "Run") {
				continue
			}
			args := ci.Args()
			if len(args) != 3 || closureOf(args[2]) != fn {
				continue
			}
			call, ok := ci.Instr.(*ssa.Call)
			if !ok {
				return nil, "Run is not called directly (go/defer)"
			}
			kb, kn, ok := lockKeyParts(args[1])
			if !ok {
				return nil, "the lock key is not built by lockName(bucket, name)"
			}
			sec := &critSection{closure: fn, runCall: call, bucket: kb, name: kn, recv: boundRecv(args[2])}
			if par == nil && sec.recv == nil {
				continue
			}
			return sec, ""
		}
	}
	if par == nil {
		return nil, "not a closure"
	}
	return nil, "closure is not passed to TransientLockMap.Run"
}

// bindParam maps a value inside callee (one of its parameters, possibly a
// field of a struct parameter) to the corresponding value at the call site.
type binding struct {
	callee *ssa.Function
	call   *ssa.Call
	recv   ssa.Value // instead of call: the object bound to callee's receiver (bound method value)
}

// substKey computes a canonical *access path* of v: loads and address-of
// collapse, struct parameters spilled to a local cell denote the parameter,
// captured variables denote their cell, and parameters of the callees in
// `binds` are replaced by the actual arguments — so that the same variable or
// field is recognised on both sides of a closure or call boundary.
// Limit (DESIGN §8): variable identity stands for value identity; the handlers
// assign these variables once.
func substKey(v ssa.Value, binds []binding, depth int) string {
	if depth > 24 {
		return "?"
	}
	v = core.Strip(v)
	switch x := v.(type) {
	case *ssa.Parameter:
		for _, b := range binds {
			if x.Parent() == b.callee {
				if b.recv != nil {
					if len(b.callee.Params) > 0 && b.callee.Params[0] == x {
						return substKey(b.recv, binds, depth+1)
					}
					continue
				}
				for i, q := range b.callee.Params {
					if q == x && i < len(b.call.Call.Args) {
						return substKey(b.call.Call.Args[i], binds, depth+1)
					}
				}
			}
		}
		return fmt.Sprintf("param(%s.%s)", core.FuncName(x.Parent()), x.Name())
	case *ssa.FreeVar:
		if cell := core.CellOf(x); cell != nil {
			return substKey(cell, binds, depth+1)
		}
		if bound := core.FreeVarValue(x); bound != nil {
			return substKey(bound, binds, depth+1)
		}
		return "freevar(" + x.Name() + ")"
	case *ssa.Alloc:
		sts := core.StoresTo(x)
		if len(sts) == 1 {
			// single assignment: the cell denotes the assigned value
			return substKey(sts[0].Val, binds, depth+1)
		}
		return fmt.Sprintf("var(%s.%s@%d)", core.FuncName(x.Parent()), x.Comment, x.Pos())
	case *ssa.Const:
		if x.Value == nil {
			return "nil"
		}
		return "const(" + x.Value.ExactString() + ")"
	case *ssa.Field:
		return substKey(x.X, binds, depth+1) + "." + fieldNameOf(x.X.Type(), x.Field)
	case *ssa.FieldAddr:
		// a field of a struct literal built here (`&deleteOp{bucket: bucket, …}`), assigned once: what was put there
		if lit := structLiteralOf(x.X, binds); lit != nil {
			var vals []ssa.Value
			for _, r := range core.Referrers(lit) {
				if fa, isFa := r.(*ssa.FieldAddr); isFa && fa.Field == x.Field {
					for _, rr := range core.Referrers(fa) {
						if st, isSt := rr.(*ssa.Store); isSt && st.Addr == ssa.Value(fa) {
							vals = append(vals, st.Val)
						}
					}
				}
			}
			if len(vals) == 1 {
				return substKey(vals[0], binds, depth+1)
			}
		}
		return substKey(x.X, binds, depth+1) + "." + fieldNameOf(x.X.Type(), x.Field)
	case *ssa.UnOp:
		if x.Op == token.MUL {
			return substKey(x.X, binds, depth+1)
		}
	case *ssa.Index:
		return substKey(x.X, binds, depth+1) + "[" + substKey(x.Index, binds, depth+1) + "]"
	case *ssa.IndexAddr:
		return substKey(x.X, binds, depth+1) + "[" + substKey(x.Index, binds, depth+1) + "]"
	case *ssa.Call:
		return fmt.Sprintf("call(%s@%d)", core.Call(x).CalleeName(), x.Pos())
	case *ssa.Extract:
		return substKey(x.Tuple, binds, depth+1) + "#" + fmt.Sprint(x.Index)
	case *ssa.BinOp:
		return "(" + substKey(x.X, binds, depth+1) + x.Op.String() + substKey(x.Y, binds, depth+1) + ")"
	}
	return fmt.Sprintf("%T@%d", v, v.Pos())
}

// structLiteralOf: v (possibly a bound receiver parameter) denotes a struct allocated by a literal.
func structLiteralOf(v ssa.Value, binds []binding) *ssa.Alloc {
	viaRecv := false // only the receiver of a bound-method section is followed to its literal
	for i := 0; i < 4; i++ {
		v = core.Strip(v)
		switch x := v.(type) {
		case *ssa.Alloc:
			if _, isStruct := x.Type().(*types.Pointer).Elem().Underlying().(*types.Struct); isStruct && viaRecv {
				return x
			}
			return nil
		case *ssa.Parameter:
			next := ssa.Value(nil)
			for _, b := range binds {
				if b.recv != nil && x.Parent() == b.callee && len(b.callee.Params) > 0 && b.callee.Params[0] == x {
					next = b.recv
				}
			}
			if next == nil {
				return nil
			}
			viaRecv = true
			v = next
		case *ssa.UnOp:
			if x.Op != token.MUL {
				return nil
			}
			// a pointer variable assigned once
			if cell := core.CellOf(x.X); cell != nil {
				if sts := core.StoresTo(cell); len(sts) == 1 {
					v = sts[0].Val
					continue
				}
			}
			return nil
		default:
			return nil
		}
	}
	return nil
}

func fieldNameOf(t types.Type, idx int) string {
	if p, ok := t.Underlying().(*types.Pointer); ok {
		t = p.Elem()
	}
	if st, ok := t.Underlying().(*types.Struct); ok && idx < st.NumFields() {
		return core.VarName(st.Field(idx))
	}
	return fmt.Sprint(idx)
}

func sameAcross(a, b string) bool { return a == b && a != "?" }

// hasCondsParam: the handler family received request preconditions.
func condsParamOf(fn *ssa.Function) *ssa.Parameter {
	for _, p := range fn.Params {
		if core.TypeIs(p.Type(), pkgCloudStorage, "Conditions") && p.Name() != "_" {
			return p
		}
	}
	return nil
}

// R11: every mutating Store call from handler code sits inside the critical
// section of exactly the object it mutates, after a precondition check made
// inside the same section.
func R11() Rule {
	return Rule{Name: "R11", Run: func(c *core.Ctx) {
		validate := c.P.MustFunc(core.PkgGcsemu, "validateConds")
		type site struct {
			fn *ssa.Function
			ci *core.CallInfo
			m  string
		}
		var sites []site
		for _, fn := range c.P.SrcFuncs(core.PkgGcsemu) {
			// skip the store implementations themselves
			if r := core.Root(fn); r.Signature.Recv() != nil {
				if n := core.NamedOf(r.Signature.Recv().Type()); n != nil && (core.TName(n) == "memstore" || core.TName(n) == "filestore") {
					continue
				}
			}
			for _, ci := range core.AllCalls(fn) {
				for m := range storeMutators {
					if isStoreCall(ci, m) {
						sites = append(sites, site{fn, ci, m})
					}
				}
			}
		}
		sort.Slice(sites, func(i, j int) bool { return sites[i].ci.Instr.Pos() < sites[j].ci.Instr.Pos() })
		cnt := map[string]int{}
		for _, s := range sites {
			c.Calls++
			base := fmt.Sprintf("%s/Store.%s", core.FuncName(s.fn), s.m)
			cnt[base]++
			construct := fmt.Sprintf("%s#%d", base, cnt[base])
			pos := s.ci.Instr.Pos()
			c.Fn(core.FuncName(s.fn))
			idx := storeMutators[s.m]
			args := s.ci.Common.Args
			mb := args[idx[0]]
			var mn ssa.Value
			if idx[1] >= 0 {
				mn = args[idx[1]]
			}
			// Find the section(s): the enclosing closure, or every call site of the enclosing named function.
			type ctxt struct {
				sec   *critSection
				binds []binding
			}
			var ctxs []ctxt
			var problems []string
			// the section(s) a function body runs in: the closure itself is a section, or — for a named
			// helper (finishCompose, and the phases it is split into) — every call site lies in one
			var sectionsOf func(f *ssa.Function, binds []binding, depth int)
			sectionsOf = func(f *ssa.Function, binds []binding, depth int) {
				sec, why := sectionOfClosure(c.P, f)
				if sec != nil {
					ctxs = append(ctxs, ctxt{sec: sec, binds: append(append([]binding(nil), binds...), sec.recvBinds()...)})
					return
				}
				if f.Parent() != nil {
					problems = append(problems, why)
					return
				}
				if depth > 4 {
					problems = append(problems, "helper nesting too deep below "+core.FuncName(f))
					return
				}
				nCallers := 0
				for _, g := range c.P.SrcFuncs(core.PkgGcsemu) {
					for _, ci := range core.AllCalls(g) {
						if ci.Static != f {
							continue
						}
						nCallers++
						call, ok := ci.Instr.(*ssa.Call)
						if !ok {
							problems = append(problems, "helper is started with go/defer")
							continue
						}
						before := len(ctxs) + len(problems)
						sectionsOf(g, append(append([]binding(nil), binds...), binding{callee: f, call: call}), depth+1)
						if len(ctxs)+len(problems) == before {
							problems = append(problems, fmt.Sprintf("called from %s outside a critical section", core.FuncName(g)))
						}
					}
				}
				if nCallers == 0 {
					problems = append(problems, "mutator is in a function that is not a critical-section closure ("+why+") and has no callers")
				}
			}
			sectionsOf(s.fn, nil, 0)
			if len(problems) > 0 || len(ctxs) == 0 {
				c.Bad("R11", construct, pos, "Store.%s is called outside the per-object critical section: %v — concurrent requests on the same object can interleave between the precondition check and the mutation", s.m, problems)
				continue
			}
			allOK := true
			for _, cx := range ctxs {
				kb := substKey(cx.sec.bucket, nil, 0)
				mbk := substKey(mb, cx.binds, 0)
				if !sameAcross(kb, mbk) {
					allOK = false
					c.Bad("R11", construct+"/key-bucket", pos, "the critical section is keyed on bucket %s but Store.%s mutates bucket %s: the lock held does not cover the object changed", kb, s.m, mbk)
				}
				if mn != nil {
					kn := substKey(cx.sec.name, nil, 0)
					mnk := substKey(mn, cx.binds, 0)
					if !sameAcross(kn, mnk) {
						allOK = false
						c.Bad("R11", construct+"/key-name", pos, "the critical section is keyed on object %s but Store.%s mutates object %s: the lock held does not cover the object changed", kn, s.m, mnk)
					}
				} else {
					if cs, ok := core.ConstString(cx.sec.name); !ok || cs != "" {
						allOK = false
						c.Bad("R11", construct+"/key-name", pos, "bucket-level mutation must be keyed on lockName(bucket, \"\")")
					}
				}
			}
			if allOK {
				c.Ok("R11", construct+"/in-section", pos, true, "inside the closure run under lockName(%s, %s)", substKey(ctxs[0].sec.bucket, nil, 0), substKey(ctxs[0].sec.name, nil, 0))
			}
			// Preconditions: required when the handler (root function of the
			// closure, or the helper's struct parameter) carries Conditions.
			needConds := false
			root := core.Root(s.fn)
			if condsParamOf(root) != nil {
				needConds = true
			}
			for _, p := range s.fn.Params {
				if st, ok := p.Type().Underlying().(*types.Struct); ok {
					for i := 0; i < st.NumFields(); i++ {
						if core.TypeIs(st.Field(i).Type(), pkgCloudStorage, "Conditions") {
							needConds = true
						}
					}
				}
			}
			if s.m == "CreateBucket" || s.m == "Copy" {
				// the API of these two operations carries no preconditions in this emulator
				needConds = needConds && false
			}
			if !needConds {
				c.Infof("R11", construct+"/no-conditions", pos, "handler carries no preconditions")
				continue
			}
			// a validateConds(X, conds) call in the same function whose nil edge dominates the mutator,
			// X = Store.GetMeta(_, sameBucket, sameName) in the same function
			found := false
			why := "no validateConds call in the critical section"
			for _, vc := range core.AllCalls(s.fn) {
				if vc.Static != validate {
					continue
				}
				vcall, ok := vc.Instr.(*ssa.Call)
				if !ok {
					continue
				}
				if !errNilEdge(vcall, s.ci.Instr.Block()) {
					why = "validateConds is called but the mutation is not confined to its success edge"
					continue
				}
				x := core.Resolve(vcall.Call.Args[0])
				var gm *ssa.Call
				if ex, ok := x.(*ssa.Extract); ok {
					gm, _ = ex.Tuple.(*ssa.Call)
				} else if ld, ok := x.(*ssa.UnOp); ok && ld.Op == token.MUL {
					// multiply-assigned captured variable (obj in the patch handler): the
					// store that reaches must come from GetMeta in this very function
					if cell := core.CellOf(ld.X); cell != nil {
						for _, st := range core.StoresTo(cell) {
							if st.Parent() == s.fn && core.InstrDominates(st, vcall) {
								if ex, ok := core.Resolve(st.Val).(*ssa.Extract); ok {
									gm, _ = ex.Tuple.(*ssa.Call)
								}
							}
						}
					}
				}
				if gm == nil {
					why = "the object checked by validateConds is not the result of Store.GetMeta in the same critical section"
					continue
				}
				gci := core.Call(gm)
				if !isStoreCall(gci, "GetMeta") || gm.Parent() != s.fn {
					why = "the object checked by validateConds is not read by Store.GetMeta inside the same critical section"
					continue
				}
				if !sameAcross(substKey(gm.Call.Args[1], nil, 0), substKey(mb, nil, 0)) || (mn != nil && !sameAcross(substKey(gm.Call.Args[2], nil, 0), substKey(mn, nil, 0))) {
					why = "validateConds checks a different object than the one mutated"
					continue
				}
				// the conditions checked must be the request's (a parameter or a field of one), not a constant
				ck := substKey(vcall.Call.Args[1], nil, 0)
				if !(len(ck) > 6 && (ck[:6] == "param(" || ck[:4] == "var(")) {
					why = "validateConds is not given the request's conditions (" + ck + ")"
					continue
				}
				found = true
			}
			if found {
				c.Ok("R11", construct+"/check-then-act", pos, true, "GetMeta → validateConds(success edge) → Store.%s in one critical section on the same (bucket, name)", s.m)
			} else {
				c.Bad("R11", construct+"/check-then-act", pos, "Store.%s is not gated by a precondition check made inside the same critical section on the same object: %s", s.m, why)
			}
		}
		if len(sites) < 4 {
			c.Unknown("R11", "floor/mutator-sites", token.NoPos, "only %d mutating Store call sites found; 7 were confirmed by hand", len(sites))
		}
	}}
}
