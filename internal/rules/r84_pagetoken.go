package rules

import (
	"go/token"
	"go/types"
	"strings"

	"golang.org/x/tools/go/ssa"

	"verif/internal/core"
)

// ---------------------------------------------------------------------------
// R84: a page that was cut short by maxResults carries a page token.
//
// C11: "following nextPageToken until it is empty yields every object whose name
// starts with the prefix".  The walk callback stops the walk when the page is full
// and records that in a flag ("more results").  The response's NextPageToken may
// be the empty string only on a path on which that flag is known to be unset: any
// further condition on the token (`&& len(items) > 0`) leaves a state in which the
// walk was cut short and the client is told the listing is over — the rest of the
// bucket is never listed.
//
// Slots, filled from the code: the flag is the location (captured variable or
// field) the callback sets to `true` behind the "page full" edge of the test of
// the page counter against the parsed maxResults; the token is the value stored
// into the NextPageToken field of the listing response.  Shapes the rule does not
// recognise are not decided (reported as such, never as a violation).
// ---------------------------------------------------------------------------

func R84() Rule {
	return Rule{Name: "R84", Run: func(c *core.Ctx) {
		P := c.P
		if P.SPkgs[core.PkgGcsemu] == nil {
			return
		}
		const construct = "listing/page-token-when-more"
		root := P.MustFunc(core.PkgGcsemu, "(*GcsEmu).handleGcsListBucket")
		c.Fn("(*GcsEmu).handleGcsListBucket")
		scope := P.Scope(root, func(f *ssa.Function) bool { return core.PkgPathOf(f) != core.PkgGcsemu })
		within := setOf(scope)
		notDecided := func(why string) {
			c.Ok("R84", construct+"/not-decided", root.Pos(), false, "not decided here: %s", why)
		}
		isMax := func(v ssa.Value) bool {
			ex, ok := v.(*ssa.Extract)
			if !ok || ex.Index != 0 {
				return false
			}
			call, ok := ex.Tuple.(*ssa.Call)
			if !ok {
				return false
			}
			ci := core.Call(call)
			return ci != nil && (ci.IsFunc("strconv", "Atoi") || ci.IsFunc("strconv", "ParseInt"))
		}
		// the functions handed to Store.Walk
		var cbs []*ssa.Function
		seenCb := map[*ssa.Function]bool{}
		for _, ci := range core.CallsIn(scope, func(ci *core.CallInfo) bool { return isStoreCall(ci, "Walk") }) {
			for _, a := range ci.Common.Args {
				if _, isFn := a.Type().Underlying().(*types.Signature); !isFn {
					continue
				}
				cands := []ssa.Value{a}
				if closureOf(a) == nil {
					cands = P.Origins(a, within)
				}
				for _, o := range cands {
					if cb := closureOf(o); cb != nil && cb.Blocks != nil && !seenCb[cb] {
						seenCb[cb] = true
						cbs = append(cbs, cb)
					}
				}
			}
		}
		// the flag: set to true behind the "page full" edge of the limit test
		flags := map[string]bool{}
		for _, cb := range cbs {
			for _, b := range cb.Blocks {
				ifi, ok := lastIf(b)
				if !ok {
					continue
				}
				bin, ok := ifi.Cond.(*ssa.BinOp)
				if !ok {
					continue
				}
				l, r, op := bin.X, bin.Y, bin.Op
				if flowsFrom(P, l, isMax, map[ssa.Value]bool{}, 0) && !flowsFrom(P, r, isMax, map[ssa.Value]bool{}, 0) {
					l, r, op = r, l, flipOp(op)
				}
				if !flowsFrom(P, r, isMax, map[ssa.Value]bool{}, 0) || loadedLocation(l) == "" {
					continue
				}
				full := -1
				switch op { // counter OP max
				case token.GEQ, token.GTR, token.EQL:
					full = 0
				case token.LSS, token.LEQ, token.NEQ:
					full = 1
				default:
					continue
				}
				fb := b.Succs[full]
				if len(fb.Preds) != 1 {
					continue
				}
				for _, d := range cb.Blocks {
					if !fb.Dominates(d) {
						continue
					}
					for _, in := range d.Instrs {
						st, ok := in.(*ssa.Store)
						if !ok {
							continue
						}
						if v, isB := core.ConstBool(st.Val); isB && v {
							if loc := locationOf(st.Addr); loc != "" {
								flags[loc] = true
							}
						}
					}
				}
			}
		}
		if len(flags) != 1 {
			notDecided("no single \"more results\" flag set behind the page-full edge of the walk callback")
			return
		}
		var flagLoc string
		for l := range flags {
			flagLoc = l
		}
		// the token: stores into the NextPageToken field of the response
		type sink struct {
			st *ssa.Store
			fn *ssa.Function
		}
		var sinks []sink
		for _, f := range scope {
			for _, b := range f.Blocks {
				for _, in := range b.Instrs {
					st, ok := in.(*ssa.Store)
					if !ok {
						continue
					}
					fa, ok := st.Addr.(*ssa.FieldAddr)
					if !ok {
						continue
					}
					if sn, fn, ok := core.FieldName(fa); ok && fn == "NextPageToken" && strings.HasSuffix(sn, ".Objects") {
						sinks = append(sinks, sink{st, f})
					}
				}
			}
		}
		if len(sinks) == 0 {
			notDecided("no store into Objects.NextPageToken in the listing path")
			return
		}

		// verdicts: 1 = fine, 0 = not decided, -1 = empty while the flag may be set
		type flagTest func(v ssa.Value) (isFlag, negated bool)
		direct := func(v ssa.Value) (bool, bool) {
			v = core.Strip(v)
			if u, ok := v.(*ssa.UnOp); ok && u.Op == token.NOT {
				if loadedLocation(u.X) == flagLoc {
					return true, true
				}
				return false, false
			}
			return loadedLocation(v) == flagLoc, false
		}
		// edgeImpliesUnset: control reaches blk from pred only with the flag known unset
		edgeImpliesUnset := func(pred, blk *ssa.BasicBlock, isFlag flagTest) bool {
			for d := pred; d != nil; d = d.Idom() {
				ifi, ok := lastIf(d)
				if !ok {
					continue
				}
				is, neg := isFlag(ifi.Cond)
				if !is {
					continue
				}
				unset := d.Succs[1]
				set := d.Succs[0]
				if neg {
					unset, set = set, unset
				}
				if unset == set {
					continue
				}
				if d == pred {
					if unset == blk {
						return true
					}
					continue
				}
				if len(unset.Preds) == 1 && unset.Dominates(pred) {
					return true
				}
			}
			return false
		}
		var badPos token.Pos
		// some encoded page token is used for something in the listing path (judge leaves early on the
		// first offending edge, so this is established independently of it)
		sawEncode := false
		for _, ci := range core.CallsIn(scope, func(ci *core.CallInfo) bool { return ci.IsFunc(core.PkgGcsutil, "EncodePageToken") }) {
			if v, ok := ci.Instr.(ssa.Value); ok && len(core.Referrers(v)) > 0 {
				sawEncode = true
			}
		}
		var judge func(v ssa.Value, isFlag flagTest, depth int, seen map[ssa.Value]bool) int
		judge = func(v ssa.Value, isFlag flagTest, depth int, seen map[ssa.Value]bool) int {
			v = core.Strip(v)
			if seen[v] || depth > 4 {
				return 0
			}
			seen[v] = true
			switch x := v.(type) {
			case *ssa.Const:
				if s, ok := core.ConstString(x); ok && s == "" {
					badPos = x.Pos()
					return -1
				}
				return 0
			case *ssa.Phi:
				res := 1
				for i, e := range x.Edges {
					pred := x.Block().Preds[i]
					if s, ok := core.ConstString(e); ok && s == "" {
						if edgeImpliesUnset(pred, x.Block(), isFlag) {
							continue
						}
						badPos = x.Pos()
						return -1
					}
					switch judge(e, isFlag, depth, seen) {
					case -1:
						if !edgeImpliesUnset(pred, x.Block(), isFlag) {
							return -1
						}
					case 0:
						if !edgeImpliesUnset(pred, x.Block(), isFlag) {
							res = 0
						}
					}
				}
				return res
			case *ssa.Call:
				ci := core.Call(x)
				if ci == nil {
					return 0
				}
				if ci.IsFunc(core.PkgGcsutil, "EncodePageToken") {
					return 1
				}
				h := ci.Static
				if h == nil || h.Blocks == nil || core.PkgPathOf(h) != core.PkgGcsemu || h.Signature.Results().Len() != 1 {
					return 0
				}
				// which parameters of the helper carry the flag
				flagParams := map[*ssa.Parameter]bool{}
				off := len(h.Params) - len(ci.Common.Args)
				for i, a := range ci.Common.Args {
					if is, neg := isFlag(a); is && !neg && i+off >= 0 && i+off < len(h.Params) {
						flagParams[h.Params[i+off]] = true
					}
				}
				inner := func(v ssa.Value) (bool, bool) {
					v = core.Strip(v)
					if u, ok := v.(*ssa.UnOp); ok && u.Op == token.NOT {
						if p, ok := core.Strip(u.X).(*ssa.Parameter); ok && flagParams[p] {
							return true, true
						}
						return false, false
					}
					if p, ok := v.(*ssa.Parameter); ok && flagParams[p] {
						return true, false
					}
					return false, false
				}
				res := 1
				for _, b := range h.Blocks {
					if len(b.Instrs) == 0 {
						continue
					}
					ret, ok := b.Instrs[len(b.Instrs)-1].(*ssa.Return)
					if !ok || len(ret.Results) != 1 {
						continue
					}
					rv := ret.Results[0]
					unsetHere := false
					for _, p := range b.Preds {
						if edgeImpliesUnset(p, b, inner) {
							unsetHere = true
						} else {
							unsetHere = false
							break
						}
					}
					if s, ok := core.ConstString(rv); ok && s == "" {
						if unsetHere {
							continue
						}
						badPos = ret.Pos()
						return -1
					}
					switch judge(rv, inner, depth+1, seen) {
					case -1:
						if !unsetHere {
							return -1
						}
					case 0:
						if !unsetHere {
							res = 0
						}
					}
				}
				return res
			}
			return 0
		}
		verdict := 1
		var at token.Pos
		for _, s := range sinks {
			c.Fn(core.FuncName(core.Root(s.fn)))
			// the flag must be readable where the token is computed
			r := judge(s.st.Val, direct, 0, map[ssa.Value]bool{})
			if r < verdict {
				verdict = r
				at = s.st.Pos()
				if r == -1 && badPos.IsValid() {
					at = badPos
				}
			}
		}
		switch verdict {
		case 1:
			c.Ok("R84", construct, sinks[0].st.Pos(), true, "NextPageToken is empty only on paths on which the walk's \"more results\" flag is known unset (%d store(s) judged)", len(sinks))
		case 0:
			notDecided("the value stored into NextPageToken is not computed in a shape this rule reads (φ / helper result over the flag and EncodePageToken)")
		case -1:
			if !sawEncode {
				// a different defect from "conditioned on more than the flag": no token is ever produced
				c.Bad("R84", "listing/page-token-never-set", at, "no value stored into NextPageToken is the result of EncodePageToken: every listing ends after its first page, whatever the walk left unvisited")
				return
			}
			c.Bad("R84", construct, at, "NextPageToken can be the empty string on a path on which the walk's \"more results\" flag is set (the token is conditioned on more than the flag): a page that was cut short by maxResults then tells the client the listing is over, and the rest of the bucket is never listed")
		}
	}}
}
