#!/usr/bin/env python3
"""Confirm a seeded change produced by an independent sub-agent and run the checks on it.
usage: try_seed.py <prop> <agent-worktree> <n> [<store-as-number>]
1. fresh scratch worktree of /repo HEAD; apply seed<n>.diff; build; run the existing suites (must pass)
2. copy the demo test; run it with the change (must FAIL) and without (must PASS)
3. apply the diff to a scratch copy of /repo and run every quick check of the touched modules on it
4. on confirmation store /verif/seeded/<prop>-<n>/ {patch.diff, demo, meta.json}"""
import sys, os, subprocess, json, glob, shutil, re
ENV=dict(os.environ, GOFLAGS='-mod=mod', GOPROXY='off', GOSUMDB='off', GOTOOLCHAIN='local', GOWORK='off')
def sh(cmd, cwd=None, timeout=1500):
    return subprocess.run(cmd, shell=True, cwd=cwd, env=ENV, capture_output=True, text=True, errors='replace', timeout=timeout)
def main():
    prop, wt, n = sys.argv[1], sys.argv[2], sys.argv[3]
    asn = sys.argv[4] if len(sys.argv)>4 and not sys.argv[4].startswith('--') else n
    diff=os.path.join(wt, f'seed{n}.diff')
    patch=open(diff).read()
    files=re.findall(r'^\+\+\+ b/(\S+)', patch, re.M)
    assert files and not any(f.endswith('_test.go') for f in files), files
    mods=sorted({f.split('/')[0] for f in files} & {'bigtable','storage'})
    demos=[p for p in glob.glob(os.path.join(wt,'**',f'zz_seed{n}_demo_test.go'), recursive=True)]
    if not demos and n=='1':
        demos=[p for p in glob.glob(os.path.join(wt,'**','zz_seed_demo_test.go'), recursive=True)]
    assert len(demos)==1, demos
    demo=demos[0]; rel=os.path.relpath(demo, wt)
    scratch=f'/tmp/ver-{prop}-{asn}'
    sh(f'git -C /repo worktree remove --force {scratch}'); shutil.rmtree(scratch, ignore_errors=True)
    r=sh(f'git -C /repo worktree add -q --detach {scratch} HEAD'); assert r.returncode==0, r.stderr
    # private temp dir: the storage suite names its directory after the current second, which collides between parallel runs
    os.makedirs(scratch+'.tmp', exist_ok=True); ENV['TMPDIR']=scratch+'.tmp'
    res={'property':prop,'seed':n,'files':files,'demo':rel}
    try:
        r=sh(f'git apply {diff}', cwd=scratch); assert r.returncode==0, 'patch does not apply: '+r.stderr
        for m in mods:
            r=sh('go build ./... && go test -vet=off -count=1 ./...', cwd=os.path.join(scratch,m))
            res[f'suite_{m}_with_change']= 'pass' if r.returncode==0 else 'FAIL'
            if r.returncode!=0: res['suite_output']=r.stdout[-1500:]+r.stderr[-500:]
        shutil.copy(demo, os.path.join(scratch, rel))
        pkgdir=os.path.dirname(os.path.join(scratch, rel))
        # which tests does the demo define?
        tests=re.findall(r'^func (Test\w+)\(', open(demo).read(), re.M)
        runpat='^('+'|'.join(tests)+')$'
        race = '-race ' if 'race' in open(os.path.join(wt,'SEED_REPORT.md')).read().lower() and False else ''
        r1=sh(f"go test -vet=off -count=1 {race}-run '{runpat}' .", cwd=pkgdir)
        res['demo_with_change']='fail' if r1.returncode!=0 else 'PASS(unexpected)'
        res['demo_with_change_tail']=(r1.stdout+r1.stderr)[-600:]
        r=sh(f'git apply -R {diff}', cwd=scratch); assert r.returncode==0, r.stderr
        r2=sh(f"go test -vet=off -count=1 {race}-run '{runpat}' .", cwd=pkgdir)
        res['demo_without_change']='pass' if r2.returncode==0 else 'FAIL(unexpected)'
        if r2.returncode!=0: res['demo_without_change_tail']=(r2.stdout+r2.stderr)[-600:]
    finally:
        sh(f'git -C /repo worktree remove --force {scratch}'); shutil.rmtree(scratch, ignore_errors=True); shutil.rmtree(scratch+'.tmp', ignore_errors=True); ENV.pop('TMPDIR',None)
    confirmed = all(res.get(f'suite_{m}_with_change')=='pass' for m in mods) and res['demo_with_change']=='fail' and res['demo_without_change']=='pass'
    res['confirmed']=confirmed
    # run all checks of the touched modules on a scratch copy of /repo with the change applied
    sc=f'/tmp/ver-{prop}-{asn}-repo'; scv=sc+'.verif'
    shutil.rmtree(sc, ignore_errors=True); shutil.rmtree(scv, ignore_errors=True)
    try:
        r=sh(f'rsync -a --exclude .git /repo/ {sc}/'); assert r.returncode==0, r.stderr
        os.makedirs(scv); shutil.copy('/verif/known_findings.json', scv)
        r=sh(f'git apply {diff}', cwd=sc); assert r.returncode==0, r.stderr
        r=sh('go build -o bin/emucheck ./cmd/emucheck', cwd='/verif'); assert r.returncode==0, r.stderr
        r=sh(f'/verif/bin/emucheck all -repo {sc} -verif {scv} -modules {",".join(mods)}')
        allres=json.loads(r.stdout)
        checks={}
        for p_,v in sorted(allres.items()):
            if p_==prop or v['exit']!=0:
                checks[p_]={'exit':v['exit'],'violations':[l for l in v['lines'] if '[R' in l or l.startswith('CHECK-BROKEN')][:6]}
        res['checks']=checks
    finally:
        shutil.rmtree(sc, ignore_errors=True); shutil.rmtree(scv, ignore_errors=True)
    res['detected_by_own_property']= res['checks'][prop]['exit']==1
    res['alarming_properties']=[p for p,c in res['checks'].items() if c['exit']!=0]
    if confirmed:
        d=f'/verif/seeded/{prop}-{asn}'; os.makedirs(d, exist_ok=True)
        shutil.copy(diff, os.path.join(d,'patch.diff')); shutil.copy(demo, os.path.join(d, os.path.basename(rel)))
        rep=os.path.join(wt,'SEED_REPORT.md')
        if os.path.exists(rep): shutil.copy(rep, os.path.join(d,'SEED_REPORT.md'))
        meta={'property':prop,'source':'independent sub-agent (saw only the property text and its own scratch worktree)','files_changed':files,'demo':rel,
              'needs_to_manifest':'see SEED_REPORT.md','what_i_ran':['existing suites of the touched modules with the change: pass','demo with the change: fail','demo without the change: pass','every quick check of the touched modules on a scratch copy of /repo with the patch applied (emucheck all)'],
              'result':res}
        json.dump(meta, open(os.path.join(d,'meta.json'),'w'), indent=1)
    print(json.dumps({k:v for k,v in res.items() if k not in('demo_with_change_tail',)}, indent=1))
main()
