// Package core holds the loader, the obligation ledger, the evidence writer and
// the known-findings logic shared by every rule.
package core

import (
	"fmt"
	"go/ast"
	"go/token"
	"go/types"
	"os"
	"path/filepath"
	"sort"
	"strings"

	"golang.org/x/tools/go/packages"
	"golang.org/x/tools/go/ssa"
	"golang.org/x/tools/go/ssa/ssautil"
)

// Well-known package paths of the repository under analysis.
const (
	PkgBttest    = "github.com/fullstorydev/emulators/bigtable/bttest"
	PkgCbtemu    = "github.com/fullstorydev/emulators/bigtable/cmd/cbtemulator"
	PkgGcsemu    = "github.com/fullstorydev/emulators/storage/gcsemu"
	PkgGcsutil   = "github.com/fullstorydev/emulators/storage/gcsutil"
	PkgGcsemuCmd = "github.com/fullstorydev/emulators/storage/cmd/gcsemulator"
)

// Module describes one Go module of the repository.
type Module struct {
	Dir      string   // relative to the repo root
	Expected []string // package paths that must be present
}

var Modules = map[string]Module{
	"bigtable": {Dir: "bigtable", Expected: []string{PkgBttest, PkgCbtemu}},
	"storage":  {Dir: "storage", Expected: []string{PkgGcsemu, PkgGcsutil, PkgGcsemuCmd}},
}

// Program is the loaded, type-checked and SSA-built repository.
type Program struct {
	Root  string
	Fset  *token.FileSet
	Pkgs  map[string]*packages.Package
	SSA   *ssa.Program
	SPkgs map[string]*ssa.Package
	// Stats
	NumFiles int
	NumFuncs int
	// alias: frozen anchor name -> the function that carries that role today (renames)
	alias      map[string]*ssa.Function
	AliasNotes []string
}

// BrokenError signals that the check itself cannot give a verdict (load
// failure, type errors, anchors gone).  It is never reported as a VIOLATION.
type BrokenError struct{ Msg string }

func (e *BrokenError) Error() string { return e.Msg }

func Broken(format string, args ...interface{}) *BrokenError {
	return &BrokenError{Msg: fmt.Sprintf(format, args...)}
}

func goEnv() []string {
	env := []string{}
	for _, kv := range os.Environ() {
		k := kv
		if i := strings.IndexByte(kv, '='); i >= 0 {
			k = kv[:i]
		}
		switch k {
		case "GOFLAGS", "GOPROXY", "GOSUMDB", "GOTOOLCHAIN", "GOWORK":
			continue
		}
		env = append(env, kv)
	}
	env = append(env, "GOFLAGS=-mod=mod", "GOPROXY=off", "GOSUMDB=off", "GOTOOLCHAIN=local", "GOWORK=off")
	return env
}

// Load loads the named modules ("bigtable", "storage") from root.  overlay maps
// absolute file names to replacement contents (used by the self-test tier).
func Load(root string, modules []string, overlay map[string][]byte) (*Program, error) {
	fset := token.NewFileSet()
	prog := &Program{Root: root, Fset: fset, Pkgs: map[string]*packages.Package{}, SPkgs: map[string]*ssa.Package{}}
	var initial []*packages.Package
	sort.Strings(modules)
	for _, m := range modules {
		mod, ok := Modules[m]
		if !ok {
			return nil, Broken("unknown module %q", m)
		}
		cfg := &packages.Config{
			Mode: packages.NeedName | packages.NeedFiles | packages.NeedCompiledGoFiles | packages.NeedImports |
				packages.NeedTypes | packages.NeedTypesSizes | packages.NeedSyntax | packages.NeedTypesInfo | packages.NeedDeps | packages.NeedModule,
			Dir:     filepath.Join(root, mod.Dir),
			Fset:    fset,
			Env:     goEnv(),
			Tests:   false,
			Overlay: overlay,
		}
		pkgs, err := packages.Load(cfg, "./...")
		if err != nil {
			return nil, Broken("packages.Load(%s): %v", m, err)
		}
		if len(pkgs) == 0 {
			return nil, Broken("module %s: zero packages loaded", m)
		}
		for _, p := range pkgs {
			if len(p.Errors) > 0 {
				return nil, Broken("package %s has errors: %v", p.PkgPath, p.Errors[0])
			}
			if p.IllTyped {
				return nil, Broken("package %s is ill-typed", p.PkgPath)
			}
			if len(p.IgnoredFiles) > 0 {
				// Build-tagged files would escape the analysis.
				var ign []string
				for _, f := range p.IgnoredFiles {
					if strings.HasSuffix(f, ".go") {
						ign = append(ign, f)
					}
				}
				if len(ign) > 0 {
					return nil, Broken("package %s has ignored Go files (build tags?): %v", p.PkgPath, ign)
				}
			}
			prog.Pkgs[p.PkgPath] = p
			prog.NumFiles += len(p.Syntax)
			initial = append(initial, p)
		}
		for _, want := range mod.Expected {
			if prog.Pkgs[want] == nil {
				return nil, Broken("module %s: expected package %s not loaded", m, want)
			}
		}
	}
	sprog, spkgs := ssautil.Packages(initial, ssa.InstantiateGenerics)
	for i, sp := range spkgs {
		if sp == nil {
			return nil, Broken("no SSA package for %s", initial[i].PkgPath)
		}
		prog.SPkgs[initial[i].PkgPath] = sp
	}
	sprog.Build()
	prog.SSA = sprog
	for fn := range ssautil.AllFunctions(sprog) {
		if fn.Pkg != nil && prog.SPkgs[fn.Pkg.Pkg.Path()] == fn.Pkg && fn.Blocks != nil {
			prog.NumFuncs++
		}
	}
	prog.resolveTypes()
	prog.resolveAnchors()
	return prog, nil
}

// Pos renders a position relative to the repository root.
func (p *Program) Pos(pos token.Pos) string {
	if !pos.IsValid() {
		return "?"
	}
	pp := p.Fset.Position(pos)
	rel, err := filepath.Rel(p.Root, pp.Filename)
	if err != nil {
		rel = pp.Filename
	}
	return fmt.Sprintf("%s:%d", rel, pp.Line)
}

// Func looks up a package-level function or a method ("(*T).M" / "T.M").
func (p *Program) Func(pkgPath, name string) *ssa.Function {
	if f := p.alias[pkgPath+"\x00"+name]; f != nil {
		return f
	}
	return p.funcByName(pkgPath, name)
}

func (p *Program) funcByName(pkgPath, name string) *ssa.Function {
	sp := p.SPkgs[pkgPath]
	if sp == nil {
		return nil
	}
	if !strings.Contains(name, ".") {
		return sp.Func(name)
	}
	// method
	ptr := false
	s := name
	if strings.HasPrefix(s, "(*") {
		ptr = true
		s = strings.TrimPrefix(s, "(*")
		s = strings.Replace(s, ")", "", 1)
	}
	dot := strings.IndexByte(s, '.')
	tn, mn := s[:dot], s[dot+1:]
	obj := sp.Pkg.Scope().Lookup(tn)
	if obj == nil {
		// the type may have been renamed: find the current holder of the frozen name
		for cur, canon := range typeCanon {
			if canon == tn && cur.Pkg() == sp.Pkg {
				obj = cur
			}
		}
	}
	if obj == nil {
		return nil
	}
	var t types.Type = obj.Type()
	if ptr {
		t = types.NewPointer(t)
	}
	sel := p.SSA.MethodSets.MethodSet(t).Lookup(sp.Pkg, mn)
	if sel == nil {
		return nil
	}
	return p.SSA.MethodValue(sel)
}

// MustFunc is Func, panicking with a BrokenError when the anchor is gone.
func (p *Program) MustFunc(pkgPath, name string) *ssa.Function {
	f := p.Func(pkgPath, name)
	if f == nil || f.Blocks == nil {
		panic(Broken("anchor gone: function %s.%s not found — re-confirm the rule", pkgPath, name))
	}
	return f
}

// SrcFuncs returns every function with a body (including anonymous ones) that
// belongs to the given package, in source order.
func (p *Program) SrcFuncs(pkgPath string) []*ssa.Function {
	sp := p.SPkgs[pkgPath]
	if sp == nil {
		return nil
	}
	var out []*ssa.Function
	seen := map[*ssa.Function]bool{}
	var add func(f *ssa.Function)
	add = func(f *ssa.Function) {
		if f == nil || seen[f] || f.Blocks == nil {
			return
		}
		seen[f] = true
		out = append(out, f)
		for _, a := range f.AnonFuncs {
			add(a)
		}
	}
	for _, m := range sp.Members {
		switch m := m.(type) {
		case *ssa.Function:
			add(m)
		case *ssa.Type:
			for _, t := range []types.Type{m.Type(), types.NewPointer(m.Type())} {
				ms := p.SSA.MethodSets.MethodSet(t)
				for i := 0; i < ms.Len(); i++ {
					f := p.SSA.MethodValue(ms.At(i))
					if f != nil && f.Synthetic == "" {
						add(f)
					}
				}
			}
		}
	}
	sort.Slice(out, func(i, j int) bool { return out[i].Pos() < out[j].Pos() })
	return out
}

// FuncDecl returns the AST declaration of a named function or method
// ("Name" or "Recv.Name", pointer-ness of the receiver ignored).
func (p *Program) FuncDecl(pkgPath, name string) *ast.FuncDecl {
	pkg := p.Pkgs[pkgPath]
	if pkg == nil {
		return nil
	}
	recv, fn := "", name
	if i := strings.IndexByte(name, '.'); i >= 0 {
		recv, fn = name[:i], name[i+1:]
	}
	for _, f := range pkg.Syntax {
		for _, d := range f.Decls {
			fd, ok := d.(*ast.FuncDecl)
			if !ok || fd.Name.Name != fn {
				continue
			}
			if recv == "" && fd.Recv == nil {
				return fd
			}
			if recv != "" && fd.Recv != nil && len(fd.Recv.List) == 1 {
				t := fd.Recv.List[0].Type
				if s, ok := t.(*ast.StarExpr); ok {
					t = s.X
				}
				if id, ok := t.(*ast.Ident); ok && id.Name == recv {
					return fd
				}
			}
		}
	}
	return nil
}

// FuncName gives a stable, line-free name of an SSA function, e.g.
// "(*server).ReadRows$1".
func FuncName(f *ssa.Function) string {
	if f == nil {
		return "<nil>"
	}
	if c, ok := canonByFn[f]; ok {
		return c // a renamed anchor keeps its frozen name in constructs and tables
	}
	return rawFuncName(f)
}

func rawFuncName(f *ssa.Function) string {
	if f == nil {
		return "<nil>"
	}
	if f.Parent() != nil {
		// anonymous: parent name + index among the parent's AnonFuncs
		idx := 0
		for i, a := range f.Parent().AnonFuncs {
			if a == f {
				idx = i + 1
			}
		}
		return fmt.Sprintf("%s$%d", FuncName(f.Parent()), idx)
	}
	if recv := f.Signature.Recv(); recv != nil {
		t := recv.Type()
		if pt, ok := t.(*types.Pointer); ok {
			if n, ok := pt.Elem().(*types.Named); ok {
				return "(*" + TName(n) + ")." + f.Name()
			}
		}
		if n, ok := t.(*types.Named); ok {
			return TName(n) + "." + f.Name()
		}
	}
	return f.Name()
}

// fileOf returns the syntax file containing pos.
func (p *Program) fileOf(pos token.Pos) *ast.File {
	for _, pkg := range p.Pkgs {
		for _, f := range pkg.Syntax {
			if f.FileStart <= pos && pos <= f.FileEnd {
				return f
			}
		}
	}
	return nil
}

// IsGenerated reports whether pos lies in a generated file ("Code generated ... DO NOT EDIT.").
func (p *Program) IsGenerated(pos token.Pos) bool {
	f := p.fileOf(pos)
	return f != nil && ast.IsGenerated(f)
}

// IndexedExpr returns the source text of the operand X of the index or slice
// expression whose '[' is at pos (the position go/ssa records for IndexAddr,
// Index, Lookup and Slice instructions), or "".
func (p *Program) IndexedExpr(pos token.Pos) string {
	f := p.fileOf(pos)
	if f == nil {
		return ""
	}
	out := ""
	ast.Inspect(f, func(n ast.Node) bool {
		if n == nil || out != "" {
			return false
		}
		if n.Pos() > pos || n.End() < pos {
			return false
		}
		switch x := n.(type) {
		case *ast.IndexExpr:
			if x.Lbrack == pos {
				out = types.ExprString(x.X)
			}
		case *ast.SliceExpr:
			if x.Lbrack == pos {
				out = types.ExprString(x.X)
			}
		}
		return true
	})
	return out
}
