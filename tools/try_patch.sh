#!/bin/sh
# usage: try_patch.sh <diff> [modules]   — applies a patch to a scratch copy of /repo and runs every property on it
d=$(mktemp -d /tmp/tp-XXXXXX); mods=${2:-$(grep '^+++ b/' "$1" | cut -d/ -f2 | sort -u | grep -E 'bigtable|storage' | paste -sd,)}
rsync -a --exclude .git /repo/ $d/ && mkdir -p $d.verif && cp /verif/known_findings.json $d.verif/
(cd $d && git apply "$1") || { echo "patch does not apply"; rm -rf $d $d.verif; exit 2; }
${EMUCHECK:-/verif/bin/emucheck} all -repo $d -verif $d.verif -modules $mods | python3 -c "
import json,sys; d=json.load(sys.stdin); any=False
for p,v in sorted(d.items()):
    if v['exit']:
        any=True; print(p, 'exit', v['exit'])
        for l in v['lines'][:4]: print('    ', l[:300])
if not any: print('silent')
"
rm -rf $d $d.verif
