// emucheck decides structural clauses of properties C01–C20 of
// fullstorydev/emulators by static analysis of /repo's current source.
package main

import (
	"encoding/json"
	"flag"
	"fmt"
	"os"
	"path/filepath"
	"runtime/debug"
	"sort"
	"strconv"
	"strings"
	"time"

	"verif/internal/core"
	"verif/internal/rules"
)

func main() {
	if len(os.Args) < 2 {
		usage()
	}
	switch os.Args[1] {
	case "check":
		os.Exit(cmdCheck(os.Args[2:]))
	case "list":
		for _, id := range rules.PropertyIDs() {
			sp := rules.Properties[id]
			fmt.Printf("%s modules=%v rules=%s\n", id, sp.Modules, strings.Join(sp.RuleNames(), ","))
		}
	case "warm":
		for _, m := range []string{"bigtable", "storage"} {
			if _, err := core.Load("/repo", []string{m}, nil); err != nil {
				fmt.Println("warm:", err)
				os.Exit(1)
			}
		}
	case "all":
		os.Exit(cmdAll(os.Args[2:]))
	case "anchors-gen":
		// prints the body of core.AnchorTable for the current /repo tree (see tools/gen_anchors.sh)
		p, err := core.Load("/repo", []string{"bigtable", "storage"}, nil)
		if err != nil {
			fmt.Println(err)
			os.Exit(2)
		}
		names := map[string][]string{}
		for _, pkg := range []string{core.PkgBttest, core.PkgGcsemu, core.PkgGcsutil} {
			for _, f := range p.SrcFuncs(pkg) {
				if f.Parent() == nil && f.Synthetic == "" && !p.IsGenerated(f.Pos()) {
					names[pkg] = append(names[pkg], core.FuncName(f))
				}
			}
		}
		if len(os.Args) > 2 && os.Args[2] == "types" {
			fmt.Print(p.GenTypeTable([]string{core.PkgBttest, core.PkgGcsemu, core.PkgGcsutil}))
		} else {
			fmt.Print(p.GenAnchorTable(names))
		}
	case "replay":
		os.Exit(cmdReplay(os.Args[2:]))
	case "selftest":
		os.Exit(cmdSelftest(os.Args[2:]))
	default:
		usage()
	}
}

func usage() {
	fmt.Fprintln(os.Stderr, "usage: emucheck check -prop Cxx [-tier quick|thorough] [-repo /repo] [-verif /verif]\n       emucheck replay <file>\n       emucheck selftest [-prop Cxx]\n       emucheck list")
	os.Exit(2)
}

var dumpAll bool

func seed() int {
	if s := os.Getenv("VERIF_SEED"); s != "" {
		if n, err := strconv.Atoi(s); err == nil {
			return n
		}
	}
	return 0
}

func cmdCheck(args []string) int {
	fs := flag.NewFlagSet("check", flag.ExitOnError)
	prop := fs.String("prop", "", "property id")
	tier := fs.String("tier", "quick", "quick|thorough")
	repo := fs.String("repo", "/repo", "repository root")
	verif := fs.String("verif", "/verif", "verif dir")
	dump := fs.Bool("dump", false, "print every obligation")
	_ = fs.Parse(args)
	dumpAll = *dump
	if t := os.Getenv("VERIF_TIER"); t != "" && *tier == "" {
		*tier = t
	}
	sp, ok := rules.Properties[*prop]
	if !ok {
		fmt.Fprintf(os.Stderr, "unknown property %q\n", *prop)
		return 2
	}
	start := time.Now()
	out := runProperty(*repo, *verif, *prop, sp, *tier, nil, start)
	for _, l := range out.Lines {
		fmt.Println(l)
	}
	if out.ExitCode == 0 && *tier == "thorough" {
		// thorough = quick + both-ways self-test of the rules by overlay mutants
		code := selftest(*repo, *verif, []string{*prop})
		if code != 0 {
			return code
		}
	}
	return out.ExitCode
}

// runProperty loads and runs; panics in rules become CHECK-BROKEN.
func runProperty(repo, verif, prop string, sp *rules.PropertySpec, tier string, overlay map[string][]byte, start time.Time) (out core.Outcome) {
	defer func() {
		if r := recover(); r != nil {
			if be, ok := r.(*core.BrokenError); ok {
				out = core.Outcome{ExitCode: 2, Lines: []string{"CHECK-BROKEN: " + be.Msg}}
				return
			}
			out = core.Outcome{ExitCode: 2, Lines: []string{fmt.Sprintf("CHECK-BROKEN: panic in rule: %v\n%s", r, debug.Stack())}}
		}
	}()
	p, err := core.Load(repo, sp.Modules, overlay)
	if err != nil {
		return core.Outcome{ExitCode: 2, Lines: []string{"CHECK-BROKEN: " + err.Error()}}
	}
	ctx := core.NewCtx(p, tier)
	for _, r := range sp.Rules {
		r.Run(ctx)
	}
	if dumpAll {
		for _, o := range ctx.Obs {
			fmt.Printf("  %-10s %-4s %s @%s — %s\n", o.Status, o.Rule, o.Construct, o.Pos, o.Detail)
		}
	}
	if overlay != nil {
		// self-test run: do not touch evidence; report raw obligations
		return core.Outcome{ExitCode: 0, Lines: violatedKeys(ctx)}
	}
	return ctx.Finish(verif, prop, sp.Explanation, sp.NotDecided, sp.Assumptions, nil, start, seed())
}

func violatedKeys(ctx *core.Ctx) []string {
	var ks []string
	for _, o := range ctx.Obs {
		if o.Status == core.Violated || o.Status == core.Undecided {
			ks = append(ks, o.Key())
		}
	}
	sort.Strings(ks)
	return ks
}

func cmdReplay(args []string) int {
	if len(args) < 1 {
		usage()
	}
	b, err := os.ReadFile(args[0])
	if err != nil {
		fmt.Fprintln(os.Stderr, err)
		return 2
	}
	var r struct{ Property, Rule, Construct, Pos, Detail string }
	if err := json.Unmarshal(b, &r); err != nil {
		fmt.Fprintln(os.Stderr, err)
		return 2
	}
	sp, ok := rules.Properties[r.Property]
	if !ok {
		fmt.Fprintln(os.Stderr, "unknown property in replay file")
		return 2
	}
	repo, verif := "/repo", "/verif"
	p, err := core.Load(repo, sp.Modules, nil)
	if err != nil {
		fmt.Println("CHECK-BROKEN:", err)
		return 2
	}
	_ = verif
	ctx := core.NewCtx(p, "quick")
	for _, ru := range sp.Rules {
		ru.Run(ctx)
	}
	for _, o := range ctx.Obs {
		if o.Rule == r.Rule && o.Construct == r.Construct {
			fmt.Printf("%s [%s] %s: %s — %s\n", o.Pos, o.Rule, o.Construct, o.Status, o.Detail)
			if o.Status == core.Violated {
				fmt.Printf("VIOLATION property=%s replay=%s\n", r.Property, args[0])
				return 1
			}
			return 0
		}
	}
	fmt.Printf("construct %s/%s no longer exists on the current tree\n", r.Rule, r.Construct)
	return 0
}

func cmdSelftest(args []string) int {
	fs := flag.NewFlagSet("selftest", flag.ExitOnError)
	prop := fs.String("prop", "", "property id (default: all)")
	repo := fs.String("repo", "/repo", "repository root")
	verif := fs.String("verif", "/verif", "verif dir")
	_ = fs.Parse(args)
	var props []string
	if *prop != "" {
		props = []string{*prop}
	}
	return selftest(*repo, *verif, props)
}

// selftest applies every overlay mutant relevant to the properties and requires
// the rules to report the expected construct.
func selftest(repo, verif string, props []string) int {
	muts, err := rules.LoadMutants(filepath.Join(verif, "mutants.json"))
	if err != nil {
		fmt.Println("CHECK-BROKEN:", err)
		return 2
	}
	want := map[string]bool{}
	for _, p := range props {
		want[p] = true
	}
	code := 0
	ran, skipped := 0, 0
	for _, m := range muts {
		if len(want) > 0 && !want[m.Property] {
			continue
		}
		sp := rules.Properties[m.Property]
		if sp == nil {
			continue
		}
		file := filepath.Join(repo, m.File)
		src, err := os.ReadFile(file)
		if err != nil {
			fmt.Printf("selftest %s: SKIP (cannot read %s)\n", m.Name, m.File)
			skipped++
			continue
		}
		if strings.Count(string(src), m.Old) != 1 {
			fmt.Printf("selftest %s: SKIP (anchor text occurs %d times in %s)\n", m.Name, strings.Count(string(src), m.Old), m.File)
			skipped++
			continue
		}
		mutated := strings.Replace(string(src), m.Old, m.New, 1)
		out := runProperty(repo, verif, m.Property, sp, "quick", map[string][]byte{file: []byte(mutated)}, time.Now())
		ran++
		if out.ExitCode == 2 {
			// does not compile or rule broke: a mutant that fails to type-check is a defect of the catalogue
			fmt.Printf("selftest %s: BROKEN %v\n", m.Name, out.Lines)
			code = 2
			continue
		}
		found := false
		for _, k := range out.Lines {
			if strings.HasPrefix(k, m.Expect) {
				found = true
			}
		}
		if found {
			fmt.Printf("selftest %s: caught (%s)\n", m.Name, m.Expect)
		} else {
			fmt.Printf("selftest %s: MISSED — expected a violation with key prefix %q, got %v\n", m.Name, m.Expect, out.Lines)
			code = 2
		}
	}
	fmt.Printf("selftest: %d mutants analysed, %d skipped\n", ran, skipped)
	return code
}

// cmdAll is the development driver behind tools/matrix.py: it loads each module
// once and runs every property of that module on the shared program, printing
// one JSON object {prop: {exit, lines}}.  It never writes into /verif (evidence
// goes to the scratch -verif directory).  Not used by any registered check.
func cmdAll(args []string) int {
	fs := flag.NewFlagSet("all", flag.ExitOnError)
	repo := fs.String("repo", "/repo", "repository root")
	verif := fs.String("verif", "", "scratch verif dir (needs known_findings.json)")
	mods := fs.String("modules", "bigtable,storage", "modules to run")
	_ = fs.Parse(args)
	if *verif == "" {
		fmt.Fprintln(os.Stderr, "all: -verif scratch dir required")
		return 2
	}
	_ = os.MkdirAll(filepath.Join(*verif, "evidence"), 0o755)
	type res struct {
		Exit  int      `json:"exit"`
		Lines []string `json:"lines"`
	}
	result := map[string]res{}
	wantMod := map[string]bool{}
	for _, m := range strings.Split(*mods, ",") {
		wantMod[m] = true
	}
	groups := map[string][]string{}
	for _, id := range rules.PropertyIDs() {
		ms := append([]string(nil), rules.Properties[id].Modules...)
		sort.Strings(ms)
		hit := false
		for _, m := range ms {
			hit = hit || wantMod[m]
		}
		if hit {
			groups[strings.Join(ms, ",")] = append(groups[strings.Join(ms, ",")], id)
		}
	}
	var gkeys []string
	for k := range groups {
		gkeys = append(gkeys, k)
	}
	sort.Strings(gkeys)
	for _, gk := range gkeys {
		p, err := core.Load(*repo, strings.Split(gk, ","), nil)
		for _, id := range groups[gk] {
			sp := rules.Properties[id]
			if err != nil {
				result[id] = res{2, []string{"CHECK-BROKEN: " + err.Error()}}
				continue
			}
			func() {
				defer func() {
					if r := recover(); r != nil {
						if be, ok := r.(*core.BrokenError); ok {
							result[id] = res{2, []string{"CHECK-BROKEN: " + be.Msg}}
							return
						}
						result[id] = res{2, []string{fmt.Sprintf("CHECK-BROKEN: panic in rule: %v\n%s", r, debug.Stack())}}
					}
				}()
				ctx := core.NewCtx(p, "quick")
				for _, r := range sp.Rules {
					r.Run(ctx)
				}
				o := ctx.Finish(*verif, id, sp.Explanation, sp.NotDecided, sp.Assumptions, nil, time.Now(), 0)
				var keep []string
				for _, l := range o.Lines {
					if strings.HasPrefix(l, "  ") || strings.HasPrefix(l, "CHECK-BROKEN") || strings.HasPrefix(l, "KNOWN-FINDING") {
						keep = append(keep, strings.TrimSpace(l))
					}
				}
				if keep == nil {
					keep = []string{}
				}
				result[id] = res{o.ExitCode, keep}
			}()
		}
	}
	b, _ := json.MarshalIndent(result, "", " ")
	fmt.Println(string(b))
	return 0
}
