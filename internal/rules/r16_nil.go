package rules

import (
	"fmt"
	"go/token"
	"go/types"
	"sort"
	"strings"
	"unicode"

	"golang.org/x/tools/go/ssa"

	"verif/internal/core"
)

// ---------------------------------------------------------------------------
// R16: nil contracts — an interprocedural nilness analysis specialised to the
// repository's "(nil, nil) means not found" conventions.
// ---------------------------------------------------------------------------

type nilKind int

const (
	nkNever    nilKind = iota // never nil
	nkWithFail                // nil only together with a failing companion result (err != nil / ok == false)
	nkMaybe                   // may be nil even when the companion says success
)

type nilAnalysis struct {
	p   *core.Program
	la  *LockAnalysis
	all []*ssa.Function
	// summaries
	ret    map[*ssa.Function][]nilKind // per result index
	derefs map[*ssa.Function][]bool    // per parameter index (incl. receiver): dereferenced without a nil check
	impls  map[string][]*ssa.Function  // "pkg.Iface.Method" -> implementations in the repo
	srcLbl map[ssa.Value]string
}

var nilCache = map[*core.Program]*nilAnalysis{}

func isPtr(t types.Type) bool {
	_, ok := t.Underlying().(*types.Pointer)
	return ok
}

func isErrorType(t types.Type) bool {
	return types.Identical(t, types.Universe.Lookup("error").Type())
}

func isBoolType(t types.Type) bool {
	b, ok := t.Underlying().(*types.Basic)
	return ok && b.Kind() == types.Bool
}

func nilness(p *core.Program) *nilAnalysis {
	if n, ok := nilCache[p]; ok {
		return n
	}
	n := &nilAnalysis{p: p, la: Locks(p), ret: map[*ssa.Function][]nilKind{}, derefs: map[*ssa.Function][]bool{}, impls: map[string][]*ssa.Function{}, srcLbl: map[ssa.Value]string{}}
	var paths []string
	for path := range p.SPkgs {
		paths = append(paths, path)
	}
	sort.Strings(paths)
	for _, path := range paths {
		for _, fn := range p.SrcFuncs(path) {
			if p.IsGenerated(fn.Pos()) {
				continue
			}
			n.all = append(n.all, fn)
		}
	}
	for _, fn := range n.all {
		n.ret[fn] = make([]nilKind, fn.Signature.Results().Len())
		n.derefs[fn] = make([]bool, len(fn.Params))
	}
	n.indexImpls()
	for changed := true; changed; {
		changed = false
		for _, fn := range n.all {
			if n.updateRet(fn) {
				changed = true
			}
			if n.updateDerefs(fn) {
				changed = true
			}
		}
	}
	nilCache[p] = n
	return n
}

// indexImpls maps the repo's interface methods to their implementations.
func (n *nilAnalysis) indexImpls() {
	for path, pkg := range n.p.Pkgs {
		if n.p.SPkgs[path] == nil {
			continue
		}
		scope := pkg.Types.Scope()
		for _, name := range scope.Names() {
			tn, ok := scope.Lookup(name).(*types.TypeName)
			if !ok {
				continue
			}
			iface, ok := tn.Type().Underlying().(*types.Interface)
			if !ok {
				continue
			}
			// candidates: all named types of all repo packages
			for p2, pkg2 := range n.p.Pkgs {
				if n.p.SPkgs[p2] == nil {
					continue
				}
				for _, name2 := range pkg2.Types.Scope().Names() {
					tn2, ok := pkg2.Types.Scope().Lookup(name2).(*types.TypeName)
					if !ok || tn2.IsAlias() {
						continue
					}
					if _, isI := tn2.Type().Underlying().(*types.Interface); isI {
						continue
					}
					for _, t := range []types.Type{tn2.Type(), types.NewPointer(tn2.Type())} {
						if !types.Implements(t, iface) {
							continue
						}
						for i := 0; i < iface.NumMethods(); i++ {
							m := iface.Method(i)
							sel := n.p.SSA.MethodSets.MethodSet(t).Lookup(m.Pkg(), m.Name())
							if sel == nil {
								continue
							}
							if f := n.p.SSA.MethodValue(sel); f != nil && f.Blocks != nil {
								key := path + "." + name + "." + m.Name()
								dup := false
								for _, e := range n.impls[key] {
									if e == f {
										dup = true
									}
								}
								if !dup {
									n.impls[key] = append(n.impls[key], f)
								}
							}
						}
						break
					}
				}
			}
		}
	}
}

// targets resolves the in-repo functions a call may reach (static or through a repo interface).
func (n *nilAnalysis) targets(ci *core.CallInfo) []*ssa.Function {
	if ci.Static != nil {
		if _, ok := n.ret[ci.Static]; ok {
			return []*ssa.Function{ci.Static}
		}
		return nil
	}
	if ci.Method != nil {
		if nm := core.NamedOf(ci.IfaceRecv); nm != nil && nm.Obj().Pkg() != nil {
			return n.impls[nm.Obj().Pkg().Path()+"."+nm.Obj().Name()+"."+ci.Method.Name()]
		}
	}
	if fn := closureOf(ci.Common.Value); fn != nil {
		if _, ok := n.ret[fn]; ok {
			return []*ssa.Function{fn}
		}
	}
	return nil
}

// ---- value identity with captured cells -------------------------------------

// killsCell: instr may change the content of cell (other than being the store we look at).
func (n *nilAnalysis) killsCell(in ssa.Instruction, cell *ssa.Alloc) bool {
	switch x := in.(type) {
	case *ssa.Store:
		return core.CellOf(x.Addr) == cell
	case ssa.CallInstruction:
		ci := core.Call(x)
		for _, a := range ci.Common.Args {
			if core.CellOf(core.Strip(a)) == cell { // &cell passed
				return true
			}
		}
		for _, callee := range n.la.calleesOf(ci) {
			for _, f := range core.Family(callee) {
				for _, b := range f.Blocks {
					for _, i2 := range b.Instrs {
						if st, ok := i2.(*ssa.Store); ok && core.CellOf(st.Addr) == cell {
							return true
						}
					}
				}
			}
		}
	}
	return false
}

// cellValueAt: the value a load of a (possibly captured) cell yields, when a
// unique store in the same function dominates the load and nothing in between
// may overwrite the cell.
func (n *nilAnalysis) cellValueAt(load *ssa.UnOp) ssa.Value {
	cell := core.CellOf(load.X)
	if cell == nil {
		return nil
	}
	fn := load.Parent()
	var best *ssa.Store
	for _, b := range fn.Blocks {
		for _, in := range b.Instrs {
			st, ok := in.(*ssa.Store)
			if !ok || core.CellOf(st.Addr) != cell {
				continue
			}
			if !core.InstrDominates(st, load) {
				if core.InstrReaches(st, load) {
					return nil // a non-dominating store may reach
				}
				continue
			}
			if best == nil || core.InstrDominates(best, st) {
				best = st
			}
		}
	}
	if best == nil {
		return nil
	}
	// no kill strictly between best and load
	for _, b := range fn.Blocks {
		for _, in := range b.Instrs {
			if in == best || in == ssa.Instruction(load) {
				continue
			}
			if n.killsCell(in, cell) && core.InstrReaches(best, in) && core.InstrReaches(in, load) {
				return nil
			}
		}
	}
	return best.Val
}

// resolveAt extends core.Resolve with loads of captured cells.
func (n *nilAnalysis) resolveAt(v ssa.Value) ssa.Value {
	for i := 0; i < 32; i++ {
		v = core.Resolve(v)
		ld, ok := v.(*ssa.UnOp)
		if !ok || ld.Op != token.MUL {
			return v
		}
		nv := n.cellValueAt(ld)
		if nv == nil {
			return v
		}
		v = nv
	}
	return v
}

func (n *nilAnalysis) same(a, b ssa.Value) bool {
	ra, rb := n.resolveAt(a), n.resolveAt(b)
	if ra == rb {
		return true
	}
	// two loads of the same cell with nothing killing in between
	la, ok1 := ra.(*ssa.UnOp)
	lb, ok2 := rb.(*ssa.UnOp)
	if ok1 && ok2 && la.Op == token.MUL && lb.Op == token.MUL {
		ca, cb := core.CellOf(la.X), core.CellOf(lb.X)
		if ca != nil && ca == cb && la.Parent() == lb.Parent() {
			first, second := la, lb
			if !core.InstrDominates(first, second) {
				first, second = lb, la
			}
			if !core.InstrDominates(first, second) {
				return false
			}
			for _, b := range first.Parent().Blocks {
				for _, in := range b.Instrs {
					if n.killsCell(in, ca) && core.InstrReaches(first, in) && core.InstrReaches(in, second) {
						return false
					}
				}
			}
			return true
		}
		// loads of the same field of the same base (request structs)
		if ka := fieldLoadKey(ra); ka != "" && ka == fieldLoadKey(rb) {
			return true
		}
	}
	return false
}

// nonNilFact: a dominating branch establishes v != nil at block `at`.
func (n *nilAnalysis) nonNilFact(v ssa.Value, at *ssa.BasicBlock) bool {
	return n.nonNilFactIn(v, factsWithCreation(at))
}

// factsWithCreation: the facts at `at` plus, for a closure, the facts that held
// where the closure was created (it cannot run earlier).  Sound for facts about
// SSA values; facts about mutable cells are only ever matched within one
// function (see same()).
func factsWithCreation(at *ssa.BasicBlock) []core.CondFact {
	facts := core.FactsAt(at)
	fn := at.Parent()
	for fn.Parent() != nil {
		par := fn.Parent()
		var mc *ssa.MakeClosure
		for _, b := range par.Blocks {
			for _, in := range b.Instrs {
				if m, ok := in.(*ssa.MakeClosure); ok && m.Fn == fn {
					mc = m
				}
			}
		}
		if mc == nil {
			break
		}
		facts = append(facts, core.FactsAt(mc.Block())...)
		fn = par
	}
	return facts
}

// creationIn returns the MakeClosure instruction in `outer` that creates `inner`
// or the closure (transitively) containing it; nil when inner is not nested in outer.
func creationIn(outer, inner *ssa.Function) *ssa.MakeClosure {
	f := inner
	for f != nil && f.Parent() != outer {
		f = f.Parent()
	}
	if f == nil {
		return nil
	}
	for _, b := range outer.Blocks {
		for _, in := range b.Instrs {
			if m, ok := in.(*ssa.MakeClosure); ok && m.Fn == f {
				return m
			}
		}
	}
	return nil
}

// edgeFacts: facts holding when control passes from pred to succ.
func edgeFacts(pred, succ *ssa.BasicBlock) []core.CondFact {
	facts := core.FactsAt(pred)
	if len(pred.Instrs) > 0 {
		if ifi, ok := pred.Instrs[len(pred.Instrs)-1].(*ssa.If); ok && pred.Succs[0] != pred.Succs[1] {
			for idx, s := range pred.Succs {
				if s == succ {
					facts = append(facts, core.ExpandCond(core.CondFact{Cond: ifi.Cond, Polarity: idx == 0, If: ifi})...)
				}
			}
		}
	}
	return facts
}

func (n *nilAnalysis) nonNilFactIn(v ssa.Value, facts []core.CondFact) bool {
	for _, f := range facts {
		if b, ok := f.Cond.(*ssa.BinOp); ok && (b.Op == token.EQL || b.Op == token.NEQ) {
			var other, subj ssa.Value
			if core.IsNilConst(b.Y) {
				subj, other = b.X, b.Y
			} else if core.IsNilConst(b.X) {
				subj, other = b.Y, b.X
			}
			if other == nil {
				continue
			}
			nonNil := (b.Op == token.NEQ) == f.Polarity
			if nonNil && n.same(subj, v) {
				return true
			}
			continue
		}
		// comma-ok: fact on the ok component of the tuple v was extracted from
		if f.Polarity {
			if okv, isEx := n.resolveAt(f.Cond).(*ssa.Extract); isEx {
				if vv, isEx2 := n.resolveAt(v).(*ssa.Extract); isEx2 && vv.Tuple == okv.Tuple && vv.Index == 0 && okv.Index == 1 {
					if _, isLookup := okv.Tuple.(*ssa.Lookup); isLookup {
						return true
					}
					if _, isTA := okv.Tuple.(*ssa.TypeAssert); isTA {
						return true
					}
				}
			}
		}
	}
	return false
}

// successFact: the companion result of call (error: == nil, bool: true) is
// known to signal success at block `at`.
func (n *nilAnalysis) successFact(call ssa.Value, at *ssa.BasicBlock) bool {
	return n.successFactIn(call, factsWithCreation(at))
}

func (n *nilAnalysis) successFactIn(call ssa.Value, facts []core.CondFact) bool {
	tup, ok := call.Type().(*types.Tuple)
	if !ok || tup.Len() < 2 {
		return false
	}
	last := tup.Len() - 1
	lt := tup.At(last).Type()
	// (for a closure, the facts that held where it was created count too: the
	// `if err != nil { return }` of the enclosing function precedes the closure)
	for _, f := range facts {
		if isErrorType(lt) {
			b, ok := f.Cond.(*ssa.BinOp)
			if !ok || (b.Op != token.EQL && b.Op != token.NEQ) {
				continue
			}
			var subj ssa.Value
			if core.IsNilConst(b.Y) {
				subj = b.X
			} else if core.IsNilConst(b.X) {
				subj = b.Y
			} else {
				continue
			}
			isNil := (b.Op == token.EQL) == f.Polarity
			if !isNil {
				continue
			}
			if ex, ok := n.resolveAt(subj).(*ssa.Extract); ok && ex.Tuple == call && ex.Index == last {
				return true
			}
		} else if isBoolType(lt) && f.Polarity {
			if ex, ok := n.resolveAt(f.Cond).(*ssa.Extract); ok && ex.Tuple == call && ex.Index == last {
				return true
			}
		} else if isStringType(lt) {
			b, ok := f.Cond.(*ssa.BinOp)
			if !ok || (b.Op != token.EQL && b.Op != token.NEQ) {
				continue
			}
			var subj ssa.Value
			if sv, isS := core.ConstString(b.Y); isS && sv == "" {
				subj = b.X
			} else if sv, isS := core.ConstString(b.X); isS && sv == "" {
				subj = b.Y
			} else {
				continue
			}
			if (b.Op == token.EQL) != f.Polarity {
				continue
			}
			if ex, ok := n.resolveAt(subj).(*ssa.Extract); ok && ex.Tuple == call && ex.Index == last {
				return true
			}
		}
	}
	return false
}

// ---- sources ----------------------------------------------------------------

// isOneofWrapper: protobuf-go oneof wrapper struct (has an "isXxx" marker method).
func isOneofWrapper(t types.Type) bool {
	nm := core.NamedOf(t)
	if nm == nil {
		return false
	}
	for i := 0; i < nm.NumMethods(); i++ {
		name := nm.Method(i).Name()
		if strings.HasPrefix(name, "is") && len(name) > 2 && unicode.IsUpper(rune(name[2])) {
			return true
		}
	}
	return false
}

func isProtoMessagePtr(t types.Type) bool {
	pt, ok := t.Underlying().(*types.Pointer)
	if !ok {
		return false
	}
	nm := core.NamedOf(pt.Elem())
	if nm == nil || nm.Obj().Pkg() == nil {
		return false
	}
	path := nm.Obj().Pkg().Path()
	if !(protoPkgs[path] || strings.HasPrefix(path, "google.golang.org/genproto") || strings.HasPrefix(path, "cloud.google.com/go/")) {
		return false
	}
	_, isStruct := nm.Underlying().(*types.Struct)
	return isStruct
}

const pkgStorageV1 = "google.golang.org/api/storage/v1"

// fieldSource: the loaded field is a pointer that a client can leave unset.
func fieldSource(ld *ssa.UnOp) (string, bool) {
	fa, ok := ld.X.(*ssa.FieldAddr)
	if !ok || !isPtr(ld.Type()) {
		return "", false
	}
	owner := core.NamedOf(fa.X.Type())
	if owner == nil || owner.Obj().Pkg() == nil {
		return "", false
	}
	_, fname, _ := core.FieldName(fa)
	path := owner.Obj().Pkg().Path()
	if path == pkgStorageV1 {
		// JSON-decoded request structs: any pointer field may be absent
		return owner.Obj().Name() + "." + fname, true
	}
	if protoPkgs[path] && isProtoMessagePtr(ld.Type()) && !isOneofWrapper(owner) {
		// plain singular message field (not inside a oneof wrapper)
		if f := owner.Underlying().(*types.Struct); f != nil {
			return owner.Obj().Name() + "." + fname, true
		}
	}
	return "", false
}

// decodedListField: sl is the value of a `[]*T` field of a JSON-decoded request struct
// (google.golang.org/api/storage/v1): encoding/json stores nil for a `null` element.
// Repeated protobuf fields are not sources: the wire decoder allocates every element.
func decodedListField(sl ssa.Value) (string, bool) {
	ld, ok := core.Strip(sl).(*ssa.UnOp)
	if !ok || ld.Op != token.MUL {
		return "", false
	}
	fa, ok := ld.X.(*ssa.FieldAddr)
	if !ok {
		return "", false
	}
	st, ok := ld.Type().Underlying().(*types.Slice)
	if !ok || !isPtr(st.Elem()) {
		return "", false
	}
	owner := core.NamedOf(fa.X.Type())
	if owner == nil || owner.Obj().Pkg() == nil || owner.Obj().Pkg().Path() != pkgStorageV1 {
		return "", false
	}
	_, fname, _ := core.FieldName(fa)
	return owner.Obj().Name() + "." + fname, true
}

// listElementsValidated: the element load `use` is only reached after a loop over the same list
// field of the same object that leaves (towards a failure) as soon as it meets a nil element —
// in the function of the use, in every caller, or in a validator whose success is established
// (`if err := req.validate(); err != nil { return }` … `for _, s := range req.Sources { s.Name }`).
func (n *nilAnalysis) listElementsValidated(use *ssa.UnOp, list ssa.Value) bool {
	ld, ok := core.Strip(list).(*ssa.UnOp)
	if !ok || ld.Op != token.MUL {
		return false
	}
	base, path := fieldPathOf(ld.X)
	if len(path) == 0 || base == nil {
		return false
	}
	return n.p.InAllContexts(use, []ssa.Value{n.resolveAt(base)}, nil, func(at ssa.Instruction, vals []ssa.Value) bool {
		return vals[0] != nil && n.listCheckedBefore(at, vals[0], path)
	})
}

func (n *nilAnalysis) listCheckedBefore(at ssa.Instruction, base ssa.Value, path []int) bool {
	fn := at.Parent()
	for _, b := range fn.Blocks {
		for _, in := range b.Instrs {
			ia, ok := in.(*ssa.IndexAddr)
			if !ok {
				continue
			}
			l2, ok := core.Strip(n.resolveAt(ia.X)).(*ssa.UnOp)
			if !ok || l2.Op != token.MUL {
				continue
			}
			b2, p2 := fieldPathOf(l2.X)
			if len(p2) == 0 || !samePath(p2, path) {
				continue
			}
			rb := n.resolveAt(b2)
			if rb != base && !n.same(rb, base) && core.Resolve(rb) != core.Resolve(base) {
				continue
			}
			loop := loopOf(ia.Block())
			if loop == nil || loop[at.Block()] {
				continue
			}
			h := loopHeaderOf(loop)
			if h == nil || !h.Dominates(at.Block()) {
				continue
			}
			// the element is compared with nil and the nil edge leaves the loop without coming back to `at`
			for _, r := range core.Referrers(ia) {
				el, ok := r.(*ssa.UnOp)
				if !ok || el.Op != token.MUL {
					continue
				}
				for _, rr := range core.Referrers(el) {
					bin, ok := rr.(*ssa.BinOp)
					if !ok || (bin.Op != token.EQL && bin.Op != token.NEQ) || !(core.IsNilConst(bin.X) || core.IsNilConst(bin.Y)) {
						continue
					}
					for _, br := range core.Referrers(bin) {
						ifi, ok := br.(*ssa.If)
						if !ok {
							continue
						}
						nilSucc := ifi.Block().Succs[0]
						if bin.Op == token.NEQ {
							nilSucc = ifi.Block().Succs[1]
						}
						if !loop[nilSucc] && nilSucc != at.Block() && !core.ReachableFrom(nilSucc, true)[at.Block()] {
							return true
						}
					}
				}
			}
		}
	}
	return false
}

// decodeTargets: cells whose address is handed to a JSON decoder.
func decodeTarget(cell *ssa.Alloc) bool {
	for _, f := range core.Family(core.Root(cell.Parent())) {
		for _, ci := range core.AllCalls(f) {
			name := ""
			if ci.Static != nil && ci.Static.Pkg != nil {
				name = ci.Static.Pkg.Pkg.Path() + "." + core.FuncName(ci.Static)
			}
			if name != "encoding/json.(*Decoder).Decode" && name != "encoding/json.Unmarshal" {
				continue
			}
			for _, a := range ci.Common.Args {
				if core.CellOf(core.Strip(a)) == cell {
					return true
				}
			}
		}
	}
	return false
}

// ---- the evaluator ----------------------------------------------------------

type nilEval struct {
	kind  nilKind
	raw   nilKind // ignoring guards at the use site
	label string  // where the possible nil comes from
}

func maxEval(a, b nilEval) nilEval {
	out := a
	if b.kind > out.kind {
		out.kind = b.kind
	}
	if b.raw > out.raw {
		out.raw = b.raw
		out.label = b.label
	}
	if out.label == "" {
		out.label = b.label
	}
	return out
}

// eval: may pointer value v be nil at block `at`?
func (n *nilAnalysis) eval(v ssa.Value, at *ssa.BasicBlock, seen map[ssa.Value]bool) nilEval {
	if !isPtr(v.Type()) {
		return nilEval{}
	}
	raw := n.evalRaw(v, at, seen)
	if raw.raw == nkNever {
		return raw
	}
	if n.nonNilFact(v, at) {
		raw.kind = nkNever
	}
	return raw
}

func (n *nilAnalysis) evalRaw(v ssa.Value, at *ssa.BasicBlock, seen map[ssa.Value]bool) nilEval {
	// A variable assigned exactly once, in another function of the family
	// (typically inside the critical-section closure): judge the value where it
	// is assigned, with the facts that hold there.
	if ld, ok := core.Strip(v).(*ssa.UnOp); ok && ld.Op == token.MUL {
		if cell := core.CellOf(ld.X); cell != nil && !core.AddressTaken(cell) {
			if sts := core.StoresTo(cell); len(sts) == 1 && sts[0].Parent() != ld.Parent() && !seen[sts[0].Val] {
				// assigned in an enclosing function before the closure that reads it was created:
				// the facts at the creation site (e.g. the `if err != nil { return }` after the
				// assignment) hold inside the closure
				if mc := creationIn(sts[0].Parent(), ld.Parent()); mc != nil && core.InstrDominates(sts[0], mc) {
					return n.eval(sts[0].Val, mc.Block(), seen)
				}
				return n.eval(sts[0].Val, sts[0].Block(), seen)
			}
		}
	}
	v = n.resolveAt(v)
	if seen[v] {
		return nilEval{}
	}
	seen[v] = true
	defer delete(seen, v)
	switch x := v.(type) {
	case *ssa.Const:
		if x.Value == nil {
			return nilEval{kind: nkMaybe, raw: nkMaybe, label: "nil constant"}
		}
	case *ssa.Phi:
		var out nilEval
		for i, e := range x.Edges {
			pred := x.Block().Preds[i]
			ev := n.evalEdge(e, pred, x.Block(), seen)
			out = maxEval(out, ev)
		}
		return out
	case *ssa.Extract:
		if call, ok := x.Tuple.(*ssa.Call); ok {
			return n.evalCall(call, x.Index, at)
		}
		if lk, ok := x.Tuple.(*ssa.Lookup); ok && x.Index == 0 && isPtr(x.Type()) {
			_ = lk
			return nilEval{kind: nkMaybe, raw: nkMaybe, label: "map lookup (absent key yields nil)"}
		}
	case *ssa.Call:
		return n.evalCall(x, 0, at)
	case *ssa.Lookup:
		if _, isMap := x.X.Type().Underlying().(*types.Map); isMap && !x.CommaOk {
			return nilEval{kind: nkMaybe, raw: nkMaybe, label: "map lookup (absent key yields nil)"}
		}
	case *ssa.UnOp:
		if x.Op != token.MUL {
			return nilEval{}
		}
		if lbl, ok := fieldSource(x); ok {
			if n.nilDefaulted(x) {
				return nilEval{kind: nkNever, raw: nkWithFail, label: "optional field " + lbl + " (defaulted when nil)"}
			}
			if n.fieldCheckedByProducer(x, at) || n.fieldRequiredByValidator(x, at) {
				return nilEval{kind: nkNever, raw: nkWithFail, label: "optional field " + lbl + " (required by the helper that produced the object)"}
			}
			return nilEval{kind: nkMaybe, raw: nkMaybe, label: "optional field " + lbl}
		}
		if ia, ok := x.X.(*ssa.IndexAddr); ok {
			// element of a list field of a JSON-decoded request struct: `[null]` decodes to a nil element
			if lbl, ok := decodedListField(n.resolveAt(ia.X)); ok {
				if n.listElementsValidated(x, n.resolveAt(ia.X)) {
					return nilEval{kind: nkNever, raw: nkWithFail, label: "element of JSON-decoded list " + lbl + " (every element was checked by a validating loop before this point)"}
				}
				return nilEval{kind: nkMaybe, raw: nkMaybe, label: "element of JSON-decoded list " + lbl + " (a `null` element decodes to nil)"}
			}
			// element of a locally built slice: union over everything appended to it
			return n.evalSliceElems(ia.X, seen)
		}
		if cell := core.CellOf(x.X); cell != nil {
			// unresolved load of a cell: union of everything ever stored
			var out nilEval
			for _, st := range core.StoresTo(cell) {
				ev := n.eval(st.Val, st.Block(), seen)
				out = maxEval(out, ev)
			}
			if decodeTarget(cell) {
				out = maxEval(out, nilEval{kind: nkMaybe, raw: nkMaybe, label: "JSON-decoded pointer (a body of `null` sets it to nil)"})
			}
			return out
		}
	}
	return nilEval{}
}

// evalEdge evaluates a phi operand with the facts that hold on that edge.
func (n *nilAnalysis) evalEdge(e ssa.Value, pred, succ *ssa.BasicBlock, seen map[ssa.Value]bool) nilEval {
	ev := n.evalRaw(e, pred, seen)
	if ev.raw == nkNever {
		return ev
	}
	if n.nonNilFactIn(e, edgeFacts(pred, succ)) {
		ev.kind = nkNever
	}
	// "nil only on failure", and the failure is excluded on this very edge (`if err != nil { return }` ends the block)
	if ev.raw == nkWithFail && ev.kind != nkNever {
		if ex, isEx := n.resolveAt(e).(*ssa.Extract); isEx {
			if call, isCall := ex.Tuple.(*ssa.Call); isCall && n.successFactIn(call, edgeFacts(pred, succ)) {
				ev.kind = nkNever
			}
		}
	}
	return ev
}

func (n *nilAnalysis) evalCall(call *ssa.Call, idx int, at *ssa.BasicBlock) nilEval {
	ci := core.Call(call)
	tg := n.targets(ci)
	if len(tg) == 0 {
		return nilEval{}
	}
	k := nkNever
	for _, t := range tg {
		if idx < len(n.ret[t]) && n.ret[t][idx] > k {
			k = n.ret[t][idx]
		}
	}
	lbl := "result of " + ci.CalleeName()
	switch k {
	case nkNever:
		return nilEval{}
	case nkWithFail:
		if n.successFact(call, at) {
			return nilEval{kind: nkNever, raw: nkWithFail, label: lbl + " (nil only on failure)"}
		}
		return nilEval{kind: nkMaybe, raw: nkWithFail, label: lbl + " (nil on failure, and the failure is not excluded here)"}
	}
	return nilEval{kind: nkMaybe, raw: nkMaybe, label: lbl + " (may be nil without an error: not found)"}
}

// ---- summaries ---------------------------------------------------------------

func (n *nilAnalysis) updateRet(fn *ssa.Function) bool {
	res := fn.Signature.Results()
	changed := false
	for i := 0; i < res.Len(); i++ {
		if !isPtr(res.At(i).Type()) {
			continue
		}
		k := nkNever
		for _, b := range fn.Blocks {
			if b == fn.Recover {
				continue // results after a recovered panic: not a normal return
			}
			for _, in := range b.Instrs {
				r, ok := in.(*ssa.Return)
				if !ok || i >= len(r.Results) {
					continue
				}
				for _, v := range returnValues(r.Results[i]) {
					ev := n.eval(v, r.Block(), map[ssa.Value]bool{})
					kk := ev.kind
					if kk == nkMaybe {
						// correlated with a failing companion in this very return?
						if n.failingCompanion(fn, r, v, i) {
							kk = nkWithFail
						}
					}
					if kk > k {
						k = kk
					}
				}
			}
		}
		if k > n.ret[fn][i] {
			n.ret[fn][i] = k
			changed = true
		}
	}
	return changed
}

// failingCompanion: in return r the last result signals failure (non-nil error
// or false), so a nil i-th result is "nil with failure".
func (n *nilAnalysis) failingCompanion(fn *ssa.Function, r *ssa.Return, v ssa.Value, i int) bool {
	last := len(r.Results) - 1
	if last == i || last < 0 {
		return false
	}
	lt := fn.Signature.Results().At(last).Type()
	for _, c := range returnValues(r.Results[last]) {
		c = n.resolveAt(c)
		switch {
		case isErrorType(lt):
			if core.IsNilConst(c) {
				return false
			}
			// the whole tuple of one call is passed through: keep the callee's correlation
			if ex, ok := c.(*ssa.Extract); ok {
				if vx, ok := n.resolveAt(v).(*ssa.Extract); ok && vx.Tuple == ex.Tuple {
					if call, ok := ex.Tuple.(*ssa.Call); ok {
						ci := core.Call(call)
						all := true
						for _, t := range n.targets(ci) {
							if vx.Index < len(n.ret[t]) && n.ret[t][vx.Index] == nkMaybe {
								all = false
							}
						}
						if all {
							continue
						}
						return false
					}
				}
				// an error variable: failing only if known non-nil here
				if !n.errNonNilAt(c, r.Block()) {
					return false
				}
				continue
			}
			if _, isCall := c.(*ssa.Call); isCall {
				continue // constructed error (fmt.Errorf, status.Errorf, fmtErrorfCode, …)
			}
			if _, isMI := c.(*ssa.MakeInterface); isMI {
				continue
			}
			if !n.errNonNilAt(c, r.Block()) {
				return false
			}
		case isBoolType(lt):
			// `return m[k]` / `v, ok := m[k]; return v, ok`: value and flag of one comma-ok lookup
			if ex, isEx := c.(*ssa.Extract); isEx && ex.Index == 1 {
				if vx, isVx := n.resolveAt(v).(*ssa.Extract); isVx && vx.Tuple == ex.Tuple && vx.Index == 0 {
					if _, isLk := ex.Tuple.(*ssa.Lookup); isLk {
						continue
					}
					if _, isTA := ex.Tuple.(*ssa.TypeAssert); isTA {
						continue
					}
				}
			}
			if bv, ok := core.ConstBool(c); !ok || bv {
				return false
			}
		case isStringType(lt):
			// "(value, problem string)": a non-empty description signals failure
			if sv, ok := core.ConstString(c); ok {
				if sv == "" {
					return false
				}
				continue
			}
			if _, isCall := c.(*ssa.Call); isCall {
				continue // formatted description
			}
			return false
		default:
			return false
		}
	}
	return true
}

func isStringType(t types.Type) bool {
	b, ok := t.Underlying().(*types.Basic)
	return ok && b.Kind() == types.String
}

func (n *nilAnalysis) errNonNilAt(e ssa.Value, at *ssa.BasicBlock) bool {
	for _, f := range core.FactsAt(at) {
		b, ok := f.Cond.(*ssa.BinOp)
		if !ok || (b.Op != token.EQL && b.Op != token.NEQ) {
			continue
		}
		var subj ssa.Value
		if core.IsNilConst(b.Y) {
			subj = b.X
		} else if core.IsNilConst(b.X) {
			subj = b.Y
		} else {
			continue
		}
		if (b.Op == token.NEQ) == f.Polarity && n.same(subj, e) {
			return true
		}
	}
	return false
}

// derefUse describes one dereference of a pointer value.
type derefUse struct {
	in   ssa.Instruction
	v    ssa.Value
	what string
}

// derefUsesIn lists the dereferences in fn: field/element access, load, store
// through a pointer, and passing a pointer to a callee that dereferences it
// without checking.
func (n *nilAnalysis) derefUsesIn(fn *ssa.Function) []derefUse {
	var out []derefUse
	for _, b := range fn.Blocks {
		for _, in := range b.Instrs {
			switch x := in.(type) {
			case *ssa.FieldAddr:
				if isPtr(x.X.Type()) {
					_, f, _ := core.FieldName(x)
					out = append(out, derefUse{in, x.X, "field " + f})
				}
			case *ssa.UnOp:
				if x.Op == token.MUL && isPtr(x.X.Type()) {
					// load through a pointer *value* (not a local cell / field address)
					switch x.X.(type) {
					case *ssa.Alloc, *ssa.FreeVar, *ssa.FieldAddr, *ssa.IndexAddr, *ssa.Global:
					default:
						out = append(out, derefUse{in, x.X, "load"})
					}
				}
			case *ssa.Store:
				switch x.Addr.(type) {
				case *ssa.Alloc, *ssa.FreeVar, *ssa.FieldAddr, *ssa.IndexAddr, *ssa.Global:
				default:
					if isPtr(x.Addr.Type()) {
						out = append(out, derefUse{in, x.Addr, "store"})
					}
				}
			case ssa.CallInstruction:
				ci := core.Call(x)
				tg := n.targets(ci)
				if len(tg) == 0 {
					continue
				}
				args := ci.Common.Args
				for ai, a := range args {
					if !isPtr(a.Type()) {
						continue
					}
					pi := ai
					if ci.Common.IsInvoke() {
						pi = ai + 1 // receiver occupies parameter 0 of the implementations
					}
					for _, t := range tg {
						if pi < len(n.derefs[t]) && n.derefs[t][pi] {
							out = append(out, derefUse{in, a, "argument of " + ci.CalleeName() + ", which dereferences it unconditionally"})
							break
						}
					}
				}
			}
		}
	}
	return out
}

func (n *nilAnalysis) updateDerefs(fn *ssa.Function) bool {
	changed := false
	uses := n.derefUsesIn(fn)
	for pi, p := range fn.Params {
		if n.derefs[fn][pi] || !isPtr(p.Type()) {
			continue
		}
		for _, u := range uses {
			if !n.isParam(u.v, p) {
				continue
			}
			if n.nonNilFact(u.v, u.in.Block()) {
				continue
			}
			n.derefs[fn][pi] = true
			changed = true
			break
		}
	}
	return changed
}

func (n *nilAnalysis) isParam(v ssa.Value, p *ssa.Parameter) bool {
	return n.resolveAt(v) == ssa.Value(p)
}

// ---- the rule ----------------------------------------------------------------

func R16(floor int, pkgs ...string) Rule {
	return Rule{Name: "R16", Run: func(c *core.Ctx) {
		n := nilness(c.P)
		inPkgs := map[string]bool{}
		for _, p := range pkgs {
			inPkgs[p] = true
		}
		total := 0
		for _, fn := range n.all {
			if !inPkgs[core.Root(fn).Pkg.Pkg.Path()] {
				continue
			}
			cnt := map[string]int{}
			for _, u := range n.derefUsesIn(fn) {
				ev := n.eval(u.v, u.in.Block(), map[ssa.Value]bool{})
				if ev.raw == nkNever {
					continue // not a maybe-nil source
				}
				total++
				fname := core.FuncName(fn)
				c.Fn(fname)
				src := shortLabel(ev.label)
				base := fmt.Sprintf("%s/%s/%s", fname, src, strings.SplitN(u.what, ",", 2)[0])
				cnt[base]++
				construct := base
				if cnt[base] > 1 {
					construct = fmt.Sprintf("%s#%d", base, cnt[base])
				}
				if ev.kind == nkNever {
					c.Ok("R16", construct, u.in.Pos(), true, "%s: guarded by a dominating nil/success check on the same value", ev.label)
				} else {
					c.Bad("R16", construct, u.in.Pos(), "%s is dereferenced here (%s) without a nil check on this path: the request panics", ev.label, u.what)
				}
			}
		}
		if total < floor {
			c.Unknown("R16", "floor/sites", token.NoPos, "only %d dereferences of maybe-nil values found; %d were confirmed by hand", total, floor)
		}
		// summaries as information
		var names []string
		for _, fn := range n.all {
			if !inPkgs[core.Root(fn).Pkg.Pkg.Path()] {
				continue
			}
			for i, k := range n.ret[fn] {
				if k != nkNever {
					names = append(names, fmt.Sprintf("%s#%d=%d", core.FuncName(fn), i, k))
				}
			}
		}
		sort.Strings(names)
		c.Notes = append(c.Notes, "R16 maybe-nil results (1 = nil only with failure, 2 = nil without error): "+strings.Join(names, " "))
	}}
}

func shortLabel(l string) string {
	if i := strings.Index(l, " ("); i >= 0 {
		l = l[:i]
	}
	return strings.ReplaceAll(l, " ", "-")
}

// evalSliceElems: may an element of the slice held in a local variable be nil?
// Looks at every append whose result is stored into the same variable.
func (n *nilAnalysis) evalSliceElems(sl ssa.Value, seen map[ssa.Value]bool) nilEval {
	var cell *ssa.Alloc
	if ld, ok := core.Strip(sl).(*ssa.UnOp); ok && ld.Op == token.MUL {
		cell = core.CellOf(ld.X)
	}
	var appends []*ssa.Call
	collect := func(v ssa.Value) {
		if call, ok := core.Strip(v).(*ssa.Call); ok {
			if b, ok := call.Call.Value.(*ssa.Builtin); ok && b.Name() == "append" {
				appends = append(appends, call)
			}
		}
	}
	if cell != nil {
		for _, st := range core.StoresTo(cell) {
			collect(st.Val)
		}
	} else {
		// SSA-register slice variable: follow phis
		var walk func(v ssa.Value, d int)
		visited := map[ssa.Value]bool{}
		walk = func(v ssa.Value, d int) {
			if d > 8 || visited[v] {
				return
			}
			visited[v] = true
			switch x := v.(type) {
			case *ssa.Phi:
				for _, e := range x.Edges {
					walk(e, d+1)
				}
			case *ssa.Call:
				if b, ok := x.Call.Value.(*ssa.Builtin); ok && b.Name() == "append" {
					appends = append(appends, x)
					walk(x.Call.Args[0], d+1)
				}
			}
		}
		walk(core.Strip(sl), 0)
	}
	var out nilEval
	for _, ap := range appends {
		if len(ap.Call.Args) < 2 {
			continue
		}
		// variadic elements: slice of a fresh array literal
		if s2, ok := ap.Call.Args[1].(*ssa.Slice); ok {
			if arr, ok := s2.X.(*ssa.Alloc); ok {
				for _, r := range core.Referrers(arr) {
					if ia, ok := r.(*ssa.IndexAddr); ok {
						for _, rr := range core.Referrers(ia) {
							if st, ok := rr.(*ssa.Store); ok && st.Addr == ia {
								ev := n.eval(st.Val, st.Block(), seen)
								if ev.raw != nkNever {
									ev.label = "slice element: " + ev.label
								}
								out = maxEval(out, ev)
							}
						}
					}
				}
			}
		}
	}
	return out
}

// fieldCheckedByProducer: ld loads field F of an object that is the result of an
// in-repo helper call whose success is established here, and that helper
// returns success only after finding F non-nil ("parse the request, reject it
// when a required part is missing, hand the object to the handler").
func (n *nilAnalysis) fieldCheckedByProducer(ld *ssa.UnOp, at *ssa.BasicBlock) bool {
	fa, ok := ld.X.(*ssa.FieldAddr)
	if !ok {
		return false
	}
	ex, ok := n.resolveAt(fa.X).(*ssa.Extract)
	if !ok {
		return false
	}
	call, ok := ex.Tuple.(*ssa.Call)
	if !ok || !n.successFact(call, at) {
		return false
	}
	callee := call.Call.StaticCallee()
	if callee == nil || callee.Blocks == nil {
		return false
	}
	if _, known := n.ret[callee]; !known {
		return false
	}
	last := callee.Signature.Results().Len() - 1
	nSuccess := 0
	for _, r := range returnsIn(callee) {
		if ex.Index >= len(r.Results) || last < 0 {
			return false
		}
		success := false
		for _, ev := range returnValues(r.Results[last]) {
			ev = n.resolveAt(ev)
			if isErrorType(ev.Type()) && core.IsNilConst(ev) {
				success = true
			} else if bv, isB := core.ConstBool(ev); isB && bv {
				success = true
			} else if _, isConst := ev.(*ssa.Const); !isConst && !isErrorType(callee.Signature.Results().At(last).Type()) {
				success = true // not a recognised failure indicator: assume the return may be a success
			}
		}
		if !success {
			continue
		}
		nSuccess++
		obj := r.Results[ex.Index]
		// some load of the same field of the returned object is known non-nil at this return
		found := false
		for _, b := range callee.Blocks {
			for _, in := range b.Instrs {
				l2, isLd := in.(*ssa.UnOp)
				if !isLd || l2.Op != token.MUL {
					continue
				}
				fa2, isFa := l2.X.(*ssa.FieldAddr)
				if !isFa || fa2.Field != fa.Field || !types.Identical(fa2.X.Type(), fa.X.Type()) {
					continue
				}
				if !n.same(fa2.X, obj) && core.Resolve(fa2.X) != core.Resolve(obj) {
					continue
				}
				if n.nonNilFactIn(l2, core.FactsAt(r.Block())) {
					found = true
				}
			}
		}
		if !found {
			return false
		}
	}
	return nSuccess > 0
}

// fieldPathOf splits the address of a (possibly nested: x.body.Destination) struct field into the
// pointer it starts from and the field indexes from there.
func fieldPathOf(addr ssa.Value) (base ssa.Value, path []int) {
	for {
		fa, ok := addr.(*ssa.FieldAddr)
		if !ok {
			return addr, path
		}
		path = append([]int{fa.Field}, path...)
		addr = fa.X
	}
}

func samePath(a, b []int) bool {
	if len(a) != len(b) {
		return false
	}
	for i := range a {
		if a[i] != b[i] {
			return false
		}
	}
	return true
}

// fieldRequiredByValidator: ld loads an optional field (path) of an object, and the load is only
// reached after an in-repository function that was handed the object — or that produced it —
// returned its success constant, every success return of which knows the field non-nil:
// directly (a dominating `x.F != nil`), or through another such function (parse → validate).
func (n *nilAnalysis) fieldRequiredByValidator(ld *ssa.UnOp, at *ssa.BasicBlock) bool {
	base, path := fieldPathOf(ld.X)
	if len(path) == 0 {
		return false
	}
	return n.fieldEstablished(n.resolveAt(base), path, factsWithCreation(at), ld.Parent(), 0)
}

func (n *nilAnalysis) fieldEstablished(base ssa.Value, path []int, facts []core.CondFact, fn *ssa.Function, depth int) bool {
	if depth > 4 || base == nil {
		return false
	}
	// directly: some load of the same field of the same object is known non-nil
	for _, b := range fn.Blocks {
		for _, in := range b.Instrs {
			l2, isLd := in.(*ssa.UnOp)
			if !isLd || l2.Op != token.MUL {
				continue
			}
			b2, p2 := fieldPathOf(l2.X)
			if len(p2) == 0 || !samePath(p2, path) {
				continue
			}
			rb := n.resolveAt(b2)
			if rb != base && !n.same(rb, base) && core.Resolve(rb) != core.Resolve(base) {
				continue
			}
			if n.nonNilFactIn(l2, facts) {
				return true
			}
		}
	}
	// through a function whose success is established here
	for _, pc := range n.p.PassedValidatorsIn(facts) {
		g := pc.Call.Call.StaticCallee()
		rets := pc.SuccessReturns()
		if len(rets) == 0 {
			continue
		}
		// the object was an argument …
		for i, a := range pc.Call.Call.Args {
			if i >= len(g.Params) {
				break
			}
			ra := n.resolveAt(a)
			if ra != base && !n.same(ra, base) && core.Resolve(ra) != core.Resolve(base) {
				continue
			}
			all := true
			for _, r := range rets {
				if !n.fieldEstablished(g.Params[i], path, core.FactsAt(r.Block()), g, depth+1) {
					all = false
					break
				}
			}
			if all {
				return true
			}
		}
		// … or a result
		if ex, isEx := base.(*ssa.Extract); isEx && ex.Tuple == ssa.Value(pc.Call) {
			all := true
			for _, ri := range rets {
				r := ri.(*ssa.Return)
				if ex.Index >= len(r.Results) || !n.fieldEstablished(n.resolveAt(r.Results[ex.Index]), path, core.FactsAt(r.Block()), g, depth+1) {
					all = false
					break
				}
			}
			if all {
				return true
			}
		}
	}
	return false
}

// nilDefaulted recognises the idiom
//
//	if x.F == nil { x.F = &T{} }
//	... x.F.G ...
//
// for a field load: an If testing a load of the same field against nil
// dominates the load, and its nil branch consists of a block that stores a
// fresh allocation into that field before rejoining.
func (n *nilAnalysis) nilDefaulted(ld *ssa.UnOp) bool {
	key := fieldLoadKey(ld)
	if key == "" {
		return false
	}
	fn := ld.Parent()
	for _, b := range fn.Blocks {
		ifi, ok := b.Instrs[len(b.Instrs)-1].(*ssa.If)
		if !ok || !b.Dominates(ld.Block()) || b == ld.Block() {
			continue
		}
		bin, ok := ifi.Cond.(*ssa.BinOp)
		if !ok || (bin.Op != token.EQL && bin.Op != token.NEQ) {
			continue
		}
		var subj ssa.Value
		if core.IsNilConst(bin.Y) {
			subj = bin.X
		} else if core.IsNilConst(bin.X) {
			subj = bin.Y
		} else {
			continue
		}
		if fieldLoadKey(core.Resolve(subj)) != key {
			continue
		}
		nilIdx := 0
		if bin.Op == token.NEQ {
			nilIdx = 1
		}
		nb := b.Succs[nilIdx]
		if len(nb.Preds) != 1 {
			continue
		}
		stored := false
		for _, in := range nb.Instrs {
			if st, ok := in.(*ssa.Store); ok {
				if fa, ok := st.Addr.(*ssa.FieldAddr); ok {
					probe := &ssa.UnOp{Op: token.MUL, X: fa}
					if fieldLoadKey(probe) == key {
						if _, fresh := core.Resolve(st.Val).(*ssa.Alloc); fresh {
							stored = true
						}
					}
				}
			}
		}
		if stored {
			return true
		}
	}
	return false
}
