package rules

import (
	"fmt"
	"go/token"
	"strings"

	"golang.org/x/tools/go/ssa"

	"verif/internal/core"
)

// scopeCallsTo lists the calls to pkg.name made anywhere in the given functions.
func scopeCallsTo(fns []*ssa.Function, pkg, name string) []*ssa.Call {
	var out []*ssa.Call
	for _, f := range fns {
		out = append(out, callsTo(f, pkg, name)...)
	}
	return out
}

func setOf(fns []*ssa.Function) map[*ssa.Function]bool {
	m := map[*ssa.Function]bool{}
	for _, f := range fns {
		m[f] = true
	}
	return m
}

// isLiveFamiliesAnywhere: every origin of v (followed through helper
// parameters) is the table's live column-family map.
func isLiveFamiliesAnywhere(P *core.Program, v ssa.Value) bool {
	return P.AllOrigins(v, nil, isLiveFamilies)
}

// dominatingIfs calls visit for every If whose block dominates `at` (in at's function).
func dominatingIfs(at ssa.Instruction, visit func(ifi *ssa.If, cond ssa.Value)) {
	for b := at.Block(); b != nil; b = b.Idom() {
		if b == at.Block() {
			continue
		}
		if ifi, ok := b.Instrs[len(b.Instrs)-1].(*ssa.If); ok {
			cond := core.Resolve(ifi.Cond)
			if u, ok := cond.(*ssa.UnOp); ok && u.Op == token.NOT {
				cond = core.Resolve(u.X)
			}
			visit(ifi, cond)
		}
	}
}

// mutationSwitchFunc finds, among fns, the function holding the type switch over
// the mutation oneof (≥ min comma-ok assertions on a value of the oneof's interface type).
func mutationSwitchFunc(fns []*ssa.Function, min int) (*ssa.Function, []*ssa.TypeAssert) {
	var best *ssa.Function
	var bestTas []*ssa.TypeAssert
	for _, f := range fns {
		var tas []*ssa.TypeAssert
		for _, b := range f.Blocks {
			for _, in := range b.Instrs {
				if ta, ok := in.(*ssa.TypeAssert); ok && ta.CommaOk {
					if n := core.NamedOf(ta.X.Type()); n != nil && n.Obj().Name() == "isMutation_Mutation" {
						tas = append(tas, ta)
					}
				}
			}
		}
		if len(tas) >= min && len(tas) > len(bestTas) {
			best, bestTas = f, tas
		}
	}
	return best, bestTas
}

// tableOrHelperOf: root is in the table, or it is a private helper all of whose
// uses lie (transitively) in tabled functions.  Returns the table's reason.
func tableOrHelperOf(P *core.Program, root *ssa.Function, table map[string]string) (string, bool) {
	visiting := map[*ssa.Function]bool{}
	var rec func(f *ssa.Function) (string, bool)
	rec = func(f *ssa.Function) (string, bool) {
		if why, ok := table[core.FuncName(f)]; ok {
			return why, true
		}
		if visiting[f] {
			return "", false
		}
		if obj := f.Object(); obj != nil && obj.Exported() {
			return "", false // exported: callable from outside the table
		}
		visiting[f] = true
		defer delete(visiting, f)
		refs := P.Refs(f)
		if len(refs) == 0 {
			return "", false
		}
		why := ""
		for _, r := range refs {
			w, ok := rec(core.Root(r.Instr.Parent()))
			if !ok {
				return "", false
			}
			why = "helper used only by: " + strings.TrimPrefix(w, "helper used only by: ")
		}
		return why, true
	}
	return rec(root)
}

// location identifies where a value is kept between statements: a local
// variable cell (possibly captured), or a struct field (by type and field name —
// the state of a scan kept in a small struct instead of captured locals).
func locationOf(addr ssa.Value) string {
	switch a := addr.(type) {
	case *ssa.Alloc, *ssa.FreeVar:
		if cell := core.CellOf(a); cell != nil {
			return fmt.Sprintf("cell@%p", cell)
		}
	case *ssa.FieldAddr:
		if sn, fn, ok := core.FieldName(a); ok && sn != "" {
			return "field:" + sn + "." + fn
		}
	}
	return ""
}

// loadedLocation: v is a load; returns the location it reads.
func loadedLocation(v ssa.Value) string {
	if ld, ok := core.Strip(v).(*ssa.UnOp); ok && ld.Op == token.MUL {
		return locationOf(ld.X)
	}
	return ""
}

// storesToLocation lists every store to the location in the given package.
func storesToLocation(P *core.Program, pkg, loc string) []*ssa.Store {
	var out []*ssa.Store
	for _, f := range P.SrcFuncs(pkg) {
		for _, b := range f.Blocks {
			for _, in := range b.Instrs {
				if st, ok := in.(*ssa.Store); ok && locationOf(st.Addr) == loc {
					out = append(out, st)
				}
			}
		}
	}
	return out
}

// provenanceAll walks v backwards through φs, helper parameters (all callers),
// closure bindings and variables / struct fields that hold it (all assignments)
// and reports whether every source satisfies leaf.  leaf returns (decided, ok);
// an undecided value that cannot be followed further counts as not ok.
func provenanceAll(P *core.Program, pkg string, v ssa.Value, leaf func(ssa.Value) (bool, bool)) bool {
	seen := map[ssa.Value]bool{}
	seenLoc := map[string]bool{}
	var walk func(v ssa.Value, depth int) bool
	walk = func(v ssa.Value, depth int) bool {
		v = core.Resolve(v)
		if depth > 14 {
			return false
		}
		if seen[v] {
			return true
		}
		seen[v] = true
		if decided, ok := leaf(v); decided {
			return ok
		}
		switch x := v.(type) {
		case *ssa.Phi:
			for _, e := range x.Edges {
				if !walk(e, depth+1) {
					return false
				}
			}
			return true
		case *ssa.Parameter:
			refs := P.Refs(x.Parent())
			if len(refs) == 0 {
				return false
			}
			for _, r := range refs {
				t := core.Translate(x, x.Parent(), r)
				if t == nil || !walk(t, depth+1) {
					return false
				}
			}
			return true
		case *ssa.FreeVar:
			for _, r := range P.Refs(x.Parent()) {
				if t := core.Translate(x, x.Parent(), r); t != nil {
					return walk(t, depth+1)
				}
			}
			return false
		case *ssa.UnOp:
			if x.Op != token.MUL {
				return false
			}
			loc := locationOf(x.X)
			if loc == "" {
				return false
			}
			if seenLoc[loc] {
				return true
			}
			seenLoc[loc] = true
			sts := storesToLocation(P, pkg, loc)
			if len(sts) == 0 {
				return false
			}
			for _, st := range sts {
				if !walk(st.Val, depth+1) {
					return false
				}
			}
			return true
		}
		return false
	}
	return walk(v, 0)
}

// inputOf: v is one of fn's inputs — a parameter, or a field of a parameter struct (a request
// struct replacing a long parameter list: `req.contents`), by value or through a pointer.
// It returns the parameter and the field name ("" for the parameter itself).
func inputOf(fn *ssa.Function, v ssa.Value) (*ssa.Parameter, string, bool) {
	v = core.Resolve(v)
	if pa, isP := v.(*ssa.Parameter); isP {
		return pa, "", pa.Parent() == fn
	}
	var base ssa.Value
	field := ""
	switch x := v.(type) {
	case *ssa.Field:
		_, field, _ = core.FieldName(x)
		base = x.X
	case *ssa.UnOp:
		if fa, isFa := x.X.(*ssa.FieldAddr); isFa && x.Op == token.MUL {
			_, field, _ = core.FieldName(fa)
			base = fa.X
		}
	}
	for i := 0; i < 4 && base != nil; i++ {
		base = core.Resolve(base)
		switch b := base.(type) {
		case *ssa.Parameter:
			return b, field, b.Parent() == fn
		case *ssa.UnOp:
			if b.Op == token.MUL {
				base = b.X
				continue
			}
		case *ssa.Alloc:
			// a by-value struct parameter spilled to a local cell
			if sts := core.StoresTo(b); len(sts) == 1 {
				base = sts[0].Val
				continue
			}
		}
		break
	}
	return nil, "", false
}

// funcOr returns the first of the named functions that exists with a body: an anchor that was
// inlined into its only caller is looked for there (`finishCompose`, else `handleGcsCompose`).
func funcOr(P *core.Program, pkg string, names ...string) *ssa.Function {
	for _, n := range names {
		if f := P.Func(pkg, n); f != nil && f.Blocks != nil {
			return f
		}
	}
	return P.MustFunc(pkg, names[0])
}
