package rules

import (
	"fmt"
	"go/token"
	"go/types"
	"sort"

	"golang.org/x/tools/go/ssa"

	"verif/internal/core"
)

// errNilEdge reports whether `at` is dominated by the edge on which the error
// value errv is known to be nil.
func errNilEdge(errv ssa.Value, at *ssa.BasicBlock) bool {
	for _, f := range core.FactsAt(at) {
		b, ok := f.Cond.(*ssa.BinOp)
		if !ok {
			continue
		}
		var other ssa.Value
		if core.SameValue(b.X, errv) {
			other = b.Y
		} else if core.SameValue(b.Y, errv) {
			other = b.X
		} else {
			continue
		}
		if !core.IsNilConst(other) {
			continue
		}
		if (b.Op == token.NEQ && !f.Polarity) || (b.Op == token.EQL && f.Polarity) {
			return true
		}
	}
	return false
}

// sameRow: two row values have a common concrete source (reader call or
// fresh allocation).
func sameRow(p *core.Program, a, b ssa.Value) bool {
	sa := rowSources(p, a, map[ssa.Value]bool{})
	sb := rowSources(p, b, map[ssa.Value]bool{})
	for _, x := range sa {
		for _, y := range sb {
			if x.kind == y.kind {
				switch x.kind {
				case srcReader:
					if x.instr == y.instr {
						return true
					}
				case srcFresh, srcParam, srcCallback, srcLoopCarried:
					if x.val == y.val {
						return true
					}
				}
			}
		}
	}
	return false
}

// R06: a row that went through the mutation applier is written to the store
// only on the path where the applier returned nil.
func R06() Rule {
	return Rule{Name: "R06", Run: func(c *core.Ctx) {
		applier := c.P.MustFunc(core.PkgBttest, "applyMutations")
		writers, _ := rowWriters(c.P)
		type site struct {
			fn   *ssa.Function
			call *ssa.Call
		}
		var sites []site
		for _, fn := range c.P.SrcFuncs(core.PkgBttest) {
			for _, ci := range core.AllCalls(fn) {
				if ci.Static == applier {
					if call, ok := ci.Instr.(*ssa.Call); ok {
						sites = append(sites, site{fn, call})
					}
				}
			}
		}
		sort.Slice(sites, func(i, j int) bool { return sites[i].call.Pos() < sites[j].call.Pos() })
		cnt := map[string]int{}
		pairs := 0
		for _, s := range sites {
			fname := core.FuncName(s.fn)
			c.Fn(fname)
			rowArg := s.call.Call.Args[1]
			matched := 0
			for _, w := range writers {
				if w.fn != s.fn || w.isKey {
					continue
				}
				if !sameRow(c.P, rowArg, w.row) {
					continue
				}
				if !core.InstrReaches(s.call, w.call.Instr) {
					continue
				}
				matched++
				pairs++
				base := fmt.Sprintf("%s/applyMutations->%s", fname, w.what)
				cnt[base]++
				construct := fmt.Sprintf("%s#%d", base, cnt[base])
				if errNilEdge(s.call, w.call.Instr.Block()) {
					c.Ok("R06", construct, w.call.Instr.Pos(), true, "store is dominated by the err==nil edge of the applier call at %s", c.P.Pos(s.call.Pos()))
				} else {
					c.Bad("R06", construct, w.call.Instr.Pos(), "row mutated by applyMutations (%s) is stored even on the path where the applier failed part-way: a rejected request leaves a half-applied row", c.P.Pos(s.call.Pos()))
				}
			}
			if matched == 0 {
				c.Infof("R06", fname+"/applyMutations-without-store", s.call.Pos(), "applier result never stored in this function")
			}
		}
		if pairs < 1 {
			c.Unknown("R06", "floor/applier-writer-pairs", token.NoPos, "only %d applier→writer pairs found (MutateRow, MutateRows, CheckAndMutateRow were confirmed by hand)", pairs)
		}
	}}
}

// ---- R07 ------------------------------------------------------------------

// isErrorReturn reports whether ret returns a non-nil application error.  The
// second result says whether the error is the result of a stream send
// (transport failure — not an application error).
func isErrorReturn(ret *ssa.Return) (isErr bool, transport bool) {
	if len(ret.Results) == 0 {
		return false, false
	}
	last := ret.Results[len(ret.Results)-1]
	if !types.Identical(last.Type(), types.Universe.Lookup("error").Type()) {
		return false, false
	}
	return classifyErr(last, map[ssa.Value]bool{})
}

func classifyErr(v ssa.Value, seen map[ssa.Value]bool) (isErr, transport bool) {
	v = core.Resolve(v)
	if seen[v] {
		return false, false
	}
	seen[v] = true
	if core.IsNilConst(v) {
		return false, false
	}
	switch x := v.(type) {
	case *ssa.Phi:
		anyErr, allTransport := false, true
		for _, e := range x.Edges {
			ie, tr := classifyErr(e, seen)
			if ie {
				anyErr = true
				if !tr {
					allTransport = false
				}
			}
		}
		return anyErr, anyErr && allTransport
	case *ssa.Call:
		ci := core.Call(x)
		if ci.Method != nil && (ci.Method.Name() == "Send" || ci.Method.Name() == "SendMsg") {
			return true, true
		}
		return true, false
	case *ssa.UnOp:
		if x.Op == token.MUL {
			if cell := core.CellOf(x.X); cell != nil {
				anyErr, allTransport := false, true
				stores := core.ReachingStores(x)
				if stores == nil {
					stores = core.StoresTo(cell)
				}
				for _, st := range stores {
					ie, tr := classifyErr(st.Val, seen)
					if ie {
						anyErr = true
						if !tr {
							allTransport = false
						}
					}
				}
				return anyErr, anyErr && allTransport
			}
		}
	}
	return true, false
}

// mutationInstrs: instructions of fn (family) that change shared table state:
// write accesses found by the guarded-by analysis plus calls that transitively
// perform one.
func mutationInstrs(p *core.Program, fn *ssa.Function) []ssa.Instruction {
	gr := Guarded(p)
	writes := map[*ssa.Function]bool{}
	direct := map[ssa.Instruction]string{}
	for _, a := range gr.accesses {
		if a.need == mW {
			writes[a.fn] = true
			direct[a.instr] = a.what + " of " + a.spec.typ + "." + a.spec.field
		}
	}
	la := Locks(p)
	all := p.SrcFuncs(core.PkgBttest)
	for changed := true; changed; {
		changed = false
		for _, f := range all {
			if writes[f] {
				continue
			}
			for _, ci := range core.AllCalls(f) {
				if _, isGo := ci.Instr.(*ssa.Go); isGo {
					continue
				}
				for _, callee := range la.calleesOf(ci) {
					if writes[callee] && !writes[f] {
						writes[f] = true
						changed = true
					}
				}
			}
		}
	}
	var out []ssa.Instruction
	for _, b := range fn.Blocks {
		for _, in := range b.Instrs {
			if _, ok := direct[in]; ok {
				out = append(out, in)
				continue
			}
			if ci := core.Call(in); ci != nil {
				if _, isGo := in.(*ssa.Go); isGo {
					continue
				}
				for _, callee := range la.calleesOf(ci) {
					if writes[callee] {
						out = append(out, in)
						break
					}
				}
			}
		}
	}
	return out
}

// atomicCall: m is a call of an in-package helper whose last result is an error and inside
// which no mutation of shared state can be followed by an application-error return
// (checked recursively): the helper either fails or mutates.
func atomicCall(p *core.Program, m ssa.Instruction, depth int) bool {
	ci := core.Call(m)
	if ci == nil || ci.Static == nil || ci.Static.Blocks == nil || depth > 3 || !lastResultIsErrorType(ci.Static) {
		return false
	}
	h := ci.Static
	for _, hm := range mutationInstrs(p, h) {
		hAtomic := atomicCall(p, hm, depth+1)
		for _, r := range returnsIn(h) {
			if ie, tr := isErrorReturn(r); !ie || tr {
				continue
			}
			if core.InstrReaches(hm, r) && !(hAtomic && errNonNilEdge(hm, r.Block())) {
				return false
			}
		}
	}
	return true
}

// errNonNilEdge: block `at` is only entered when the error result of call m was non-nil.
func errNonNilEdge(m ssa.Instruction, at *ssa.BasicBlock) bool {
	call, ok := m.(*ssa.Call)
	if !ok {
		return false
	}
	var errv []ssa.Value
	if call.Call.Signature().Results().Len() == 1 {
		errv = append(errv, call)
	} else {
		last := call.Call.Signature().Results().Len() - 1
		for _, r := range core.Referrers(call) {
			if ex, isEx := r.(*ssa.Extract); isEx && ex.Index == last {
				errv = append(errv, ex)
			}
		}
	}
	for _, f := range core.FactsAt(at) {
		b, isBin := f.Cond.(*ssa.BinOp)
		if !isBin {
			continue
		}
		for _, ev := range errv {
			var other ssa.Value
			if core.SameValue(b.X, ev) || core.Resolve(b.X) == ev {
				other = b.Y
			} else if core.SameValue(b.Y, ev) || core.Resolve(b.Y) == ev {
				other = b.X
			} else {
				continue
			}
			if core.IsNilConst(other) && ((b.Op == token.NEQ && f.Polarity) || (b.Op == token.EQL && !f.Polarity)) {
				return true
			}
		}
	}
	return false
}

// R07: no mutation of shared state on a path that ends in an application-error
// return (validate everything, then apply).
func R07() Rule {
	return Rule{Name: "R07", Run: func(c *core.Ctx) {
		n := 0
		for _, fn := range c.P.SrcFuncs(core.PkgBttest) {
			if fn.Parent() != nil || fn.Signature.Recv() == nil || !core.TypeIs(fn.Signature.Recv().Type(), core.PkgBttest, "server") {
				continue
			}
			muts := mutationInstrs(c.P, fn)
			if len(muts) == 0 {
				continue
			}
			fname := core.FuncName(fn)
			c.Fn(fname)
			var errRets []*ssa.Return
			for _, b := range fn.Blocks {
				for _, in := range b.Instrs {
					if r, ok := in.(*ssa.Return); ok {
						if ie, tr := isErrorReturn(r); ie && !tr {
							errRets = append(errRets, r)
						}
					}
				}
			}
			for i, m := range muts {
				n++
				construct := fmt.Sprintf("%s/mutation#%d", fname, i+1)
				var bad *ssa.Return
				atomic := atomicCall(c.P, m, 0)
				for _, r := range errRets {
					if core.InstrReaches(m, r) {
						// a helper that mutates only after its last failure point (`w.commit(muts) error`): when it
						// reports an error nothing was changed, so the caller's return of that error is not "after"
						if atomic && errNonNilEdge(m, r.Block()) {
							continue
						}
						bad = r
						break
					}
				}
				if bad != nil {
					c.Bad("R07", construct, m.Pos(), "shared state is mutated here and an application-error return is still reachable afterwards (%s): a request that is rejected leaves part of itself applied", c.P.Pos(bad.Pos()))
				} else {
					c.Ok("R07", construct, m.Pos(), true, "no application-error return is reachable after this mutation (%d error returns checked)", len(errRets))
				}
			}
		}
		if n < 4 {
			c.Unknown("R07", "floor/mutations", token.NoPos, "only %d mutation sites found in *server methods", n)
		}
	}}
}
