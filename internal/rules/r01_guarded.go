package rules

import (
	"fmt"
	"go/token"
	"go/types"
	"sort"
	"strings"

	"golang.org/x/tools/go/ssa"

	"verif/internal/core"
)

// guard kinds
const (
	gkMap    = iota // a map field: lookups/ranges read, updates/deletes write
	gkRows          // bttest.Rows interface field: mode by method
	gkBtree         // *btree.BTree field: mode by method
	gkDefPtr        // pointer to a message whose whole object graph is guarded
	gkScalar        // plain field: load reads, store writes
)

type guardSpec struct {
	pkg, typ, field string
	lock            string // "pkgname.Type.field" of the mutex
	kind            int
}

// The frozen guarded-by table (DESIGN §4 R01).  Resolved through go/types:
// a FieldAddr/Field whose struct is pkg.typ and whose field is `field`.
var guardTable = []guardSpec{
	{core.PkgBttest, "server", "tables", "bttest.server.mu", gkMap},
	{core.PkgBttest, "table", "def", "bttest.table.mu", gkDefPtr},
	{core.PkgBttest, "table", "rows", "bttest.table.mu", gkRows},
	{core.PkgGcsemu, "memstore", "buckets", "gcsemu.memstore.mu", gkMap},
	{core.PkgGcsemu, "memBucket", "files", "gcsemu.memBucket.mu", gkBtree},
	{core.PkgGcsutil, "TransientLockMap", "locks", "gcsutil.TransientLockMap.mu", gkMap},
	{core.PkgGcsutil, "countedLock", "refcount", "gcsutil.TransientLockMap.mu", gkScalar},
	{core.PkgGcsemu, "uploadData", "data", "gcsemu.uploadData.mu", gkScalar},
	{core.PkgGcsemu, "uploadData", "Object", "gcsemu.uploadData.mu", gkScalar},
}

// Methods of the two ordered containers and the access mode they need.
var containerMode = map[string]mode{
	"Ascend": mR, "AscendRange": mR, "AscendLessThan": mR, "AscendGreaterOrEqual": mR,
	"Descend": mR, "DescendRange": mR, "DescendLessOrEqual": mR, "DescendGreaterThan": mR,
	"Get": mR, "Has": mR, "Len": mR, "Min": mR, "Max": mR,
	"ReplaceOrInsert": mW, "Delete": mW, "DeleteMin": mW, "DeleteMax": mW, "Clear": mW, "Close": mW, "Clone": mW,
}

// Types whose values are treated as immutable once reachable from table.def
// (they are replaced wholesale, never mutated): tracking stops there.
func guardStopType(t types.Type) bool {
	return core.TypeIs(t, "cloud.google.com/go/bigtable/admin/apiv2/adminpb", "GcRule")
}

type access struct {
	fn    *ssa.Function
	instr ssa.Instruction
	spec  *guardSpec
	what  string // "lookup", "update", ...
	need  mode
}

type escape struct {
	fn    *ssa.Function
	instr ssa.Instruction
	spec  *guardSpec
	what  string
}

type guardedResult struct {
	accesses []access
	escapes  []escape
	exempt   []access
}

var guardedCache = map[*core.Program]*guardedResult{}

func isRefType(t types.Type) bool {
	switch t.Underlying().(type) {
	case *types.Pointer, *types.Map, *types.Slice, *types.Interface:
		return true
	}
	return false
}

func findGuard(v ssa.Value) *guardSpec {
	var xt types.Type
	var idx int
	switch x := v.(type) {
	case *ssa.FieldAddr:
		xt, idx = x.X.Type(), x.Field
	case *ssa.Field:
		xt, idx = x.X.Type(), x.Field
	default:
		return nil
	}
	n := core.NamedOf(xt)
	if n == nil || n.Obj().Pkg() == nil {
		return nil
	}
	st, ok := n.Underlying().(*types.Struct)
	if !ok {
		return nil
	}
	fname := core.VarName(st.Field(idx))
	for i := range guardTable {
		g := &guardTable[i]
		if n.Obj().Pkg().Path() == g.pkg && core.TName(n) == g.typ && fname == g.field {
			return g
		}
	}
	return nil
}

// freshBase: the struct whose field is accessed was allocated in this very
// function (composite literal / new) — the object is not yet published.
func freshBase(v ssa.Value) bool {
	var base ssa.Value
	switch x := v.(type) {
	case *ssa.FieldAddr:
		base = x.X
	case *ssa.Field:
		base = x.X
	}
	_, ok := core.Resolve(base).(*ssa.Alloc)
	return ok
}

// prePublication: accesses in bttest.NewServerWithOptions that are executed
// before the first goroutine is started and before the service is registered.
func prePublication(p *core.Program, in ssa.Instruction) bool {
	return prePublicationDepth(p, in, 0)
}

func prePublicationDepth(p *core.Program, in ssa.Instruction, depth int) bool {
	fn := in.Parent()
	if !core.FuncIs(fn, core.PkgBttest, "NewServerWithOptions") {
		// a helper of the constructor: every reference to it is itself a pre-publication site
		root := core.Root(fn)
		if depth > 3 || (root.Object() != nil && root.Object().Exported()) {
			return false
		}
		refs := p.Refs(root)
		if len(refs) == 0 {
			return false
		}
		for _, r := range refs {
			if !prePublicationDepth(p, r.Instr, depth+1) {
				return false
			}
		}
		return true
	}
	n := 0
	for _, b := range fn.Blocks {
		for _, x := range b.Instrs {
			pub := false
			if _, ok := x.(*ssa.Go); ok {
				pub = true
			}
			if c := core.Call(x); c != nil && c.Static != nil && strings.HasPrefix(c.Static.Name(), "Register") {
				pub = true
			}
			if pub {
				n++
				if core.InstrReaches(x, in) {
					return false // reachable after publication
				}
			}
		}
	}
	return n > 0
}

// Guarded enumerates all accesses to guarded state in the loaded packages.
func Guarded(p *core.Program) *guardedResult {
	if r, ok := guardedCache[p]; ok {
		return r
	}
	res := &guardedResult{}
	tracked := map[ssa.Value]*guardSpec{}
	trackedCell := map[*ssa.Alloc]*guardSpec{}
	returnsDerived := map[*ssa.Function]*guardSpec{}
	var work []ssa.Value
	track := func(v ssa.Value, g *guardSpec) {
		if v == nil || tracked[v] != nil {
			return
		}
		tracked[v] = g
		work = append(work, v)
	}
	addAccess := func(in ssa.Instruction, g *guardSpec, what string, need mode) {
		a := access{fn: in.Parent(), instr: in, spec: g, what: what, need: need}
		if prePublication(p, in) {
			res.exempt = append(res.exempt, a)
			return
		}
		res.accesses = append(res.accesses, a)
	}
	addEscape := func(in ssa.Instruction, g *guardSpec, what string) {
		res.escapes = append(res.escapes, escape{fn: in.Parent(), instr: in, spec: g, what: what})
	}

	var paths []string
	for path := range p.SPkgs {
		paths = append(paths, path)
	}
	sort.Strings(paths)
	var all []*ssa.Function
	for _, path := range paths {
		all = append(all, p.SrcFuncs(path)...)
	}
	callersOf := map[*ssa.Function][]*ssa.Call{}
	for _, fn := range all {
		for _, b := range fn.Blocks {
			for _, in := range b.Instrs {
				if c, ok := in.(*ssa.Call); ok {
					if sc := c.Call.StaticCallee(); sc != nil {
						callersOf[sc] = append(callersOf[sc], c)
					}
				}
			}
		}
	}

	// Seed: every field access of a guarded field.
	for _, fn := range all {
		for _, b := range fn.Blocks {
			for _, in := range b.Instrs {
				v, ok := in.(ssa.Value)
				if !ok {
					continue
				}
				g := findGuard(v)
				if g == nil {
					continue
				}
				if freshBase(v) {
					res.exempt = append(res.exempt, access{fn: fn, instr: in, spec: g, what: "constructor (object not yet published)"})
					continue
				}
				switch x := v.(type) {
				case *ssa.Field:
					addAccess(in, g, "load", mR)
					if g.kind != gkScalar {
						track(x, g)
					}
				case *ssa.FieldAddr:
					var visit func(addr ssa.Value)
					visit = func(addr ssa.Value) {
						for _, u := range core.Referrers(addr) {
							switch uu := u.(type) {
							case *ssa.UnOp:
								if uu.Op == token.MUL {
									addAccess(uu, g, "load", mR)
									if g.kind != gkScalar {
										track(uu, g)
									}
								}
							case *ssa.Store:
								if uu.Addr == addr {
									addAccess(uu, g, "store", mW)
								} else {
									addEscape(uu, g, "address of guarded field stored")
								}
							case *ssa.FieldAddr:
								// sub-field of a guarded struct field
								if g.kind == gkScalar {
									visit(uu)
								} else {
									addEscape(u, g, "address of guarded field escapes")
								}
							case ssa.CallInstruction:
								// &guarded passed to a call: the callee reads/writes it while we hold the lock
								addAccess(u, g, "pass-address", mW)
							case *ssa.DebugRef:
							default:
								addEscape(u, g, "address of guarded field escapes")
							}
						}
					}
					visit(x)
				}
			}
		}
	}

	// Propagate.
	for len(work) > 0 {
		v := work[len(work)-1]
		work = work[:len(work)-1]
		g := tracked[v]
		deep := g.kind == gkDefPtr
		for _, u := range core.Referrers(v) {
			if !deep {
				// shallow guards protect the container reference only; elements
				// (e.g. *table, *memBucket) carry their own locks.
				switch u.(type) {
				case *ssa.FieldAddr, *ssa.Field, *ssa.IndexAddr, *ssa.Extract, *ssa.Next, *ssa.UnOp:
					continue
				}
			}
			switch x := u.(type) {
			case *ssa.DebugRef:
			case *ssa.FieldAddr:
				track(x, g)
			case *ssa.Field:
				if isRefType(x.Type()) && !guardStopType(x.Type()) {
					addAccess(x, g, "field-read", mR)
					track(x, g)
				} else {
					addAccess(x, g, "field-read", mR)
				}
			case *ssa.IndexAddr:
				track(x, g)
			case *ssa.UnOp:
				if x.Op == token.MUL {
					addAccess(x, g, "load", mR)
					if isRefType(x.Type()) && !guardStopType(x.Type()) {
						track(x, g)
					}
				}
			case *ssa.Lookup:
				if x.X == v {
					addAccess(x, g, "lookup", mR)
					et := x.Type()
					if tup, ok := et.(*types.Tuple); ok {
						et = tup.At(0).Type()
					}
					if deep && isRefType(et) && !guardStopType(et) {
						track(x, g)
					}
				}
			case *ssa.Extract:
				if isRefType(x.Type()) && !guardStopType(x.Type()) {
					track(x, g)
				}
			case *ssa.Range:
				addAccess(x, g, "range", mR)
				if deep {
					track(x, g)
				} else {
					// the iteration itself (every Next) reads the map
					for _, nx := range core.Referrers(x) {
						if n, ok := nx.(*ssa.Next); ok {
							addAccess(n, g, "range-next", mR)
						}
					}
				}
			case *ssa.Next:
				addAccess(x, g, "range-next", mR)
				track(x, g)
			case *ssa.Phi:
				track(x, g)
			case *ssa.ChangeType:
				track(x, g)
			case *ssa.MakeInterface:
				track(x, g)
			case *ssa.ChangeInterface:
				track(x, g)
			case *ssa.TypeAssert:
				track(x, g)
			case *ssa.BinOp:
				// comparisons (== nil) read the reference only
			case *ssa.MapUpdate:
				if x.Map == v {
					addAccess(x, g, "map-update", mW)
				} else if x.Value == v || x.Key == v {
					addEscape(x, g, "guarded reference stored into another map")
				}
			case *ssa.Store:
				if x.Addr == v {
					addAccess(x, g, "store-through", mW)
				} else if x.Val == v {
					if cell := core.CellOf(x.Addr); cell != nil {
						if trackedCell[cell] == nil {
							trackedCell[cell] = g
							for _, f := range core.Family(core.Root(cell.Parent())) {
								for _, bb := range f.Blocks {
									for _, ii := range bb.Instrs {
										if ld, ok := ii.(*ssa.UnOp); ok && ld.Op == token.MUL && core.CellOf(ld.X) == cell {
											track(ld, g)
										}
									}
								}
							}
						}
					} else {
						addEscape(x, g, "guarded reference stored into a heap object")
					}
				}
			case *ssa.MakeClosure:
				if fn, ok := x.Fn.(*ssa.Function); ok {
					for i, bnd := range x.Bindings {
						if bnd == v && i < len(fn.FreeVars) {
							track(fn.FreeVars[i], g)
						}
					}
				}
			case *ssa.Return:
				fn := x.Parent()
				if fn.Parent() == nil && fn.Object() != nil && !fn.Object().Exported() && len(callersOf[fn]) > 0 {
					// in-package helper (e.g. (*table).cols): results are derived in callers
					if returnsDerived[fn] == nil {
						returnsDerived[fn] = g
						for _, c := range callersOf[fn] {
							addAccess(c, g, "call "+core.FuncName(fn), mR)
							track(c, g)
						}
					}
				} else {
					addEscape(x, g, "guarded reference returned")
				}
			case ssa.CallInstruction:
				ci := core.Call(x)
				if b, ok := ci.Common.Value.(*ssa.Builtin); ok {
					switch b.Name() {
					case "delete":
						addAccess(x, g, "map-delete", mW)
					case "len", "cap":
						addAccess(x, g, "len", mR)
					case "append", "copy":
						addAccess(x, g, b.Name(), mR)
					default:
						addAccess(x, g, "builtin "+b.Name(), mR)
					}
					continue
				}
				// receiver of a container method?
				if recv := ci.Recv(); recv == v && (g.kind == gkRows || g.kind == gkBtree) {
					name := ""
					if ci.Method != nil {
						name = ci.Method.Name()
					} else if ci.Static != nil {
						name = ci.Static.Name()
					}
					need, ok := containerMode[name]
					if !ok {
						need = mW // unknown method: demand the strongest mode
					}
					addAccess(x, g, "call "+name, need)
					continue
				}
				if ci.Static != nil && inRepo(p, ci.Static) {
					addAccess(x, g, "pass to "+core.FuncName(ci.Static), mR)
					params := ci.Static.Params
					for i, a := range ci.Common.Args {
						if a == v && i < len(params) {
							track(params[i], g)
						}
					}
					continue
				}
				if _, isGo := x.(*ssa.Go); isGo {
					addEscape(x, g, "guarded reference handed to a goroutine")
					continue
				}
				addAccess(x, g, "pass to "+ci.CalleeName(), mR)
			default:
				addEscape(u, g, fmt.Sprintf("guarded reference used by %T", u))
			}
		}
	}
	guardedCache[p] = res
	return res
}

// R01 checks every access against the absolute lockset.
func R01(floors map[string]int) Rule {
	return Rule{Name: "R01", Run: func(c *core.Ctx) {
		la := Locks(c.P)
		gr := Guarded(c.P)
		counter := map[string]int{}
		perField := map[string]int{}
		accs := append([]access(nil), gr.accesses...)
		sort.SliceStable(accs, func(i, j int) bool { return accs[i].instr.Pos() < accs[j].instr.Pos() })
		for _, a := range accs {
			fname := core.FuncName(a.fn)
			base := fmt.Sprintf("%s/%s.%s/%s", fname, a.spec.typ, a.spec.field, a.what)
			counter[base]++
			construct := fmt.Sprintf("%s#%d", base, counter[base])
			c.Fn(fname)
			perField[a.spec.typ+"."+a.spec.field]++
			held := la.AbsAt(a.instr)[a.spec.lock]
			if held >= a.need {
				c.Ok("R01", construct, a.instr.Pos(), true, "%s held in mode %s (need %s)", a.spec.lock, held, a.need)
			} else {
				ctxNote := ""
				if why, ok := la.roots[a.fn]; ok {
					ctxNote = " [function is a root: " + why + "]"
				}
				c.Bad("R01", construct, a.instr.Pos(), "%s of %s.%s needs %s in mode %s but the must-lockset here has mode %s%s", a.what, a.spec.typ, a.spec.field, a.spec.lock, a.need, held, ctxNote)
			}
		}
		for _, e := range gr.exempt {
			c.Infof("R01", fmt.Sprintf("exempt/%s/%s.%s", core.FuncName(e.fn), e.spec.typ, e.spec.field), e.instr.Pos(), "exempt: %s", e.what)
		}
		for f, min := range floors {
			if perField[f] < min {
				c.Unknown("R01", "floor/"+f, token.NoPos, "only %d accesses of %s found, %d were confirmed by hand — the rule went vacuous", perField[f], f, min)
			}
		}
	}}
}

// R04: every function that manipulates locks is balanced.
func R04(pkgs ...string) Rule {
	return Rule{Name: "R04", Run: func(c *core.Ctx) {
		la := Locks(c.P)
		var fns []*ssa.Function
		for fn := range la.Fns {
			fns = append(fns, fn)
		}
		sort.Slice(fns, func(i, j int) bool { return fns[i].Pos() < fns[j].Pos() })
		n := 0
		for _, fn := range fns {
			fl := la.Fns[fn]
			if !fl.hasOps {
				continue
			}
			if len(pkgs) > 0 {
				ok := false
				for _, p := range pkgs {
					if core.Root(fn).Pkg.Pkg.Path() == p {
						ok = true
					}
				}
				if !ok {
					continue
				}
			}
			n++
			name := core.FuncName(fn)
			c.Fn(name)
			if len(fl.problems) == 0 {
				c.Ok("R04", name+"/balanced", fn.Pos(), true, "%d lock operations; every return restores the entry state on all paths", fl.nOps)
				continue
			}
			for _, pr := range fl.problems {
				c.Bad("R04", name+"/"+pr.key, pr.pos, "%s", pr.what)
			}
		}
		// requirement of reversal functions: the caller must hold what they release
		for _, fn := range fns {
			fl := la.Fns[fn]
			for l, need := range fl.requires {
				if len(pkgs) > 0 {
					ok := false
					for _, p := range pkgs {
						if core.Root(fn).Pkg.Pkg.Path() == p {
							ok = true
						}
					}
					if !ok {
						continue
					}
				}
				held := la.Entry[fn][l]
				name := core.FuncName(fn)
				if held == need {
					c.Ok("R04", name+"/reversal/"+l, fn.Pos(), true, "releases and re-takes %s (mode %s); every synchronous call context holds it in exactly that mode", l, need)
				} else {
					c.Bad("R04", name+"/reversal/"+l, fn.Pos(), "releases %s in mode %s but its call contexts hold it in mode %s", l, need, held)
				}
			}
		}
	}}
}
