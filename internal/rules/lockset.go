package rules

import (
	"fmt"
	"go/token"
	"go/types"
	"sort"
	"strings"

	"golang.org/x/tools/go/ssa"

	"verif/internal/core"
)

// ---------------------------------------------------------------------------
// Lockset engine shared by R01 (guarded-by), R02/R03 (epoch continuity),
// R04 (balance), R20 (lock map).
//
// Lock identity is (named struct type, field) — see DESIGN §3/§8.
// Per function a *relative* state is computed for each lock:
//   E      as on entry
//   AW/AR  acquired here (write / read mode)
//   RW/RR  the caller's hold was released here (reversal)
// A function is balanced when every return sees E for every lock.  Because all
// functions are required to be balanced (R04), a call never changes the
// caller's state; it may however carry an *epoch break* (the lock was released
// and re-taken inside), which R02/R03 consume.
// ---------------------------------------------------------------------------

type lstate uint8

const (
	sE lstate = iota
	sAW
	sAR
	sRW
	sRR
	sX // inconsistent
	sM // differs between paths, but each path's pending defers restore the entry state (conditional lock + defer unlock idiom)
)

func (s lstate) String() string {
	return [...]string{"as-entry", "acquired(W)", "acquired(R)", "released(W)", "released(R)", "inconsistent", "held-on-some-paths(balanced by defers)"}[s]
}

type mode uint8

const (
	mNone mode = iota
	mR
	mW
)

func (m mode) String() string { return [...]string{"none", "R", "W"}[m] }

type lockOp struct {
	lock  string // "pkg.Type.field"
	write bool   // Lock/Unlock vs RLock/RUnlock
	acq   bool   // Lock/RLock vs Unlock/RUnlock
}

// lockOpOf recognises sync.Mutex / sync.RWMutex operations on a struct field.
func lockOpOf(c *core.CallInfo) (lockOp, bool) {
	if c == nil || c.Static == nil || c.Static.Pkg == nil || c.Static.Pkg.Pkg.Path() != "sync" {
		return lockOp{}, false
	}
	recv := c.Static.Signature.Recv()
	if recv == nil {
		return lockOp{}, false
	}
	n := core.NamedOf(recv.Type())
	if n == nil || (n.Obj().Name() != "Mutex" && n.Obj().Name() != "RWMutex") {
		return lockOp{}, false
	}
	var op lockOp
	switch c.Static.Name() {
	case "Lock":
		op.write, op.acq = true, true
	case "Unlock":
		op.write, op.acq = true, false
	case "RLock":
		op.write, op.acq = false, true
	case "RUnlock":
		op.write, op.acq = false, false
	default:
		return lockOp{}, false
	}
	if len(c.Common.Args) == 0 {
		return lockOp{}, false
	}
	fa, ok := c.Common.Args[0].(*ssa.FieldAddr)
	if !ok {
		op.lock = "?unknown-lock"
		return op, true
	}
	sn, fn, ok := core.FieldName(fa)
	if !ok {
		op.lock = "?unknown-lock"
		return op, true
	}
	op.lock = sn + "." + fn
	return op, true
}

type deferred struct {
	op     *lockOp       // a deferred lock operation, or
	callee *ssa.Function // a deferred in-repo call
	pos    token.Pos
}

type pstate struct {
	locks  map[string]lstate
	defers []deferred
	dead   bool // unreachable so far
}

func (p *pstate) clone() *pstate {
	n := &pstate{locks: make(map[string]lstate, len(p.locks)), defers: append([]deferred(nil), p.defers...), dead: p.dead}
	for k, v := range p.locks {
		n.locks[k] = v
	}
	return n
}

func (p *pstate) get(l string) lstate { return p.locks[l] }

// fnLocks is the per-function result.
type fnLocks struct {
	fn *ssa.Function
	// state before each instruction
	before map[ssa.Instruction]map[string]lstate
	// problems found by the balance analysis
	problems []lockProblem
	// locks this function releases-and-retakes (directly)
	breaksDirect map[string]token.Pos
	// locks whose caller-held mode is needed (function unlocks from E)
	requires map[string]mode
	hasOps   bool
	nOps     int
	// state at each return (after the deferred operations ran)
	exits []map[string]lstate
}

// acquirer describes a function that takes a lock and hands back the function that
// releases it (`defer t.lockForWrite()()`): calling it is an acquisition, calling (or
// deferring) its result is the matching release.
type acquirer struct {
	op       lockOp        // the acquisition
	releaser *ssa.Function // the closure it returns
}

type lockProblem struct {
	pos  token.Pos
	what string
	key  string
}

// LockAnalysis holds results for all functions of the loaded program.
type LockAnalysis struct {
	P      *core.Program
	Fns    map[*ssa.Function]*fnLocks
	Entry  map[*ssa.Function]map[string]mode // absolute lockset on entry (must)
	Breaks map[*ssa.Function]map[string]bool // transitive epoch breaks
	// closure call contexts
	syncHOF func(c *core.CallInfo) bool
	roots   map[*ssa.Function]string
	// lock-and-return-unlocker helpers
	Acquirers map[*ssa.Function]acquirer
}

var lockCache = map[*core.Program]*LockAnalysis{}

// Locks computes (once per program) the lock analysis over all repo packages.
func Locks(p *core.Program) *LockAnalysis {
	if la, ok := lockCache[p]; ok {
		return la
	}
	la := &LockAnalysis{P: p, Fns: map[*ssa.Function]*fnLocks{}, Entry: map[*ssa.Function]map[string]mode{}, Breaks: map[*ssa.Function]map[string]bool{}, roots: map[*ssa.Function]string{}}
	var all []*ssa.Function
	var paths []string
	for path := range p.SPkgs {
		paths = append(paths, path)
	}
	sort.Strings(paths)
	for _, path := range paths {
		all = append(all, p.SrcFuncs(path)...)
	}
	// instantiations of the repository's generic functions (they belong to no package's member list)
	have := map[*ssa.Function]bool{}
	for _, fn := range all {
		have[fn] = true
	}
	for _, fn := range p.RepoFuncs() {
		if fn.Origin() != nil && fn.Blocks != nil && !have[fn] {
			have[fn] = true
			all = append(all, fn)
		}
	}
	for _, fn := range all {
		la.Fns[fn] = analyseLocal(fn, nil)
	}
	la.Acquirers = findAcquirers(la, all)
	if len(la.Acquirers) > 0 {
		for _, fn := range all {
			la.Fns[fn] = analyseLocal(fn, la.Acquirers)
		}
		for g, a := range la.Acquirers {
			// the pair is balanced as a pair: the helper returns holding the lock, its result releases it
			la.Fns[g].problems = dropRetProblems(la.Fns[g].problems, a.op.lock)
			la.Fns[a.releaser].problems = dropRetProblems(la.Fns[a.releaser].problems, a.op.lock)
		}
	}
	la.computeBreaks(all)
	la.computeEntries(all)
	lockCache[p] = la
	return la
}

func inRepo(p *core.Program, fn *ssa.Function) bool {
	if fn == nil || fn.Blocks == nil {
		return false
	}
	r := core.Root(fn)
	if r.Pkg == nil && r.Origin() != nil {
		r = r.Origin() // an instantiation of a generic function of the repository
	}
	return r.Pkg != nil && p.SPkgs[r.Pkg.Pkg.Path()] == r.Pkg
}

func dropRetProblems(ps []lockProblem, lock string) []lockProblem {
	var out []lockProblem
	for _, p := range ps {
		if strings.HasPrefix(p.key, "ret:"+lock+":") {
			continue
		}
		out = append(out, p)
	}
	return out
}

// acquirerCallOf: v is the result of a call of a lock-and-return-unlocker helper.
func acquirerCallOf(v ssa.Value, acq map[*ssa.Function]acquirer) (acquirer, bool) {
	if len(acq) == 0 || v == nil {
		return acquirer{}, false
	}
	call, ok := core.Resolve(v).(*ssa.Call)
	if !ok {
		return acquirer{}, false
	}
	sc := call.Call.StaticCallee()
	if sc == nil {
		return acquirer{}, false
	}
	a, ok := acq[sc]
	return a, ok
}

// findAcquirers recognises the helpers: a function with a single func() result, no lock
// problem other than returning with exactly one lock L acquired (in the same mode at
// every return), whose every returned value is one of its own closures that releases L
// from its entry state on every path and does nothing else to locks.
func findAcquirers(la *LockAnalysis, all []*ssa.Function) map[*ssa.Function]acquirer {
	out := map[*ssa.Function]acquirer{}
	for _, g := range all {
		fl := la.Fns[g]
		res := g.Signature.Results()
		if fl == nil || !fl.hasOps || res.Len() != 1 || len(fl.exits) == 0 {
			continue
		}
		if sig, ok := res.At(0).Type().Underlying().(*types.Signature); !ok || sig.Params().Len() != 0 || sig.Results().Len() != 0 {
			continue
		}
		var lock string
		var st lstate
		okG := true
		for _, ex := range fl.exits {
			n := 0
			for l, s := range ex {
				if s == sE {
					continue
				}
				n++
				if (s != sAW && s != sAR) || (lock != "" && (l != lock || s != st)) {
					okG = false
				}
				lock, st = l, s
			}
			if n != 1 {
				okG = false
			}
		}
		for _, pr := range fl.problems {
			if !strings.HasPrefix(pr.key, "ret:"+lock+":") {
				okG = false
			}
		}
		if !okG || lock == "" {
			continue
		}
		var rel *ssa.Function
		for _, b := range g.Blocks {
			r, isRet := b.Instrs[len(b.Instrs)-1].(*ssa.Return)
			if !isRet {
				continue
			}
			for _, v := range returnValues(r.Results[0]) {
				cl := closureOf(v)
				if cl == nil || cl.Parent() != g || (rel != nil && cl != rel) {
					okG = false
					continue
				}
				rel = cl
			}
		}
		if !okG || rel == nil {
			continue
		}
		rl := la.Fns[rel]
		want, need := sRW, mW
		if st == sAR {
			want, need = sRR, mR
		}
		if rl == nil || len(rl.exits) == 0 || rl.requires[lock] != need {
			continue
		}
		for _, ex := range rl.exits {
			for l, s := range ex {
				if (l == lock && s != want) || (l != lock && s != sE) {
					okG = false
				}
			}
			if ex[lock] != want {
				okG = false
			}
		}
		for _, pr := range rl.problems {
			if !strings.HasPrefix(pr.key, "ret:"+lock+":") {
				okG = false
			}
		}
		if !okG {
			continue
		}
		out[g] = acquirer{op: lockOp{lock: lock, write: st == sAW, acq: true}, releaser: rel}
	}
	return out
}

func analyseLocal(fn *ssa.Function, acq map[*ssa.Function]acquirer) *fnLocks {
	fl := &fnLocks{fn: fn, before: map[ssa.Instruction]map[string]lstate{}, breaksDirect: map[string]token.Pos{}, requires: map[string]mode{}}
	if len(fn.Blocks) == 0 {
		return fl
	}
	in := make([]*pstate, len(fn.Blocks))
	in[0] = &pstate{locks: map[string]lstate{}}
	work := []*ssa.BasicBlock{fn.Blocks[0]}
	reported := map[string]bool{}
	report := func(pos token.Pos, key, what string) {
		if reported[key] {
			return
		}
		reported[key] = true
		fl.problems = append(fl.problems, lockProblem{pos: pos, what: what, key: key})
	}
	apply := func(st *pstate, op lockOp, pos token.Pos, deferredRun bool) {
		fl.hasOps = true
		cur := st.get(op.lock)
		var next lstate
		okTrans := true
		switch {
		case op.acq && op.write:
			switch cur {
			case sE:
				next = sAW
			case sRW:
				next = sE
				fl.breaksDirect[op.lock] = pos
			default:
				okTrans = false
			}
		case op.acq && !op.write:
			switch cur {
			case sE:
				next = sAR
			case sRR:
				next = sE
				fl.breaksDirect[op.lock] = pos
			default:
				okTrans = false
			}
		case !op.acq && op.write:
			switch cur {
			case sAW:
				next = sE
			case sE:
				next = sRW
				if fl.requires[op.lock] < mW {
					fl.requires[op.lock] = mW
				}
			default:
				okTrans = false
			}
		default:
			switch cur {
			case sAR:
				next = sE
			case sE:
				next = sRR
				if fl.requires[op.lock] < mR {
					fl.requires[op.lock] = mR
				}
			default:
				okTrans = false
			}
		}
		if !okTrans {
			if cur != sX {
				report(pos, fmt.Sprintf("op:%s:%v:%v:%s", op.lock, op.acq, op.write, cur), fmt.Sprintf("%s of %s while its state is %s", opName(op), op.lock, cur))
			}
			next = sX
		}
		st.locks[op.lock] = next
	}
	for len(work) > 0 {
		b := work[len(work)-1]
		work = work[:len(work)-1]
		st := in[b.Index].clone()
		for _, instr := range b.Instrs {
			snap := make(map[string]lstate, len(st.locks))
			for k, v := range st.locks {
				snap[k] = v
			}
			fl.before[instr] = snap
			switch x := instr.(type) {
			case *ssa.Call:
				if op, ok := lockOpOf(core.Call(x)); ok {
					fl.nOps++
					apply(st, op, x.Pos(), false)
				} else if a, ok := acq[x.Call.StaticCallee()]; ok && x.Call.StaticCallee() != nil {
					fl.nOps++
					apply(st, a.op, x.Pos(), false)
				} else if a, ok := acquirerCallOf(x.Call.Value, acq); ok && !x.Call.IsInvoke() {
					fl.nOps++
					rel := a.op
					rel.acq = false
					apply(st, rel, x.Pos(), false)
				}
			case *ssa.Defer:
				ci := core.Call(x)
				if op, ok := lockOpOf(ci); ok {
					fl.nOps++
					fl.hasOps = true
					o := op
					st.defers = append(st.defers, deferred{op: &o, pos: x.Pos()})
				} else if a, ok := acquirerCallOf(x.Call.Value, acq); ok && !x.Call.IsInvoke() {
					fl.nOps++
					fl.hasOps = true
					o := a.op
					o.acq = false
					st.defers = append(st.defers, deferred{op: &o, pos: x.Pos()})
				} else if ci.Static != nil && ci.Static.Blocks != nil {
					st.defers = append(st.defers, deferred{callee: ci.Static, pos: x.Pos()})
				}
			case *ssa.RunDefers:
				for i := len(st.defers) - 1; i >= 0; i-- {
					if d := st.defers[i]; d.op != nil && st.locks[d.op.lock] != sM {
						apply(st, *d.op, d.pos, true)
					}
				}
				st.defers = nil
			case *ssa.Return:
				var ls []string
				ex := map[string]lstate{}
				for l, v := range st.locks {
					ls = append(ls, l)
					ex[l] = v
				}
				fl.exits = append(fl.exits, ex)
				sort.Strings(ls)
				for _, l := range ls {
					if s := st.locks[l]; s != sE && s != sM {
						report(x.Pos(), "ret:"+l+":"+s.String(), fmt.Sprintf("returns with %s in state %s (entry state not restored)", l, s))
					}
				}
			}
		}
		for _, s := range b.Succs {
			if in[s.Index] == nil {
				in[s.Index] = st.clone()
				work = append(work, s)
				continue
			}
			changed := false
			old := in[s.Index]
			keys := map[string]bool{}
			for k := range old.locks {
				keys[k] = true
			}
			for k := range st.locks {
				keys[k] = true
			}
			effOld, effNew := effective(old), effective(st)
			for k := range keys {
				a, bb := old.locks[k], st.locks[k]
				if a == bb || a == sX {
					continue
				}
				if a == sM || bb == sM || (effOld[k] == sE && effNew[k] == sE) {
					// conditional `mu.Lock(); defer mu.Unlock()`: balanced per path, not a must-hold after the join
					if a != sM {
						old.locks[k] = sM
						old.defers = dropLockDefers(old.defers, k)
						changed = true
					}
					continue
				}
				report(firstPos(s), fmt.Sprintf("merge:%s", k), fmt.Sprintf("lock %s is %s on one path and %s on another at a control-flow join", k, a, bb))
				old.locks[k] = sX
				changed = true
			}
			stDefers := st.defers
			for k, v := range old.locks {
				if v == sM {
					stDefers = dropLockDefers(stDefers, k)
				}
			}
			if deferLockOps(old.defers) != deferLockOps(stDefers) {
				report(firstPos(s), "merge-defers", "deferred lock operations differ between paths at a control-flow join")
			}
			if len(stDefers) < len(old.defers) {
				old.defers = append([]deferred(nil), stDefers...)
				changed = true
			}
			if changed {
				work = append(work, s)
			}
		}
	}
	return fl
}

func firstPos(b *ssa.BasicBlock) token.Pos {
	for _, in := range b.Instrs {
		if in.Pos().IsValid() {
			return in.Pos()
		}
	}
	return b.Parent().Pos()
}

func sameDefers(a, b []deferred) bool {
	if len(a) != len(b) {
		return false
	}
	for i := range a {
		if a[i].pos != b[i].pos {
			return false
		}
	}
	return true
}

func deferLockOps(d []deferred) string {
	var sb strings.Builder
	for _, x := range d {
		if x.op != nil {
			fmt.Fprintf(&sb, "%s:%v:%v;", x.op.lock, x.op.acq, x.op.write)
		}
	}
	return sb.String()
}

func opName(op lockOp) string {
	switch {
	case op.acq && op.write:
		return "Lock"
	case op.acq:
		return "RLock"
	case op.write:
		return "Unlock"
	}
	return "RUnlock"
}

// computeBreaks: transitive closure of "this function (or something it calls
// synchronously) releases and re-takes lock L".
func (la *LockAnalysis) computeBreaks(all []*ssa.Function) {
	for _, fn := range all {
		m := map[string]bool{}
		for l := range la.Fns[fn].breaksDirect {
			m[l] = true
		}
		la.Breaks[fn] = m
	}
	for changed := true; changed; {
		changed = false
		for _, fn := range all {
			for _, c := range core.AllCalls(fn) {
				if _, isGo := c.Instr.(*ssa.Go); isGo {
					continue
				}
				for _, callee := range la.calleesOf(c) {
					for l := range la.Breaks[callee] {
						if !la.Breaks[fn][l] {
							la.Breaks[fn][l] = true
							changed = true
						}
					}
				}
			}
		}
	}
}

// calleesOf resolves the in-repo functions a call may synchronously run:
// the static callee, a closure called through a local variable, and closures
// passed as arguments to synchronous higher-order functions.
func (la *LockAnalysis) calleesOf(c *core.CallInfo) []*ssa.Function {
	var out []*ssa.Function
	if c.Static != nil && inRepo(la.P, c.Static) {
		out = append(out, c.Static)
	}
	if c.Static == nil && c.Method == nil {
		if fn := closureOf(c.Common.Value); fn != nil {
			out = append(out, fn)
		}
	}
	// function-typed arguments: only when the receiver of the closure is known
	// to run it synchronously (library contract table) or is in-repo code.
	if !(isSyncHOF(c) || (c.Static != nil && inRepo(la.P, c.Static))) {
		return out
	}
	for _, a := range c.Common.Args {
		if _, ok := a.Type().Underlying().(*types.Signature); !ok {
			continue
		}
		if fn := closureOf(a); fn != nil {
			out = append(out, fn)
		}
	}
	return out
}

// closureOf resolves a function value to the anonymous/named function it
// denotes, following single-assignment cells.
func closureOf(v ssa.Value) *ssa.Function {
	v = core.Resolve(v)
	switch x := v.(type) {
	case *ssa.MakeClosure:
		if f, ok := x.Fn.(*ssa.Function); ok {
			return unwrapBound(f)
		}
	case *ssa.Function:
		return unwrapBound(x)
	}
	return nil
}

// unwrapBound maps a synthetic bound-method wrapper or thunk (the function value
// behind `x.method` used as a value) to the method it forwards to.
func unwrapBound(f *ssa.Function) *ssa.Function {
	if f == nil || f.Synthetic == "" || f.Blocks == nil {
		return f
	}
	var target *ssa.Function
	n := 0
	for _, b := range f.Blocks {
		for _, in := range b.Instrs {
			if ci, ok := in.(ssa.CallInstruction); ok {
				n++
				target = ci.Common().StaticCallee()
			}
		}
	}
	if n == 1 && target != nil && target.Blocks != nil {
		return target
	}
	return f
}

// paramInvocations lists, for a function-typed parameter (index i) of the
// in-repo function g, the call sites at which g (or something g hands the
// parameter to) synchronously invokes it.  ok is false when the parameter
// escapes in a way the analysis does not follow (stored, passed to unknown code,
// started with go): the closure then has no recognised calling context.
func (la *LockAnalysis) paramInvocations(g *ssa.Function, i int, depth int) (sites []ssa.Instruction, ok bool) {
	if g == nil || g.Blocks == nil || i < 0 || i >= len(g.Params) || depth > 4 {
		return nil, false
	}
	param := g.Params[i]
	ok = true
	isParam := func(v ssa.Value) bool { return core.Resolve(v) == ssa.Value(param) }
	for _, f := range core.Family(g) {
		for _, b := range f.Blocks {
			for _, in := range b.Instrs {
				ci, isCall := in.(ssa.CallInstruction)
				if !isCall {
					// any other use of the parameter (store, return, ...) = escape
					if _, isMC := in.(*ssa.MakeClosure); isMC {
						continue // captured by a nested closure: uses inside it are visited through Family
					}
					if _, isDbg := in.(*ssa.DebugRef); isDbg {
						continue
					}
					for _, op := range in.Operands(nil) {
						if *op != nil && isParam(*op) {
							if st, isStore := in.(*ssa.Store); isStore {
								if _, local := st.Addr.(*ssa.Alloc); local {
									continue // spill of the parameter into its own cell
								}
							}
							ok = false
						}
					}
					continue
				}
				com := ci.Common()
				if !com.IsInvoke() && isParam(com.Value) {
					if _, isGo := in.(*ssa.Go); isGo {
						ok = false
						continue
					}
					sites = append(sites, in)
					continue
				}
				for ai, a := range com.Args {
					if !isParam(a) {
						continue
					}
					c := core.Call(in)
					switch {
					case isSyncHOF(c):
						sites = append(sites, in)
					case c.Static != nil && inRepo(la.P, c.Static):
						pi := ai
						sub, subOK := la.paramInvocations(c.Static, pi, depth+1)
						if !subOK {
							ok = false
						}
						sites = append(sites, sub...)
					default:
						ok = false
					}
				}
			}
		}
	}
	return sites, ok
}

func meetMode(a, b mode) mode {
	if a < b {
		return a
	}
	return b
}

// AbsAt returns the absolute must-lockset just before instr.
func (la *LockAnalysis) AbsAt(instr ssa.Instruction) map[string]mode {
	fn := instr.Parent()
	fl := la.Fns[fn]
	out := map[string]mode{}
	for l, m := range la.Entry[fn] {
		out[l] = m
	}
	if fl == nil {
		return out
	}
	for l, s := range fl.before[instr] {
		switch s {
		case sE:
		case sAW:
			out[l] = mW
		case sAR:
			out[l] = mR
		default:
			out[l] = mNone
		}
	}
	return out
}

// LocalAt returns the relative state of lock l before instr.
func (la *LockAnalysis) LocalAt(instr ssa.Instruction, l string) lstate {
	fl := la.Fns[instr.Parent()]
	if fl == nil {
		return sE
	}
	return fl.before[instr][l]
}

// computeEntries propagates absolute locksets to function entries.
func (la *LockAnalysis) computeEntries(all []*ssa.Function) {
	const top = 255
	type ent = map[string]mode
	unset := map[*ssa.Function]bool{}
	for _, fn := range all {
		unset[fn] = true
	}
	setEntry := func(fn *ssa.Function, ctx ent) bool {
		if unset[fn] {
			unset[fn] = false
			cp := ent{}
			for k, v := range ctx {
				if v != mNone {
					cp[k] = v
				}
			}
			la.Entry[fn] = cp
			return true
		}
		cur := la.Entry[fn]
		changed := false
		for k, v := range cur {
			nv := meetMode(v, ctx[k])
			if nv != v {
				changed = true
				if nv == mNone {
					delete(cur, k)
				} else {
					cur[k] = nv
				}
			}
		}
		return changed
	}
	// Roots: anything callable from outside gets the empty lockset.
	called := map[*ssa.Function]bool{} // has at least one recognised synchronous context
	type site struct {
		caller *ssa.Function
		instr  ssa.Instruction
		callee *ssa.Function
		goStmt bool
		held   *lockOp // releaser of a lock-and-return-unlocker helper: the lock it releases is held when it runs
	}
	var sites []site
	if len(la.Acquirers) > 0 {
		for _, fn := range all {
			for _, c := range core.AllCalls(fn) {
				if c.Common.IsInvoke() {
					continue
				}
				if a, ok := acquirerCallOf(c.Common.Value, la.Acquirers); ok {
					op := a.op
					sites = append(sites, site{fn, c.Instr, a.releaser, false, &op})
					called[a.releaser] = true
				}
			}
		}
	}
	for _, fn := range all {
		for _, c := range core.AllCalls(fn) {
			_, isGo := c.Instr.(*ssa.Go)
			// closures handed to an in-repo function run where that function invokes
			// its parameter (e.g. a withLock(func(){…}) helper), not at the call site
			viaParam := map[*ssa.Function]bool{}
			if c.Static != nil && inRepo(la.P, c.Static) && !isSyncHOF(c) && !isGo {
				for ai, a := range c.Common.Args {
					if _, isFn := a.Type().Underlying().(*types.Signature); !isFn {
						continue
					}
					cl := closureOf(a)
					if cl == nil {
						continue
					}
					if inner, ok := la.paramInvocations(c.Static, ai, 0); ok && len(inner) > 0 {
						viaParam[cl] = true
						for _, in := range inner {
							sites = append(sites, site{in.Parent(), in, cl, false, nil})
						}
						called[cl] = true
					}
				}
			}
			for _, callee := range la.calleesOf(c) {
				if viaParam[callee] {
					continue
				}
				sites = append(sites, site{fn, c.Instr, callee, isGo, nil})
				called[callee] = true
			}
		}
	}
	for _, fn := range all {
		isRoot := false
		why := ""
		if fn.Parent() == nil {
			if obj := fn.Object(); obj != nil && obj.Exported() {
				isRoot, why = true, "exported"
			} else if fn.Name() == "main" || fn.Name() == "init" {
				isRoot, why = true, "entry point"
			}
		}
		if !called[fn] {
			isRoot, why = true, "no recognised synchronous call context (address taken / stored / unused)"
		}
		if isRoot {
			la.roots[fn] = why
			setEntry(fn, ent{})
		}
	}
	for changed := true; changed; {
		changed = false
		for _, s := range sites {
			if unset[s.caller] {
				continue
			}
			var ctx ent
			if s.goStmt {
				ctx = ent{}
			} else if _, isDefer := s.instr.(*ssa.Defer); isDefer {
				// deferred call: runs at function exit; balanced functions are back at their entry state
				ctx = la.Entry[s.caller]
				if s.held != nil {
					cp := ent{}
					for k, v := range ctx {
						cp[k] = v
					}
					cp[s.held.lock] = mR
					if s.held.write {
						cp[s.held.lock] = mW
					}
					ctx = cp
				}
			} else {
				ctx = la.AbsAt(s.instr)
			}
			if setEntry(s.callee, ctx) {
				changed = true
			}
		}
	}
	for _, fn := range all {
		if unset[fn] {
			la.Entry[fn] = ent{}
		}
	}
	_ = top
}

// isSyncHOF: higher-order functions that invoke their function argument
// synchronously on the calling goroutine (library / interface contracts; the
// Rows.Ascend* entry is justified by R09-I3, Store.Walk by reading both stores).
func isSyncHOF(c *core.CallInfo) bool {
	for _, m := range []string{"Ascend", "AscendRange", "AscendLessThan", "AscendGreaterOrEqual"} {
		if c.IsIfaceMethod(core.PkgBttest, "Rows", m) || c.MethodOn("github.com/google/btree", "BTree", m) {
			return true
		}
	}
	if c.IsIfaceMethod(core.PkgGcsemu, "Store", "Walk") {
		return true
	}
	if c.MethodOn(core.PkgGcsutil, "TransientLockMap", "Run") || c.MethodOn(core.PkgGcsutil, "countedLock", "Run") {
		return true
	}
	if c.MethodOn("sync", "Once", "Do") {
		return true
	}
	if c.Static != nil && c.Static.Pkg != nil {
		switch c.Static.Pkg.Pkg.Path() + "." + c.Static.Name() {
		case "sort.Slice", "sort.SliceStable", "sort.Search", "sort.Sort", "path/filepath.Walk", "path/filepath.WalkDir":
			return true
		}
	}
	return false
}

// effective simulates the pending deferred lock operations of a path state.
func effective(p *pstate) map[string]lstate {
	out := map[string]lstate{}
	for k, v := range p.locks {
		out[k] = v
	}
	for i := len(p.defers) - 1; i >= 0; i-- {
		d := p.defers[i]
		if d.op == nil {
			continue
		}
		cur := out[d.op.lock]
		next := sX
		switch {
		case d.op.acq && d.op.write && cur == sRW, d.op.acq && !d.op.write && cur == sRR,
			!d.op.acq && d.op.write && cur == sAW, !d.op.acq && !d.op.write && cur == sAR:
			next = sE
		case cur == sM:
			next = sM
		}
		out[d.op.lock] = next
	}
	return out
}

func dropLockDefers(d []deferred, lock string) []deferred {
	var out []deferred
	for _, x := range d {
		if x.op != nil && x.op.lock == lock {
			continue
		}
		out = append(out, x)
	}
	return out
}
