package rules

import (
	"fmt"
	"go/constant"
	"go/token"
	"go/types"

	"golang.org/x/tools/go/ssa"

	"verif/internal/core"
)

const lockMapMu = "gcsutil.TransientLockMap.mu"

// selectIndexFact: at block `at`, which state index of the select is known to
// have been chosen (-1: unknown).
func selectIndexFact(sel *ssa.Select, at *ssa.BasicBlock) int {
	for _, f := range core.FactsAt(at) {
		if !f.Polarity {
			continue
		}
		b, ok := f.Cond.(*ssa.BinOp)
		if !ok || b.Op != token.EQL {
			continue
		}
		ex, ok := b.X.(*ssa.Extract)
		if !ok || ex.Tuple != ssa.Value(sel) || ex.Index != 0 {
			continue
		}
		if k, ok := core.ConstInt(b.Y); ok {
			return int(k)
		}
	}
	return -1
}

func returnsIn(fn *ssa.Function) []*ssa.Return {
	var out []*ssa.Return
	for _, b := range fn.Blocks {
		if b == fn.Recover {
			continue
		}
		for _, in := range b.Instrs {
			if r, ok := in.(*ssa.Return); ok {
				out = append(out, r)
			}
		}
	}
	return out
}

func endsInPanic(b *ssa.BasicBlock) bool {
	if len(b.Instrs) == 0 {
		return false
	}
	_, ok := b.Instrs[len(b.Instrs)-1].(*ssa.Panic)
	return ok
}

// allPathsPanic: every path from b ends in a panic (no return reachable).
func allPathsPanic(b *ssa.BasicBlock) bool {
	seen := map[*ssa.BasicBlock]bool{}
	var walk func(x *ssa.BasicBlock) bool
	walk = func(x *ssa.BasicBlock) bool {
		if seen[x] {
			return true
		}
		seen[x] = true
		if endsInPanic(x) {
			return true
		}
		if len(x.Succs) == 0 {
			return false
		}
		for _, s := range x.Succs {
			if !walk(s) {
				return false
			}
		}
		return true
	}
	return walk(b)
}

// boolResultOf returns the constant booleans a return may yield (through
// defer-spilled result cells).
func boolResults(r *ssa.Return, idx int) (vals []bool, allConst bool) {
	allConst = true
	for _, v := range returnValues(r.Results[idx]) {
		if b, ok := core.ConstBool(v); ok {
			vals = append(vals, b)
		} else {
			allConst = false
		}
	}
	return
}

// R20: pairing and ordering obligations of the transient lock map.
func R20() Rule {
	return Rule{Name: "R20", Run: func(c *core.Ctx) {
		P := c.P
		la := Locks(P)
		mLock := P.MustFunc(core.PkgGcsutil, "(*TransientLockMap).Lock")
		mUnlock := P.MustFunc(core.PkgGcsutil, "(*TransientLockMap).Unlock")
		mRun := P.MustFunc(core.PkgGcsutil, "(*TransientLockMap).Run")
		mReturn := P.MustFunc(core.PkgGcsutil, "(*TransientLockMap).returnLockObj")
		cLock := P.MustFunc(core.PkgGcsutil, "(*countedLock).Lock")
		cUnlock := P.MustFunc(core.PkgGcsutil, "(*countedLock).Unlock")
		newCL := P.MustFunc(core.PkgGcsutil, "newCountedLock")
		for _, f := range []*ssa.Function{mLock, mUnlock, mRun, mReturn, cLock, cUnlock, newCL} {
			c.Fn(core.FuncName(f))
		}

		isRefcountAddr := func(v ssa.Value) (*ssa.FieldAddr, bool) {
			fa, ok := v.(*ssa.FieldAddr)
			if !ok {
				return nil, false
			}
			_, f, _ := core.FieldName(fa)
			return fa, f == "refcount" && core.TypeIs(fa.X.Type(), core.PkgGcsutil, "countedLock")
		}

		// ---- L2: the lock object handed to countedLock.Lock had its refcount incremented
		// in the same critical section as the lookup-or-create.
		{
			var acquire *core.CallInfo
			for _, ci := range core.AllCalls(mLock) {
				if ci.Static == cLock {
					acquire = ci
				}
			}
			if acquire == nil {
				c.Bad("R20", "L2/acquire-call", mLock.Pos(), "TransientLockMap.Lock does not call countedLock.Lock")
			} else {
				lockObj := core.Resolve(acquire.Common.Args[0])
				var producer *ssa.Function
				if call, ok := lockObj.(*ssa.Call); ok {
					producer = closureOf(call.Call.Value)
					if producer == nil {
						producer = call.Call.StaticCallee()
					}
				}
				if producer == nil || producer.Blocks == nil {
					c.Bad("R20", "L2/lookup-or-create", acquire.Instr.Pos(), "the lock object is not produced by one lookup-or-create critical section")
				} else {
					c.Fn(core.FuncName(producer))
					ok := true
					why := ""
					nret := 0
					for _, r := range returnsIn(producer) {
						nret++
						for _, v := range returnValues(r.Results[0]) {
							// an increment store on v.refcount that dominates the return, under mu(W)
							found := false
							for _, b := range producer.Blocks {
								for _, in := range b.Instrs {
									st, isSt := in.(*ssa.Store)
									if !isSt {
										continue
									}
									fa, isRc := isRefcountAddr(st.Addr)
									if !isRc || !core.SameValue(fa.X, v) {
										continue
									}
									bin, isBin := st.Val.(*ssa.BinOp)
									if !isBin || bin.Op != token.ADD {
										continue
									}
									if k, isK := core.ConstInt(bin.Y); !isK || k != 1 {
										continue
									}
									if !core.InstrDominates(st, r) {
										continue
									}
									if la.AbsAt(st)[lockMapMu] != mW {
										continue
									}
									found = true
								}
							}
							if !found {
								ok = false
								why = "a returned lock object has no refcount++ under the map mutex before it is handed out"
							}
						}
					}
					// the lookup must be in the same function
					hasLookup := false
					for _, b := range producer.Blocks {
						for _, in := range b.Instrs {
							if lk, isLk := in.(*ssa.Lookup); isLk {
								if _, isMap := lk.X.Type().Underlying().(*types.Map); isMap {
									hasLookup = true
								}
							}
						}
					}
					if !hasLookup {
						ok, why = false, "lookup-or-create and refcount++ are not in one critical section"
					}
					c.Check(ok && nret > 0, "R20", "L2/refcount-inc-with-lookup", producer.Pos(), "lookup-or-create and refcount++ happen in one critical section of the map mutex; every returned lock object was counted", "L2: "+why+": another goroutine can evict the lock object between lookup and acquisition")
				}
			}
		}

		// ---- L3: nothing blocks while the map mutex is held
		{
			n := 0
			bad := false
			for _, fn := range P.SrcFuncs(core.PkgGcsutil) {
				for _, b := range fn.Blocks {
					for _, in := range b.Instrs {
						if la.AbsAt(in)[lockMapMu] == mNone {
							continue
						}
						blocking := ""
						switch x := in.(type) {
						case *ssa.Select:
							if x.Blocking {
								blocking = "blocking select"
							}
						case *ssa.Send:
							blocking = "channel send"
						case *ssa.UnOp:
							if x.Op == token.ARROW {
								blocking = "channel receive"
							}
						case *ssa.Call:
							ci := core.Call(x)
							if ci.Static == cLock {
								blocking = "countedLock.Lock"
							} else if ci.Static == nil && ci.Method == nil {
								if _, isB := ci.Common.Value.(*ssa.Builtin); !isB && closureOf(ci.Common.Value) == nil {
									blocking = "call of an unknown function value"
								}
							} else if ci.Method != nil && ci.Method.Name() == "Done" {
								// ctx.Done() does not block
							}
						}
						n++
						if blocking != "" {
							bad = true
							c.Bad("R20", fmt.Sprintf("L3/%s/%s", core.FuncName(fn), blocking), in.Pos(), "%s while the map mutex is held: callers on unrelated keys are blocked behind this key's holder", blocking)
						}
					}
				}
			}
			if !bad {
				c.Ok("R20", "L3/no-blocking-under-map-mutex", mLock.Pos(), true, "%d instructions execute with the map mutex held; none is a channel operation, a countedLock.Lock or a call of an unknown function", n)
			}
			if n < 10 {
				c.Unknown("R20", "L3/floor", token.NoPos, "only %d instructions found under the map mutex", n)
			}
		}

		// ---- L4: Lock: false ⇒ returned the lock object and holds nothing; true ⇒ did not
		{
			var acq *ssa.Call
			for _, ci := range core.AllCalls(mLock) {
				if ci.Static == cLock {
					acq, _ = ci.Instr.(*ssa.Call)
				}
			}
			if acq != nil {
				okAll := true
				for i, r := range returnsIn(mLock) {
					vals, allConst := boolResults(r, 0)
					if !allConst || len(vals) != 1 {
						okAll = false
						c.Bad("R20", fmt.Sprintf("L4/return#%d", i+1), r.Pos(), "Lock returns a non-constant result; cannot relate it to the acquisition")
						continue
					}
					// which edge of the acquisition result dominates this return?
					got, known := false, false
					for _, f := range core.FactsAt(r.Block()) {
						if core.Resolve(f.Cond) == ssa.Value(acq) {
							got, known = f.Polarity, true
						}
					}
					released := false
					for _, ci := range core.AllCalls(mLock) {
						if ci.Static == mReturn && core.InstrDominates(ci.Instr, r) {
							// same lock object as the one acquired
							if core.SameValue(ci.Common.Args[2], acq.Call.Args[0]) {
								released = true
							}
						}
					}
					switch {
					case !known:
						okAll = false
						c.Bad("R20", fmt.Sprintf("L4/return#%d", i+1), r.Pos(), "a return of Lock is not decided by the result of countedLock.Lock")
					case got && (!vals[0] || released):
						okAll = false
						c.Bad("R20", fmt.Sprintf("L4/return#%d", i+1), r.Pos(), "on the path where the key was acquired Lock must return true and keep its reference (returns %v, reference released: %v)", vals[0], released)
					case !got && (vals[0] || !released):
						okAll = false
						c.Bad("R20", fmt.Sprintf("L4/return#%d", i+1), r.Pos(), "on the path where acquisition failed (context ended) Lock must give its reference back with returnLockObj and return false (returns %v, reference released: %v): otherwise the map entry leaks or a non-holder believes it holds the lock", vals[0], released)
					}
				}
				if okAll {
					c.Ok("R20", "L4/lock-result-pairing", mLock.Pos(), true, "true only on the acquired edge (reference kept); false only on the failed edge after returnLockObj on the same lock object")
				}
			}
		}

		// ---- L5: Unlock: missing key panics; release the key before giving back the reference
		{
			var producer *ssa.Function
			var rel, ret *core.CallInfo
			for _, ci := range core.AllCalls(mUnlock) {
				if ci.Static == cUnlock {
					rel = ci
				}
				if ci.Static == mReturn {
					ret = ci
				}
			}
			ok := rel != nil && ret != nil
			why := "Unlock must call countedLock.Unlock and then returnLockObj"
			if ok {
				if !core.InstrDominates(rel.Instr, ret.Instr) {
					ok, why = false, "returnLockObj runs before the key is released: the entry can be evicted while the key is still held, and a new Lock on the key creates a second lock object"
				}
				if !core.SameValue(rel.Common.Args[0], ret.Common.Args[2]) {
					ok, why = false, "the released lock object and the returned one differ"
				}
				for _, r := range returnsIn(mUnlock) {
					if !core.InstrDominates(rel.Instr, r) || !core.InstrDominates(ret.Instr, r) {
						ok, why = false, "a path through Unlock skips the release or the reference return"
					}
				}
				if call, isCall := core.Resolve(rel.Common.Args[0]).(*ssa.Call); isCall {
					producer = closureOf(call.Call.Value)
				}
			}
			c.Check(ok, "R20", "L5/unlock-order", mUnlock.Pos(), "countedLock.Unlock dominates returnLockObj on the same object, both on every returning path", "L5: "+why)
			// missing key ⇒ panic
			okp := false
			if producer != nil {
				for _, b := range producer.Blocks {
					for _, in := range b.Instrs {
						lk, isLk := in.(*ssa.Lookup)
						if !isLk || !lk.CommaOk {
							continue
						}
						// find the If on the ok component
						for _, r := range core.Referrers(lk) {
							ex, isEx := r.(*ssa.Extract)
							if !isEx || ex.Index != 1 {
								continue
							}
							for _, rr := range core.Referrers(ex) {
								if ifi, isIf := rr.(*ssa.If); isIf {
									// false edge (not found) must always panic
									if allPathsPanic(ifi.Block().Succs[1]) {
										okp = true
									}
								}
								if un, isUn := rr.(*ssa.UnOp); isUn && un.Op == token.NOT {
									for _, r3 := range core.Referrers(un) {
										if ifi, isIf := r3.(*ssa.If); isIf && allPathsPanic(ifi.Block().Succs[0]) {
											okp = true
										}
									}
								}
							}
						}
					}
				}
			}
			pos := mUnlock.Pos()
			c.Check(okp, "R20", "L5/unlock-missing-key-panics", pos, "the not-found edge of the map lookup in Unlock ends in panic on every path", "L5: unlocking a key that has no entry does not panic: state is silently corrupted")
		}

		// ---- L6: countedLock.Lock
		{
			var sel *ssa.Select
			for _, b := range cLock.Blocks {
				for _, in := range b.Instrs {
					if s, ok := in.(*ssa.Select); ok {
						sel = s
					}
				}
			}
			ok := sel != nil && sel.Blocking && len(sel.States) == 2
			why := "countedLock.Lock must be one blocking select over {send on ch, receive from ctx.Done()}"
			sendIdx, recvIdx := -1, -1
			if ok {
				for i, st := range sel.States {
					if st.Dir == types.SendOnly {
						if ld, isLd := core.Resolve(st.Chan).(*ssa.UnOp); isLd {
							if fa, isFa := ld.X.(*ssa.FieldAddr); isFa {
								if _, f, _ := core.FieldName(fa); f == "ch" {
									sendIdx = i
								}
							}
						}
					} else if st.Dir == types.RecvOnly {
						if call, isCall := core.Resolve(st.Chan).(*ssa.Call); isCall && call.Call.IsInvoke() && call.Call.Method.Name() == "Done" {
							recvIdx = i
						}
					}
				}
				if sendIdx < 0 || recvIdx < 0 {
					ok = false
				}
			}
			if ok {
				for _, r := range returnsIn(cLock) {
					vals, allConst := boolResults(r, 0)
					if !allConst || len(vals) != 1 {
						ok, why = false, "non-constant result"
						continue
					}
					idx := -1
					if core.InstrReaches(sel, r) {
						idx = selectIndexFact(sel, r.Block())
					}
					if vals[0] {
						if idx != sendIdx {
							ok, why = false, "returns true on a path that did not complete the send into the key channel: the caller believes it holds a lock it does not hold"
						}
					} else {
						ctxEnded := false
						for _, f := range core.FactsAt(r.Block()) {
							if b, isB := f.Cond.(*ssa.BinOp); isB && b.Op == token.NEQ && f.Polarity && core.IsNilConst(b.Y) {
								if call, isCall := core.Resolve(b.X).(*ssa.Call); isCall && call.Call.IsInvoke() && call.Call.Method.Name() == "Err" {
									ctxEnded = true
								}
							}
						}
						if idx != recvIdx && !ctxEnded {
							ok, why = false, "returns false on a path where neither ctx.Err() was non-nil nor ctx.Done() fired (possibly after the send succeeded: the key stays locked forever)"
						}
					}
				}
			}
			c.Check(ok, "R20", "L6/countedLock.Lock", cLock.Pos(), "true iff the select chose the send into ch; false only if the context had ended", "L6: "+why)
		}

		// ---- L7: countedLock.Unlock: non-blocking receive, default panics
		{
			var sel *ssa.Select
			selFn := cUnlock
			for _, f := range P.Scope(cUnlock, func(f *ssa.Function) bool { return core.PkgPathOf(f) != core.PkgGcsutil }) {
				for _, b := range f.Blocks {
					for _, in := range b.Instrs {
						if s, ok := in.(*ssa.Select); ok {
							sel, selFn = s, f
						}
					}
				}
			}
			ok := sel != nil && !sel.Blocking && len(sel.States) == 1 && sel.States[0].Dir == types.RecvOnly
			why := "countedLock.Unlock must be a non-blocking receive from ch"
			if ok && selFn != cUnlock {
				// the receive sits in a boolean helper (`tryRelease() bool`): it answers true exactly on the
				// receive branch, and Unlock returns normally only where the helper answered true
				res := selFn.Signature.Results()
				if res.Len() != 1 || !isBoolType(res.At(0).Type()) {
					ok, why = false, "the non-blocking receive sits in a helper that does not report whether it received"
				}
				for _, r := range returnsIn(selFn) {
					if !ok {
						break
					}
					bv, isB := core.ConstBool(r.Results[0])
					if !isB || bv != (selectIndexFact(sel, r.Block()) == 0) {
						ok, why = false, "the helper does not answer true exactly when it received"
					}
				}
				for _, r := range returnsIn(cUnlock) {
					passed := false
					for _, pc := range P.PassedValidators(r.Block()) {
						if pc.Call.Call.StaticCallee() == selFn && pc.Want != nil && pc.Want.Value != nil && pc.Want.Value.Kind() == constant.Bool && constant.BoolVal(pc.Want.Value) {
							passed = true
						}
					}
					if ok && !passed {
						ok, why = false, "Unlock returns normally although the receive helper did not report success: unlocking an unheld key must panic"
					}
				}
				if ok && len(returnsIn(cUnlock)) == 0 {
					ok, why = false, "Unlock never returns"
				}
			} else if ok {
				for _, r := range returnsIn(cUnlock) {
					if selectIndexFact(sel, r.Block()) != 0 {
						ok, why = false, "Unlock returns normally on the default branch (nothing was received): unlocking an unheld key must panic"
					}
				}
				if len(returnsIn(cUnlock)) == 0 {
					ok, why = false, "Unlock never returns"
				}
			}
			c.Check(ok, "R20", "L7/countedLock.Unlock", cUnlock.Pos(), "returns only after a successful non-blocking receive; the default branch panics", "L7: "+why)
		}

		// ---- L8: Run
		{
			var lk *ssa.Call
			var def *ssa.Defer
			var fcall *ssa.Call
			for _, b := range mRun.Blocks {
				for _, in := range b.Instrs {
					switch x := in.(type) {
					case *ssa.Call:
						ci := core.Call(x)
						if ci.Static == mLock {
							lk = x
						} else if ci.Static == nil && ci.Method == nil {
							if p, isP := core.Resolve(x.Call.Value).(*ssa.Parameter); isP && p == mRun.Params[len(mRun.Params)-1] {
								fcall = x
							}
						}
					case *ssa.Defer:
						if x.Call.StaticCallee() == mUnlock {
							def = x
						}
					}
				}
			}
			ok := lk != nil && def != nil && fcall != nil
			why := "Run must Lock, defer Unlock and call f"
			if ok {
				okEdge := false
				for _, f := range core.FactsAt(def.Block()) {
					if core.Resolve(f.Cond) == ssa.Value(lk) && f.Polarity {
						okEdge = true
					}
				}
				if !okEdge {
					ok, why = false, "Unlock is deferred on a path where Lock did not succeed (would panic or release someone else's lock)"
				}
				if !core.SameValue(def.Call.Args[1], lk.Call.Args[2]) {
					ok, why = false, "Run unlocks a different key than it locked"
				}
				if !core.InstrDominates(def, fcall) {
					ok, why = false, "f runs before the unlock is registered: a panic in f leaves the key locked forever"
				}
				okF := false
				for _, f := range core.FactsAt(fcall.Block()) {
					if core.Resolve(f.Cond) == ssa.Value(lk) && f.Polarity {
						okF = true
					}
				}
				if !okF {
					ok, why = false, "f runs on a path where the lock was not acquired"
				}
				// no way out on the acquired edge that skips the deferred unlock
				for _, r := range returnsIn(mRun) {
					acquired := false
					for _, f := range core.FactsAt(r.Block()) {
						if core.Resolve(f.Cond) == ssa.Value(lk) && f.Polarity {
							acquired = true
						}
					}
					if acquired && !core.InstrDominates(def, r) {
						ok, why = false, "Run can return on the path where the lock was acquired without having registered the unlock: the key stays locked forever"
					}
				}
			}
			c.Check(ok, "R20", "L8/Run", mRun.Pos(), "f runs only on the acquired edge, after `defer Unlock(sameKey)`", "L8: "+why)
		}

		// ---- L9: returnLockObj
		{
			var dec *ssa.Store
			var del ssa.Instruction
			for _, b := range mReturn.Blocks {
				for _, in := range b.Instrs {
					if st, ok := in.(*ssa.Store); ok {
						if _, isRc := isRefcountAddr(st.Addr); isRc {
							if bin, isBin := st.Val.(*ssa.BinOp); isBin && bin.Op == token.SUB {
								dec = st
							}
						}
					}
					if call, ok := in.(*ssa.Call); ok {
						if bi, isB := call.Call.Value.(*ssa.Builtin); isB && bi.Name() == "delete" {
							del = call
						}
					}
				}
			}
			ok := dec != nil && del != nil
			why := "returnLockObj must decrement refcount and delete the entry at zero"
			if ok {
				if !core.InstrDominates(dec, del) {
					ok, why = false, "the entry is deleted before the decrement"
				}
				zero := false
				for _, f := range core.FactsAt(del.Block()) {
					l, op, r, isCmp := cmpNorm(f)
					if !isCmp || op != token.EQL {
						continue
					}
					k, isK := core.ConstInt(r)
					if !isK || k != 0 {
						continue
					}
					if ld, isLd := core.Strip(l).(*ssa.UnOp); isLd {
						if _, isRc := isRefcountAddr(ld.X); isRc && core.InstrDominates(dec, ld) {
							zero = true
						}
					}
				}
				if !zero {
					ok, why = false, "delete(l.locks, key) is not confined to refcount == 0 (after the decrement): an entry still referenced by a holder or waiter is evicted, and the next Lock on the key creates a second, independent lock"
				}
				if la.AbsAt(del)[lockMapMu] != mW {
					ok, why = false, "the eviction is not under the map mutex"
				}
				if rel, released := releasedBetween(la, dec, del, lockMapMu); released {
					ok, why = false, fmt.Sprintf("the map mutex is released (at %s) between the decrement and the eviction: a new Lock can take a reference in the gap and is then evicted while holding the key", P.Pos(rel.Pos()))
				}
			}
			c.Check(ok, "R20", "L9/evict-at-zero", mReturn.Pos(), "delete is dominated by the decrement and by the refcount==0 edge, under the map mutex", "L9: "+why)
		}

		// ---- L10: the key channel has capacity exactly 1
		{
			n, ok := 0, true
			for _, fn := range P.SrcFuncs(core.PkgGcsutil) {
				for _, b := range fn.Blocks {
					for _, in := range b.Instrs {
						st, isSt := in.(*ssa.Store)
						if !isSt {
							continue
						}
						fa, isFa := st.Addr.(*ssa.FieldAddr)
						if !isFa {
							continue
						}
						if _, f, _ := core.FieldName(fa); f != "ch" || !core.TypeIs(fa.X.Type(), core.PkgGcsutil, "countedLock") {
							continue
						}
						n++
						mk, isMk := core.Resolve(st.Val).(*ssa.MakeChan)
						if !isMk {
							ok = false
							continue
						}
						if k, isK := core.ConstInt(mk.Size); !isK || k != 1 {
							ok = false
						}
					}
				}
			}
			c.Check(ok && n >= 1, "R20", "L10/capacity-one", newCL.Pos(), "every channel stored in countedLock.ch is made with constant capacity 1 (binary semaphore)", "L10: the key channel is not a capacity-1 channel: with capacity 0 Lock blocks forever, with more than 1 several callers hold the key at once")
		}
	}}
}
