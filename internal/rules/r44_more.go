package rules

import (
	"fmt"
	"go/token"
	"go/types"

	"golang.org/x/tools/go/ssa"

	"verif/internal/core"
)

// releasedBetween: on some path from a to b (same function) the lock is
// released — by a direct Unlock/RUnlock or by a synchronous callee that
// releases and re-takes it (epoch break).
func releasedBetween(la *LockAnalysis, a, b ssa.Instruction, lock string) (ssa.Instruction, bool) {
	fn := a.Parent()
	if fn != b.Parent() {
		return nil, false
	}
	for _, blk := range fn.Blocks {
		for _, in := range blk.Instrs {
			ci := core.Call(in)
			if ci == nil {
				continue
			}
			rel := false
			if op, ok := lockOpOf(ci); ok && op.lock == lock && !op.acq {
				if _, isDefer := in.(*ssa.Defer); !isDefer {
					rel = true
				}
			} else if _, isGo := in.(*ssa.Go); !isGo {
				for _, callee := range la.calleesOf(ci) {
					if la.Breaks[callee][lock] {
						rel = true
					}
				}
			}
			if rel && in != a && in != b && core.InstrReaches(a, in) && core.InstrReaches(in, b) {
				return in, true
			}
		}
	}
	return nil, false
}

// ---------------------------------------------------------------------------
// R44: check-then-act on a guarded map happens under one uninterrupted hold
// ---------------------------------------------------------------------------

// R44: when a function looks a key up in a mutex-guarded map and later inserts
// into / deletes from the same map, the guard is not released in between:
// otherwise two requests can both pass the check and both act (two CreateTable
// of one name both succeed and one table replaces the other; an entry is
// evicted although a new holder took a reference in the gap).
func R44() Rule {
	return Rule{Name: "R44", Run: func(c *core.Ctx) {
		P := c.P
		la := Locks(P)
		n := 0
		var pkgs []string
		for p := range P.SPkgs {
			pkgs = append(pkgs, p)
		}
		for _, pkg := range []string{core.PkgBttest, core.PkgGcsemu, core.PkgGcsutil} {
			if P.SPkgs[pkg] == nil {
				continue
			}
			for _, fn := range P.SrcFuncs(pkg) {
				type acc struct {
					in    ssa.Instruction
					spec  *guardSpec
					write bool
				}
				var accs []acc
				for _, b := range fn.Blocks {
					for _, in := range b.Instrs {
						var m ssa.Value
						write := false
						switch x := in.(type) {
						case *ssa.Lookup:
							m = x.X
						case *ssa.MapUpdate:
							m, write = x.Map, true
						case *ssa.Call:
							if bi, ok := x.Call.Value.(*ssa.Builtin); ok && bi.Name() == "delete" {
								m, write = x.Call.Args[0], true
							}
						}
						if m == nil {
							continue
						}
						if _, isMap := m.Type().Underlying().(*types.Map); !isMap {
							continue
						}
						ld, ok := core.Strip(m).(*ssa.UnOp)
						if !ok {
							continue
						}
						if g := findGuard(ld.X); g != nil && g.kind == gkMap {
							accs = append(accs, acc{in, g, write})
						}
					}
				}
				k := 0
				for _, w := range accs {
					if !w.write {
						continue
					}
					for _, r := range accs {
						if r.write || r.spec != w.spec || !core.InstrReaches(r.in, w.in) {
							continue
						}
						n++
						k++
						c.Fn(core.FuncName(fn))
						construct := fmt.Sprintf("%s/%s.%s/check-then-act#%d", core.FuncName(fn), w.spec.typ, w.spec.field, k)
						if rel, bad := releasedBetween(la, r.in, w.in, w.spec.lock); bad {
							c.Bad("R44", construct, w.in.Pos(), "the lookup at %s and this update of %s.%s are separated by a release of %s at %s: two requests can both pass the check and both act", P.Pos(r.in.Pos()), w.spec.typ, w.spec.field, w.spec.lock, P.Pos(rel.Pos()))
						} else {
							c.Ok("R44", construct, w.in.Pos(), true, "lookup and update under one uninterrupted hold of %s", w.spec.lock)
						}
					}
				}
			}
		}
		_ = pkgs
		if n < 2 {
			c.Unknown("R44", "floor/pairs", token.NoPos, "only %d lookup→update pairs on guarded maps found", n)
		}
	}}
}

// ---------------------------------------------------------------------------
// R46: object locks are never nested
// ---------------------------------------------------------------------------

// R46: the per-object locks are not re-entrant and carry no ordering, so taking
// a second one while holding the first deadlocks (same key: at once; crossing
// keys: under contention) and — inside a batch, whose sub-requests have no
// deadline — wedges the object forever.  No TransientLockMap.Run/Lock may be
// reachable from inside a closure passed to Run.
func R46() Rule {
	return Rule{Name: "R46", Run: func(c *core.Ctx) {
		P := c.P
		n := 0
		for _, fn := range P.SrcFuncs(core.PkgGcsemu) {
			sec, _ := sectionOfClosure(P, fn)
			if sec == nil {
				continue
			}
			n++
			c.Fn(core.FuncName(fn))
			var nested ssa.Instruction
			for _, f := range P.Scope(fn, func(f *ssa.Function) bool { return core.PkgPathOf(f) != core.PkgGcsemu }) {
				for _, ci := range core.AllCalls(f) {
					if ci.MethodOn(core.PkgGcsutil, "TransientLockMap", "Run") || ci.MethodOn(core.PkgGcsutil, "TransientLockMap", "Lock") {
						nested = ci.Instr
					}
				}
			}
			construct := fmt.Sprintf("%s/no-nested-object-lock", core.FuncName(fn))
			if nested != nil {
				c.Bad("R46", construct, nested.Pos(), "a second object lock is taken while the critical section of another is running: the locks are not re-entrant and unordered, so a request naming one object twice hangs and two requests crossing each other deadlock")
			} else {
				c.Ok("R46", construct, fn.Pos(), true, "no object lock is taken inside this critical section")
			}
		}
		if n < 3 {
			c.Unknown("R46", "floor/sections", token.NoPos, "only %d critical sections found", n)
		}
	}}
}
