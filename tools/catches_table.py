#!/usr/bin/env python3
"""Prints the markdown table 'which checks catch which seeded changes' from regress/matrix.json
(written by tools/matrix.py) and the seed reports."""
import json, re, os, glob
V='/verif'
d=json.load(open(f'{V}/regress/matrix.json'))
def title(name):
    prop,n=name.split('-'); n=int(n)
    rep=os.path.join(V,'seeded',name,'SEED_REPORT.md')
    if not os.path.exists(rep): return ''
    t=open(rep).read()
    k=1 if n % 2 == 1 else 2
    m=re.search(r'^#+\s*\**Seed\s*%d\b[^\n]*'%k, t, re.M)
    if not m: return ''
    s=re.sub(r'^#+\s*\**Seed\s*%d\s*[—:\-–]*\s*'%k,'',m.group(0)).strip('* ').replace('|','/')
    return s[:110]
rows=[]
for k in sorted(d):
    if not k.startswith('seeded-'): continue
    name=k[7:]; v=d[k]
    if 'error' in v: rows.append((name,'(patch does not apply)','','')); continue
    rules={}
    for p,r in sorted(v.items()):
        if r['exit']==1:
            rs=sorted(set(re.findall(r'\[(R\d+)\]',' '.join(r['lines']))))
            rules[p]=rs
    own=name.split('-')[0]
    rows.append((name,title(name), ', '.join(rules.get(own,[])) or '**missed**', ', '.join(f'{p} ({"/".join(rs)})' for p,rs in rules.items() if p!=own)))
print('| change | what was changed | reported under its own property by | also reported under |')
print('|---|---|---|---|')
for r in rows: print('| %s | %s | %s | %s |'%r)
own=sum(1 for r in rows if r[2] and r[2]!='**missed**'); print(f'\n{own} of {len(rows)} seeded changes are reported under the property they were seeded for;',sum(1 for r in rows if (r[2] and r[2]!='**missed**') or r[3]),'by at least one property.')
