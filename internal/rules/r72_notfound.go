package rules

import (
	"fmt"
	"go/token"
	"go/types"

	"golang.org/x/tools/go/ssa"

	"verif/internal/core"
)

// ---------------------------------------------------------------------------
// R72: a request that names a table the registry does not hold is answered
// NotFound (and one that creates an existing table AlreadyExists).
//
// C14: "DeleteTable makes the table and its data unreachable (NotFound for every
// later request)", "AlreadyExists if present"; C20: "requests for missing tables …
// answered with a well-formed … error".  Every comma-ok lookup in the table
// registry (a map whose element type is *table) branches on `ok`; on the edge
// that means "the request cannot be served" — the absent edge when the table is
// needed or the branch returns at once, the present edge of a creation — every
// return reached reports a gRPC status with the constant code the API prescribes
// (directly, or through a helper all of whose results are such statuses).  A
// missing table answered with OK (an "idempotent" delete), Internal or Unknown is
// what clients and the other RPCs do not expect.
// ---------------------------------------------------------------------------

const (
	codeAlreadyExists = 6
	codeNotFound      = 5
)

// statusWithCode: v is an error that is certainly a gRPC status with the given code.
func statusWithCode(P *core.Program, v ssa.Value, code int64, depth int) bool {
	if depth > 4 {
		return false
	}
	switch x := core.Resolve(v).(type) {
	case *ssa.Call:
		sc := x.Call.StaticCallee()
		if sc == nil {
			return false
		}
		if sc.Pkg != nil && sc.Pkg.Pkg.Path() == "google.golang.org/grpc/status" && (sc.Name() == "Errorf" || sc.Name() == "Error") {
			k, ok := core.ConstInt(x.Call.Args[0])
			return ok && k == code
		}
		if sc.Blocks != nil && P.SPkgs[core.PkgPathOf(sc)] != nil && sc.Signature.Results().Len() == 1 {
			rets := returnsIn(sc)
			if len(rets) == 0 {
				return false
			}
			for _, r := range rets {
				if !statusWithCode(P, r.Results[0], code, depth+1) {
					return false
				}
			}
			return true
		}
	case *ssa.Phi:
		for _, e := range x.Edges {
			if !statusWithCode(P, e, code, depth+1) {
				return false
			}
		}
		return len(x.Edges) > 0
	case *ssa.MakeInterface:
		return statusWithCode(P, x.X, code, depth+1)
	}
	return false
}

func isTableRegistry(t types.Type) bool {
	m, ok := t.Underlying().(*types.Map)
	if !ok {
		return false
	}
	n := core.NamedOf(m.Elem())
	return n != nil && n.Obj().Pkg() != nil && n.Obj().Pkg().Path() == core.PkgBttest && core.TName(n) == "table"
}

func R72() Rule {
	return Rule{Name: "R72", Run: func(c *core.Ctx) {
		P := c.P
		if P.SPkgs[core.PkgBttest] == nil {
			return
		}
		n := 0
		for _, fn := range P.SrcFuncs(core.PkgBttest) {
			k := 0
			for _, b := range fn.Blocks {
				for _, in := range b.Instrs {
					lk, ok := in.(*ssa.Lookup)
					if !ok || !lk.CommaOk || !isTableRegistry(lk.X.Type()) {
						continue
					}
					var okv, val ssa.Value
					for _, r := range core.Referrers(lk) {
						if ex, isEx := r.(*ssa.Extract); isEx {
							if ex.Index == 1 {
								okv = ex
							} else if len(core.Referrers(ex)) > 0 {
								val = ex
							}
						}
					}
					if okv == nil {
						continue
					}
					// the branch on ok (possibly through a negation or a stored local)
					var ifi *ssa.If
					presentSucc := 0
					var find func(v ssa.Value, neg bool, depth int)
					find = func(v ssa.Value, neg bool, depth int) {
						if depth > 4 || ifi != nil {
							return
						}
						for _, r := range core.Referrers(v) {
							switch x := r.(type) {
							case *ssa.If:
								ifi = x
								presentSucc = 0
								if neg {
									presentSucc = 1
								}
								return
							case *ssa.UnOp:
								if x.Op == token.NOT {
									find(x, !neg, depth+1)
								}
							case *ssa.Store:
								if cell := core.CellOf(x.Addr); cell != nil {
									for _, rr := range core.Referrers(cell) {
										if ld, isLd := rr.(*ssa.UnOp); isLd && ld.Op == token.MUL {
											find(ld, neg, depth+1)
										}
									}
								}
							}
						}
					}
					find(okv, false, 0)
					if ifi == nil {
						continue
					}
					n++
					k++
					c.Fn(core.FuncName(core.Root(fn)))
					present, absent := ifi.Block().Succs[presentSucc], ifi.Block().Succs[1-presentSucc]
					judge := func(edge *ssa.BasicBlock, other *ssa.BasicBlock, code int64, what, construct string) {
						// returns that can only be reached through this edge
						var rets []*ssa.Return
						for _, r := range returnsIn(fn) {
							if edge.Dominates(r.Block()) && len(edge.Preds) == 1 {
								rets = append(rets, r)
							}
						}
						if len(rets) == 0 {
							c.Ok("R72", construct, lk.Pos(), false, "no return is specific to this edge")
							return
						}
						for _, r := range rets {
							if len(r.Results) == 0 {
								continue
							}
							ev := r.Results[len(r.Results)-1]
							if !isErrorType(ev.Type()) {
								continue
							}
							if !statusWithCode(P, ev, code, 0) {
								c.Bad("R72", construct, r.Pos(), "%s, and this return does not report a gRPC status with the constant code %d (%s): the client is told OK, Internal or Unknown for a request that names %s", what, code, map[int64]string{5: "NotFound", 6: "AlreadyExists"}[code], map[int64]string{5: "a table that does not exist", 6: "a table that already exists"}[code])
								return
							}
						}
						c.Ok("R72", construct, lk.Pos(), true, "%s: every return on that edge is a status with code %d", what, code)
					}
					base := fmt.Sprintf("%s/registry-lookup#%d", core.FuncName(core.Root(fn)), k)
					endsInErrorReturn := func(b *ssa.BasicBlock) bool {
						if len(b.Instrs) == 0 {
							return false
						}
						r, ok := b.Instrs[len(b.Instrs)-1].(*ssa.Return)
						if !ok || len(r.Results) == 0 {
							return false
						}
						ev := r.Results[len(r.Results)-1]
						return isErrorType(ev.Type()) && !core.IsNilConst(ev)
					}
					switch {
					case val != nil:
						judge(absent, present, codeNotFound, "the table this request needs is not in the registry", base+"/absent-is-NotFound")
					case endsInErrorReturn(present) && !endsInErrorReturn(absent):
						judge(present, absent, codeAlreadyExists, "the table this request creates is already in the registry", base+"/present-is-AlreadyExists")
					default:
						judge(absent, present, codeNotFound, "the table this request names is not in the registry", base+"/absent-is-NotFound")
					}
				}
			}
		}
		if n < 2 {
			c.Unknown("R72", "floor/registry-lookups", token.NoPos, "only %d comma-ok lookups in the table registry found", n)
		}
	}}
}

// ---------------------------------------------------------------------------
// R73: an object (or bucket) the store does not have is answered 404.
//
// C02: "a delete makes it absent (404) from metadata, download and listing";
// C15: "a missing source is 404"; C20: "requests for missing … buckets or
// objects" get a well-formed error.  The stores signal "not found" with a nil
// object and a nil error.  On the branch where the result of a store read is
// known nil, every error response written (gapiError) and every coded error
// built (fmtErrorfCode) carries the constant 404 — not 500, 400 or 200.
// Branches that write no response of their own (the upload paths, where an
// absent object is a legitimate state judged by validateConds) are not
// obligations.
// ---------------------------------------------------------------------------

func R73() Rule {
	return Rule{Name: "R73", Run: func(c *core.Ctx) {
		P := c.P
		if P.SPkgs[core.PkgGcsemu] == nil {
			return
		}
		fromStoreRead := func(v ssa.Value) bool {
			var rec func(v ssa.Value, depth int) bool
			seen := map[ssa.Value]bool{}
			rec = func(v ssa.Value, depth int) bool {
				if v == nil || depth > 6 || seen[v] {
					return false
				}
				seen[v] = true
				switch x := v.(type) {
				case *ssa.Extract:
					if call, ok := x.Tuple.(*ssa.Call); ok && x.Index == 0 {
						if ci := core.Call(call); ci != nil && isStoreCall(ci, "Get", "GetMeta", "ReadMeta", "GetBucketMeta") {
							return true
						}
						// a helper that hands a store read through (finishCompose → GetMeta)
						if sc := call.Call.StaticCallee(); sc != nil && sc.Blocks != nil && core.PkgPathOf(sc) == core.PkgGcsemu {
							for _, r := range returnsIn(sc) {
								if x.Index < len(r.Results) && rec(r.Results[x.Index], depth+1) {
									return true
								}
							}
						}
					}
				case *ssa.Call:
					if ci := core.Call(x); ci != nil && isStoreCall(ci, "GetBucketMeta") {
						return true
					}
				case *ssa.MakeInterface:
					return rec(x.X, depth+1)
				case *ssa.Phi:
					for _, e := range x.Edges {
						if rec(e, depth+1) {
							return true
						}
					}
				case *ssa.UnOp:
					if x.Op == token.MUL {
						if cell := core.CellOf(x.X); cell != nil {
							for _, st := range core.StoresTo(cell) {
								if rec(st.Val, depth+1) {
									return true
								}
							}
						}
					}
				}
				return false
			}
			return rec(v, 0)
		}
		n := 0
		for _, fn := range P.SrcFuncs(core.PkgGcsemu) {
			k := 0
			for _, b := range fn.Blocks {
				ifi, ok := lastIf(b)
				if !ok {
					continue
				}
				bin, ok := ifi.Cond.(*ssa.BinOp)
				if !ok || (bin.Op != token.EQL && bin.Op != token.NEQ) {
					continue
				}
				var v ssa.Value
				switch {
				case core.IsNilConst(bin.Y):
					v = bin.X
				case core.IsNilConst(bin.X):
					v = bin.Y
				default:
					continue
				}
				if _, isIface := v.Type().Underlying().(*types.Interface); (!isPtr(v.Type()) && !isIface) || !fromStoreRead(v) {
					continue
				}
				nilSucc := b.Succs[0]
				if bin.Op == token.NEQ {
					nilSucc = b.Succs[1]
				}
				if len(nilSucc.Preds) != 1 {
					continue
				}
				// coded responses / errors that are specific to the nil branch
				type coded struct {
					pos  token.Pos
					code int64
					ok   bool
				}
				var found []coded
				for _, rb := range fn.Blocks {
					if !nilSucc.Dominates(rb) {
						continue
					}
					for _, in := range rb.Instrs {
						ci := core.Call(in)
						if ci == nil || ci.Static == nil {
							continue
						}
						if core.PkgPathOf(ci.Static) != core.PkgGcsemu {
							continue
						}
						if codeArg := codedArg(ci); codeArg != nil {
							k2, isC := core.ConstInt(codeArg)
							found = append(found, coded{ci.Instr.Pos(), k2, isC})
							continue
						}
						// a responder helper (`g.respondNotFound(w, bucket, name)`): the constant codes it answers with
						if ci.Static.Blocks != nil && ci.Static.Parent() == nil {
							for _, f := range P.Scope(ci.Static, func(f *ssa.Function) bool { return core.PkgPathOf(f) != core.PkgGcsemu }) {
								if core.FuncName(f) == "(*GcsEmu).gapiError" || core.FuncName(f) == "fmtErrorfCode" {
									continue
								}
								for _, c2 := range core.AllCalls(f) {
									if c2.Static == nil || core.PkgPathOf(c2.Static) != core.PkgGcsemu {
										continue
									}
									if a := codedArg(c2); a != nil {
										if k2, isC := core.ConstInt(a); isC {
											found = append(found, coded{ci.Instr.Pos(), k2, true})
										}
									}
								}
							}
						}
					}
				}
				if len(found) == 0 {
					continue
				}
				n++
				k++
				c.Fn(core.FuncName(core.Root(fn)))
				construct := fmt.Sprintf("%s/store-read-nil#%d/answered-404", core.FuncName(core.Root(fn)), k)
				bad := token.NoPos
				var badCode int64
				for _, f := range found {
					if !f.ok || f.code != 404 {
						bad, badCode = f.pos, f.code
					}
				}
				if bad != token.NoPos {
					c.Bad("R73", construct, bad, "on the branch where the store reported the object (or bucket) as not found (nil, no error) the response / coded error carries %d instead of the constant 404: a deleted or never-created object is not reported absent", badCode)
				} else {
					c.Ok("R73", construct, found[0].pos, true, "the not-found branch answers 404 (%d coded site(s))", len(found))
				}
			}
		}
		if n < 1 {
			c.Unknown("R73", "floor/not-found-branches", token.NoPos, "no not-found branch with a coded response found")
		}
	}}
}

// codedArg: the status-code argument of the two functions that build coded errors / error responses.
func codedArg(ci *core.CallInfo) ssa.Value {
	switch core.FuncName(ci.Static) {
	case "(*GcsEmu).gapiError":
		if len(ci.Common.Args) >= 3 {
			return ci.Common.Args[2]
		}
	case "fmtErrorfCode":
		if len(ci.Common.Args) >= 1 {
			return ci.Common.Args[0]
		}
	}
	return nil
}

// ---------------------------------------------------------------------------
// R83: API-level errors are answered in the JSON envelope.
//
// C20: "an HTTP status with an error body, JSON for API-level errors".  Inside the
// request handlers (everything reached from (*GcsEmu).Handler and BatchHandler)
// an error response is produced by gapiError, which writes the JSON error
// envelope clients parse.  A handler that calls net/http.Error / http.NotFound
// (text/plain) — typically in a newly added branch — answers with a body the
// client libraries cannot decode.  The transport-level wrappers outside the
// handlers (gzip decoding) are not API-level and are not in scope.
// Expected-zero rule; its positive example lives in mutants.json.
// ---------------------------------------------------------------------------

func R83() Rule {
	return Rule{Name: "R83", Run: func(c *core.Ctx) {
		P := c.P
		if P.SPkgs[core.PkgGcsemu] == nil {
			return
		}
		n, nBad := 0, 0
		for _, rootName := range []string{"(*GcsEmu).Handler", "(*GcsEmu).BatchHandler"} {
			root := P.MustFunc(core.PkgGcsemu, rootName)
			c.Fn(rootName)
			for _, f := range P.Scope(root, func(f *ssa.Function) bool { return core.PkgPathOf(f) != core.PkgGcsemu }) {
				// the envelope primitives themselves: their only plain-text answer is for a failure to encode or
				// write the JSON body (the transport is gone; nothing API-level is left to report)
				if fname := core.FuncName(core.Root(f)); fname == "(*GcsEmu).jsonRespond" || fname == "(*GcsEmu).gapiError" {
					continue
				}
				n++
				k := 0
				for _, ci := range core.AllCalls(f) {
					if ci.IsFunc("net/http", "Error") || ci.IsFunc("net/http", "NotFound") {
						nBad++
						k++
						c.Bad("R83", fmt.Sprintf("%s/plain-text-error#%d", core.FuncName(core.Root(f)), k), ci.Instr.Pos(), "an API-level error is answered with net/http.%s (text/plain) instead of the JSON error envelope written by gapiError: client libraries cannot decode the error", ci.Static.Name())
					}
				}
			}
		}
		if nBad == 0 {
			c.Ok("R83", "handlers/no-plain-text-errors", token.NoPos, false, "no function reached from the two request handlers (%d) answers with net/http.Error or http.NotFound", n)
		}
	}}
}
