package rules

import (
	"fmt"
	"go/token"
	"go/types"

	"golang.org/x/tools/go/ssa"

	"verif/internal/core"
)

// ---------------------------------------------------------------------------
// R62: the declared Content-Length never bounds a read of the request body.
//
// GzipRequestHandler replaces r.Body by a decompressing reader and leaves
// r.ContentLength at the length of the *compressed* body.  Any read of the body
// whose extent is taken from Request.ContentLength (a buffer of that length
// filled with io.ReadFull, io.LimitReader / io.CopyN / MaxBytesReader with that
// limit, a slice bound) therefore truncates every gzip-encoded upload whose
// content is longer than its compressed form — C02's "optionally
// gzip-compressed request bodies are returned byte-for-byte".  The rule is
// discharged wholesale when the wrapper itself re-assigns r.ContentLength on
// the path that substitutes the body.  Using the value as a capacity hint
// (make([]byte, 0, n), Buffer.Grow) or in comparisons is not a bound.
// Expected instance count on today's tree: zero readers of the field; the
// positive example lives in mutants.json (upload-body-sized-by-content-length).
// ---------------------------------------------------------------------------

func isRequestContentLength(fa *ssa.FieldAddr) bool {
	owner := core.NamedOf(fa.X.Type())
	if owner == nil || owner.Obj().Pkg() == nil || owner.Obj().Pkg().Path() != "net/http" || owner.Obj().Name() != "Request" {
		return false
	}
	st, ok := owner.Underlying().(*types.Struct)
	return ok && fa.Field < st.NumFields() && st.Field(fa.Field).Name() == "ContentLength"
}

func R62() Rule {
	return Rule{Name: "R62", Run: func(c *core.Ctx) {
		P := c.P
		if P.SPkgs[core.PkgGcsemu] == nil {
			return
		}
		// does the gzip wrapper repair the length itself?
		repaired := false
		if gz := P.Func(core.PkgGcsemu, "GzipRequestHandler"); gz != nil {
			for _, f := range core.Family(gz) {
				for _, b := range f.Blocks {
					for _, in := range b.Instrs {
						if st, ok := in.(*ssa.Store); ok {
							if fa, ok := st.Addr.(*ssa.FieldAddr); ok && isRequestContentLength(fa) {
								repaired = true
							}
						}
					}
				}
			}
		}
		nLoads, nBad := 0, 0
		for _, fn := range P.SrcFuncs(core.PkgGcsemu) {
			for _, b := range fn.Blocks {
				for _, in := range b.Instrs {
					ld, ok := in.(*ssa.UnOp)
					if !ok || ld.Op != token.MUL {
						continue
					}
					fa, ok := ld.X.(*ssa.FieldAddr)
					if !ok || !isRequestContentLength(fa) {
						continue
					}
					nLoads++
					c.Fn(core.FuncName(core.Root(fn)))
					construct := fmt.Sprintf("%s/Request.ContentLength#%d", core.FuncName(core.Root(fn)), nLoads)
					if repaired {
						c.Ok("R62", construct, ld.Pos(), false, "the gzip wrapper re-assigns r.ContentLength when it substitutes the body")
						continue
					}
					if sink := boundsABodyRead(P, ld, map[ssa.Value]bool{}, 0); sink != nil {
						nBad++
						c.Bad("R62", construct, sink.Pos(), "the request's declared Content-Length (read at %s) determines how much of the body is read here, but GzipRequestHandler has replaced r.Body by a decompressing reader and left ContentLength at the compressed size: a gzip-encoded upload is silently truncated to its compressed length (and stored with the size and MD5 of the truncated bytes)", P.Pos(ld.Pos()))
					} else {
						c.Ok("R62", construct, ld.Pos(), true, "the declared length is only compared or used as a capacity hint, never as the extent of a body read")
					}
				}
			}
		}
		if nLoads == 0 {
			c.Ok("R62", "no-reader-of-Request.ContentLength", token.NoPos, false, "no handler reads Request.ContentLength (bodies are read to EOF)")
		}
	}}
}

// boundsABodyRead follows v forward (conversions, arithmetic, φ, helper parameters, results of
// min/max-like helpers) and returns the first instruction that uses it as the extent of a read.
func boundsABodyRead(P *core.Program, v ssa.Value, seen map[ssa.Value]bool, depth int) ssa.Instruction {
	if depth > 8 || seen[v] {
		return nil
	}
	seen[v] = true
	for _, r := range core.Referrers(v) {
		switch x := r.(type) {
		case *ssa.Convert:
			if s := boundsABodyRead(P, x, seen, depth+1); s != nil {
				return s
			}
		case *ssa.ChangeType:
			if s := boundsABodyRead(P, x, seen, depth+1); s != nil {
				return s
			}
		case *ssa.Phi:
			if s := boundsABodyRead(P, x, seen, depth+1); s != nil {
				return s
			}
		case *ssa.BinOp:
			switch x.Op {
			case token.ADD, token.SUB, token.MUL, token.QUO:
				if s := boundsABodyRead(P, x, seen, depth+1); s != nil {
					return s
				}
			}
		case *ssa.MakeSlice:
			if x.Len == v {
				return x
			}
		case *ssa.Slice:
			if x.High == v || x.Max == v {
				return x
			}
		case *ssa.Store:
			// a local variable: follow its loads
			if cell := core.CellOf(x.Addr); cell != nil && x.Val == v {
				for _, rr := range core.Referrers(cell) {
					if ld, ok := rr.(*ssa.UnOp); ok && ld.Op == token.MUL {
						if s := boundsABodyRead(P, ld, seen, depth+1); s != nil {
							return s
						}
					}
				}
			}
		case ssa.CallInstruction:
			ci := core.Call(x)
			if ci == nil {
				continue
			}
			if ci.Static != nil && ci.Static.Pkg != nil {
				pkg, name := ci.Static.Pkg.Pkg.Path(), ci.Static.Name()
				if (pkg == "io" && (name == "LimitReader" || name == "CopyN" || name == "ReadAtLeast" || name == "NewSectionReader")) ||
					(pkg == "net/http" && name == "MaxBytesReader") {
					return x
				}
			}
			if b, ok := ci.Common.Value.(*ssa.Builtin); ok && (b.Name() == "min" || b.Name() == "max") {
				if val, ok := x.(ssa.Value); ok {
					if s := boundsABodyRead(P, val, seen, depth+1); s != nil {
						return s
					}
				}
				continue
			}
			// into an in-repository helper's parameter
			if ci.Static != nil && ci.Static.Blocks != nil && core.PkgPathOf(ci.Static) == core.PkgGcsemu {
				args := ci.Common.Args
				for i, a := range args {
					if a == v && i < len(ci.Static.Params) {
						if s := boundsABodyRead(P, ci.Static.Params[i], seen, depth+1); s != nil {
							return s
						}
					}
				}
			}
		}
	}
	return nil
}

// ---------------------------------------------------------------------------
// R77: bytes handed to the store are not recycled.
//
// C02: "what is uploaded is what is served, until overwritten or deleted".
// Store.Add keeps the content slice it is given (the memory store stores the
// slice itself).  A buffer that has been passed to Add therefore belongs to the
// stored object: reslicing it to length zero for re-use (`buf[:0]` into a
// sync.Pool, or as the start of the next upload's assembly buffer) lets a later
// upload overwrite the bytes of an object stored under another name, while its
// size and MD5 metadata stay what they were.  (Counterpart of R42 — bytes handed
// *out* by the store are never appended to — and of R53 for sent gRPC buffers.)
// Structural necessary condition: no `x[:0]` reslice of a variable or field that
// also feeds the content argument of Store.Add.
// ---------------------------------------------------------------------------

func R77() Rule {
	return Rule{Name: "R77", Run: func(c *core.Ctx) {
		P := c.P
		if P.SPkgs[core.PkgGcsemu] == nil {
			return
		}
		// locations (fields, variables) whose content reaches Store.Add's content argument
		var adds []*core.CallInfo
		for _, fn := range P.SrcFuncs(core.PkgGcsemu) {
			for _, ci := range core.AllCalls(fn) {
				if isStoreCall(ci, "Add") && len(ci.Common.Args) >= 3 {
					adds = append(adds, ci)
				}
			}
		}
		if len(adds) == 0 {
			c.Unknown("R77", "floor/adds", token.NoPos, "no Store.Add call found")
			return
		}
		feedsAdd := func(loc string) bool {
			for _, a := range adds {
				if flowsFrom(P, a.Common.Args[2], func(v ssa.Value) bool { return loadedLocation(v) == loc }, map[ssa.Value]bool{}, 0) {
					return true
				}
			}
			return false
		}
		n := 0
		for _, fn := range P.SrcFuncs(core.PkgGcsemu) {
			k := 0
			for _, b := range fn.Blocks {
				for _, in := range b.Instrs {
					sl, ok := in.(*ssa.Slice)
					if !ok || sl.High == nil {
						continue
					}
					if hi, isC := core.ConstInt(sl.High); !isC || hi != 0 {
						continue
					}
					if _, isSlice := sl.X.Type().Underlying().(*types.Slice); !isSlice {
						continue
					}
					loc := loadedLocation(sl.X)
					if loc == "" {
						continue
					}
					n++
					k++
					c.Fn(core.FuncName(core.Root(fn)))
					construct := fmt.Sprintf("%s/reslice-to-zero#%d", core.FuncName(core.Root(fn)), k)
					if feedsAdd(loc) {
						c.Bad("R77", construct, sl.Pos(), "this buffer is resliced to length zero for re-use although its contents are handed to Store.Add, which keeps the slice it is given (the memory store stores it as the object's content): the next user of the recycled buffer overwrites the bytes of an object that is already stored, under whatever name, while its size and MD5 stay unchanged")
					} else {
						c.Ok("R77", construct, sl.Pos(), true, "the recycled buffer never reaches Store.Add")
					}
				}
			}
		}
		if n == 0 {
			c.Ok("R77", "no-buffer-recycling", token.NoPos, false, "no buffer is resliced to length zero in the package (%d Store.Add sites)", len(adds))
		}
	}}
}

// ---------------------------------------------------------------------------
// R79: the MD5 recorded for an uploaded object is computed from the bytes that are stored.
//
// C02: "with size, MD5 and content type in its metadata matching what was sent".
// Every assignment to the Md5Hash of the object handed to Store.Add in the upload
// path takes a value derived from md5.Sum(X) where X is the very content value
// passed to that Add (not the request's declared hash, not a hash taken before the
// body was reassembled or decompressed).  The declared hash is only compared.
// ---------------------------------------------------------------------------

func R79() Rule {
	return Rule{Name: "R79", Run: func(c *core.Ctx) {
		P := c.P
		if P.SPkgs[core.PkgGcsemu] == nil {
			return
		}
		root := P.MustFunc(core.PkgGcsemu, "(*GcsEmu).finishUpload")
		c.Fn("(*GcsEmu).finishUpload")
		scope := P.Scope(root, func(f *ssa.Function) bool { return core.PkgPathOf(f) != core.PkgGcsemu })
		nl := nilness(P)
		n := 0
		for _, add := range core.CallsIn(scope, func(ci *core.CallInfo) bool { return isStoreCall(ci, "Add") && len(ci.Common.Args) >= 4 }) {
			content, meta := add.Common.Args[2], add.Common.Args[3]
			sameContent := func(v ssa.Value) bool {
				return v == content || nl.resolveAt(v) == nl.resolveAt(content) || nl.same(v, content)
			}
			isSumOfContent := func(v ssa.Value) bool {
				call, ok := v.(*ssa.Call)
				if !ok || !core.Call(call).IsFunc("crypto/md5", "Sum") || len(call.Call.Args) != 1 {
					return false
				}
				return sameContent(call.Call.Args[0])
			}
			// stores to the Md5Hash field of the object handed to Add, anywhere in the upload path
			k := 0
			for _, f := range scope {
				for _, b := range f.Blocks {
					for _, in := range b.Instrs {
						st, ok := in.(*ssa.Store)
						if !ok {
							continue
						}
						fa, ok := st.Addr.(*ssa.FieldAddr)
						if !ok {
							continue
						}
						if _, fname, _ := core.FieldName(fa); fname != "Md5Hash" {
							continue
						}
						if !(nl.resolveAt(fa.X) == nl.resolveAt(meta) || nl.same(fa.X, meta)) {
							continue
						}
						n++
						k++
						construct := fmt.Sprintf("(*GcsEmu).finishUpload/Md5Hash-assignment#%d/hash-of-the-stored-bytes", k)
						if hashOf(P, st.Val, isSumOfContent, map[ssa.Value]bool{}, 0) || derivesFromMd5Of(P, st.Val, setOf(scope), func(o ssa.Value) bool {
							if sameContent(o) {
								return true
							}
							// the content as handed to the upload path: an input of finishUpload that is also what Add receives
							_, _, isInput := inputOf(root, o)
							_, _, addIsInput := inputOf(root, core.Resolve(content))
							return isInput && addIsInput && nl.resolveAt(o) == nl.resolveAt(content)
						}, map[ssa.Value]bool{}, 0) {
							c.Ok("R79", construct, st.Pos(), true, "the recorded MD5 derives from md5.Sum of the content value that is passed to Store.Add")
						} else {
							c.Bad("R79", construct, st.Pos(), "the MD5 recorded for the object does not derive from md5.Sum of the very bytes handed to Store.Add (a declared hash taken over, or a hash of another buffer): metadata and content of the served object disagree")
						}
					}
				}
			}
		}
		if n == 0 {
			c.Ok("R79", "(*GcsEmu).finishUpload/Md5Hash-assignment-not-identified", root.Pos(), false, "no assignment to the Md5Hash of the very object handed to Store.Add could be identified in the upload path (not decided; the verification against the declared hash is R08's)")
		}
	}}
}

// hashOf: v is computed from a value for which leaf holds — through slicing of the digest array,
// encoding calls, local variables and φs.
func hashOf(P *core.Program, v ssa.Value, leaf func(ssa.Value) bool, seen map[ssa.Value]bool, depth int) bool {
	if v == nil || depth > 12 || seen[v] {
		return false
	}
	seen[v] = true
	if leaf(v) {
		return true
	}
	switch x := v.(type) {
	case *ssa.Call:
		if x.Call.IsInvoke() {
			// base64.StdEncoding.EncodeToString(digest): method on the encoding value
		}
		for _, a := range x.Call.Args {
			if hashOf(P, a, leaf, seen, depth+1) {
				return true
			}
		}
	case *ssa.Slice:
		return hashOf(P, x.X, leaf, seen, depth+1)
	case *ssa.UnOp:
		if x.Op == token.MUL {
			if cell := core.CellOf(x.X); cell != nil {
				// every value the variable can hold
				sts := core.StoresTo(cell)
				for _, st := range sts {
					if !hashOf(P, st.Val, leaf, map[ssa.Value]bool{}, depth+1) {
						return false
					}
				}
				return len(sts) > 0
			}
		}
		return hashOf(P, x.X, leaf, seen, depth+1)
	case *ssa.Alloc:
		for _, st := range core.StoresTo(x) {
			if hashOf(P, st.Val, leaf, seen, depth+1) {
				return true
			}
		}
	case *ssa.Phi:
		// every incoming value
		for _, e := range x.Edges {
			if !hashOf(P, e, leaf, map[ssa.Value]bool{}, depth+1) {
				return false
			}
		}
		return len(x.Edges) > 0
	case *ssa.Convert:
		return hashOf(P, x.X, leaf, seen, depth+1)
	case *ssa.ChangeType:
		return hashOf(P, x.X, leaf, seen, depth+1)
	case *ssa.Extract:
		return hashOf(P, x.Tuple, leaf, seen, depth+1)
	}
	return false
}

// ---------------------------------------------------------------------------
// R80: computed metadata fields are baked from final values.
//
// C09 / C10: "each item's metadata equals what a metadata GET returns", "the
// generation/metageneration reported … always agree".  InitMetaWithUrls computes
// the derived fields of an object record (links, size, and whatever a later
// feature derives from generation / metageneration: an etag) from the record's
// other fields.  A caller that assigns one of the fields the baking function
// *reads* only after it has called it — filestore.ReadMeta sets Generation from
// the file's mtime after baking — publishes derived fields computed from the stale
// value stored in the sidecar (0 for every upload), while the memory store bakes
// from the final value: the stores disagree and the derived field never changes on
// overwrite.  Structural necessary condition: after a call of the baking function
// on object o, no field of o that the baking function (transitively) reads is
// assigned in the same function.
// ---------------------------------------------------------------------------

func fieldsReadThrough(P *core.Program, fn *ssa.Function, param *ssa.Parameter, seen map[*ssa.Function]bool, out map[string]bool) {
	if fn == nil || fn.Blocks == nil || seen[fn] {
		return
	}
	seen[fn] = true
	derived := map[ssa.Value]bool{param: true}
	for changed := true; changed; {
		changed = false
		for _, b := range fn.Blocks {
			for _, in := range b.Instrs {
				switch x := in.(type) {
				case *ssa.UnOp:
					if x.Op == token.MUL {
						if fa, ok := x.X.(*ssa.FieldAddr); ok && derived[fa.X] {
							if _, f, ok := core.FieldName(fa); ok && !out[f] {
								out[f] = true
								changed = true
							}
						}
					}
				case *ssa.Phi:
					for _, e := range x.Edges {
						if derived[e] && !derived[x] {
							derived[x] = true
							changed = true
						}
					}
				case ssa.CallInstruction:
					callee := x.Common().StaticCallee()
					if callee == nil || callee.Blocks == nil || P.SPkgs[core.PkgPathOf(callee)] == nil {
						continue
					}
					for i, a := range x.Common().Args {
						if derived[a] && i < len(callee.Params) {
							before := len(out)
							fieldsReadThrough(P, callee, callee.Params[i], seen, out)
							if len(out) != before {
								changed = true
							}
						}
					}
				}
			}
		}
	}
}

func R80() Rule {
	return Rule{Name: "R80", Run: func(c *core.Ctx) {
		P := c.P
		if P.SPkgs[core.PkgGcsemu] == nil {
			return
		}
		bake := P.MustFunc(core.PkgGcsemu, "InitMetaWithUrls")
		var metaParam *ssa.Parameter
		for _, p := range bake.Params {
			if nm := core.NamedOf(p.Type()); nm != nil && nm.Obj().Name() == "Object" && isPtr(p.Type()) {
				metaParam = p
			}
		}
		if metaParam == nil {
			c.Unknown("R80", "InitMetaWithUrls/meta-parameter", bake.Pos(), "the baking function has no *storage.Object parameter")
			return
		}
		reads := map[string]bool{}
		fieldsReadThrough(P, bake, metaParam, map[*ssa.Function]bool{}, reads)
		mi := 0
		for i, p := range bake.Params {
			if p == metaParam {
				mi = i
			}
		}
		nl := nilness(P)
		n := 0
		for _, fn := range P.SrcFuncs(core.PkgGcsemu) {
			k := 0
			for _, ci := range core.AllCalls(fn) {
				call, ok := ci.Instr.(*ssa.Call)
				if !ok || ci.Static != bake || mi >= len(call.Call.Args) {
					continue
				}
				n++
				k++
				c.Fn(core.FuncName(core.Root(fn)))
				obj := call.Call.Args[mi]
				construct := fmt.Sprintf("%s/bake#%d/inputs-final", core.FuncName(core.Root(fn)), k)
				var bad *ssa.Store
				badField := ""
				for _, b := range fn.Blocks {
					for _, in := range b.Instrs {
						st, ok := in.(*ssa.Store)
						if !ok || !core.InstrReaches(call, st) {
							continue
						}
						fa, ok := st.Addr.(*ssa.FieldAddr)
						if !ok {
							continue
						}
						_, f, _ := core.FieldName(fa)
						if !reads[f] {
							continue
						}
						if nl.resolveAt(fa.X) == nl.resolveAt(obj) || nl.same(fa.X, obj) {
							bad, badField = st, f
						}
					}
				}
				if bad != nil {
					c.Bad("R80", construct, bad.Pos(), "%s of the record is assigned after InitMetaWithUrls has been called on it, and the baking function reads %s to compute derived fields: what is published was computed from the stale value (in the file store: the one in the sidecar, 0 for every upload), so the derived field never changes on overwrite and differs from the memory store's", badField, badField)
				} else {
					c.Ok("R80", construct, call.Pos(), true, "no field the baking function reads (%d) is assigned after the call", len(reads))
				}
			}
		}
		if n < 2 {
			c.Unknown("R80", "floor/bake-sites", token.NoPos, "only %d calls of InitMetaWithUrls found", n)
		}
	}}
}

// derivesFromMd5Of: v is computed from md5.Sum(X) with isContent holding for every origin of X —
// through slicing of the digest, encoding calls, named results and local variables (every assignment),
// φs (every edge), helper parameters (every caller) and the results of in-repository helpers
// (`contentMd5(contents) (raw []byte, b64 string)`).
func derivesFromMd5Of(P *core.Program, v ssa.Value, within map[*ssa.Function]bool, isContent func(ssa.Value) bool, seen map[ssa.Value]bool, depth int) bool {
	if v == nil || depth > 14 {
		return false
	}
	v = core.Strip(v)
	if seen[v] {
		return false
	}
	seen[v] = true
	defer delete(seen, v)
	switch x := v.(type) {
	case *ssa.Call:
		if sc := x.Call.StaticCallee(); sc != nil && sc.Pkg != nil && sc.Pkg.Pkg.Path() == "crypto/md5" && sc.Name() == "Sum" {
			return P.AllOrigins(x.Call.Args[0], within, isContent)
		}
		if sc := x.Call.StaticCallee(); sc != nil && sc.Blocks != nil && P.SPkgs[core.PkgPathOf(sc)] != nil {
			rets := returnsIn(sc)
			for _, r := range rets {
				if len(r.Results) != 1 || !derivesFromMd5Of(P, r.Results[0], within, isContent, seen, depth+1) {
					return false
				}
			}
			return len(rets) > 0
		}
		for _, a := range x.Call.Args {
			if derivesFromMd5Of(P, a, within, isContent, seen, depth+1) {
				return true
			}
		}
	case *ssa.Extract:
		call, ok := x.Tuple.(*ssa.Call)
		if !ok {
			return false
		}
		if sc := call.Call.StaticCallee(); sc != nil && sc.Blocks != nil && P.SPkgs[core.PkgPathOf(sc)] != nil {
			// (returns that report a failure do not hand a value to the caller's success path)
			n := 0
			for _, r := range returnsIn(sc) {
				if certainlyFails(r) {
					continue
				}
				n++
				if x.Index >= len(r.Results) || !derivesFromMd5Of(P, r.Results[x.Index], within, isContent, seen, depth+1) {
					return false
				}
			}
			return n > 0
		}
		return derivesFromMd5Of(P, call, within, isContent, seen, depth+1)
	case *ssa.Parameter:
		fn := x.Parent()
		n := 0
		for i, p := range fn.Params {
			if p != x {
				continue
			}
			for _, r := range P.Refs(fn) {
				call, ok := r.Instr.(ssa.CallInstruction)
				if !ok || r.Kind != core.RefCall || i >= len(call.Common().Args) {
					continue
				}
				n++
				if !derivesFromMd5Of(P, call.Common().Args[i], within, isContent, seen, depth+1) {
					return false
				}
			}
		}
		return n > 0
	case *ssa.Slice:
		return derivesFromMd5Of(P, x.X, within, isContent, seen, depth+1)
	case *ssa.UnOp:
		if x.Op == token.MUL {
			if cell := core.CellOf(x.X); cell != nil {
				sts := core.StoresTo(cell)
				for _, st := range sts {
					if !derivesFromMd5Of(P, st.Val, within, isContent, seen, depth+1) {
						return false
					}
				}
				return len(sts) > 0
			}
		}
		return derivesFromMd5Of(P, x.X, within, isContent, seen, depth+1)
	case *ssa.Alloc:
		sts := core.StoresTo(x)
		for _, st := range sts {
			if derivesFromMd5Of(P, st.Val, within, isContent, seen, depth+1) {
				return true
			}
		}
	case *ssa.Phi:
		for _, e := range x.Edges {
			if !derivesFromMd5Of(P, e, within, isContent, seen, depth+1) {
				return false
			}
		}
		return len(x.Edges) > 0
	case *ssa.Convert:
		return derivesFromMd5Of(P, x.X, within, isContent, seen, depth+1)
	case *ssa.ChangeType:
		return derivesFromMd5Of(P, x.X, within, isContent, seen, depth+1)
	}
	return false
}
