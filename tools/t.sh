#!/bin/sh
# dev helper: t.sh <variant-under-/tmp/var|repo> <prop> [-dump]
v=$1; p=$2; shift 2
repo=/tmp/var/$v; [ "$v" = repo ] && repo=/repo
cd /verif && GOFLAGS=-mod=mod GOPROXY=off GOSUMDB=off GOTOOLCHAIN=local GOWORK=off go build -o bin/emucheck ./cmd/emucheck && ./bin/emucheck check -prop $p -repo $repo -verif /tmp/var.verif "$@"
