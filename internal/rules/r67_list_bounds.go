package rules

import (
	"fmt"
	"go/token"
	"go/types"

	"golang.org/x/tools/go/ssa"

	"verif/internal/core"
)

// ---------------------------------------------------------------------------
// R67: the listing's prefix is an inclusive lower bound, the page cursor an
// exclusive one — they are never folded into one comparison.
//
// C11: "yields every object whose name starts with the prefix exactly once".  The
// walk skips names `<= cursor` (the cursor is the last name already returned).
// An object whose name *equals* the prefix matches the prefix; if the value on
// the right of that `<=` can be the prefix (a single "lower bound = max(cursor,
// prefix)", a cursor clamped up to the prefix by the caller), that object is
// skipped on the first page and never returned.  Three independent seeding
// agents produced this edit as a "simplification".  Structural necessary
// condition: no `name <= X` / `X >= name` string comparison in the listing
// path has an X that data-depends on the request's prefix parameter.
// ---------------------------------------------------------------------------

// flowsFrom: may v carry a value for which leaf holds (φ, local and captured variables,
// parameters ← every caller's argument, min/max, concatenation)?
func flowsFrom(P *core.Program, v ssa.Value, leaf func(ssa.Value) bool, seen map[ssa.Value]bool, depth int) bool {
	if v == nil || depth > 14 || seen[v] {
		return false
	}
	seen[v] = true
	if leaf(v) {
		return true
	}
	switch x := v.(type) {
	case *ssa.Phi:
		for _, e := range x.Edges {
			if flowsFrom(P, e, leaf, seen, depth+1) {
				return true
			}
		}
	case *ssa.UnOp:
		if x.Op == token.MUL {
			if cell := core.CellOf(x.X); cell != nil {
				for _, st := range core.StoresTo(cell) {
					if flowsFrom(P, st.Val, leaf, seen, depth+1) {
						return true
					}
				}
				return false
			}
		}
		return flowsFrom(P, x.X, leaf, seen, depth+1)
	case *ssa.FieldAddr:
		// a field of a per-request struct: everything the package stores into that field
		if loc := locationOf(x); loc != "" {
			for _, st := range storesToLocation(P, core.PkgPathOf(x.Parent()), loc) {
				if flowsFrom(P, st.Val, leaf, seen, depth+1) {
					return true
				}
			}
		}
	case *ssa.Parameter:
		fn := x.Parent()
		idx := -1
		for i, p := range fn.Params {
			if p == x {
				idx = i
			}
		}
		for _, r := range P.Refs(fn) {
			if ci, ok := r.Instr.(ssa.CallInstruction); ok && r.Kind == core.RefCall && idx >= 0 {
				args := ci.Common().Args
				if idx < len(args) && flowsFrom(P, args[idx], leaf, seen, depth+1) {
					return true
				}
			}
		}
	case *ssa.FreeVar:
		if cell := core.CellOf(x); cell != nil {
			for _, st := range core.StoresTo(cell) {
				if flowsFrom(P, st.Val, leaf, seen, depth+1) {
					return true
				}
			}
			return false
		}
		return flowsFrom(P, core.FreeVarValue(x), leaf, seen, depth+1)
	case *ssa.Extract:
		// one of several results of an in-repository helper (`n, err := parseListMaxResults(s)`)
		if call, ok := x.Tuple.(*ssa.Call); ok {
			if callee := call.Call.StaticCallee(); callee != nil && callee.Blocks != nil && P.SPkgs[core.PkgPathOf(callee)] != nil {
				for _, r := range returnsIn(callee) {
					if x.Index < len(r.Results) && flowsFrom(P, r.Results[x.Index], leaf, seen, depth+1) {
						return true
					}
				}
			}
		}
	case *ssa.Convert:
		return flowsFrom(P, x.X, leaf, seen, depth+1)
	case *ssa.ChangeType:
		return flowsFrom(P, x.X, leaf, seen, depth+1)
	case *ssa.BinOp:
		if x.Op == token.ADD {
			return flowsFrom(P, x.X, leaf, seen, depth+1) || flowsFrom(P, x.Y, leaf, seen, depth+1)
		}
	case *ssa.Call:
		if b, ok := x.Call.Value.(*ssa.Builtin); ok && (b.Name() == "max" || b.Name() == "min") {
			for _, a := range x.Call.Args {
				if flowsFrom(P, a, leaf, seen, depth+1) {
					return true
				}
			}
			return false
		}
		// path arithmetic of the standard library: the result is made of its arguments
		if callee := x.Call.StaticCallee(); callee != nil && callee.Pkg != nil && (callee.Pkg.Pkg.Path() == "path/filepath" || callee.Pkg.Pkg.Path() == "path") {
			for _, a := range x.Call.Args {
				if flowsFrom(P, a, leaf, seen, depth+1) {
					return true
				}
			}
			return false
		}
		// an in-repository helper that chooses between its arguments (`laterOf(a, b string) string`)
		if callee := x.Call.StaticCallee(); callee != nil && callee.Blocks != nil && P.SPkgs[core.PkgPathOf(callee)] != nil {
			if _, isStr := x.Type().Underlying().(*types.Basic); isStr {
				for _, r := range returnsIn(callee) {
					for _, res := range r.Results {
						if flowsFrom(P, res, leaf, seen, depth+1) {
							return true
						}
					}
				}
			}
		}
	}
	return false
}

func R67() Rule {
	return Rule{Name: "R67", Run: func(c *core.Ctx) {
		P := c.P
		if P.SPkgs[core.PkgGcsemu] == nil {
			return
		}
		root := P.MustFunc(core.PkgGcsemu, "(*GcsEmu).handleGcsListBucket")
		c.Fn("(*GcsEmu).handleGcsListBucket")
		scope := P.Scope(root, func(f *ssa.Function) bool { return core.PkgPathOf(f) != core.PkgGcsemu })
		// the request's prefix: url.Values.Get("prefix") / Request.FormValue("prefix")
		nSrc := 0
		isPrefix := func(v ssa.Value) bool {
			call, ok := v.(*ssa.Call)
			if !ok {
				return false
			}
			ci := core.Call(call)
			if ci == nil || ci.Static == nil || ci.Static.Pkg == nil {
				return false
			}
			pkg, name := ci.Static.Pkg.Pkg.Path(), ci.Static.Name()
			if !((pkg == "net/url" && name == "Get") || (pkg == "net/http" && (name == "FormValue" || name == "PostFormValue"))) {
				return false
			}
			args := ci.Args()
			for _, a := range args {
				if s, ok := core.ConstString(a); ok && s == "prefix" {
					return true
				}
			}
			return false
		}
		for _, fn := range scope {
			for _, ci := range core.AllCalls(fn) {
				if call, ok := ci.Instr.(*ssa.Call); ok && isPrefix(call) {
					nSrc++
				}
			}
		}
		if nSrc == 0 {
			c.Unknown("R67", "listing/prefix-source", root.Pos(), "the listing handler no longer reads the `prefix` query parameter in a recognisable way")
			return
		}
		n := 0
		for _, fn := range scope {
			k := 0
			for _, b := range fn.Blocks {
				for _, in := range b.Instrs {
					bin, ok := in.(*ssa.BinOp)
					if !ok || (bin.Op != token.LEQ && bin.Op != token.GEQ) {
						continue
					}
					if bt, ok := bin.X.Type().Underlying().(*types.Basic); !ok || bt.Info()&types.IsString == 0 {
						continue
					}
					upper := bin.Y // name <= upper
					if bin.Op == token.GEQ {
						upper = bin.X // upper >= name
					}
					n++
					k++
					construct := fmt.Sprintf("%s/inclusive-upper-side#%d", core.FuncName(core.Root(fn)), k)
					if flowsFrom(P, upper, isPrefix, map[ssa.Value]bool{}, 0) {
						c.Bad("R67", construct, bin.Pos(), "a name is excluded when it is `<=` a value that can be the request's prefix: the cursor is an exclusive bound (the last name already returned) but the prefix is inclusive — the object whose name equals the prefix (`a` for prefix=a, the folder placeholder `photos/` for prefix=photos/) is skipped on the first page and never listed")
					} else {
						c.Ok("R67", construct, bin.Pos(), true, "the value on the inclusive side of this comparison never carries the request's prefix")
					}
				}
			}
		}
		if n == 0 {
			c.Ok("R67", "listing/no-inclusive-string-comparison", token.NoPos, false, "the listing path contains no `<=` / `>=` comparison of names")
		}
	}}
}

// ---------------------------------------------------------------------------
// R68: the file store creates the object's directory on every path that writes
// the object.
//
// C09: the file store "persists everything and is equivalent to the memory
// store".  The directory tree under a bucket is removed behind the store's back
// by its own Delete (pruning of empty directories, os.RemoveAll of a bucket); a
// write that skips os.MkdirAll because some in-memory record says the directory
// exists fails with ENOENT (500) after such a removal, where the memory store
// answers 200.  Structural necessary condition: in filestore.Add every file
// write is preceded, on every path, by the directory creation.
// ---------------------------------------------------------------------------

func R68() Rule {
	return Rule{Name: "R68", Run: func(c *core.Ctx) {
		P := c.P
		if P.SPkgs[core.PkgGcsemu] == nil {
			return
		}
		root := P.MustFunc(core.PkgGcsemu, "(*filestore).Add")
		c.Fn("(*filestore).Add")
		scope := P.Scope(root, func(f *ssa.Function) bool { return core.PkgPathOf(f) != core.PkgGcsemu })
		within := setOf(scope)
		isWrite := func(ci *core.CallInfo) bool {
			return ci.IsFunc("os", "WriteFile") || ci.IsFunc("os", "Create") || ci.IsFunc("os", "OpenFile") || ci.IsFunc("io/ioutil", "WriteFile")
		}
		mk := core.CallsIn(scope, func(ci *core.CallInfo) bool { return ci.IsFunc("os", "MkdirAll") })
		writes := core.CallsIn(scope, isWrite)
		if len(writes) == 0 {
			c.Unknown("R68", "filestore.Add/writes", root.Pos(), "no file write found in filestore.Add")
			return
		}
		for i, w := range writes {
			construct := fmt.Sprintf("filestore.Add/write#%d/directory-created-first", i+1)
			ok := false
			for _, m := range mk {
				if P.InterDominates(root, m.Instr, w.Instr, within) {
					ok = true
				}
			}
			if ok {
				c.Ok("R68", construct, w.Instr.Pos(), true, "os.MkdirAll runs before this write on every path")
			} else {
				c.Bad("R68", construct, w.Instr.Pos(), "a path reaches this file write without having created the object's directory (os.MkdirAll is skipped or conditional): after the store's own Delete has pruned the directory, or removed the bucket, the write fails with ENOENT and the upload is answered 500 where the memory store succeeds")
			}
		}
	}}
}

// ---------------------------------------------------------------------------
// R76: a CheckAndMutateRow request with a predicate has that predicate evaluated
// on every path that ends in success.
//
// C12: "An invalid predicate … makes the request fail without changing the row."
// The only place an invalid filter is detected is its evaluation (filterRow).  A
// shortcut that skips the evaluation for some rows — "the row is empty, so the
// predicate cannot match" — acknowledges a request with `block_all_filter:false`,
// a one-element chain or a bad regex, and applies false_mutations.  Structural
// necessary condition: no path from the entry of CheckAndMutateRow to a success
// return avoids both the evaluation of the request's predicate and the edge on
// which the predicate is known to be absent; helpers are judged the same way.
// ---------------------------------------------------------------------------

func R76() Rule {
	return Rule{Name: "R76", Run: func(c *core.Ctx) {
		P := c.P
		if P.SPkgs[core.PkgBttest] == nil {
			return
		}
		root := P.MustFunc(core.PkgBttest, rpcCAM)
		c.Fn(rpcCAM)
		eval := P.MustFunc(core.PkgBttest, "filterRow")
		isPredicate := func(v ssa.Value) bool {
			ld, ok := v.(*ssa.UnOp)
			if !ok || ld.Op != token.MUL {
				return false
			}
			fa, ok := ld.X.(*ssa.FieldAddr)
			if !ok {
				return false
			}
			owner := core.NamedOf(fa.X.Type())
			_, fname, _ := core.FieldName(fa)
			return owner != nil && owner.Obj().Name() == "CheckAndMutateRowRequest" && fname == "PredicateFilter"
		}
		fromPredicate := func(v ssa.Value) bool { return flowsFrom(P, v, isPredicate, map[ssa.Value]bool{}, 0) }
		reachesEval := map[*ssa.Function]bool{}
		for _, f := range P.Scope(root, func(f *ssa.Function) bool { return core.PkgPathOf(f) != core.PkgBttest || f == eval }) {
			for _, ci := range core.AllCalls(f) {
				if ci.Static == eval {
					reachesEval[f] = true
				}
			}
		}
		// propagate "contains an evaluation" to callers within the scope
		for changed := true; changed; {
			changed = false
			for f := range reachesEval {
				for _, r := range P.Refs(f) {
					g := r.Instr.Parent()
					if r.Kind == core.RefCall && !reachesEval[g] && core.PkgPathOf(g) == core.PkgBttest {
						reachesEval[g] = true
						changed = true
					}
				}
			}
		}
		memo := map[*ssa.Function]bool{}
		visiting := map[*ssa.Function]bool{}
		var badRet *ssa.Return
		var allPaths func(fn *ssa.Function, top bool) bool
		allPaths = func(fn *ssa.Function, top bool) bool {
			if v, ok := memo[fn]; ok && !top {
				return v
			}
			if visiting[fn] {
				return false
			}
			visiting[fn] = true
			defer delete(visiting, fn)
			through := map[*ssa.BasicBlock]bool{}
			for _, ci := range core.AllCalls(fn) {
				if _, isCall := ci.Instr.(*ssa.Call); !isCall {
					continue
				}
				if ci.Static == eval {
					args := ci.Common.Args
					if len(args) > 0 && fromPredicate(args[0]) {
						through[ci.Instr.Block()] = true
					}
					continue
				}
				if ci.Static != nil && ci.Static != fn && ci.Static.Blocks != nil && reachesEval[ci.Static] && core.PkgPathOf(ci.Static) == core.PkgBttest && allPaths(ci.Static, false) {
					through[ci.Instr.Block()] = true
				}
			}
			ok := true
			seen := map[*ssa.BasicBlock]bool{}
			stack := []*ssa.BasicBlock{fn.Blocks[0]}
			for len(stack) > 0 && ok {
				b := stack[len(stack)-1]
				stack = stack[:len(stack)-1]
				if seen[b] || through[b] {
					continue
				}
				seen[b] = true
				if len(b.Instrs) == 0 {
					continue
				}
				switch last := b.Instrs[len(b.Instrs)-1].(type) {
				case *ssa.Return:
					// (results of a function with defers are spilled to locals: read them through their stores)
					isErr, _ := isErrorReturn(last)
					success := !isErr
					if success {
						ok = false
						if top {
							badRet = last
						}
					}
				case *ssa.If:
					nilEdge := -1
					if bin, isBin := last.Cond.(*ssa.BinOp); isBin && (bin.Op == token.EQL || bin.Op == token.NEQ) {
						var v ssa.Value
						if core.IsNilConst(bin.Y) {
							v = bin.X
						} else if core.IsNilConst(bin.X) {
							v = bin.Y
						}
						if v != nil && fromPredicate(v) {
							nilEdge = 0
							if bin.Op == token.NEQ {
								nilEdge = 1
							}
						}
					}
					for i, s := range b.Succs {
						if i != nilEdge {
							stack = append(stack, s)
						}
					}
				default:
					stack = append(stack, b.Succs...)
				}
			}
			if !top {
				memo[fn] = ok
			}
			return ok
		}
		construct := "(*server).CheckAndMutateRow/predicate-evaluated-on-every-successful-path"
		if !reachesEval[root] {
			c.Bad("R76", construct, root.Pos(), "CheckAndMutateRow never evaluates its predicate filter: an invalid predicate cannot be rejected")
			return
		}
		if allPaths(root, true) {
			c.Ok("R76", construct, root.Pos(), true, "every path to a success return evaluates the request's predicate or passes the edge on which no predicate was given")
		} else {
			pos := root.Pos()
			if badRet != nil {
				pos = badRet.Pos()
			}
			c.Bad("R76", construct, pos, "a path reaches this success return without evaluating the request's predicate filter although one was given (a shortcut for empty or absent rows, a cached verdict): a structurally invalid predicate — block_all_filter:false, a chain of one, a bad regex, a negative count — is acknowledged and the false branch applied, instead of the request failing without changing the row")
		}
	}}
}

// ---------------------------------------------------------------------------
// R78: a listing page is bounded by maxResults on every path that records an entry.
//
// C11: "No page holds more than maxResults entries".  In the function handed to
// Store.Walk, every statement that grows a result list (an `append` whose result
// is kept in a variable or field that outlives the callback) lies behind the test
// of the page counter against maxResults (on its not-yet-full edge) and behind the
// increment of that very counter.  Moving the increment behind the early return of
// the delimiter branch, or testing the limit only on the plain-item path, lets a
// page grow without bound (every object under a thousand different "directories"
// is one collapsed prefix each).
// ---------------------------------------------------------------------------

func R78() Rule {
	return Rule{Name: "R78", Run: func(c *core.Ctx) {
		P := c.P
		if P.SPkgs[core.PkgGcsemu] == nil {
			return
		}
		root := P.MustFunc(core.PkgGcsemu, "(*GcsEmu).handleGcsListBucket")
		c.Fn("(*GcsEmu).handleGcsListBucket")
		scope := P.Scope(root, func(f *ssa.Function) bool { return core.PkgPathOf(f) != core.PkgGcsemu })
		within := setOf(scope)
		// maxResults: the result of strconv.Atoi / ParseInt in the listing path
		isMax := func(v ssa.Value) bool {
			ex, ok := v.(*ssa.Extract)
			if !ok || ex.Index != 0 {
				return false
			}
			call, ok := ex.Tuple.(*ssa.Call)
			if !ok {
				return false
			}
			ci := core.Call(call)
			return ci != nil && (ci.IsFunc("strconv", "Atoi") || ci.IsFunc("strconv", "ParseInt"))
		}
		var cbs []*ssa.Function
		seenCb := map[*ssa.Function]bool{}
		for _, ci := range core.CallsIn(scope, func(ci *core.CallInfo) bool { return isStoreCall(ci, "Walk") }) {
			for _, a := range ci.Common.Args {
				if _, isFn := a.Type().Underlying().(*types.Signature); !isFn {
					continue
				}
				cands := []ssa.Value{a}
				if closureOf(a) == nil {
					cands = P.Origins(a, within)
				}
				for _, o := range cands {
					if cb := closureOf(o); cb != nil && cb.Blocks != nil && !seenCb[cb] {
						seenCb[cb] = true
						cbs = append(cbs, cb)
					}
				}
			}
		}
		if len(cbs) == 0 {
			c.Unknown("R78", "listing/walk-callback", root.Pos(), "no function handed to Store.Walk found in the listing path")
			return
		}
		for i, cb := range cbs {
			base := fmt.Sprintf("listing/walk-callback#%d", i+1)
			// the limit test: an If comparing a counter location with maxResults
			var limitIf *ssa.If
			var counterLoc string
			notFull := -1
			for _, b := range cb.Blocks {
				ifi, ok := lastIf(b)
				if !ok {
					continue
				}
				bin, ok := ifi.Cond.(*ssa.BinOp)
				if !ok {
					continue
				}
				l, r, op := bin.X, bin.Y, bin.Op
				if flowsFrom(P, l, isMax, map[ssa.Value]bool{}, 0) && !flowsFrom(P, r, isMax, map[ssa.Value]bool{}, 0) {
					l, r, op = r, l, flipOp(op)
				}
				if !flowsFrom(P, r, isMax, map[ssa.Value]bool{}, 0) {
					continue
				}
				loc := loadedLocation(l)
				if loc == "" {
					continue
				}
				switch op { // counter OP max
				case token.GEQ, token.GTR, token.EQL:
					notFull = 1
				case token.LSS, token.LEQ, token.NEQ:
					notFull = 0
				default:
					continue
				}
				limitIf, counterLoc = ifi, loc
			}
			if limitIf == nil {
				// the accounting may live in a helper of the callback (`page.admit()`): not decided here; it is a
				// violation only when nothing the callback reaches compares anything with maxResults
				found := false
				for _, f := range P.Scope(cb, func(f *ssa.Function) bool { return core.PkgPathOf(f) != core.PkgGcsemu }) {
					for _, b := range f.Blocks {
						if ifi, ok := lastIf(b); ok {
							if bin, ok := ifi.Cond.(*ssa.BinOp); ok && (flowsFrom(P, bin.X, isMax, map[ssa.Value]bool{}, 0) || flowsFrom(P, bin.Y, isMax, map[ssa.Value]bool{}, 0)) {
								found = true
							}
						}
					}
				}
				if found {
					c.Ok("R78", base+"/limit-tested-in-a-helper", cb.Pos(), false, "the page accounting is done by a helper of the callback (not decided here)")
				} else {
					c.Bad("R78", base+"/limit-tested", cb.Pos(), "the walk callback never compares a page counter with maxResults: a page holds as many entries as the bucket has")
				}
				continue
			}
			okEdge := limitIf.Block().Succs[notFull]
			// increments of the counter
			var incs []*ssa.Store
			for _, b := range cb.Blocks {
				for _, in := range b.Instrs {
					st, ok := in.(*ssa.Store)
					if !ok || locationOf(st.Addr) != counterLoc {
						continue
					}
					if bin, ok := st.Val.(*ssa.BinOp); ok && bin.Op == token.ADD && loadedLocation(bin.X) == counterLoc {
						if k, isK := core.ConstInt(bin.Y); isK && k == 1 {
							incs = append(incs, st)
						}
					}
				}
			}
			n := 0
			for _, b := range cb.Blocks {
				for _, in := range b.Instrs {
					st, ok := in.(*ssa.Store)
					if !ok {
						continue
					}
					call, ok := core.Strip(st.Val).(*ssa.Call)
					if !ok {
						continue
					}
					if bi, ok := call.Call.Value.(*ssa.Builtin); !ok || bi.Name() != "append" {
						continue
					}
					loc := locationOf(st.Addr)
					if loc == "" {
						continue
					}
					if _, local := st.Addr.(*ssa.Alloc); local {
						continue // a list that does not outlive this invocation
					}
					n++
					construct := fmt.Sprintf("%s/append#%d/behind-the-page-limit", base, n)
					behindTest := okEdge.Dominates(st.Block()) && len(okEdge.Preds) == 1
					behindInc := false
					for _, inc := range incs {
						if core.InstrDominates(inc, st) {
							behindInc = true
						}
					}
					switch {
					case !behindTest:
						c.Bad("R78", construct, st.Pos(), "an entry is recorded on a path that has not passed the test of the page counter against maxResults (on its not-yet-full edge): the page can hold more than maxResults entries")
					case !behindInc:
						c.Bad("R78", construct, st.Pos(), "an entry is recorded without the page counter having been incremented in this invocation: entries of this kind (e.g. collapsed prefixes) do not count towards maxResults and a page can grow without bound")
					default:
						c.Ok("R78", construct, st.Pos(), true, "recorded only after the limit test passed and the counter was incremented")
					}
				}
			}
			if n == 0 {
				c.Ok("R78", base+"/no-direct-append", cb.Pos(), false, "the callback records entries through helpers only (not decided here)")
			}
		}
	}}
}
