package rules

import (
	"fmt"
	"go/ast"
	"go/constant"
	"go/token"
	"go/types"
	"sort"

	"golang.org/x/tools/go/cfg"

	"verif/internal/core"
)

// handlerFn is a function (declaration or literal) with an http.ResponseWriter parameter.
type handlerFn struct {
	name string
	body *ast.BlockStmt
	pos  token.Pos
	w    types.Object // the ResponseWriter parameter
	obj  types.Object // *types.Func for declarations
	typ  *ast.FuncType
}

func isResponseWriter(t types.Type) bool {
	n, ok := t.(*types.Named)
	return ok && n.Obj().Pkg() != nil && n.Obj().Pkg().Path() == "net/http" && n.Obj().Name() == "ResponseWriter"
}

func isHandlerFuncType(t types.Type) bool {
	sig, ok := t.Underlying().(*types.Signature)
	if !ok {
		return false
	}
	for i := 0; i < sig.Params().Len(); i++ {
		if isResponseWriter(sig.Params().At(i).Type()) {
			return true
		}
	}
	return false
}

func collectHandlers(c *core.Ctx, pkgPath string) []*handlerFn {
	pkg := c.P.Pkgs[pkgPath]
	info := pkg.TypesInfo
	var out []*handlerFn
	findW := func(ft *ast.FuncType) types.Object {
		for _, f := range ft.Params.List {
			for _, n := range f.Names {
				if o := info.Defs[n]; o != nil && isResponseWriter(o.Type()) {
					return o
				}
			}
		}
		return nil
	}
	for _, file := range pkg.Syntax {
		if ast.IsGenerated(file) {
			continue
		}
		for _, d := range file.Decls {
			fd, ok := d.(*ast.FuncDecl)
			if !ok || fd.Body == nil {
				continue
			}
			name := fd.Name.Name
			if fd.Recv != nil && len(fd.Recv.List) == 1 {
				name = types.ExprString(fd.Recv.List[0].Type) + "." + name
			}
			if w := findW(fd.Type); w != nil {
				out = append(out, &handlerFn{name: name, body: fd.Body, pos: fd.Pos(), w: w, obj: info.Defs[fd.Name], typ: fd.Type})
			}
			k := 0
			ast.Inspect(fd.Body, func(n ast.Node) bool {
				if fl, ok := n.(*ast.FuncLit); ok {
					if w := findW(fl.Type); w != nil {
						k++
						out = append(out, &handlerFn{name: fmt.Sprintf("%s$lit%d", name, k), body: fl.Body, pos: fl.Pos(), w: w, typ: fl.Type})
					}
				}
				return true
			})
		}
	}
	sort.Slice(out, func(i, j int) bool { return out[i].pos < out[j].pos })
	return out
}

// usesObj: node n references obj (not descending into function literals).
func usesObj(info *types.Info, n ast.Node, obj types.Object) bool {
	found := false
	ast.Inspect(n, func(x ast.Node) bool {
		if found {
			return false
		}
		if _, ok := x.(*ast.FuncLit); ok {
			return false
		}
		if id, ok := x.(*ast.Ident); ok && info.Uses[id] == obj {
			found = true
		}
		return true
	})
	return found
}

func calleeObj(info *types.Info, call *ast.CallExpr) types.Object {
	switch f := call.Fun.(type) {
	case *ast.Ident:
		return info.Uses[f]
	case *ast.SelectorExpr:
		if sel := info.Selections[f]; sel != nil {
			return sel.Obj()
		}
		return info.Uses[f.Sel]
	}
	return nil
}

func isNoReturnCall(info *types.Info, call *ast.CallExpr) bool {
	o := calleeObj(info, call)
	if o == nil {
		if id, ok := call.Fun.(*ast.Ident); ok && id.Name == "panic" {
			return true
		}
		return false
	}
	if b, ok := o.(*types.Builtin); ok && b.Name() == "panic" {
		return true
	}
	if o.Pkg() != nil && o.Pkg().Path() == "log" {
		switch o.Name() {
		case "Fatal", "Fatalf", "Fatalln", "Panic", "Panicf", "Panicln":
			return true
		}
	}
	if o.Pkg() != nil && o.Pkg().Path() == "os" && o.Name() == "Exit" {
		return true
	}
	return false
}

// R15: HTTP response typestate.
func R15() Rule {
	return Rule{Name: "R15", Run: func(c *core.Ctx) {
		pkg := c.P.Pkgs[core.PkgGcsemu]
		info := pkg.TypesInfo
		handlers := collectHandlers(c, core.PkgGcsemu)
		var gapiError types.Object
		if gf := c.P.Func(core.PkgGcsemu, "(*GcsEmu).gapiError"); gf != nil {
			gapiError = gf.Object() // through the anchor table: survives a rename
		}
		if gapiError == nil {
			panic(core.Broken("anchor gone: (*GcsEmu).gapiError"))
		}
		byObj := map[types.Object]*handlerFn{}
		for _, h := range handlers {
			if h.obj != nil {
				byObj[h.obj] = h
			}
		}
		// ---- (b) always writes: fix-point over handlers
		always := map[*handlerFn]bool{}
		for _, h := range handlers {
			always[h] = true // optimistic start, refine downwards
		}
		// conditional responders: helpers with a single bool result that have written a response
		// exactly when they return a given constant (`if !g.runLocked(ctx, w, …) { return }`);
		// condWhen[h] is that constant
		condWhen := map[*handlerFn]bool{}
		isCond := map[*handlerFn]bool{}
		boolLit := func(e ast.Expr) (bool, bool) {
			id, ok := ast.Unparen(e).(*ast.Ident)
			if !ok {
				return false, false
			}
			if tv, has := info.Types[id]; has && tv.Value != nil && tv.Value.Kind() == constant.Bool {
				return constant.BoolVal(tv.Value), true
			}
			return false, false
		}
		// condCall: e is a call of a conditional responder that is handed h's writer
		condCall := func(h *handlerFn, e ast.Expr) (*handlerFn, bool) {
			call, ok := ast.Unparen(e).(*ast.CallExpr)
			if !ok {
				return nil, false
			}
			callee, known := byObj[calleeObj(info, call)]
			if !known || !isCond[callee] {
				return nil, false
			}
			for _, a := range call.Args {
				if id, ok := ast.Unparen(a).(*ast.Ident); ok && info.Uses[id] == h.w {
					return callee, true
				}
			}
			return nil, false
		}
		// edgeWritten: block b of h ends in a condition on the result of a conditional responder;
		// returns the successor index on which the response is known to have been written
		edgeWritten := func(h *handlerFn, b *cfg.Block) (int, bool) {
			if len(b.Nodes) == 0 || len(b.Succs) != 2 {
				return 0, false
			}
			cond, ok := b.Nodes[len(b.Nodes)-1].(ast.Expr)
			if !ok {
				return 0, false
			}
			neg := false
			cond = ast.Unparen(cond)
			if u, isU := cond.(*ast.UnaryExpr); isU && u.Op == token.NOT {
				neg, cond = true, ast.Unparen(u.X)
			}
			var callee *handlerFn
			if cal, isCall := condCall(h, cond); isCall {
				callee = cal
			} else if id, isId := cond.(*ast.Ident); isId {
				v := info.Uses[id]
				// the last assignment of v in this block comes from such a call
				for _, n := range b.Nodes[:len(b.Nodes)-1] {
					as, isAs := n.(*ast.AssignStmt)
					if !isAs || len(as.Lhs) < 1 || len(as.Rhs) != 1 {
						continue
					}
					lid, isL := as.Lhs[len(as.Lhs)-1].(*ast.Ident)
					if !isL || (info.Defs[lid] != v && info.Uses[lid] != v) {
						continue
					}
					callee = nil
					if cal, isCall := condCall(h, as.Rhs[0]); isCall {
						callee = cal
					}
				}
			}
			if callee == nil {
				return 0, false
			}
			// then-edge (Succs[0]): cond true, i.e. result == !neg
			if (!neg) == condWhen[callee] {
				return 0, true
			}
			return 1, true
		}
		// envelope primitives are axioms: gapiError and jsonRespond write by construction
		// (checked separately below), so treat them as writers without analysing their bodies.
		isWriteCall := func(h *handlerFn, call *ast.CallExpr) bool {
			o := calleeObj(info, call)
			passesW := false
			for _, a := range call.Args {
				if id, ok := ast.Unparen(a).(*ast.Ident); ok && info.Uses[id] == h.w {
					passesW = true
				}
			}
			// method on w itself
			if sel, ok := call.Fun.(*ast.SelectorExpr); ok {
				if id, ok := ast.Unparen(sel.X).(*ast.Ident); ok && info.Uses[id] == h.w {
					switch sel.Sel.Name {
					case "Write", "WriteHeader":
						return true
					}
					return false
				}
			}
			if !passesW {
				return false
			}
			if o != nil {
				if callee, ok := byObj[o]; ok {
					return always[callee]
				}
				if o.Pkg() != nil {
					switch o.Pkg().Path() + "." + o.Name() {
					case "net/http.Error", "io.Copy", "fmt.Fprint", "fmt.Fprintf", "fmt.Fprintln", "io.WriteString", "net/http.NotFound", "net/http.Redirect",
						"encoding/json.NewEncoder": // an encoder over w is only ever built to Encode into it
						return true
					}
				}
				// a handler-typed function value (parameter h in the wrappers): delegation
				if v, ok := o.(*types.Var); ok && isHandlerFuncType(v.Type()) {
					return true
				}
			}
			return false
		}
		nodeWrites := func(h *handlerFn, n ast.Node) bool {
			w := false
			ast.Inspect(n, func(x ast.Node) bool {
				if w {
					return false
				}
				if _, ok := x.(*ast.FuncLit); ok {
					return false
				}
				if call, ok := x.(*ast.CallExpr); ok && isWriteCall(h, call) {
					w = true
				}
				return true
			})
			return w
		}
		mayReturn := func(call *ast.CallExpr) bool { return !isNoReturnCall(info, call) }
		graphs := map[*handlerFn]*cfg.CFG{}
		for _, h := range handlers {
			graphs[h] = cfg.New(h.body, mayReturn)
		}
		type exitInfo struct {
			ok      bool
			badExit token.Pos
			// per bool-literal return: has the response been written there?
			retWritten map[bool][]bool
			plainRet   bool // some exit is not a `return true/false`
		}
		// assumeObj/assumeVal: analyse under the assumption that the (never assigned) boolean parameter
		// assumeObj has the value assumeVal: branches on it are taken one way only and `return p` is a
		// literal return (`func respondIf(w, missing bool) bool { if missing { write }; return missing }`)
		analyse := func(h *handlerFn, assumeObj types.Object, assumeVal bool) exitInfo {
			deadEdge := func(pb, b *cfg.Block) bool {
				if assumeObj == nil || len(pb.Succs) != 2 || pb.Succs[0] == pb.Succs[1] || len(pb.Nodes) == 0 {
					return false
				}
				cond, ok := pb.Nodes[len(pb.Nodes)-1].(ast.Expr)
				if !ok {
					return false
				}
				neg := false
				cond = ast.Unparen(cond)
				if u, isU := cond.(*ast.UnaryExpr); isU && u.Op == token.NOT {
					neg, cond = true, ast.Unparen(u.X)
				}
				id, isId := cond.(*ast.Ident)
				if !isId || info.Uses[id] != assumeObj {
					return false
				}
				taken := 1
				if assumeVal != neg {
					taken = 0
				}
				return pb.Succs[taken] != b
			}
			g := graphs[h]
			in := make([]int8, len(g.Blocks)) // -1 unknown, 0 false, 1 true
			for i := range in {
				in[i] = -1
			}
			preds := make([][]int32, len(g.Blocks))
			for _, b := range g.Blocks {
				for _, s := range b.Succs {
					preds[s.Index] = append(preds[s.Index], b.Index)
				}
			}
			outv := make([]int8, len(g.Blocks))
			for i := range outv {
				outv[i] = -1
			}
			in[0] = 0
			for changed := true; changed; {
				changed = false
				for _, b := range g.Blocks {
					if !b.Live {
						continue
					}
					var v int8 = -1
					if b.Index == 0 {
						v = 0
					} else {
						for _, p := range preds[b.Index] {
							if outv[p] == -1 || deadEdge(g.Blocks[p], b) {
								continue
							}
							pv := outv[p]
							if si, has := edgeWritten(h, g.Blocks[p]); has && g.Blocks[p].Succs[si] == b && g.Blocks[p].Succs[1-si] != b {
								pv = 1
							}
							if v == -1 || pv < v {
								v = pv
							}
						}
					}
					if v == -1 {
						continue
					}
					o := v
					for _, n := range b.Nodes {
						if nodeWrites(h, n) {
							o = 1
						}
					}
					if in[b.Index] != v || outv[b.Index] != o {
						in[b.Index], outv[b.Index] = v, o
						changed = true
					}
				}
			}
			res := exitInfo{ok: true, retWritten: map[bool][]bool{}}
			for _, b := range g.Blocks {
				if !b.Live || len(b.Succs) > 0 || outv[b.Index] == -1 {
					continue
				}
				// an exit block: a return, or the end of the function; blocks ending in a no-return call have no successors either
				if endsInNoReturn(info, b) {
					continue
				}
				lit := false
				if len(b.Nodes) > 0 {
					if rs, isRet := b.Nodes[len(b.Nodes)-1].(*ast.ReturnStmt); isRet && len(rs.Results) >= 1 {
						last := rs.Results[len(rs.Results)-1]
						if bv, isB := boolLit(last); isB {
							lit = true
							res.retWritten[bv] = append(res.retWritten[bv], outv[b.Index] == 1)
						} else if id, isId := ast.Unparen(last).(*ast.Ident); isId && assumeObj != nil && info.Uses[id] == assumeObj {
							lit = true
							res.retWritten[assumeVal] = append(res.retWritten[assumeVal], outv[b.Index] == 1)
						}
					}
				}
				if !lit {
					res.plainRet = true
				}
				if outv[b.Index] != 1 && res.ok {
					pos := h.body.Rbrace
					if len(b.Nodes) > 0 {
						pos = b.Nodes[len(b.Nodes)-1].Pos()
					}
					res.ok, res.badExit = false, pos
				}
			}
			return res
		}
		results := map[*handlerFn]exitInfo{}
		// (the flag is the last result: `func (…) bool`, `func (…) (parts []batchPart, ok bool)`)
		singleBool := func(h *handlerFn) bool {
			if h.typ.Results == nil || len(h.typ.Results.List) == 0 {
				return false
			}
			t := info.TypeOf(h.typ.Results.List[len(h.typ.Results.List)-1].Type)
			bt, isB := t.Underlying().(*types.Basic)
			return isB && bt.Kind() == types.Bool
		}
		for round, changed := 0, true; changed && round < 20; round++ {
			changed = false
			for _, h := range handlers {
				r := analyse(h, nil, false)
				if !r.ok && r.plainRet && singleBool(h) {
					// a helper that returns one of its own boolean parameters
					for _, p := range passThroughParams(info, h) {
						r1, r0 := analyse(h, p, true), analyse(h, p, false)
						if r1.plainRet || r0.plainRet {
							continue
						}
						r.plainRet = false
						r.retWritten = map[bool][]bool{true: append(r1.retWritten[true], r0.retWritten[true]...), false: append(r1.retWritten[false], r0.retWritten[false]...)}
						break
					}
				}
				results[h] = r
				if always[h] != r.ok {
					always[h] = r.ok
					changed = true
				}
				// written exactly on one of the two results?
				cond, when := false, false
				if !r.ok && !r.plainRet && singleBool(h) && len(r.retWritten[true]) > 0 && len(r.retWritten[false]) > 0 {
					all := func(vs []bool, want bool) bool {
						for _, v := range vs {
							if v != want {
								return false
							}
						}
						return true
					}
					switch {
					case all(r.retWritten[false], true) && all(r.retWritten[true], false):
						cond, when = true, false
					case all(r.retWritten[true], true) && all(r.retWritten[false], false):
						cond, when = true, true
					}
				}
				if isCond[h] != cond || (cond && condWhen[h] != when) {
					isCond[h], condWhen[h] = cond, when
					changed = true
				}
			}
		}
		for _, h := range handlers {
			c.Fn(h.name)
			r := results[h]
			construct := "b/" + h.name + "/always-responds"
			if h.name == "*GcsEmu.gapiError" || h.name == "*GcsEmu.jsonRespond" {
				// the envelope primitives themselves
			}
			if r.ok {
				c.Ok("R15", construct, h.pos, true, "every path through the handler writes a response (directly or through a handler that always does)")
			} else if isCond[h] {
				c.Ok("R15", "b/"+h.name+"/responds-exactly-when-it-says", h.pos, true, "has written a response exactly when it returns %v; callers branch on the result", condWhen[h])
			} else {
				c.Bad("R15", construct, r.badExit, "a path through handler %s reaches this exit without writing any response: the client gets an empty 200", h.name)
			}
		}
		// ---- (a) nothing touches the writer after an error response
		nSites := 0
		for _, h := range handlers {
			g := graphs[h]
			k := 0
			for _, b := range g.Blocks {
				if !b.Live {
					continue
				}
				for ni, n := range b.Nodes {
					var site *ast.CallExpr
					ast.Inspect(n, func(x ast.Node) bool {
						if _, ok := x.(*ast.FuncLit); ok {
							return false
						}
						if call, ok := x.(*ast.CallExpr); ok && site == nil {
							if o := calleeObj(info, call); o == gapiError {
								for _, a := range call.Args {
									if id, ok := ast.Unparen(a).(*ast.Ident); ok && info.Uses[id] == h.w {
										site = call
									}
								}
							}
						}
						return true
					})
					if site == nil {
						continue
					}
					k++
					nSites++
					c.Calls++
					construct := fmt.Sprintf("a/%s/gapiError#%d", h.name, k)
					// search forward
					var bad ast.Node
					for _, m := range b.Nodes[ni+1:] {
						if usesObj(info, m, h.w) {
							bad = m
							break
						}
					}
					if bad == nil {
						seen := map[int32]bool{}
						stack := append([]*cfg.Block(nil), b.Succs...)
						for len(stack) > 0 && bad == nil {
							x := stack[len(stack)-1]
							stack = stack[:len(stack)-1]
							if seen[x.Index] {
								continue
							}
							seen[x.Index] = true
							for _, m := range x.Nodes {
								if usesObj(info, m, h.w) {
									bad = m
									break
								}
							}
							stack = append(stack, x.Succs...)
						}
					}
					if bad == nil {
						c.Ok("R15", construct, site.Pos(), true, "no path from this error response to the function exit touches the ResponseWriter again")
					} else {
						c.Bad("R15", construct, site.Pos(), "after this error response the handler goes on and uses the ResponseWriter again at %s (missing return): the failed computation continues and a second response is written", c.P.Pos(bad.Pos()))
					}
				}
			}
		}
		if nSites < 25 {
			c.Unknown("R15", "floor/gapiError-sites", token.NoPos, "only %d gapiError call sites found; 53 were confirmed by hand", nSites)
		}
		if len(handlers) < 8 {
			c.Unknown("R15", "floor/handlers", token.NoPos, "only %d handlers found", len(handlers))
		}
	}}
}

// passThroughParams: the boolean parameters of h that its body never assigns or takes the address of.
func passThroughParams(info *types.Info, h *handlerFn) []types.Object {
	var out []types.Object
	if h.typ.Params == nil {
		return nil
	}
	for _, f := range h.typ.Params.List {
		for _, nm := range f.Names {
			o := info.Defs[nm]
			if o == nil {
				continue
			}
			if bt, ok := o.Type().Underlying().(*types.Basic); !ok || bt.Kind() != types.Bool {
				continue
			}
			written := false
			ast.Inspect(h.body, func(n ast.Node) bool {
				switch x := n.(type) {
				case *ast.AssignStmt:
					for _, l := range x.Lhs {
						if id, ok := ast.Unparen(l).(*ast.Ident); ok && info.Uses[id] == o {
							written = true
						}
					}
				case *ast.UnaryExpr:
					if id, ok := ast.Unparen(x.X).(*ast.Ident); ok && x.Op == token.AND && info.Uses[id] == o {
						written = true
					}
				case *ast.IncDecStmt:
					if id, ok := ast.Unparen(x.X).(*ast.Ident); ok && info.Uses[id] == o {
						written = true
					}
				}
				return true
			})
			if !written {
				out = append(out, o)
			}
		}
	}
	return out
}

func endsInNoReturn(info *types.Info, b *cfg.Block) bool {
	if len(b.Nodes) == 0 {
		return false
	}
	last := b.Nodes[len(b.Nodes)-1]
	if es, ok := last.(*ast.ExprStmt); ok {
		if call, ok := es.X.(*ast.CallExpr); ok {
			return isNoReturnCall(info, call)
		}
	}
	return false
}

func lookupMethod(pkg *types.Package, typ, method string) types.Object {
	o := pkg.Scope().Lookup(typ)
	if o == nil {
		return nil
	}
	ms := types.NewMethodSet(types.NewPointer(o.Type()))
	if sel := ms.Lookup(pkg, method); sel != nil {
		return sel.Obj()
	}
	return nil
}
