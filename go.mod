module verif

go 1.23

require (
	github.com/google/go-cmp v0.6.0
	golang.org/x/tools v0.29.0
)

require (
	golang.org/x/mod v0.22.0 // indirect
	golang.org/x/sync v0.10.0 // indirect
)
