package rules

import (
	"fmt"
	"go/token"
	"go/types"
	"golang.org/x/tools/go/ssa/ssautil"
	"regexp"
	"sort"
	"strings"

	"golang.org/x/tools/go/ssa"

	"verif/internal/core"
)

// ---------------------------------------------------------------------------
// shared helpers: which values are "the same slice", length facts
// ---------------------------------------------------------------------------

// sameSlice: a and b denote the same slice/string for the purpose of matching a
// length guard with an indexing operation: identical after Resolve, or loads
// of the same field of the same base value.
func sameSlice(a, b ssa.Value) bool {
	a, b = core.Resolve(a), core.Resolve(b)
	if a == b {
		return true
	}
	if core.SameCellLoad(a, b) {
		return true
	}
	ka, kb := fieldLoadKey(a), fieldLoadKey(b)
	return ka != "" && ka == kb
}

func fieldLoadKey(v ssa.Value) string {
	switch x := v.(type) {
	case *ssa.UnOp:
		if x.Op != token.MUL {
			return ""
		}
		if fa, ok := x.X.(*ssa.FieldAddr); ok {
			base := core.Resolve(fa.X)
			if k := fieldLoadKey(base); k != "" {
				return fmt.Sprintf("%s.%d", k, fa.Field)
			}
			if fv, ok := base.(*ssa.FreeVar); ok {
				// a captured struct variable denotes its cell in the enclosing function
				if cell := core.CellOf(fv); cell != nil {
					base = cell
				}
			}
			return fmt.Sprintf("%p.%d", base, fa.Field)
		}
	case *ssa.Field:
		base := core.Resolve(x.X)
		if k := fieldLoadKey(base); k != "" {
			return fmt.Sprintf("%s.%d", k, x.Field)
		}
		return fmt.Sprintf("%p.%d", base, x.Field)
	}
	return ""
}

// lenArg: v is len(x) → x.
func lenArg(v ssa.Value) ssa.Value {
	call, ok := core.Strip(v).(*ssa.Call)
	if !ok {
		return nil
	}
	if b, ok := call.Call.Value.(*ssa.Builtin); ok && b.Name() == "len" && len(call.Call.Args) == 1 {
		return call.Call.Args[0]
	}
	return nil
}

// cmpNorm normalises a comparison fact to  L op R  holding true.
func cmpNorm(f core.CondFact) (l ssa.Value, op token.Token, r ssa.Value, ok bool) {
	b, isBin := f.Cond.(*ssa.BinOp)
	if !isBin {
		return nil, 0, nil, false
	}
	op = b.Op
	switch op {
	case token.EQL, token.NEQ, token.LSS, token.LEQ, token.GTR, token.GEQ:
	default:
		return nil, 0, nil, false
	}
	if !f.Polarity {
		op = map[token.Token]token.Token{token.EQL: token.NEQ, token.NEQ: token.EQL, token.LSS: token.GEQ, token.LEQ: token.GTR, token.GTR: token.LEQ, token.GEQ: token.LSS}[op]
	}
	return b.X, op, b.Y, true
}

func flipOp(op token.Token) token.Token {
	return map[token.Token]token.Token{token.EQL: token.EQL, token.NEQ: token.NEQ, token.LSS: token.GTR, token.LEQ: token.GEQ, token.GTR: token.LSS, token.GEQ: token.LEQ}[op]
}

// lenPredicate recognises a call of a small boolean helper whose body is
// `return len(p.field) OP k` (p a parameter / receiver): isEmpty(), hasEnd(), …
// It returns the argument bound to p, the field, and the comparison, so that a
// branch on the helper counts like a branch on the comparison itself.
func lenPredicate(v ssa.Value) (base ssa.Value, fieldIdx int, fieldName string, op token.Token, k int64, ok bool) {
	call, isCall := core.Resolve(v).(*ssa.Call)
	if !isCall {
		return
	}
	g := call.Call.StaticCallee()
	if g == nil || g.Blocks == nil || g.Signature.Results().Len() != 1 || len(g.Blocks) != 1 {
		return
	}
	rets := returnsIn(g)
	if len(rets) != 1 {
		return
	}
	bin, isBin := core.Resolve(rets[0].Results[0]).(*ssa.BinOp)
	if !isBin {
		return
	}
	l, r, o := bin.X, bin.Y, bin.Op
	if lenArg(l) == nil && lenArg(r) != nil {
		l, r, o = r, l, flipOp(o)
	}
	la := lenArg(l)
	kk, isK := core.ConstInt(r)
	if la == nil || !isK {
		return
	}
	var owner ssa.Value
	switch x := core.Resolve(la).(type) {
	case *ssa.UnOp:
		if fa, isFa := x.X.(*ssa.FieldAddr); isFa {
			owner, fieldIdx = fa.X, fa.Field
			_, fieldName, _ = core.FieldName(fa)
		}
	case *ssa.Field:
		owner, fieldIdx = x.X, x.Field
		_, fieldName, _ = core.FieldName(x)
	}
	if owner == nil {
		return
	}
	pa, isParam := core.Resolve(owner).(*ssa.Parameter)
	if !isParam {
		// a by-value receiver / parameter spilled to a local variable
		if a, isAlloc := core.Resolve(owner).(*ssa.Alloc); isAlloc {
			if sts := core.StoresTo(a); len(sts) == 1 {
				pa, isParam = core.Resolve(sts[0].Val).(*ssa.Parameter)
			}
		}
	}
	if !isParam {
		return
	}
	for i, q := range g.Params {
		if q == pa && i < len(call.Call.Args) {
			return call.Call.Args[i], fieldIdx, fieldName, o, kk, true
		}
	}
	return
}

// ownerKey identifies the struct a field is read from: the address it lives at
// (for a struct value passed by copy: the variable it was copied from).
func ownerKey(v ssa.Value) string {
	v = core.Resolve(v)
	if ld, ok := v.(*ssa.UnOp); ok && ld.Op == token.MUL {
		return fmt.Sprintf("%p", core.Resolve(ld.X))
	}
	return fmt.Sprintf("%p", v)
}

// minLen computes a lower bound of len(x) that holds on entry to block `at`.
func minLen(p *core.Program, x ssa.Value, at *ssa.BasicBlock) (int64, string) {
	facts := core.FactsAt(at)
	lo, why := producerMinLen(p, x, facts)
	for _, f := range facts {
		// a branch on a length predicate helper (isEmpty(), hasEnd(), …) over the same field of the same struct
		if base, fidx, _, op, k, isPred := lenPredicate(f.Cond); isPred {
			match := false
			switch xv := core.Resolve(x).(type) {
			case *ssa.UnOp:
				if fa, isFa := xv.X.(*ssa.FieldAddr); isFa && fa.Field == fidx && (ownerKey(fa.X) == ownerKey(base) || core.SameValue(fa.X, base)) {
					match = true
				}
			case *ssa.Field:
				if xv.Field == fidx && ownerKey(xv.X) == ownerKey(base) {
					match = true
				}
			}
			if match {
				if !f.Polarity {
					op = map[token.Token]token.Token{token.EQL: token.NEQ, token.NEQ: token.EQL, token.LSS: token.GEQ, token.GEQ: token.LSS, token.GTR: token.LEQ, token.LEQ: token.GTR}[op]
				}
				n := lo
				switch op {
				case token.GTR:
					n = k + 1
				case token.GEQ, token.EQL:
					n = k
				case token.NEQ:
					if k == 0 {
						n = 1
					}
				}
				if n > lo {
					lo, why = n, fmt.Sprintf("dominating length predicate (len %s %d)", op, k)
				}
			}
			continue
		}
		l, op, r, ok := cmpNorm(f)
		if !ok {
			continue
		}
		// string compared with ""
		if s, isStr := core.ConstString(r); isStr && s == "" && sameSlice(l, x) && op == token.NEQ {
			if lo < 1 {
				lo, why = 1, "non-empty string test"
			}
			continue
		}
		if s, isStr := core.ConstString(l); isStr && s == "" && sameSlice(r, x) && op == token.NEQ {
			if lo < 1 {
				lo, why = 1, "non-empty string test"
			}
			continue
		}
		var cst int64
		if la := lenArg(l); la != nil && sameSlice(la, x) {
			c, isC := core.ConstInt(r)
			if !isC {
				continue
			}
			cst = c
		} else if ra := lenArg(r); ra != nil && sameSlice(ra, x) {
			c, isC := core.ConstInt(l)
			if !isC {
				continue
			}
			cst = c
			op = flipOp(op)
		} else {
			continue
		}
		n := lo
		switch op {
		case token.GTR:
			n = cst + 1
		case token.GEQ, token.EQL:
			n = cst
		case token.NEQ:
			if cst == 0 {
				n = 1
			}
		}
		if n > lo {
			lo, why = n, fmt.Sprintf("dominating test len %s %d", op, cst)
		}
	}
	return lo, why
}

var regexpGlobals = map[*ssa.Global]int{}

// numSubexpOfRegexp: receiver of a regexp method is a package-level variable
// initialised with regexp.MustCompile(<constant>) → number of capture groups.
func numSubexpOfRegexp(p *core.Program, recv ssa.Value) (int, bool) {
	recv = core.Resolve(recv)
	if par, ok := recv.(*ssa.Parameter); ok {
		// helper taking the regexp as parameter (parseGcsUrl): meet over all call sites
		fn := par.Parent()
		idx := -1
		for i, q := range fn.Params {
			if q == par {
				idx = i
			}
		}
		min, found := 1<<30, false
		for _, f := range p.SrcFuncs(fn.Pkg.Pkg.Path()) {
			for _, ci := range core.AllCalls(f) {
				if ci.Static == fn && idx < len(ci.Common.Args) {
					n, ok := numSubexpOfRegexp(p, ci.Common.Args[idx])
					if !ok {
						return 0, false
					}
					found = true
					if n < min {
						min = n
					}
				}
			}
		}
		return min, found
	}
	ld, ok := recv.(*ssa.UnOp)
	if !ok || ld.Op != token.MUL {
		return 0, false
	}
	g, ok := ld.X.(*ssa.Global)
	if !ok {
		return 0, false
	}
	if n, ok := regexpGlobals[g]; ok {
		return n, true
	}
	init := g.Pkg.Func("init")
	if init == nil {
		return 0, false
	}
	for _, b := range init.Blocks {
		for _, in := range b.Instrs {
			st, ok := in.(*ssa.Store)
			if !ok || st.Addr != g {
				continue
			}
			call, ok := st.Val.(*ssa.Call)
			if !ok {
				return 0, false
			}
			sc := call.Call.StaticCallee()
			if sc == nil || sc.Pkg == nil || sc.Pkg.Pkg.Path() != "regexp" || (sc.Name() != "MustCompile" && sc.Name() != "Compile") {
				return 0, false
			}
			pat, ok := constStringDeep(call.Call.Args[0])
			if !ok {
				return 0, false
			}
			re, err := regexp.Compile(pat)
			if err != nil {
				return 0, false
			}
			regexpGlobals[g] = re.NumSubexp()
			return re.NumSubexp(), true
		}
	}
	return 0, false
}

func constStringDeep(v ssa.Value) (string, bool) {
	if s, ok := core.ConstString(v); ok {
		return s, true
	}
	if b, ok := core.Strip(v).(*ssa.BinOp); ok && b.Op == token.ADD {
		l, ok1 := constStringDeep(b.X)
		r, ok2 := constStringDeep(b.Y)
		return l + r, ok1 && ok2
	}
	return "", false
}

// producerMinLen: minimum length guaranteed by how x was produced.
func producerMinLen(p *core.Program, x ssa.Value, facts []core.CondFact) (int64, string) {
	x = core.Resolve(x)
	if arr, ok := x.Type().Underlying().(*types.Array); ok {
		return arr.Len(), "array type"
	}
	if s, ok := core.ConstString(x); ok {
		return int64(len(s)), "string constant"
	}
	nonNil := func(v ssa.Value) bool {
		for _, f := range facts {
			l, op, r, ok := cmpNorm(f)
			if !ok || op != token.NEQ {
				continue
			}
			if (core.Resolve(l) == v && core.IsNilConst(r)) || (core.Resolve(r) == v && core.IsNilConst(l)) {
				return true
			}
		}
		return false
	}
	switch v := x.(type) {
	case *ssa.Call:
		sc := v.Call.StaticCallee()
		if sc == nil || sc.Pkg == nil {
			return 0, ""
		}
		switch sc.Pkg.Pkg.Path() + "." + core.FuncName(sc) {
		case "strings.Split":
			if sep, ok := core.ConstString(v.Call.Args[1]); ok && sep != "" {
				return 1, "strings.Split with a non-empty separator yields at least one element"
			}
		case "strings.SplitN":
			sep, ok := core.ConstString(v.Call.Args[1])
			n, ok2 := core.ConstInt(v.Call.Args[2])
			if ok && ok2 && sep != "" && n != 0 {
				return 1, "strings.SplitN with a non-empty separator and n≠0 yields at least one element"
			}
		case "regexp.(*Regexp).FindStringSubmatch":
			if nonNil(x) {
				if n, ok := numSubexpOfRegexp(p, v.Call.Args[0]); ok {
					return int64(n + 1), fmt.Sprintf("non-nil FindStringSubmatch of a pattern with %d groups", n)
				}
			}
		}
	case *ssa.UnOp:
		// element of FindAllStringSubmatch
		if v.Op == token.MUL {
			if ia, ok := v.X.(*ssa.IndexAddr); ok {
				if call, ok := core.Resolve(ia.X).(*ssa.Call); ok {
					if sc := call.Call.StaticCallee(); sc != nil && sc.Pkg != nil && sc.Pkg.Pkg.Path() == "regexp" && sc.Name() == "FindAllStringSubmatch" {
						if n, ok := numSubexpOfRegexp(p, call.Call.Args[0]); ok {
							return int64(n + 1), fmt.Sprintf("element of FindAllStringSubmatch of a pattern with %d groups", n)
						}
					}
				}
			}
		}
	}
	return 0, ""
}

// ---------------------------------------------------------------------------
// R14: constant indexing of variable-length values
// ---------------------------------------------------------------------------

func R14(floor int, pkgs ...string) Rule {
	return Rule{Name: "R14", Run: func(c *core.Ctx) {
		n := 0
		for _, pkg := range pkgs {
			for _, fn := range c.P.SrcFuncs(pkg) {
				if c.P.IsGenerated(fn.Pos()) {
					continue
				}
				k := map[string]int{}
				for _, b := range fn.Blocks {
					for _, in := range b.Instrs {
						var x, idx ssa.Value
						kind := ""
						switch v := in.(type) {
						case *ssa.IndexAddr:
							x, idx, kind = v.X, v.Index, "index"
						case *ssa.Index:
							x, idx, kind = v.X, v.Index, "index"
						case *ssa.Lookup:
							if _, isStr := v.X.Type().Underlying().(*types.Basic); isStr {
								x, idx, kind = v.X, v.Index, "index"
							}
						case *ssa.Slice:
							x = v.X
							kind = "slice"
						}
						if x == nil {
							continue
						}
						// arrays and pointers to arrays are checked by the compiler for constant indices
						xt := x.Type().Underlying()
						if pt, ok := xt.(*types.Pointer); ok {
							xt = pt.Elem().Underlying()
						}
						if _, isArr := xt.(*types.Array); isArr {
							continue
						}
						need := int64(-1) // required minimum length
						desc := ""
						if kind == "index" {
							if ci, ok := core.ConstInt(idx); ok {
								need, desc = ci+1, fmt.Sprintf("[%d]", ci)
							} else if bo, ok := core.Strip(idx).(*ssa.BinOp); ok && bo.Op == token.SUB {
								if la := lenArg(bo.X); la != nil && sameSlice(la, x) {
									if k, ok := core.ConstInt(bo.Y); ok {
										need, desc = k, fmt.Sprintf("[len-%d]", k)
									}
								}
							}
						} else {
							sl := in.(*ssa.Slice)
							for _, bnd := range []ssa.Value{sl.Low, sl.High, sl.Max} {
								if bnd == nil {
									continue
								}
								if ci, ok := core.ConstInt(bnd); ok && ci > need {
									need = ci
								}
							}
							if need <= 0 {
								continue
							}
							desc = fmt.Sprintf("[..%d..]", need)
						}
						if need < 0 {
							continue // variable index: out of scope (DESIGN R14-L)
						}
						n++
						c.Calls++
						fname := core.FuncName(fn)
						c.Fn(fname)
						name := c.P.IndexedExpr(in.Pos())
						if name == "" {
							name = valueLabel(x)
						}
						base := fmt.Sprintf("%s/%s%s", fname, name, desc)
						k[base]++
						construct := base
						if k[base] > 1 {
							construct = fmt.Sprintf("%s#%d", base, k[base])
						}
						have, why := minLen(c.P, x, b)
						if have < need {
							// a helper's precondition: the length may be established by every caller
							// for the argument it passes (facts about SSA values survive the call)
							if c.P.InAllContexts(in, []ssa.Value{x}, nil, func(at ssa.Instruction, vals []ssa.Value) bool {
								if at == in || vals[0] == nil {
									return false
								}
								h, _ := minLen(c.P, vals[0], at.Block())
								return h >= need
							}) {
								have, why = need, "established by every caller for the argument it passes"
							}
						}
						if have >= need {
							c.Ok("R14", construct, in.Pos(), why != "" && why != "array type", "needs len ≥ %d; established: len ≥ %d (%s)", need, have, why)
						} else {
							c.Bad("R14", construct, in.Pos(), "%s%s needs len ≥ %d but only len ≥ %d is established on this path (%s): a request that makes it shorter panics", name, desc, need, have, orNone(why))
						}
					}
				}
			}
		}
		if n < floor {
			c.Unknown("R14", "floor/sites", token.NoPos, "only %d constant-index sites found, %d were confirmed by hand", n, floor)
		}
	}}
}

func orNone(s string) string {
	if s == "" {
		return "no length guard on the same value"
	}
	return s
}

// valueLabel gives a short, line-free label for the indexed value.
func valueLabel(v ssa.Value) string {
	orig := v
	v = core.Resolve(v)
	switch x := v.(type) {
	case *ssa.Call:
		ci := core.Call(x)
		// prefer the source-level variable name when there is one
		if n := debugName(orig); n != "" {
			return n
		}
		return "result of " + ci.CalleeName()
	case *ssa.Parameter:
		return x.Name()
	case *ssa.UnOp:
		if fa, ok := x.X.(*ssa.FieldAddr); ok {
			_, f, _ := core.FieldName(fa)
			return valueLabel(fa.X) + "." + f
		}
		if n := debugName(orig); n != "" {
			return n
		}
		if a, ok := x.X.(*ssa.Alloc); ok {
			return a.Comment
		}
	case *ssa.Field:
		_, f, _ := core.FieldName(x)
		return valueLabel(x.X) + "." + f
	case *ssa.Extract:
		if n := debugName(orig); n != "" {
			return n
		}
		return valueLabel(x.Tuple) + "#" + fmt.Sprint(x.Index)
	}
	if n := debugName(orig); n != "" {
		return n
	}
	return strings.TrimPrefix(fmt.Sprintf("%T", v), "*ssa.")
}

// debugName finds the source variable a value was assigned to, via the
// load-of-alloc pattern (allocs carry the variable name in Comment).
func debugName(v ssa.Value) string {
	v = core.Strip(v)
	if ld, ok := v.(*ssa.UnOp); ok && ld.Op == token.MUL {
		if a, ok := ld.X.(*ssa.Alloc); ok {
			return a.Comment
		}
	}
	for _, r := range core.Referrers(v) {
		if st, ok := r.(*ssa.Store); ok && st.Val == v {
			if a, ok := st.Addr.(*ssa.Alloc); ok {
				return a.Comment
			}
		}
	}
	return ""
}

// ---------------------------------------------------------------------------
// R13: request integers reaching slice bounds
// ---------------------------------------------------------------------------

var protoPkgs = map[string]bool{
	"cloud.google.com/go/bigtable/apiv2/bigtablepb":      true,
	"cloud.google.com/go/bigtable/admin/apiv2/adminpb":   true,
	"google.golang.org/protobuf/types/known/durationpb":  true,
	"google.golang.org/protobuf/types/known/timestamppb": true,
	"google.golang.org/protobuf/types/known/wrapperspb":  true,
}

func isIntType(t types.Type) bool {
	b, ok := t.Underlying().(*types.Basic)
	return ok && b.Info()&types.IsInteger != 0
}

var parsedIntFieldsCache = map[*ssa.Program]map[string]bool{}

// parsedIntFields: "pkg.Type.field" of every integer struct field of the repository's packages that is
// assigned, somewhere, a value computed from the result of strconv.Atoi / ParseInt / ParseUint.
func parsedIntFields(prog *ssa.Program) map[string]bool {
	if m, ok := parsedIntFieldsCache[prog]; ok {
		return m
	}
	m := map[string]bool{}
	parsedIntFieldsCache[prog] = m
	var fromParse func(v ssa.Value, seen map[ssa.Value]bool, depth int) bool
	fromParse = func(v ssa.Value, seen map[ssa.Value]bool, depth int) bool {
		if v == nil || depth > 10 || seen[v] {
			return false
		}
		seen[v] = true
		switch x := v.(type) {
		case *ssa.Extract:
			if call, ok := x.Tuple.(*ssa.Call); ok && x.Index == 0 {
				if sc := call.Call.StaticCallee(); sc != nil && sc.Pkg != nil && sc.Pkg.Pkg.Path() == "strconv" {
					switch sc.Name() {
					case "Atoi", "ParseInt", "ParseUint":
						return true
					}
				}
			}
		case *ssa.BinOp:
			return fromParse(x.X, seen, depth+1) || fromParse(x.Y, seen, depth+1)
		case *ssa.Convert:
			return fromParse(x.X, seen, depth+1)
		case *ssa.ChangeType:
			return fromParse(x.X, seen, depth+1)
		case *ssa.Phi:
			for _, e := range x.Edges {
				if fromParse(e, seen, depth+1) {
					return true
				}
			}
		case *ssa.UnOp:
			if x.Op == token.MUL {
				if cell := core.CellOf(x.X); cell != nil {
					for _, st := range core.StoresTo(cell) {
						if fromParse(st.Val, seen, depth+1) {
							return true
						}
					}
				}
			}
		}
		return false
	}
	for _, pkg := range prog.AllPackages() {
		path := pkg.Pkg.Path()
		if path != core.PkgGcsemu && path != core.PkgBttest && path != core.PkgGcsutil {
			continue
		}
		for _, mem := range pkg.Members {
			_ = mem
		}
	}
	for fn := range ssautilAllFunctions(prog) {
		if fn.Blocks == nil {
			continue
		}
		pp := core.PkgPathOf(fn)
		if pp != core.PkgGcsemu && pp != core.PkgBttest && pp != core.PkgGcsutil {
			continue
		}
		for _, b := range fn.Blocks {
			for _, in := range b.Instrs {
				st, ok := in.(*ssa.Store)
				if !ok || !isIntType(st.Val.Type()) {
					continue
				}
				fa, ok := st.Addr.(*ssa.FieldAddr)
				if !ok {
					continue
				}
				n := core.NamedOf(fa.X.Type())
				if n == nil || n.Obj().Pkg() == nil {
					continue
				}
				np := n.Obj().Pkg().Path()
				if np != core.PkgGcsemu && np != core.PkgBttest && np != core.PkgGcsutil {
					continue
				}
				if fromParse(st.Val, map[ssa.Value]bool{}, 0) {
					_, f, _ := core.FieldName(fa)
					m[np+"."+n.Obj().Name()+"."+f] = true
				}
			}
		}
	}
	return m
}

// requestIntSource: v is an integer read from a request.
func requestIntSource(v ssa.Value) (string, bool) {
	if !isIntType(v.Type()) {
		return "", false
	}
	switch x := v.(type) {
	case *ssa.UnOp:
		if x.Op != token.MUL {
			return "", false
		}
		fa, ok := x.X.(*ssa.FieldAddr)
		if !ok {
			return "", false
		}
		n := core.NamedOf(fa.X.Type())
		if n == nil || n.Obj().Pkg() == nil {
			return "", false
		}
		_, f, _ := core.FieldName(fa)
		if protoPkgs[n.Obj().Pkg().Path()] {
			return n.Obj().Name() + "." + f, true
		}
		if n.Obj().Pkg().Path() == core.PkgGcsemu && core.TName(n) == "byteRange" {
			return "byteRange." + f, true
		}
		// any other integer field of a repository struct that some function of the package fills from a
		// parsed request number (`&httpRange{start: size - n, length: n}` with n from strconv.ParseInt)
		if x.Parent() != nil && parsedIntFields(x.Parent().Prog)[n.Obj().Pkg().Path()+"."+n.Obj().Name()+"."+f] {
			return n.Obj().Name() + "." + f, true
		}
	case *ssa.Extract:
		if call, ok := x.Tuple.(*ssa.Call); ok && x.Index == 0 {
			if sc := call.Call.StaticCallee(); sc != nil && sc.Pkg != nil && sc.Pkg.Pkg.Path() == "strconv" {
				switch sc.Name() {
				case "Atoi", "ParseInt":
					return "strconv." + sc.Name(), true
				}
			}
		}
	case *ssa.Call:
		// proto getters on request messages: GetX() of an integer field
		ci := core.Call(x)
		if ci.Static != nil && strings.HasPrefix(ci.Static.Name(), "Get") && ci.Static.Signature.Recv() != nil {
			if n := core.NamedOf(ci.Static.Signature.Recv().Type()); n != nil && n.Obj().Pkg() != nil && protoPkgs[n.Obj().Pkg().Path()] {
				return n.Obj().Name() + "." + ci.Static.Name() + "()", true
			}
		}
	}
	return "", false
}

// r13Sentinels: request integers whose only possible negative value is a sentinel, by
// construction of the parser — the belief is re-checked on every run (sentinelBelief) — so
// that a dominating test excluding the sentinel is their sign check, wherever the use sits.
var r13Sentinels = map[string]int64{
	"byteRange.lo": -1, // parsed from a token split on '-': it cannot carry a sign; -1 = "no explicit offset"
}

// dashFreeToken: the string cannot contain a '-' — an element of strings.Split(_, "-"), the part
// before the separator of strings.Cut(_, "-"), or the corresponding result of an in-package
// helper built on them (`cutExactlyOnce(s, "-")`), with the helper's separator parameter bound to
// the constant the caller passes.
func dashFreeToken(v ssa.Value, pkg string, bind map[*ssa.Parameter]ssa.Value, depth int) bool {
	if depth > 4 {
		return false
	}
	isDash := func(sep ssa.Value) bool {
		sep = core.Resolve(sep)
		if p, ok := sep.(*ssa.Parameter); ok && bind[p] != nil {
			sep = core.Resolve(bind[p])
		}
		s, ok := core.ConstString(sep)
		return ok && s == "-"
	}
	v = core.Resolve(v)
	if s, ok := core.ConstString(v); ok {
		return !strings.Contains(s, "-")
	}
	switch x := v.(type) {
	case *ssa.Parameter:
		if b := bind[x]; b != nil && core.Resolve(b) != ssa.Value(x) {
			return dashFreeToken(b, pkg, bind, depth+1)
		}
		return false
	case *ssa.UnOp:
		if x.Op == token.MUL {
			if cell := core.CellOf(x.X); cell != nil {
				sts := core.StoresTo(cell)
				for _, st := range sts {
					if !dashFreeToken(st.Val, pkg, bind, depth+1) {
						return false
					}
				}
				return len(sts) > 0
			}
		}
		if ia, ok := x.X.(*ssa.IndexAddr); ok {
			if sp, ok := core.Resolve(ia.X).(*ssa.Call); ok && core.Call(sp).IsFunc("strings", "Split") {
				return isDash(sp.Call.Args[1])
			}
		}
	case *ssa.Phi:
		for _, e := range x.Edges {
			if !dashFreeToken(e, pkg, bind, depth+1) {
				return false
			}
		}
		return len(x.Edges) > 0
	case *ssa.Extract:
		call, ok := x.Tuple.(*ssa.Call)
		if !ok {
			return false
		}
		if core.Call(call).IsFunc("strings", "Cut") {
			return x.Index == 0 && isDash(call.Call.Args[1])
		}
		g := call.Call.StaticCallee()
		if g == nil || g.Blocks == nil || core.PkgPathOf(g) != pkg {
			return false
		}
		nb := map[*ssa.Parameter]ssa.Value{}
		for i, a := range call.Call.Args {
			if i < len(g.Params) {
				nb[g.Params[i]] = a
				if p, isP := core.Resolve(a).(*ssa.Parameter); isP && bind[p] != nil {
					nb[g.Params[i]] = bind[p]
				}
			}
		}
		n := 0
		for _, r := range returnsIn(g) {
			if x.Index >= len(r.Results) || !dashFreeToken(r.Results[x.Index], pkg, nb, depth+1) {
				return false
			}
			n++
		}
		return n > 0
	}
	return false
}

// sentinelBelief: every value stored into the field in the package is — followed through
// φs, local variables and the results of in-package helpers — the sentinel, a non-negative
// constant, or the result of strconv.ParseInt applied to an element of strings.Split(_, "-").
func sentinelBelief(p *core.Program, pkg, name string, k int64) bool {
	dot := strings.IndexByte(name, '.')
	if dot < 0 {
		return false
	}
	typ, field := name[:dot], name[dot+1:]
	seen := map[ssa.Value]bool{}
	var okValB func(v ssa.Value, depth int, bind map[*ssa.Parameter]ssa.Value) bool
	okVal := func(v ssa.Value, depth int) bool { return okValB(v, depth, nil) }
	okValB = func(v ssa.Value, depth int, bind map[*ssa.Parameter]ssa.Value) bool {
		okVal := func(v ssa.Value, depth int) bool { return okValB(v, depth, bind) }
		v = core.Resolve(v)
		if seen[v] && bind == nil {
			return true
		}
		seen[v] = true
		if depth > 8 {
			return false
		}
		if cst, isK := core.ConstInt(v); isK {
			return cst == k || cst >= 0
		}
		switch x := v.(type) {
		case *ssa.Phi:
			for _, e := range x.Edges {
				if !okVal(e, depth+1) {
					return false
				}
			}
			return true
		case *ssa.UnOp:
			if x.Op == token.MUL {
				if cell := core.CellOf(x.X); cell != nil {
					sts := core.StoresTo(cell)
					for _, st := range sts {
						if !okVal(st.Val, depth+1) {
							return false
						}
					}
					return len(sts) > 0
				}
			}
			return false
		case *ssa.Extract:
			call, isCall := x.Tuple.(*ssa.Call)
			if !isCall {
				return false
			}
			if core.Call(call).IsFunc("strconv", "ParseInt") && x.Index == 0 {
				return dashFreeToken(call.Call.Args[0], pkg, bind, 0)
			}
			g := call.Call.StaticCallee()
			if g == nil || g.Blocks == nil || core.PkgPathOf(g) != pkg {
				return false
			}
			// judged per call: the callee's parameters are what this call passes (a shared low-level parser is
			// dash-free for the caller that hands it a dash-free token, whatever its other callers pass)
			nb := map[*ssa.Parameter]ssa.Value{}
			for i, a := range call.Call.Args {
				if i < len(g.Params) {
					nb[g.Params[i]] = a
					if pp, isP := core.Resolve(a).(*ssa.Parameter); isP && bind[pp] != nil {
						nb[g.Params[i]] = bind[pp]
					}
				}
			}
			n := 0
			for _, r := range returnsIn(g) {
				if x.Index >= len(r.Results) {
					return false
				}
				if !okValB(r.Results[x.Index], depth+1, nb) {
					return false
				}
				n++
			}
			return n > 0
		}
		return false
	}
	n := 0
	for _, fn := range p.SrcFuncs(pkg) {
		for _, b := range fn.Blocks {
			for _, in := range b.Instrs {
				st, ok := in.(*ssa.Store)
				if !ok {
					continue
				}
				fa, ok := st.Addr.(*ssa.FieldAddr)
				if !ok || !core.TypeIs(fa.X.Type(), pkg, typ) {
					continue
				}
				if _, f, _ := core.FieldName(fa); f != field {
					continue
				}
				n++
				if !okVal(st.Val, 0) {
					return false
				}
			}
		}
	}
	return n > 0
}

// upperViaChecker: the sink is reached only on the success result of an in-package checking
// helper (`br, problem := checkRange(hdr, len(body), len(u.data)); if problem != "" {…}`)
// that was given len(X) for the sliced value X, returned the object the request integer is
// read from, and at every success return has compared that integer against the length
// parameter.
func upperViaChecker(p *core.Program, at ssa.Instruction, x ssa.Value, name string, closure map[ssa.Value]bool) bool {
	peel := func(v ssa.Value) ssa.Value {
		for i := 0; i < 4; i++ {
			switch c := v.(type) {
			case *ssa.Convert:
				v = c.X
			case *ssa.ChangeType:
				v = c.X
			default:
				return v
			}
		}
		return v
	}
	for _, pc := range p.PassedValidators(at.Block()) {
		g := pc.Call.Call.StaticCallee()
		rets := pc.SuccessReturns()
		if len(rets) == 0 {
			continue
		}
		lenParams := map[ssa.Value]bool{}
		for i, a := range pc.Call.Call.Args {
			if la := lenArg(a); la != nil && sameSlice(la, x) && i < len(g.Params) {
				lenParams[g.Params[i]] = true
			}
		}
		if len(lenParams) == 0 {
			continue
		}
		// the integer is read from an object this call returned
		fromResult := false
		for v := range closure {
			ld, isLd := v.(*ssa.UnOp)
			if !isLd {
				continue
			}
			fa, isFa := ld.X.(*ssa.FieldAddr)
			if !isFa {
				continue
			}
			base := core.Resolve(fa.X)
			if ex, isEx := base.(*ssa.Extract); isEx && ex.Tuple == ssa.Value(pc.Call) {
				fromResult = true
			}
			if base == ssa.Value(pc.Call) {
				fromResult = true
			}
		}
		if !fromResult {
			continue
		}
		all := true
		for _, ri := range rets {
			r := ri.(*ssa.Return)
			named := func(v ssa.Value) bool {
				v = peel(v)
				n, ok := requestIntSource(v)
				if !ok || n != name {
					return false
				}
				ld := v.(*ssa.UnOp)
				base := core.Resolve(ld.X.(*ssa.FieldAddr).X)
				for _, res := range r.Results {
					if core.Resolve(res) == base {
						return true
					}
				}
				return false
			}
			found := false
			for _, f := range core.FactsAt(r.Block()) {
				l, op, rr, ok := cmpNorm(f)
				if !ok {
					continue
				}
				if lenParams[core.Resolve(peel(l))] && named(rr) && (op == token.GEQ || op == token.GTR) {
					found = true
				}
				if lenParams[core.Resolve(peel(rr))] && named(l) && (op == token.LEQ || op == token.LSS) {
					found = true
				}
			}
			if !found {
				all = false
			}
		}
		if all {
			return true
		}
	}
	return false
}

// sentinelExcludedIn: some fact establishes that a value of the taint closure is not k.
func sentinelExcludedIn(facts []core.CondFact, closure map[ssa.Value]bool, k int64) bool {
	for _, f := range facts {
		l, op, r, ok := cmpNorm(f)
		if !ok || op != token.NEQ {
			continue
		}
		if cst, isK := core.ConstInt(r); isK && cst == k && closure[l] {
			return true
		}
		if cst, isK := core.ConstInt(l); isK && cst == k && closure[r] {
			return true
		}
	}
	return false
}

// signCheckedIn: some fact establishes that a value of the taint closure is not negative.
func signCheckedIn(facts []core.CondFact, closure map[ssa.Value]bool) bool {
	for _, f := range facts {
		l, op, r, ok := cmpNorm(f)
		if !ok {
			continue
		}
		if closure[l] {
			if cst, ok := core.ConstInt(r); ok {
				if (op == token.GEQ && cst >= 0) || (op == token.GTR && cst >= -1) || (op == token.EQL && cst >= 0) {
					return true
				}
			}
		}
		if closure[r] {
			if cst, ok := core.ConstInt(l); ok {
				if (op == token.LEQ && cst >= 0) || (op == token.LSS && cst >= -1) || (op == token.EQL && cst >= 0) {
					return true
				}
			}
		}
	}
	return false
}

func R13(floor int, pkgs ...string) Rule {
	return Rule{Name: "R13", Run: func(c *core.Ctx) {
		nFlows := 0
		type src struct {
			v    ssa.Value
			name string
		}
		for _, pkg := range pkgs {
			fns := c.P.SrcFuncs(pkg)
			// request integers handed to helpers: a helper parameter that receives a tainted
			// argument is a source of the same name inside the helper (fix-point over calls)
			paramSrc := map[*ssa.Function][]src{}
			type callTaint struct {
				call    ssa.CallInstruction
				closure map[ssa.Value]bool
			}
			taintedCalls := map[*ssa.Parameter][]callTaint{}
			localSources := func(fn *ssa.Function) []src {
				var srcs []src
				for _, b := range fn.Blocks {
					for _, in := range b.Instrs {
						if v, ok := in.(ssa.Value); ok {
							if name, ok := requestIntSource(v); ok {
								srcs = append(srcs, src{v, name})
							}
						}
					}
				}
				return append(srcs, paramSrc[fn]...)
			}
			for round, changed := 0, true; changed && round < 6; round++ {
				changed = false
				for _, fn := range fns {
					byName := map[string][]ssa.Value{}
					for _, s := range localSources(fn) {
						byName[s.name] = append(byName[s.name], s.v)
					}
					for name, vs := range byName {
						closure := taintClosure(vs)
						for _, ci := range core.AllCalls(fn) {
							if ci.Static == nil || ci.Static.Blocks == nil || core.PkgPathOf(ci.Static) != pkg {
								continue
							}
							for ai, a := range ci.Common.Args {
								if !closure[a] || ai >= len(ci.Static.Params) {
									continue
								}
								pa := ci.Static.Params[ai]
								known := false
								for _, ps := range paramSrc[ci.Static] {
									if ps.v == ssa.Value(pa) {
										known = true
									}
								}
								if !known {
									paramSrc[ci.Static] = append(paramSrc[ci.Static], src{pa, name})
									changed = true
								}
								dup := false
								for _, ct := range taintedCalls[pa] {
									if ct.call == ci.Instr {
										dup = true
									}
								}
								if !dup {
									taintedCalls[pa] = append(taintedCalls[pa], callTaint{ci.Instr, closure})
								}
							}
						}
					}
				}
			}
			for _, fn := range fns {
				srcs := localSources(fn)
				if len(srcs) == 0 {
					continue
				}
				// group sources by name (several loads of the same field)
				byName := map[string][]ssa.Value{}
				var names []string
				for _, s := range srcs {
					if byName[s.name] == nil {
						names = append(names, s.name)
					}
					byName[s.name] = append(byName[s.name], s.v)
				}
				sort.Strings(names)
				for _, name := range names {
					closure := taintClosure(byName[name])
					// sinks
					type sink struct {
						in    ssa.Instruction
						what  string
						x     ssa.Value // sliced/indexed value
						upper bool      // value is used as an upper/index bound
					}
					var sinks []sink
					for _, b := range fn.Blocks {
						for _, in := range b.Instrs {
							switch v := in.(type) {
							case *ssa.Slice:
								if v.Low != nil && closure[v.Low] {
									sinks = append(sinks, sink{in, "slice low bound", v.X, true})
								}
								if v.High != nil && closure[v.High] {
									sinks = append(sinks, sink{in, "slice high bound", v.X, true})
								}
								if v.Max != nil && closure[v.Max] {
									sinks = append(sinks, sink{in, "slice max bound", v.X, true})
								}
							case *ssa.IndexAddr:
								if closure[v.Index] {
									sinks = append(sinks, sink{in, "index", v.X, true})
								}
							case *ssa.Index:
								if closure[v.Index] {
									sinks = append(sinks, sink{in, "index", v.X, true})
								}
							case *ssa.MakeSlice:
								if closure[v.Len] || closure[v.Cap] {
									sinks = append(sinks, sink{in, "make size", nil, false})
								}
							}
						}
					}
					for i, s := range sinks {
						nFlows++
						fname := core.FuncName(fn)
						c.Fn(fname)
						construct := fmt.Sprintf("%s/%s->%s#%d", fname, name, strings.ReplaceAll(s.what, " ", "-"), i+1)
						facts := core.FactsAtInstr(s.in)
						lower := signCheckedIn(facts, closure)
						sentinel, hasSentinel := r13Sentinels[name]
						if hasSentinel && !sentinelBelief(c.P, pkg, name, sentinel) {
							hasSentinel = false
						}
						if !lower && hasSentinel && sentinelExcludedIn(facts, closure, sentinel) {
							lower = true
						}
						if !lower {
							// the value arrived through a helper parameter: every call that passes a
							// request integer may have checked its sign before the call
							all, any := true, false
							for _, v := range byName[name] {
								pa, isParam := v.(*ssa.Parameter)
								if !isParam {
									all = false
									continue
								}
								for _, ct := range taintedCalls[pa] {
									any = true
									if !signCheckedIn(core.FactsAtInstr(ct.call), ct.closure) && !(hasSentinel && sentinelExcludedIn(core.FactsAtInstr(ct.call), ct.closure, sentinel)) {
										all = false
									}
								}
							}
							lower = all && any
						}
						upper := !s.upper || s.x == nil
						for _, f := range facts {
							l, op, r, ok := cmpNorm(f)
							if !ok {
								continue
							}
							// upper bound against len of the same slice
							if s.x != nil {
								if la := lenArg(l); la != nil && sameSlice(la, s.x) && closure[r] && (op == token.GTR || op == token.GEQ) {
									upper = true
								}
								if ra := lenArg(r); ra != nil && sameSlice(ra, s.x) && closure[l] && (op == token.LSS || op == token.LEQ) {
									upper = true
								}
							}
						}
						if !upper && s.x != nil && upperViaChecker(c.P, s.in, s.x, name, closure) {
							upper = true
						}
						switch {
						case lower && upper:
							c.Ok("R13", construct, s.in.Pos(), true, "request integer %s is sign-checked and length-checked before it is used as %s", name, s.what)
						case !lower:
							c.Bad("R13", construct, s.in.Pos(), "request integer %s reaches a %s without a sign check on any dominating branch: a negative value panics with 'slice bounds out of range'", name, s.what)
						default:
							c.Bad("R13", construct, s.in.Pos(), "request integer %s reaches a %s without a comparison against the length of the sliced value", name, s.what)
						}
					}
				}
			}
		}
		if nFlows < floor {
			c.Unknown("R13", "floor/flows", token.NoPos, "only %d request-integer→bound flows found; %d were confirmed by hand", nFlows, floor)
		}
	}}
}

// taintClosure: forward closure through conversions, arithmetic, φ and local cells.
func taintClosure(srcs []ssa.Value) map[ssa.Value]bool {
	set := map[ssa.Value]bool{}
	work := append([]ssa.Value(nil), srcs...)
	for len(work) > 0 {
		v := work[len(work)-1]
		work = work[:len(work)-1]
		if set[v] {
			continue
		}
		set[v] = true
		for _, u := range core.Referrers(v) {
			switch x := u.(type) {
			case *ssa.Convert:
				work = append(work, x)
			case *ssa.ChangeType:
				work = append(work, x)
			case *ssa.Phi:
				work = append(work, x)
			case *ssa.BinOp:
				switch x.Op {
				case token.ADD, token.SUB, token.MUL, token.QUO, token.REM, token.SHL, token.SHR:
					work = append(work, x)
				}
			case *ssa.UnOp:
				if x.Op == token.SUB {
					work = append(work, x)
				}
			case *ssa.Store:
				if x.Val == v {
					if cell := core.CellOf(x.Addr); cell != nil {
						for _, f := range core.Family(core.Root(cell.Parent())) {
							for _, b := range f.Blocks {
								for _, in := range b.Instrs {
									if ld, ok := in.(*ssa.UnOp); ok && ld.Op == token.MUL && core.CellOf(ld.X) == cell {
										work = append(work, ld)
									}
								}
							}
						}
					}
				}
			}
		}
	}
	return set
}

func ssautilAllFunctions(prog *ssa.Program) map[*ssa.Function]bool { return ssautil.AllFunctions(prog) }
