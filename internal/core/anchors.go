package core

import (
	"fmt"
	"go/constant"
	"go/types"
	"sort"
	"strings"

	"golang.org/x/tools/go/ssa"
)

// Anchors.  Where a property names a mechanism that has no type-level handle
// (applyMutations, validateConds, lockName, …) the rules look the function up by
// name.  A rename of an unexported function would make every such rule lose its
// anchor, so lookups go through an alias table: when a frozen name no longer
// exists in its package, the function that took over its role is identified by
// a fingerprint taken on the confirmed tree (arity, external callees, string
// constants, fields of external types, interface methods invoked) — the same
// idea as rename detection in version control.  The alias is accepted only when
// one candidate matches clearly; otherwise the anchor stays unresolved and the
// rules that need it report "anchor gone" (check broken, not a violation).
// Every rule then re-decides its obligations on the aliased function, so a
// wrong guess cannot make a check pass vacuously.

// AnchorFP is the frozen fingerprint of one named function.
type AnchorFP struct {
	Pkg, Name         string
	NParams, NResults int
	FP                []string
}

var canonByFn = map[*ssa.Function]string{}

// fingerprint computes the rename-stable tokens of a function (closures included).
func (p *Program) fingerprint(fn *ssa.Function) []string {
	set := map[string]bool{}
	set["sig:"+p.blankRepoNames(fn.Signature)] = true
	for _, f := range Family(fn) {
		for _, b := range f.Blocks {
			for _, in := range b.Instrs {
				switch x := in.(type) {
				case *ssa.MakeChan:
					set["op:makechan "+p.blankRepoNames(x.Type())] = true
				case *ssa.MakeMap:
					set["op:makemap "+p.blankRepoNames(x.Type())] = true
				case *ssa.MakeSlice:
					set["op:makeslice "+p.blankRepoNames(x.Type())] = true
				case *ssa.Alloc:
					if x.Heap {
						set["op:new "+p.blankRepoNames(x.Type())] = true
					}
				case *ssa.Go:
					set["op:go"] = true
				case *ssa.Select:
					set["op:select"] = true
				case *ssa.Panic:
					set["op:panic"] = true
				}
				if ci, ok := in.(ssa.CallInstruction); ok {
					com := ci.Common()
					if com.IsInvoke() {
						set["inv:"+com.Method.Name()] = true
					} else if sc := com.StaticCallee(); sc != nil {
						if !p.inRepo(sc) && sc.Pkg != nil {
							set["call:"+sc.Pkg.Pkg.Path()+"."+sc.Name()] = true
						}
					} else if bi, ok := com.Value.(*ssa.Builtin); ok {
						set["builtin:"+bi.Name()] = true
					}
				}
				for _, op := range in.Operands(nil) {
					if *op == nil {
						continue
					}
					if c, ok := (*op).(*ssa.Const); ok && c.Value != nil && c.Value.Kind() == constant.String {
						s := constant.StringVal(c.Value)
						if len(s) > 48 {
							s = s[:48]
						}
						if s != "" {
							set["str:"+s] = true
						}
					}
				}
				var ft types.Type
				var idx int
				switch x := in.(type) {
				case *ssa.FieldAddr:
					ft, idx = x.X.Type(), x.Field
				case *ssa.Field:
					ft, idx = x.X.Type(), x.Field
				default:
					continue
				}
				if n := NamedOf(ft); n != nil && n.Obj().Pkg() != nil {
					if _, in := p.SPkgs[n.Obj().Pkg().Path()]; !in {
						if st, ok := n.Underlying().(*types.Struct); ok && idx < st.NumFields() {
							set["field:"+n.Obj().Name()+"."+st.Field(idx).Name()] = true
						}
					}
				}
			}
		}
	}
	var out []string
	for k := range set {
		out = append(out, k)
	}
	sort.Strings(out)
	return out
}

// topLevelFuncs lists the named functions and methods (with bodies) of a package.
func (p *Program) topLevelFuncs(pkgPath string) []*ssa.Function {
	var out []*ssa.Function
	for _, f := range p.SrcFuncs(pkgPath) {
		if f.Parent() == nil && f.Synthetic == "" {
			out = append(out, f)
		}
	}
	return out
}

// GenAnchorTable renders the fingerprints of the given names as Go source.
func (p *Program) GenAnchorTable(names map[string][]string) string {
	var sb strings.Builder
	var pkgs []string
	for k := range names {
		pkgs = append(pkgs, k)
	}
	sort.Strings(pkgs)
	for _, pkg := range pkgs {
		ns := append([]string(nil), names[pkg]...)
		sort.Strings(ns)
		for _, n := range ns {
			f := p.funcByName(pkg, n)
			if f == nil || f.Blocks == nil {
				continue
			}
			fmt.Fprintf(&sb, "\t{Pkg: %q, Name: %q, NParams: %d, NResults: %d, FP: []string{", pkg, n, len(f.Params), f.Signature.Results().Len())
			for i, t := range p.fingerprint(f) {
				if i > 0 {
					sb.WriteString(", ")
				}
				fmt.Fprintf(&sb, "%q", t)
			}
			sb.WriteString("}},\n")
		}
	}
	return sb.String()
}

func jaccard(a, b []string) float64 {
	if len(a) == 0 && len(b) == 0 {
		return 0
	}
	m := map[string]bool{}
	for _, x := range a {
		m[x] = true
	}
	inter := 0
	for _, x := range b {
		if m[x] {
			inter++
		}
	}
	union := len(a) + len(b) - inter
	return float64(inter) / float64(union)
}

// resolveAnchors fills the alias table for frozen names that are gone.
func (p *Program) resolveAnchors() {
	p.alias = map[string]*ssa.Function{}
	byPkg := map[string][]AnchorFP{}
	for _, a := range AnchorTable {
		byPkg[a.Pkg] = append(byPkg[a.Pkg], a)
	}
	for pkg, specs := range byPkg {
		if p.SPkgs[pkg] == nil {
			continue
		}
		present := map[string]bool{}
		var missing []AnchorFP
		for _, a := range specs {
			if f := p.funcByName(pkg, a.Name); f != nil && f.Blocks != nil {
				present[FuncName(f)] = true
			} else {
				missing = append(missing, a)
			}
		}
		if len(missing) == 0 {
			continue
		}
		// candidates: functions of the package that are not themselves frozen names
		var cands []*ssa.Function
		for _, f := range p.topLevelFuncs(pkg) {
			if !present[FuncName(f)] {
				cands = append(cands, f)
			}
		}
		fps := map[*ssa.Function][]string{}
		for _, f := range cands {
			fps[f] = p.fingerprint(f)
		}
		type match struct {
			spec  AnchorFP
			fn    *ssa.Function
			score float64
		}
		var accepted []match
		for _, a := range missing {
			var best, second float64
			var bestFn *ssa.Function
			for _, f := range cands {
				if len(f.Params) != a.NParams || f.Signature.Results().Len() != a.NResults {
					continue
				}
				// a function may have become a method of its first parameter's type or the reverse: the SSA
				// parameter list (receiver first) is the same, so the rules' argument positions still hold
				s := jaccard(a.FP, fps[f])
				if len(a.FP) == 0 && len(fps[f]) == 0 {
					s = 0.5 // nothing to compare: arity only
				}
				if s > best {
					best, second, bestFn = s, best, f
				} else if s > second {
					second = s
				}
			}
			if bestFn != nil && best >= 0.55 && best-second >= 0.15 {
				accepted = append(accepted, match{a, bestFn, best})
			}
		}
		// one function cannot take over two names
		taken := map[*ssa.Function]int{}
		for _, m := range accepted {
			taken[m.fn]++
		}
		for _, m := range accepted {
			if taken[m.fn] > 1 {
				continue
			}
			p.alias[pkg+"\x00"+m.spec.Name] = m.fn
			canonByFn[m.fn] = m.spec.Name
			p.AliasNotes = append(p.AliasNotes, fmt.Sprintf("%s: frozen anchor %s is now %s (fingerprint similarity %.2f)", pkg[strings.LastIndexByte(pkg, '/')+1:], m.spec.Name, rawFuncName(m.fn), m.score))
		}
	}
	sort.Strings(p.AliasNotes)
}

// ---- types and fields ---------------------------------------------------------

// TypeFP is the frozen shape of one named type of the analysed packages.
type TypeFP struct {
	Pkg, Name  string
	Underlying string   // kind of the underlying type ("struct", or its printed form with repo types blanked)
	Fields     []string // struct fields in order: "name type" (repo type names blanked)
	Methods    []string // method names (sorted)
}

var typeCanon = map[*types.TypeName]string{} // renamed type -> frozen name
var fieldCanon = map[*types.Var]string{}     // renamed field -> frozen name

// TName returns the frozen name of a named type (its own name unless it was renamed).
func TName(n *types.Named) string {
	if n == nil {
		return ""
	}
	if c, ok := typeCanon[n.Obj()]; ok {
		return c
	}
	return n.Obj().Name()
}

// VarName returns the frozen name of a struct field.
func VarName(v *types.Var) string {
	if c, ok := fieldCanon[v]; ok {
		return c
	}
	return v.Name()
}

// blankType prints a type with the names of repository types replaced by "@",
// so that the print is stable under renames of those types.
func (p *Program) blankType(t types.Type) string {
	return types.TypeString(t, func(pkg *types.Package) string {
		if _, in := p.SPkgs[pkg.Path()]; in {
			return "@"
		}
		return pkg.Path()
	})
}

func (p *Program) blankRepoNames(t types.Type) string {
	s := p.blankType(t)
	// "@.name" -> "@"
	var sb strings.Builder
	for i := 0; i < len(s); i++ {
		if s[i] == '@' && i+1 < len(s) && s[i+1] == '.' {
			sb.WriteByte('@')
			i += 2
			for i < len(s) && (s[i] == '_' || s[i] >= '0' && s[i] <= '9' || s[i] >= 'a' && s[i] <= 'z' || s[i] >= 'A' && s[i] <= 'Z') {
				i++
			}
			i--
			continue
		}
		sb.WriteByte(s[i])
	}
	return sb.String()
}

func (p *Program) typeFP(tn *types.TypeName) TypeFP {
	fp := TypeFP{Pkg: tn.Pkg().Path(), Name: tn.Name()}
	named, _ := tn.Type().(*types.Named)
	if st, ok := tn.Type().Underlying().(*types.Struct); ok {
		fp.Underlying = "struct"
		for i := 0; i < st.NumFields(); i++ {
			fp.Fields = append(fp.Fields, st.Field(i).Name()+" "+p.blankRepoNames(st.Field(i).Type()))
		}
	} else {
		fp.Underlying = p.blankRepoNames(tn.Type().Underlying())
	}
	if named != nil {
		for i := 0; i < named.NumMethods(); i++ {
			fp.Methods = append(fp.Methods, named.Method(i).Name())
		}
		sort.Strings(fp.Methods)
	}
	return fp
}

// GenTypeTable renders the shapes of all named types of the analysed packages.
func (p *Program) GenTypeTable(pkgs []string) string {
	var sb strings.Builder
	for _, pkg := range pkgs {
		tp := p.Pkgs[pkg]
		if tp == nil {
			continue
		}
		for _, name := range tp.Types.Scope().Names() {
			tn, ok := tp.Types.Scope().Lookup(name).(*types.TypeName)
			if !ok || tn.IsAlias() || p.IsGenerated(tn.Pos()) {
				continue
			}
			fp := p.typeFP(tn)
			fmt.Fprintf(&sb, "\t{Pkg: %q, Name: %q, Underlying: %q, Fields: %#v, Methods: %#v},\n", fp.Pkg, fp.Name, fp.Underlying, fp.Fields, fp.Methods)
		}
	}
	return strings.ReplaceAll(sb.String(), "[]string(nil)", "nil")
}

func fieldTypesOf(fields []string) []string {
	var out []string
	for _, f := range fields {
		if i := strings.IndexByte(f, ' '); i >= 0 {
			out = append(out, f[i+1:])
		}
	}
	return out
}

// resolveTypes fills typeCanon / fieldCanon for frozen type and field names that are gone.
func (p *Program) resolveTypes() {
	byPkg := map[string][]TypeFP{}
	for _, t := range TypeTable {
		byPkg[t.Pkg] = append(byPkg[t.Pkg], t)
	}
	for pkg, specs := range byPkg {
		tp := p.Pkgs[pkg]
		if tp == nil || p.SPkgs[pkg] == nil {
			continue
		}
		frozen := map[string]TypeFP{}
		for _, s := range specs {
			frozen[s.Name] = s
		}
		var missing []TypeFP
		for _, s := range specs {
			if _, ok := tp.Types.Scope().Lookup(s.Name).(*types.TypeName); !ok {
				missing = append(missing, s)
			}
		}
		resolved := map[string]*types.TypeName{}
		if len(missing) > 0 {
			var cands []*types.TypeName
			for _, name := range tp.Types.Scope().Names() {
				tn, ok := tp.Types.Scope().Lookup(name).(*types.TypeName)
				if ok && !tn.IsAlias() {
					if _, isFrozen := frozen[name]; !isFrozen {
						cands = append(cands, tn)
					}
				}
			}
			taken := map[*types.TypeName]int{}
			type m struct {
				spec TypeFP
				tn   *types.TypeName
			}
			var acc []m
			for _, s := range missing {
				var best, second float64
				var bestTn *types.TypeName
				for _, tn := range cands {
					fp := p.typeFP(tn)
					if (fp.Underlying == "struct") != (s.Underlying == "struct") {
						continue
					}
					var score float64
					if s.Underlying == "struct" {
						score = 0.7*jaccard(fieldTypesOf(s.Fields), fieldTypesOf(fp.Fields)) + 0.3*jaccard(s.Methods, fp.Methods)
						if len(s.Methods) == 0 && len(fp.Methods) == 0 {
							score = jaccard(fieldTypesOf(s.Fields), fieldTypesOf(fp.Fields))
						}
					} else {
						if fp.Underlying != s.Underlying {
							continue
						}
						score = 0.5 + 0.5*jaccard(s.Methods, fp.Methods)
					}
					if score > best {
						best, second, bestTn = score, best, tn
					} else if score > second {
						second = score
					}
				}
				if bestTn != nil && best >= 0.6 && best-second >= 0.1 {
					acc = append(acc, m{s, bestTn})
					taken[bestTn]++
				}
			}
			for _, a := range acc {
				if taken[a.tn] == 1 {
					typeCanon[a.tn] = a.spec.Name
					resolved[a.spec.Name] = a.tn
					p.AliasNotes = append(p.AliasNotes, fmt.Sprintf("%s: frozen type %s is now %s", pkg[strings.LastIndexByte(pkg, '/')+1:], a.spec.Name, a.tn.Name()))
				}
			}
		}
		// fields: frozen name gone from a struct of unchanged shape -> the field at the same position
		for _, s := range specs {
			if s.Underlying != "struct" {
				continue
			}
			tn, _ := tp.Types.Scope().Lookup(s.Name).(*types.TypeName)
			if tn == nil {
				tn = resolved[s.Name]
			}
			if tn == nil {
				continue
			}
			st, ok := tn.Type().Underlying().(*types.Struct)
			if !ok {
				continue
			}
			have := map[string]bool{}
			for i := 0; i < st.NumFields(); i++ {
				have[st.Field(i).Name()] = true
			}
			want := fieldTypesOf(s.Fields)
			for i, f := range s.Fields {
				name := f[:strings.IndexByte(f, ' ')]
				if have[name] {
					continue
				}
				// same position and type, and the current name is not a frozen name of this struct
				if st.NumFields() == len(s.Fields) && p.blankRepoNames(st.Field(i).Type()) == want[i] {
					cur := st.Field(i)
					isFrozenName := false
					for _, g := range s.Fields {
						if strings.HasPrefix(g, cur.Name()+" ") {
							isFrozenName = true
						}
					}
					if !isFrozenName {
						fieldCanon[cur] = name
						p.AliasNotes = append(p.AliasNotes, fmt.Sprintf("%s: frozen field %s.%s is now %s", pkg[strings.LastIndexByte(pkg, '/')+1:], s.Name, name, cur.Name()))
						continue
					}
				}
				// otherwise: a unique new field of exactly that type
				var match *types.Var
				n := 0
				for j := 0; j < st.NumFields(); j++ {
					cur := st.Field(j)
					isFrozenName := false
					for _, g := range s.Fields {
						if strings.HasPrefix(g, cur.Name()+" ") {
							isFrozenName = true
						}
					}
					if !isFrozenName && p.blankRepoNames(cur.Type()) == want[i] {
						match = cur
						n++
					}
				}
				if n == 1 {
					fieldCanon[match] = name
					p.AliasNotes = append(p.AliasNotes, fmt.Sprintf("%s: frozen field %s.%s is now %s", pkg[strings.LastIndexByte(pkg, '/')+1:], s.Name, name, match.Name()))
				}
			}
		}
	}
}
