package rules

import (
	"fmt"
	"go/token"
	"go/types"

	"golang.org/x/tools/go/ssa"

	"verif/internal/core"
)

// ---------------------------------------------------------------------------
// R60: a batch request answers every parsed part with exactly one sub-response,
// produced by the same entry point a stand-alone request goes through.
//
// Necessary conditions of C20's "one sub-response per batch part, equal to what
// the same request returns on its own" that are visible in code shape:
//
//	(a) in the loop that dispatches the parsed sub-requests, every path through
//	    one iteration passes the dispatch to the service's own request handler,
//	    the creation of a response part and the write of the recorded response
//	    into it (no `continue` that skips a part; a transport failure may leave
//	    the function, which ends the whole response);
//	(b) each dispatch gets a response recorder created in that very iteration
//	    (a recorder hoisted out of the loop accumulates the earlier sub-responses
//	    in every later part);
//	(c) lists that the dispatch loop indexes with one counter (requests, content
//	    ids) grow together: every place that appends to one appends to the other
//	    (otherwise the ids drift against the requests after the first part that
//	    took the other path);
//	(d) the multipart body is closed on every path that leaves the dispatch loop
//	    normally (the closing boundary is part of a well-formed response).
//
// ---------------------------------------------------------------------------

// liftInto walks from instr up through certain-to-run call chains (static calls whose
// callee runs instr on every path to a normal return) and returns, for every function on
// the way, the instruction through which that function executes instr.  The map always
// contains instr's own function.
func liftInto(P *core.Program, instr ssa.Instruction, within map[*ssa.Function]bool, must bool) map[*ssa.Function][]ssa.Instruction {
	out := map[*ssa.Function][]ssa.Instruction{}
	var rec func(x ssa.Instruction, depth int)
	visiting := map[*ssa.Function]bool{}
	rec = func(x ssa.Instruction, depth int) {
		fn := x.Parent()
		out[fn] = append(out[fn], x)
		if depth > 6 || visiting[fn] {
			return
		}
		if must && !certainToRun(x) {
			return
		}
		visiting[fn] = true
		defer delete(visiting, fn)
		for _, r := range P.Refs(fn) {
			if within != nil && !within[r.Instr.Parent()] {
				continue
			}
			if r.Kind != core.RefCall {
				continue
			}
			rec(r.Instr, depth+1)
		}
	}
	rec(instr, 0)
	return out
}

// certainToRun: x lies on every path from its function's entry to a normal return that does not
// report a failure (a helper that bails out with an error before reaching x has not "skipped" x for
// a caller that goes on only when the helper succeeded).
func certainToRun(x ssa.Instruction) bool {
	fn := x.Parent()
	for _, b := range fn.Blocks {
		if len(b.Instrs) == 0 {
			continue
		}
		if r, ok := b.Instrs[len(b.Instrs)-1].(*ssa.Return); ok {
			if isErr, _ := isErrorReturn(r); isErr {
				continue
			}
			if b != x.Block() && !x.Block().Dominates(b) {
				return false
			}
		}
	}
	return true
}

// loopHeaderOf: the block of the loop that dominates all its blocks.
func loopHeaderOf(loop map[*ssa.BasicBlock]bool) *ssa.BasicBlock {
	for h := range loop {
		all := true
		for b := range loop {
			if b != h && !h.Dominates(b) {
				all = false
				break
			}
		}
		if all {
			return h
		}
	}
	return nil
}

// iterationCanSkip: can control go from the loop header once around the loop back to the
// header without entering one of the blocks in `through`?
func iterationCanSkip(loop map[*ssa.BasicBlock]bool, h *ssa.BasicBlock, through map[*ssa.BasicBlock]bool) bool {
	if through[h] {
		return false
	}
	seen := map[*ssa.BasicBlock]bool{}
	var stack []*ssa.BasicBlock
	for _, s := range h.Succs {
		if loop[s] {
			stack = append(stack, s)
		}
	}
	for len(stack) > 0 {
		b := stack[len(stack)-1]
		stack = stack[:len(stack)-1]
		if b == h {
			return true
		}
		if seen[b] || through[b] || !loop[b] {
			continue
		}
		seen[b] = true
		stack = append(stack, b.Succs...)
	}
	return false
}

func R60() Rule {
	return Rule{Name: "R60", Run: func(c *core.Ctx) {
		P := c.P
		if P.SPkgs[core.PkgGcsemu] == nil {
			return
		}
		root := P.MustFunc(core.PkgGcsemu, "(*GcsEmu).BatchHandler")
		handler := P.MustFunc(core.PkgGcsemu, "(*GcsEmu).Handler")
		c.Fn("(*GcsEmu).BatchHandler")
		scope := P.Scope(root, func(f *ssa.Function) bool { return core.PkgPathOf(f) != core.PkgGcsemu || f == handler })
		within := setOf(scope)

		// the dispatch: a call of the stand-alone entry point (directly, as a bound method value or
		// through a function value that can only be it)
		var dispatch []*core.CallInfo
		for _, ci := range core.CallsIn(scope, func(ci *core.CallInfo) bool { return true }) {
			if ci.Static == handler {
				dispatch = append(dispatch, ci)
				continue
			}
			if ci.Static == nil && !ci.Common.IsInvoke() {
				if mc, ok := core.Resolve(ci.Common.Value).(*ssa.MakeClosure); ok {
					if bf, ok := mc.Fn.(*ssa.Function); ok && bf.Object() == handler.Object() {
						dispatch = append(dispatch, ci)
					}
				}
			}
		}
		if len(dispatch) == 0 {
			c.Bad("R60", "batch/dispatch-through-Handler", root.Pos(), "the batch handler no longer hands its sub-requests to (*GcsEmu).Handler, the entry point a stand-alone request goes through: a sub-response is not what the same request returns on its own")
			return
		}
		c.Ok("R60", "batch/dispatch-through-Handler", dispatch[0].Instr.Pos(), false, "sub-requests are dispatched to (*GcsEmu).Handler (%d site(s))", len(dispatch))

		isCreatePart := func(ci *core.CallInfo) bool { return ci.MethodOn("mime/multipart", "Writer", "CreatePart") }
		isRespWrite := func(ci *core.CallInfo) bool { return ci.MethodOn("net/http", "Response", "Write") }
		isClose := func(ci *core.CallInfo) bool { return ci.MethodOn("mime/multipart", "Writer", "Close") }

		for di, d := range dispatch {
			// the loop: innermost loop around the dispatch, in its own function or in a caller
			lifted := liftInto(P, d.Instr, within, false)
			var loopFn *ssa.Function
			var loop map[*ssa.BasicBlock]bool
			var dSites []ssa.Instruction
			for _, f := range scope {
				for _, x := range lifted[f] {
					if l := loopOf(x.Block()); l != nil && (loop == nil || len(l) < len(loop) || f == d.Instr.Parent()) {
						loopFn, loop = f, l
					}
				}
				if loop != nil && loopFn == d.Instr.Parent() {
					break
				}
			}
			key := fmt.Sprintf("batch/dispatch#%d", di+1)
			if loop == nil {
				c.Unknown("R60", key+"/loop", d.Instr.Pos(), "the dispatch of the sub-requests is not inside a loop that can be identified")
				continue
			}
			h := loopHeaderOf(loop)
			if h == nil {
				c.Unknown("R60", key+"/loop", d.Instr.Pos(), "irreducible loop around the dispatch")
				continue
			}
			dSites = lifted[loopFn]

			blocksOf := func(match func(*core.CallInfo) bool, must bool) (map[*ssa.BasicBlock]bool, token.Pos, int) {
				bl := map[*ssa.BasicBlock]bool{}
				var pos token.Pos
				n := 0
				for _, ci := range core.CallsIn(scope, match) {
					for _, x := range liftInto(P, ci.Instr, within, must)[loopFn] {
						if loop[x.Block()] {
							bl[x.Block()] = true
							pos = ci.Instr.Pos()
							n++
						}
					}
				}
				return bl, pos, n
			}
			// (a) every iteration dispatches, creates a part and writes the response into it
			dBlocks := map[*ssa.BasicBlock]bool{}
			for _, x := range dSites {
				if loop[x.Block()] && (x.Parent() == d.Instr.Parent() || certainChain(P, d.Instr, x, within)) {
					dBlocks[x.Block()] = true
				}
			}
			steps := []struct {
				name   string
				blocks map[*ssa.BasicBlock]bool
				pos    token.Pos
				n      int
				what   string
			}{
				{"dispatch", dBlocks, d.Instr.Pos(), len(dBlocks), "the dispatch to the request handler"},
			}
			cb, cp, cn := blocksOf(isCreatePart, true)
			steps = append(steps, struct {
				name   string
				blocks map[*ssa.BasicBlock]bool
				pos    token.Pos
				n      int
				what   string
			}{"create-part", cb, cp, cn, "the creation of the response part (multipart.Writer.CreatePart)"})
			wb, wp, wn := blocksOf(isRespWrite, true)
			steps = append(steps, struct {
				name   string
				blocks map[*ssa.BasicBlock]bool
				pos    token.Pos
				n      int
				what   string
			}{"write-response", wb, wp, wn, "the write of the recorded response into the part (http.Response.Write)"})
			for _, s := range steps {
				construct := key + "/every-iteration/" + s.name
				if s.n == 0 {
					c.Bad("R60", construct, h.Instrs[0].Pos(), "no path through an iteration of the dispatch loop is certain to perform %s: parts are answered with fewer sub-responses than requests", s.what)
					continue
				}
				if iterationCanSkip(loop, h, s.blocks) {
					c.Bad("R60", construct, s.pos, "an iteration of the dispatch loop can reach the next one without %s: that part of the batch gets no sub-response (or an empty one) while the others are answered", s.what)
				} else {
					c.Ok("R60", construct, s.pos, true, "every path through one iteration of the dispatch loop passes %s", s.what)
				}
			}

			// (b) a recorder of its own per dispatch
			if len(d.Common.Args) > 0 || d.Common.IsInvoke() {
				args := d.Args()
				var w ssa.Value
				for _, a := range args {
					if core.TypeIs(a.Type(), "net/http", "ResponseWriter") {
						w = a
						break
					}
				}
				construct := key + "/fresh-recorder"
				if w == nil {
					c.Unknown("R60", construct, d.Instr.Pos(), "no ResponseWriter argument at the dispatch")
				} else {
					origins := P.Origins(w, within)
					okAll, decided := true, len(origins) > 0
					var badPos token.Pos
					for _, o := range origins {
						v := core.Resolve(o)
						if mi, ok := v.(*ssa.MakeInterface); ok {
							v = core.Resolve(mi.X)
						}
						in, isInstr := v.(ssa.Instruction)
						if !isInstr {
							decided = false
							continue
						}
						switch v.(type) {
						case *ssa.Call, *ssa.Alloc:
						default:
							decided = false
							continue
						}
						inLoop := false
						for _, x := range liftInto(P, in, within, false)[loopFn] {
							if loop[x.Block()] {
								inLoop = true
							}
						}
						if !inLoop {
							okAll = false
							badPos = in.Pos()
						}
					}
					switch {
					case !decided:
						c.Unknown("R60", construct, d.Instr.Pos(), "cannot tell where the ResponseWriter handed to the sub-request comes from")
					case okAll:
						c.Ok("R60", construct, d.Instr.Pos(), true, "the recorder handed to the sub-request is created inside the iteration that dispatches it")
					default:
						c.Bad("R60", construct, badPos, "the response recorder handed to every sub-request is created once, outside the dispatch loop: each later part repeats the bodies (and keeps the status and headers) of the earlier sub-responses")
					}
				}
			}

			// (c) lists indexed by one counter in the dispatch loop grow together
			if loopFn == d.Instr.Parent() || true {
				// a list is a local variable: a captured cell, or an SSA register that grows through appends
				type list struct {
					name    string
					pos     token.Pos
					appends map[*ssa.BasicBlock]token.Pos
				}
				listOf := func(x ssa.Value) *list {
					x = core.Strip(x)
					if ld, ok := x.(*ssa.UnOp); ok && ld.Op == token.MUL {
						cell := core.CellOf(ld.X)
						if cell == nil {
							return nil
						}
						l := &list{name: cellName(cell), pos: cell.Pos(), appends: map[*ssa.BasicBlock]token.Pos{}}
						for _, st := range core.StoresTo(cell) {
							if call, ok := core.Strip(st.Val).(*ssa.Call); ok {
								if b, ok := call.Call.Value.(*ssa.Builtin); ok && b.Name() == "append" {
									l.appends[st.Block()] = st.Pos()
								}
							}
						}
						return l
					}
					l := &list{appends: map[*ssa.BasicBlock]token.Pos{}}
					visited := map[ssa.Value]bool{}
					var walk func(v ssa.Value, d int)
					walk = func(v ssa.Value, d int) {
						if d > 8 || visited[v] {
							return
						}
						visited[v] = true
						switch y := v.(type) {
						case *ssa.Phi:
							if l.name == "" {
								l.name, l.pos = y.Comment, y.Pos()
							}
							for _, e := range y.Edges {
								walk(e, d+1)
							}
						case *ssa.Call:
							if b, ok := y.Call.Value.(*ssa.Builtin); ok && b.Name() == "append" {
								l.appends[y.Block()] = y.Pos()
								walk(y.Call.Args[0], d+1)
							}
						}
					}
					walk(x, 0)
					if l.name == "" {
						return nil
					}
					return l
				}
				byIndex := map[ssa.Value][]*list{}
				for b := range loop {
					for _, in := range b.Instrs {
						ia, ok := in.(*ssa.IndexAddr)
						if !ok {
							continue
						}
						l := listOf(ia.X)
						if l == nil {
							continue
						}
						dup := false
						for _, o := range byIndex[ia.Index] {
							if o.name == l.name {
								dup = true
							}
						}
						if !dup {
							byIndex[ia.Index] = append(byIndex[ia.Index], l)
						}
					}
				}
				appendBlocks := func(l *list) map[*ssa.BasicBlock]token.Pos { return l.appends }
				for _, cells := range byIndex {
					for i := 0; i < len(cells); i++ {
						for j := i + 1; j < len(cells); j++ {
							a, b := appendBlocks(cells[i]), appendBlocks(cells[j])
							if len(a) == 0 || len(b) == 0 {
								continue
							}
							na, nb := cells[i].name, cells[j].name
							if na > nb {
								na, nb = nb, na
							}
							construct := fmt.Sprintf("%s/lockstep/%s+%s", key, na, nb)
							var bad token.Pos
							for blk, pos := range a {
								if _, ok := b[blk]; !ok {
									bad = pos
								}
							}
							for blk, pos := range b {
								if _, ok := a[blk]; !ok {
									bad = pos
								}
							}
							if bad != token.NoPos {
								c.Bad("R60", construct, bad, "the dispatch loop indexes %s and %s with the same counter, but this append extends only one of them: after the first part that takes this path every sub-response carries another part's entry", na, nb)
							} else {
								c.Ok("R60", construct, cells[i].pos, true, "%s and %s are indexed by one counter in the dispatch loop and every append extends both", na, nb)
							}
						}
					}
				}
			}

			// (d) the multipart writer is closed after the loop on the normal path
			closeBlocks := map[*ssa.BasicBlock]bool{}
			var closePos token.Pos
			for _, ci := range core.CallsIn(scope, isClose) {
				for _, x := range liftInto(P, ci.Instr, within, true)[loopFn] {
					closeBlocks[x.Block()] = true
					closePos = ci.Instr.Pos()
				}
				if ci.Instr.Parent() == loopFn || len(liftInto(P, ci.Instr, within, true)[loopFn]) > 0 {
					if _, isDefer := ci.Instr.(*ssa.Defer); isDefer {
						closeBlocks = nil // deferred: runs on every exit
						closePos = ci.Instr.Pos()
						break
					}
				}
			}
			construct := key + "/closing-boundary"
			switch {
			case closeBlocks == nil:
				c.Ok("R60", construct, closePos, false, "the multipart writer is closed by a deferred call")
			case len(closeBlocks) == 0:
				c.Bad("R60", construct, h.Instrs[0].Pos(), "the multipart response is never closed in the function that runs the dispatch loop: the closing boundary is missing and clients reject the batch response as truncated")
			default:
				// from the loop's normal exit (the header's out-of-loop successor) every path to a return passes a close
				bad := false
				for _, s := range h.Succs {
					if loop[s] {
						continue
					}
					if reachesReturnAvoiding(s, closeBlocks) {
						bad = true
					}
				}
				if bad {
					c.Bad("R60", construct, closePos, "after the last sub-response a path returns without closing the multipart writer: the closing boundary is missing and clients reject the batch response as truncated")
				} else {
					c.Ok("R60", construct, closePos, true, "every path from the end of the dispatch loop to a return closes the multipart writer")
				}
			}
		}
	}}
}

// certainChain: x (in an outer function) is the site through which inner is executed and every
// helper on the way runs its step on each of its paths.
func certainChain(P *core.Program, inner, x ssa.Instruction, within map[*ssa.Function]bool) bool {
	for _, y := range liftInto(P, inner, within, true)[x.Parent()] {
		if y == x {
			return true
		}
	}
	return false
}

func cellName(a *ssa.Alloc) string {
	if a.Comment != "" {
		return a.Comment
	}
	return a.Name()
}

// reachesReturnAvoiding: can control reach a normal return from b without entering a block of `avoid`?
func reachesReturnAvoiding(b *ssa.BasicBlock, avoid map[*ssa.BasicBlock]bool) bool {
	seen := map[*ssa.BasicBlock]bool{}
	stack := []*ssa.BasicBlock{b}
	for len(stack) > 0 {
		x := stack[len(stack)-1]
		stack = stack[:len(stack)-1]
		if seen[x] || avoid[x] {
			continue
		}
		seen[x] = true
		if len(x.Instrs) > 0 {
			if _, ok := x.Instrs[len(x.Instrs)-1].(*ssa.Return); ok {
				return true
			}
		}
		stack = append(stack, x.Succs...)
	}
	return false
}

// ---------------------------------------------------------------------------
// R65: every source of a compose has its own precondition evaluated.
//
// C04: "compose (destination conditions and per-source generation match) … is
// performed if and only if every supplied precondition holds".  In the loop over
// the request's sources, an iteration that reaches the next one (or the end of
// the loop) without having passed `validateConds(·, <this element's conditions>)`
// lets that source's ifGenerationMatch go unevaluated — e.g. a fetch cache keyed
// by name that validates only on a miss: `[x@current, x@stale]` composes.
// A path that bypasses the validation under a test of the element's own
// conditions (nothing to check) is not a skip.
// ---------------------------------------------------------------------------

func R65() Rule {
	return Rule{Name: "R65", Run: func(c *core.Ctx) {
		P := c.P
		if P.SPkgs[core.PkgGcsemu] == nil {
			return
		}
		root := funcOr(P, core.PkgGcsemu, "(*GcsEmu).finishCompose", "(*GcsEmu).handleGcsCompose")
		if root == nil {
			root = P.MustFunc(core.PkgGcsemu, "(*GcsEmu).finishCompose")
		}
		c.Fn(core.FuncName(root))
		scope := P.Scope(root, func(f *ssa.Function) bool { return core.PkgPathOf(f) != core.PkgGcsemu })
		within := setOf(scope)
		vc := P.MustFunc(core.PkgGcsemu, "validateConds")
		n := 0
		for _, lf := range scope {
			for _, lp := range rangeLoops(lf) {
				if !elemIs(lp.elem, "composeObj") {
					continue
				}
				loop := loopOf(lp.header)
				if loop == nil {
					continue
				}
				// validations of the element's own conditions inside this loop (possibly through helpers
				// that are certain to validate)
				through := map[*ssa.BasicBlock]bool{}
				var pos token.Pos
				for _, ci := range core.CallsIn(scope, func(ci *core.CallInfo) bool { return ci.Static == vc }) {
					for _, x := range liftInto(P, ci.Instr, within, true)[lf] {
						if loop[x.Block()] {
							through[x.Block()] = true
							pos = ci.Instr.Pos()
						}
					}
				}
				if len(through) == 0 {
					continue // a loop over the sources that validates nothing (collecting sizes, names): not the validating loop
				}
				n++
				construct := fmt.Sprintf("%s/sources-loop#%d/every-source-validated", core.FuncName(core.Root(lf)), n)
				// a bypass decided by the element's own conditions is no skip
				for b := range loop {
					if ifi, ok := lastIf(b); ok && dependsOnElemConds(ifi.Cond, map[ssa.Value]bool{}, 0) {
						through[b] = true
					}
				}
				if iterationCanSkip(loop, lp.header, through) {
					c.Bad("R65", construct, pos, "an iteration of the loop over the compose sources can reach the next source without evaluating this source's own precondition: validateConds is only called on some paths (a cache hit, a repeated name), so a source listed again with a failing ifGenerationMatch is composed anyway")
				} else {
					c.Ok("R65", construct, pos, true, "every path through one iteration of the sources loop passes validateConds")
				}
			}
		}
		if n == 0 {
			c.Bad("R65", core.FuncName(root)+"/sources-loop/every-source-validated", root.Pos(), "no loop over the compose sources evaluates the per-source preconditions")
		}
	}}
}

// dependsOnElemConds: the value is computed from a `conds` field of a composeObj.
func dependsOnElemConds(v ssa.Value, seen map[ssa.Value]bool, depth int) bool {
	if v == nil || depth > 8 || seen[v] {
		return false
	}
	seen[v] = true
	switch x := v.(type) {
	case *ssa.FieldAddr:
		if _, fname, ok := core.FieldName(x); ok && fname == "conds" {
			if nm := core.NamedOf(x.X.Type()); nm != nil && core.TName(nm) == "composeObj" {
				return true
			}
		}
		return dependsOnElemConds(x.X, seen, depth+1)
	case *ssa.Field:
		if nm := core.NamedOf(x.X.Type()); nm != nil && core.TName(nm) == "composeObj" {
			if st, ok := nm.Underlying().(*types.Struct); ok && x.Field < st.NumFields() && st.Field(x.Field).Name() == "conds" {
				return true
			}
		}
		return dependsOnElemConds(x.X, seen, depth+1)
	case *ssa.UnOp:
		return dependsOnElemConds(x.X, seen, depth+1)
	case *ssa.BinOp:
		return dependsOnElemConds(x.X, seen, depth+1) || dependsOnElemConds(x.Y, seen, depth+1)
	case *ssa.Call:
		for _, a := range x.Call.Args {
			if dependsOnElemConds(a, seen, depth+1) {
				return true
			}
		}
	case *ssa.Phi:
		for _, e := range x.Edges {
			if dependsOnElemConds(e, seen, depth+1) {
				return true
			}
		}
	}
	return false
}
