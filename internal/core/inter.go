package core

import (
	"go/constant"
	"go/token"
	"go/types"
	"sort"
	"strings"

	"golang.org/x/tools/go/ssa"
	"golang.org/x/tools/go/ssa/ssautil"
)

// Interprocedural helpers.  The rules are written against *scopes* (a root
// function together with its closures and the in-repository functions it
// reaches through static calls and function values) and against *calling
// contexts* (a fact may be established in the function that contains a site, or
// in every caller of that function), so that extracting a helper, inlining one,
// or turning a closure into a method does not change a verdict.

// RefKind says how an instruction refers to a function.
type RefKind int

const (
	RefCall    RefKind = iota // static call / go / defer of the function
	RefClosure                // MakeClosure over the function (anonymous function or bound-method wrapper)
	RefValue                  // the function is used as a value (passed, stored)
)

// Ref is one reference to a function from an instruction of another (or the same) function.
type Ref struct {
	Instr ssa.Instruction
	Kind  RefKind
}

type interIndex struct {
	refs  map[*ssa.Function][]Ref
	funcs []*ssa.Function // every function with a body that belongs to the repository (incl. synthetic wrappers of repo methods)
	isRep map[*ssa.Function]bool
}

var interCache = map[*Program]*interIndex{}

func (p *Program) inRepo(f *ssa.Function) bool {
	if f == nil {
		return false
	}
	if f.Pkg != nil {
		return p.SPkgs[f.Pkg.Pkg.Path()] == f.Pkg
	}
	// synthetic wrappers (bound method closures, thunks) have no package: use the object's
	if o := f.Object(); o != nil && o.Pkg() != nil {
		_, ok := p.SPkgs[o.Pkg().Path()]
		return ok
	}
	if par := f.Parent(); par != nil {
		return p.inRepo(par)
	}
	return false
}

func (p *Program) inter() *interIndex {
	if ix := interCache[p]; ix != nil {
		return ix
	}
	ix := &interIndex{refs: map[*ssa.Function][]Ref{}, isRep: map[*ssa.Function]bool{}}
	for f := range ssautil.AllFunctions(p.SSA) {
		if f.Blocks != nil && p.inRepo(f) {
			ix.funcs = append(ix.funcs, f)
			ix.isRep[f] = true
		}
	}
	sort.Slice(ix.funcs, func(i, j int) bool {
		if ix.funcs[i].Pos() != ix.funcs[j].Pos() {
			return ix.funcs[i].Pos() < ix.funcs[j].Pos()
		}
		return ix.funcs[i].String() < ix.funcs[j].String()
	})
	for _, f := range ix.funcs {
		if strings.HasPrefix(f.Synthetic, "wrapper for") {
			// promoted-method wrappers (struct embedding) exist for method sets only; in-package
			// calls go to the method directly, so a wrapper is not a calling context of its own
			continue
		}
		for _, b := range f.Blocks {
			for _, in := range b.Instrs {
				if ci, ok := in.(ssa.CallInstruction); ok {
					if sc := ci.Common().StaticCallee(); sc != nil && ix.isRep[sc] {
						if _, viaClosure := ci.Common().Value.(*ssa.MakeClosure); !viaClosure {
							ix.refs[sc] = append(ix.refs[sc], Ref{in, RefCall})
						}
					}
					for _, a := range ci.Common().Args {
						if fv, ok := a.(*ssa.Function); ok && ix.isRep[fv] {
							ix.refs[fv] = append(ix.refs[fv], Ref{in, RefValue})
						}
					}
					continue
				}
				if mc, ok := in.(*ssa.MakeClosure); ok {
					if fv, ok := mc.Fn.(*ssa.Function); ok && ix.isRep[fv] {
						ix.refs[fv] = append(ix.refs[fv], Ref{in, RefClosure})
					}
					continue
				}
				for _, op := range in.Operands(nil) {
					if fv, ok := (*op).(*ssa.Function); ok && ix.isRep[fv] {
						ix.refs[fv] = append(ix.refs[fv], Ref{in, RefValue})
					}
				}
			}
		}
	}
	interCache[p] = ix
	return ix
}

// Refs lists every instruction in the repository that calls f, closes over it or uses it as a value.
func (p *Program) Refs(f *ssa.Function) []Ref { return p.inter().refs[f] }

// RepoFuncs lists every function with a body that belongs to the repository.
func (p *Program) RepoFuncs() []*ssa.Function { return p.inter().funcs }

// Scope returns root together with every repository function it can reach
// through static calls, closures and function values (transitively).  stop, when
// non-nil, prunes the walk: a function for which it returns true is neither
// included nor entered.
func (p *Program) Scope(root *ssa.Function, stop func(*ssa.Function) bool) []*ssa.Function {
	ix := p.inter()
	seen := map[*ssa.Function]bool{}
	var out []*ssa.Function
	var walk func(f *ssa.Function)
	walk = func(f *ssa.Function) {
		if f == nil || seen[f] || !ix.isRep[f] {
			return
		}
		if f != root && stop != nil && stop(f) {
			return
		}
		seen[f] = true
		out = append(out, f)
		for _, a := range f.AnonFuncs {
			walk(a)
		}
		for _, b := range f.Blocks {
			for _, in := range b.Instrs {
				if ci, ok := in.(ssa.CallInstruction); ok {
					walk(ci.Common().StaticCallee())
				}
				for _, op := range in.Operands(nil) {
					if fv, ok := (*op).(*ssa.Function); ok {
						walk(fv)
					}
					// a package-level dispatch table read here: the functions it holds may run
					if gv, ok := (*op).(*ssa.Global); ok && gv.Pkg != nil && p.SPkgs[gv.Pkg.Pkg.Path()] == gv.Pkg {
						for _, tf := range p.GlobalFuncs(gv) {
							walk(tf)
						}
					}
				}
			}
		}
	}
	walk(root)
	return out
}

// ScopeSet is Scope as a set.
func (p *Program) ScopeSet(root *ssa.Function, stop func(*ssa.Function) bool) map[*ssa.Function]bool {
	m := map[*ssa.Function]bool{}
	for _, f := range p.Scope(root, stop) {
		m[f] = true
	}
	return m
}

// CallsIn lists the calls in the given functions that match.
func CallsIn(fns []*ssa.Function, match func(*CallInfo) bool) []*CallInfo {
	var out []*CallInfo
	for _, f := range fns {
		for _, ci := range AllCalls(f) {
			if match(ci) {
				out = append(out, ci)
			}
		}
	}
	return out
}

// freeVarIndex returns the index of fv among its function's free variables.
func freeVarIndex(fv *ssa.FreeVar) int {
	for i, f := range fv.Parent().FreeVars {
		if f == fv {
			return i
		}
	}
	return -1
}

func paramIndex(pa *ssa.Parameter) int {
	for i, q := range pa.Parent().Params {
		if q == pa {
			return i
		}
	}
	return -1
}

// Translate maps a value of the callee (the function referenced at ref) to the
// value it denotes at the reference site: a parameter becomes the call argument,
// a by-value free variable becomes the closure binding.  Values that are not
// tied to the callee's frame (constants, globals, cells of an enclosing
// function) are returned unchanged; anything else yields nil.
func Translate(v ssa.Value, callee *ssa.Function, ref Ref) ssa.Value {
	if v == nil {
		return nil
	}
	v = Resolve(v)
	switch x := v.(type) {
	case *ssa.Const, *ssa.Global, *ssa.Function:
		return v
	case *ssa.Parameter:
		if x.Parent() != callee {
			return v
		}
		if ref.Kind != RefCall {
			return nil
		}
		ci := ref.Instr.(ssa.CallInstruction)
		i := paramIndex(x)
		if i < 0 || i >= len(ci.Common().Args) {
			return nil
		}
		return ci.Common().Args[i]
	case *ssa.FreeVar:
		if x.Parent() != callee {
			return v
		}
		if mc, ok := ref.Instr.(*ssa.MakeClosure); ok {
			if i := freeVarIndex(x); i >= 0 && i < len(mc.Bindings) {
				return mc.Bindings[i]
			}
		}
		return nil
	}
	if in, ok := v.(ssa.Instruction); ok && in.Parent() == callee {
		return nil // computed inside the callee: not expressible at the caller
	}
	return v
}

// Origins follows a value backwards through parameter passing: a parameter of a
// function all of whose references are static calls is replaced by the
// arguments at those calls (transitively, within `within` when non-nil).  The
// result lists the possible defining values; a value that cannot be followed
// further is returned as is.
func (p *Program) Origins(v ssa.Value, within map[*ssa.Function]bool) []ssa.Value {
	var out []ssa.Value
	seen := map[ssa.Value]bool{}
	var walk func(v ssa.Value, depth int)
	walk = func(v ssa.Value, depth int) {
		v = Resolve(v)
		if seen[v] {
			return
		}
		seen[v] = true
		if depth > 8 {
			out = append(out, v)
			return
		}
		switch x := v.(type) {
		case *ssa.Parameter:
			fn := x.Parent()
			refs := p.Refs(fn)
			var use []Ref
			for _, r := range refs {
				if within != nil && !within[r.Instr.Parent()] {
					continue
				}
				use = append(use, r)
			}
			if len(use) == 0 {
				out = append(out, v)
				return
			}
			for _, r := range use {
				t := Translate(x, fn, r)
				if t == nil {
					out = append(out, v)
					continue
				}
				walk(t, depth+1)
			}
			return
		case *ssa.FreeVar:
			fn := x.Parent()
			for _, r := range p.Refs(fn) {
				if t := Translate(x, fn, r); t != nil {
					walk(t, depth+1)
					return
				}
			}
		case *ssa.Phi:
			for _, e := range x.Edges {
				walk(e, depth+1)
			}
			return
		}
		out = append(out, v)
	}
	walk(v, 0)
	return out
}

// AllOrigins reports whether pred holds for every origin of v.
func (p *Program) AllOrigins(v ssa.Value, within map[*ssa.Function]bool, pred func(ssa.Value) bool) bool {
	os := p.Origins(v, within)
	if len(os) == 0 {
		return false
	}
	for _, o := range os {
		if !pred(o) {
			return false
		}
	}
	return true
}

// InAllContexts reports whether check holds at site, or — failing that — at
// every reference to the function containing site (recursively), with vals
// translated into each caller's frame (untranslatable values become nil).
// Only references from functions in `within` count as contexts when within is
// non-nil; a function without such references is a root, where the search
// fails.  Sound for facts about SSA values (they never change once computed):
// a branch fact that holds where a closure is created or a helper is called
// still holds inside it.
func (p *Program) InAllContexts(site ssa.Instruction, vals []ssa.Value, within map[*ssa.Function]bool, check func(at ssa.Instruction, vals []ssa.Value) bool) bool {
	visiting := map[*ssa.Function]bool{}
	var rec func(site ssa.Instruction, vals []ssa.Value, depth int) bool
	rec = func(site ssa.Instruction, vals []ssa.Value, depth int) bool {
		if check(site, vals) {
			return true
		}
		fn := site.Parent()
		if depth > 8 {
			return false
		}
		// validators: the site is only reached when an in-repository function returned a nil
		// error (or a boolean helper returned a known constant); what holds at every such
		// return of that function holds here
		for _, pv := range p.PassedValidators(site.Block()) {
			vc := pv.Call
			g := vc.Call.StaticCallee()
			if visiting[g] || (within != nil && !within[g]) {
				continue
			}
			rets := pv.SuccessReturns()
			if len(rets) == 0 {
				continue
			}
			tv := make([]ssa.Value, len(vals))
			for i, v := range vals {
				tv[i] = intoCallee(v, g, vc)
			}
			visiting[g] = true
			all := true
			for _, r := range rets {
				// a value that is a result of the validating call itself (`req, err := parse(…)`) is,
				// inside the callee, what that return statement yields
				rv := tv
				if ret, isRet := r.(*ssa.Return); isRet {
					for i, v := range vals {
						if tv[i] != nil || v == nil {
							continue
						}
						rsv := Resolve(v)
						if ex, isEx := rsv.(*ssa.Extract); isEx && ex.Tuple == ssa.Value(vc) && ex.Index < len(ret.Results) {
							if &rv[0] == &tv[0] {
								rv = append([]ssa.Value(nil), tv...)
							}
							rv[i] = ret.Results[ex.Index]
						} else if rsv == ssa.Value(vc) && len(ret.Results) == 1 {
							if &rv[0] == &tv[0] {
								rv = append([]ssa.Value(nil), tv...)
							}
							rv[i] = ret.Results[0]
						}
					}
				}
				if !rec(r, rv, depth+1) {
					all = false
					break
				}
			}
			delete(visiting, g)
			if all {
				return true
			}
		}
		var use []Ref
		for _, r := range p.Refs(fn) {
			if within != nil && !within[r.Instr.Parent()] {
				continue
			}
			use = append(use, r)
		}
		if len(use) == 0 || visiting[fn] {
			// (inside a validator whose returns are being judged there is no going up to its callers)
			return false
		}
		visiting[fn] = true
		defer delete(visiting, fn)
		for _, r := range use {
			tv := make([]ssa.Value, len(vals))
			for i, v := range vals {
				tv[i] = Translate(v, fn, r)
			}
			if !rec(r.Instr, tv, depth+1) {
				return false
			}
		}
		return true
	}
	return rec(site, vals, 0)
}

// passedValidators lists the static calls of repository functions whose error result is
// known to be nil on entry to b (`if err := validate(x); err != nil { return … }`).
// PassedCall: on entry to a block, result `Idx` of the static call `Call` of a repository
// function is known to equal the constant `Want` (`err == nil`, `problem == ""`, `ok` true, …).
type PassedCall struct {
	Call *ssa.Call
	Idx  int
	Want *ssa.Const
	// Not: when Want is nil, the result is known to differ from each of these constants (the
	// default arm of a switch over an enum-valued classifier): the returns that remain possible
	// are those yielding any other constant
	Not []*ssa.Const
}

// PassedValidators lists the calls of repository functions one of whose results is known,
// by the branch facts holding on entry to b, to equal a constant.
func (p *Program) PassedValidators(b *ssa.BasicBlock) []PassedCall {
	return p.PassedValidatorsIn(FactsAt(b))
}

// PassedValidatorsIn is PassedValidators over an explicit list of facts (e.g. the facts at a
// closure's creation site added to those of the block).
func (p *Program) PassedValidatorsIn(facts []CondFact) []PassedCall {
	var out []PassedCall
	positive := map[*ssa.Call]bool{}
	excluded := map[exclKey][]*ssa.Const{}
	var exclOrder []exclKey
	resultOf := func(v ssa.Value) (*ssa.Call, int, bool) {
		v = Resolve(v)
		if ex, isEx := v.(*ssa.Extract); isEx {
			if c, isC := ex.Tuple.(*ssa.Call); isC {
				v = c
				if g := c.Call.StaticCallee(); g != nil && g.Blocks != nil && p.inRepo(g) {
					return c, ex.Index, true
				}
			}
			return nil, 0, false
		}
		if c, isC := v.(*ssa.Call); isC {
			if g := c.Call.StaticCallee(); g != nil && g.Blocks != nil && p.inRepo(g) && g.Signature.Results().Len() == 1 {
				return c, 0, true
			}
		}
		return nil, 0, false
	}
	for _, f := range facts {
		// boolean results used as the condition itself: `if !f.writeTemp(p) { return }`, `v, ok := parse(x); if !ok {…}`
		if c, idx, ok := resultOf(f.Cond); ok {
			if bt, isB := f.Cond.Type().Underlying().(*types.Basic); isB && bt.Kind() == types.Bool {
				out = append(out, PassedCall{Call: c, Idx: idx, Want: ssa.NewConst(constant.MakeBool(f.Polarity), f.Cond.Type())})
			}
			continue
		}
		bin, ok := f.Cond.(*ssa.BinOp)
		if !ok || (bin.Op != token.NEQ && bin.Op != token.EQL) {
			continue
		}
		equal := (bin.Op == token.NEQ && !f.Polarity) || (bin.Op == token.EQL && f.Polarity)
		var ev ssa.Value
		var k *ssa.Const
		if c, isK := bin.Y.(*ssa.Const); isK {
			ev, k = bin.X, c
		} else if c, isK := bin.X.(*ssa.Const); isK {
			ev, k = bin.Y, c
		} else {
			continue
		}
		if c, idx, ok := resultOf(ev); ok {
			if equal {
				out = append(out, PassedCall{Call: c, Idx: idx, Want: k})
				positive[c] = true
			} else if k.Value != nil {
				key := exclKey{c, idx}
				if _, seen := excluded[key]; !seen {
					exclOrder = append(exclOrder, key)
				}
				excluded[key] = append(excluded[key], k)
			}
		}
	}
	for _, key := range exclOrder {
		if !positive[key.call] {
			out = append(out, PassedCall{Call: key.call, Idx: key.idx, Not: excluded[key]})
		}
	}
	return out
}

type exclKey struct {
	call *ssa.Call
	idx  int
}

// SuccessReturns lists the returns of the callee at which the result in question is the
// wanted constant; nil when some return yields a merged or loaded value there (then nothing
// can be concluded).
func (pc PassedCall) SuccessReturns() []ssa.Instruction {
	g := pc.Call.Call.StaticCallee()
	var out []ssa.Instruction
	for _, b := range g.Blocks {
		r, ok := b.Instrs[len(b.Instrs)-1].(*ssa.Return)
		if !ok || pc.Idx >= len(r.Results) {
			continue
		}
		e := Resolve(r.Results[pc.Idx])
		if k, isK := e.(*ssa.Const); isK {
			if pc.Want == nil {
				hit := false
				for _, nk := range pc.Not {
					if sameConst(k, nk) {
						hit = true
					}
				}
				if !hit {
					out = append(out, r)
				}
				continue
			}
			if sameConst(k, pc.Want) {
				out = append(out, r)
			}
			continue
		}
		if pc.Want == nil {
			return nil // an excluded-constants summary needs every return to be a constant
		}
		if _, isPhi := e.(*ssa.Phi); isPhi {
			return nil
		}
		if ld, isLd := e.(*ssa.UnOp); isLd && ld.Op == token.MUL {
			return nil
		}
	}
	return out
}

func sameConst(a, b *ssa.Const) bool {
	if a.Value == nil || b.Value == nil {
		return a.Value == nil && b.Value == nil
	}
	if a.Value.Kind() != b.Value.Kind() {
		return false
	}
	return constant.Compare(a.Value, token.EQL, b.Value)
}

// intoCallee maps a caller value to the callee's frame at call: an argument becomes the
// parameter; constants and globals stay; anything else is not expressible (nil).
func intoCallee(v ssa.Value, g *ssa.Function, call *ssa.Call) ssa.Value {
	if v == nil {
		return nil
	}
	for i, a := range call.Call.Args {
		if i < len(g.Params) && SameValue(a, v) {
			return g.Params[i]
		}
	}
	switch Resolve(v).(type) {
	case *ssa.Const, *ssa.Global, *ssa.Function:
		return v
	}
	return nil
}

// ExecSites lists the instructions of root's own body (or of the closures
// nested in it, when x lies in one) through which control reaches x: x itself
// when it belongs to root, otherwise — transitively — the call or closure
// creation in root that leads to the function containing x.  Only references
// from functions in `within` are followed.
func (p *Program) ExecSites(root *ssa.Function, x ssa.Instruction, within map[*ssa.Function]bool) []ssa.Instruction {
	var out []ssa.Instruction
	seen := map[ssa.Instruction]bool{}
	visiting := map[*ssa.Function]bool{}
	var rec func(x ssa.Instruction, depth int)
	rec = func(x ssa.Instruction, depth int) {
		fn := x.Parent()
		if fn == root {
			if !seen[x] {
				seen[x] = true
				out = append(out, x)
			}
			return
		}
		if depth > 8 || visiting[fn] {
			return
		}
		visiting[fn] = true
		defer delete(visiting, fn)
		for _, r := range p.Refs(fn) {
			if within != nil && !within[r.Instr.Parent()] {
				continue
			}
			rec(r.Instr, depth+1)
		}
	}
	rec(x, 0)
	return out
}

// mustReach: instr lies on every path from fn's entry to a normal return.
func mustReach(instr ssa.Instruction) bool {
	fn := instr.Parent()
	for _, b := range fn.Blocks {
		if len(b.Instrs) == 0 {
			continue
		}
		if _, ok := b.Instrs[len(b.Instrs)-1].(*ssa.Return); ok {
			if b != instr.Block() && !instr.Block().Dominates(b) {
				return false
			}
		}
	}
	return true
}

// InterDominates reports whether a is executed before b on every path of root
// that reaches b, where a and b may lie in root or in helpers / closures
// reachable from it.  When a lies in a helper, it must be on every path through
// that helper (and so on up the chain).
func (p *Program) InterDominates(root *ssa.Function, a, b ssa.Instruction, within map[*ssa.Function]bool) bool {
	if a.Parent() == b.Parent() {
		return InstrDominates(a, b)
	}
	sitesB := p.ExecSites(root, b, within)
	if len(sitesB) == 0 {
		return false
	}
	// sites of a that are certain to run a
	var sitesA []ssa.Instruction
	var up func(x ssa.Instruction, depth int)
	visiting := map[*ssa.Function]bool{}
	up = func(x ssa.Instruction, depth int) {
		fn := x.Parent()
		if fn == root {
			sitesA = append(sitesA, x)
			return
		}
		if depth > 8 || visiting[fn] || !mustReach(x) {
			return
		}
		visiting[fn] = true
		defer delete(visiting, fn)
		for _, r := range p.Refs(fn) {
			if within != nil && !within[r.Instr.Parent()] {
				continue
			}
			if r.Kind != RefCall {
				continue // a closure is not certain to run
			}
			up(r.Instr, depth+1)
		}
	}
	up(a, 0)
	for _, sb := range sitesB {
		ok := false
		for _, sa := range sitesA {
			if sa != sb && InstrDominates(sa, sb) {
				ok = true
			}
			if sa == sb {
				// both below the same call: decide inside the callee
				if ci, isCall := sa.(ssa.CallInstruction); isCall {
					if callee := ci.Common().StaticCallee(); callee != nil && callee != root && p.InterDominates(callee, a, b, within) {
						ok = true
					}
				}
			}
		}
		if !ok {
			return false
		}
	}
	return true
}

// MayFollow reports whether b can execute after a in some run of root, where a
// and b lie in root or in functions reachable from it (within).  Conservative:
// when both are reached through the same call the question is decided inside
// the callee; sites in different closures of root are assumed to follow each other.
func (p *Program) MayFollow(root *ssa.Function, a, b ssa.Instruction, within map[*ssa.Function]bool) bool {
	var rec func(root *ssa.Function, depth int) bool
	rec = func(root *ssa.Function, depth int) bool {
		if a.Parent() == b.Parent() {
			return InstrReaches(a, b)
		}
		sa, sb := p.ExecSites(root, a, within), p.ExecSites(root, b, within)
		for _, x := range sa {
			for _, y := range sb {
				if x == y {
					var callee *ssa.Function
					if ci, ok := x.(ssa.CallInstruction); ok {
						callee = ci.Common().StaticCallee()
					} else if mc, ok := x.(*ssa.MakeClosure); ok {
						callee, _ = mc.Fn.(*ssa.Function)
					}
					if callee != nil && callee != root && depth < 6 {
						if rec(callee, depth+1) {
							return true
						}
						continue
					}
					return true
				}
				if x.Parent() != y.Parent() || InstrReaches(x, y) {
					return true
				}
			}
		}
		return false
	}
	return rec(root, 0)
}

// PkgPathOf returns the package path a function belongs to, also for synthetic
// wrappers (bound methods, thunks) and anonymous functions.
func PkgPathOf(f *ssa.Function) string {
	for f != nil {
		if f.Pkg != nil {
			return f.Pkg.Pkg.Path()
		}
		if o := f.Object(); o != nil && o.Pkg() != nil {
			return o.Pkg().Path()
		}
		f = f.Parent()
	}
	return ""
}

// ---------- package-level tables ----------

// TableRow is one element of a package-level slice/array-of-struct literal: the value stored
// into each field by the package initialiser.
type TableRow struct {
	Fields map[string]ssa.Value
}

type globalTable struct {
	rows  []TableRow
	funcs []*ssa.Function
}

var tableCache = map[*ssa.Global]*globalTable{}

// tableOf analyses the package initialiser: which composite literal is stored into g, and what
// its elements hold.  Dispatch tables (`var checks = []check{{pred: func…, code: 412}, …}`)
// are the one place in this code base where a call's targets are data.
func (p *Program) tableOf(g *ssa.Global) *globalTable {
	if t, ok := tableCache[g]; ok {
		return t
	}
	t := &globalTable{}
	tableCache[g] = t
	if g.Pkg == nil {
		return t
	}
	init := g.Pkg.Func("init")
	if init == nil {
		return t
	}
	// allocations that end up in g
	var roots []ssa.Value
	for _, b := range init.Blocks {
		for _, in := range b.Instrs {
			st, ok := in.(*ssa.Store)
			if !ok || st.Addr != ssa.Value(g) {
				continue
			}
			v := st.Val
			for i := 0; i < 4; i++ {
				switch x := v.(type) {
				case *ssa.Slice:
					v = x.X
					continue
				case *ssa.UnOp:
					if x.Op == token.MUL {
						v = x.X
						continue
					}
				case *ssa.MakeInterface:
					v = x.X
					continue
				}
				break
			}
			roots = append(roots, v)
		}
	}
	fn := func(v ssa.Value) *ssa.Function {
		switch x := v.(type) {
		case *ssa.Function:
			return x
		case *ssa.MakeClosure:
			f, _ := x.Fn.(*ssa.Function)
			return f
		case *ssa.ChangeType:
			if f, ok := x.X.(*ssa.Function); ok {
				return f
			}
		}
		return nil
	}
	seenFn := map[*ssa.Function]bool{}
	var collect func(addr ssa.Value, row *TableRow, depth int)
	collect = func(addr ssa.Value, row *TableRow, depth int) {
		if depth > 4 {
			return
		}
		for _, r := range Referrers(addr) {
			switch x := r.(type) {
			case *ssa.IndexAddr:
				if x.X != addr {
					continue
				}
				if row == nil {
					t.rows = append(t.rows, TableRow{Fields: map[string]ssa.Value{}})
					collect(x, &t.rows[len(t.rows)-1], depth+1)
				} else {
					collect(x, row, depth+1)
				}
			case *ssa.FieldAddr:
				if x.X != addr {
					continue
				}
				_, name, _ := FieldName(x)
				for _, rr := range Referrers(x) {
					if st, ok := rr.(*ssa.Store); ok && st.Addr == ssa.Value(x) {
						if row != nil {
							row.Fields[name] = st.Val
						}
						if f := fn(st.Val); f != nil && !seenFn[f] {
							seenFn[f] = true
							t.funcs = append(t.funcs, f)
						}
					}
				}
				collect(x, row, depth+1)
			case *ssa.Store:
				if x.Addr == addr {
					if f := fn(x.Val); f != nil && !seenFn[f] {
						seenFn[f] = true
						t.funcs = append(t.funcs, f)
					}
				}
			}
		}
	}
	for _, r := range roots {
		collect(r, nil, 0)
	}
	return t
}

// GlobalTable returns the rows of the composite literal a package-level variable is initialised with.
func (p *Program) GlobalTable(g *ssa.Global) []TableRow { return p.tableOf(g).rows }

// GlobalFuncs returns the functions stored in the composite literal a package-level variable is initialised with.
func (p *Program) GlobalFuncs(g *ssa.Global) []*ssa.Function { return p.tableOf(g).funcs }

// TableFieldOf: v is field `field` of an element of the package-level table g
// (`check.code` inside `for _, check := range checks`).
func TableFieldOf(v ssa.Value) (g *ssa.Global, field string, ok bool) {
	v = Resolve(v)
	var base ssa.Value
	switch x := v.(type) {
	case *ssa.Field:
		_, field, _ = FieldName(x)
		base = x.X
	case *ssa.UnOp:
		fa, isFa := x.X.(*ssa.FieldAddr)
		if x.Op != token.MUL || !isFa {
			return nil, "", false
		}
		_, field, _ = FieldName(fa)
		base = fa.X
	default:
		return nil, "", false
	}
	for i := 0; i < 8 && base != nil; i++ {
		switch x := Resolve(base).(type) {
		case *ssa.Global:
			return x, field, true
		case *ssa.Alloc:
			// the range variable: a local copy of the element
			sts := StoresTo(x)
			if len(sts) != 1 {
				return nil, "", false
			}
			base = sts[0].Val
		case *ssa.UnOp:
			base = x.X
		case *ssa.IndexAddr:
			base = x.X
		case *ssa.Index:
			base = x.X
		case *ssa.Slice:
			base = x.X
		case *ssa.Extract:
			// range over a slice value: (ok, k, v) tuples do not occur for slices; give up
			return nil, "", false
		default:
			return nil, "", false
		}
	}
	return nil, "", false
}
