#!/usr/bin/env python3
"""Generates /verif/MANIFEST.json and the 'fixed' section of known_findings.json."""
import json, subprocess
LEVEL = {
 "C01": ("R06,R07,R08,R28,R33,R36", "structural clause: invalid mutations are rejected before any store write on every path; every writer of Column.Cells re-establishes the order/uniqueness invariants"),
 "C02": ("R08,R11,R16,R29,R34,R35,R01,R04", "structural clause: MD5 mismatch cannot reach the storing critical section; all upload protocols funnel through the verified write; gzip/drain wiring; upload state under its mutex"),
 "C03": ("R08,R09,R14,R26,R43", "structural clause: inverted ranges rejected before any scan; engines honour early stop / bounds / order; rows_limit counts rows that produced output"),
 "C04": ("R11,R12,R17", "structural clause: check-then-act in one critical section on the same object; parser/validator field agreement; failure kind -> 412/304; conditions plumbing on every mutating path; 400 on unparsable"),
 "C05": ("R18,R13,R19,R26,R36,R09,R08", "structural clause: every supported filter handled; invalid arguments rejected with InvalidArgument; branches evaluated on copies; filter errors stop the scan and are returned"),
 "C06": ("R01,R02,R04,R06,R07,R09,R19,R33", "structural clause: row read-modify-write under one uninterrupted write hold of table.mu on all paths; private copies in/out of the store; write-back only on success"),
 "C07": ("R11,R20,R10,R32,R01,R04,R16", "structural clause: every mutation inside the matching per-object critical section with its precondition check; lock map obligations; no in-place mutation of stored records; memstore lock discipline"),
 "C08": ("R21,R01", "structural clause: atomic metadata replace, persist-after-modify, DeleteTable removes metadata, start-up wiring, one backend write per row write"),
 "C09": ("R22,R27", "structural clause: sibling agreement of the two stores (field effects, ordering of file operations, not-found signalling) and the Walk ordering contract"),
 "C10": ("R22,R23,R24,R11", "structural clause: Metageneration=1 assigned by the store on Add, metagen+1 on patch from the value read in the same critical section, immutable fields restored after decode, read-only methods have no effects, header/body agreement"),
 "C11": ("R17,R27,R16,R14,R39", "narrow structural clause: 400/404 discipline of list parameters, token codec agreement, Walk ordering contract, nil-safety of resolved items"),
 "C12": ("R19,R06,R07,R02,R30", "structural clause: predicate on a copy; predicate_matched is the branch selector (value identity, polarity); selected list is applied; no store on failure"),
 "C13": ("R08,R07,R02,R14,R09,R33,R37", "structural clause (last sentence of C13): unknown family / non-8-byte increment fail before the single write; private copy; one hold"),
 "C14": ("R07,R01,R04,R05,R08,R21,R33,R38,R43", "structural clause: all-or-nothing ModifyColumnFamilies (no mutation before an error return), registry/definition lock discipline, no escaping definitions, live family map, persistence"),
 "C15": ("R08,R11,R14,R16,R15,R22,R10,R33", "structural clause: 32-source bound and missing source rejected before any write; destination critical section; rewrite path split length-checked; nil destination; Copy siblings"),
 "C16": ("R03,R02,R13,R01,R04,R08", "structural clause: the GC callback never writes back a stale iterator row; quiescence test guards the lock on the non-forced path; periodic lock hand-over; negative max versions never bounds a slice"),
 "C17": ("R09,R31,R40,R43", "sibling cross-check of the Rows implementations against the interface contract (I1-I5) plus who-constructs / Clear / iterator discipline; no caller hands a possibly-nil bound to a scan (the engines differ on it)"),
 "C18": ("R01,R04,R03,R09,R31,R16", "structural clause: scan holds table.mu(R) at every Rows/definition access, reversal is balanced, no write-back from the scan, one iterator per range, fresh row copies"),
 "C19": ("R20,R01,R04", "structural obligations L1-L10 of the lock map (each a necessary condition of a clause of C19)"),
 "C20": ("R13,R14,R15,R16,R01,R04,R05,R17,R25,R08", "crash/wedge vectors visible in code shape for both emulators: sign/length checks, nil contracts (interprocedural), response typestate, lock discipline, reasoned panics"),
}
TECH = {
 "C01":"SSA dominance of effects by validation guards (value identity), CFG reachability mutation->error return, producer table for Column.Cells stores",
 "C02":"SSA dominance + CFG edge-cut reachability (MD5 gate), who-may-call over resolved callees, lockset dataflow, interprocedural nilness",
 "C03":"sibling cross-check on SSA (callback result use, bound-slot taint), dominance of scans by range validation, constant-function contradiction",
 "C04":"critical-section membership and key identity via access paths across closure/call boundaries, field-set agreement, fact-based failure-code table",
 "C05":"type-switch exhaustiveness over the pinned API's oneof types, error-provenance, taint+guard for request integers",
 "C06":"must-lockset dataflow (type,field lock identity) + epoch-continuity + dominance by applier success edge",
 "C07":"critical-section/key identity analysis, CFG obligations on the lock map, provenance-based freshness, lockset",
 "C08":"call ordering/dominance in SetTableMeta, persist-after-modify reachability, wiring checks on SSA",
 "C09":"field-effect and file-operation summaries of both Store implementations compared, who-calls ordering contract",
 "C10":"post-dominating assignment checks in both stores, SSA provenance of the patch's UpdateMeta arguments, header/body value identity",
 "C11":"parse-failure edge -> 4xx response search on SSA, codec agreement, Walk order source, interprocedural nilness incl. slice elements",
 "C12":"SSA value identity of selector and phi polarity, copy provenance, dominance",
 "C13":"SSA dominance of effects by guards (same value), CFG reachability",
 "C14":"CFG reachability mutation->error return, must-lockset, escape analysis of guarded references",
 "C15":"dominance by bound check, critical-section analysis, length-fact solver for constant indices, nilness",
 "C16":"lockset epoch analysis (stale write-back), CFG edge-cut reachability (quiescence), taint+guard",
 "C17":"sibling cross-check of interface implementations on SSA; may-be-nil provenance of scan bounds",
 "C18":"must-lockset dataflow incl. lock reversal closures, sibling cross-check",
 "C19":"lockset + CFG/SSA obligations L2-L10 on gcsutil",
 "C20":"interprocedural nilness with summaries, taint+guard, length-fact solver, go/cfg response typestate, must-lockset, panic/assertion tables",
}
props=[json.loads(l) for l in open('/verif/properties.jsonl')]
# the rules actually run per property, from the checker itself
ACTUAL={}
for line in subprocess.run(['/verif/bin/emucheck','list'],capture_output=True,text=True).stdout.splitlines():
    parts=line.split()
    if len(parts)>=3 and parts[2].startswith('rules='):
        seen=[]
        for r in parts[2][6:].split(','):
            if r not in seen: seen.append(r)
        ACTUAL[parts[0]]=','.join(sorted(seen))
EXTRA = {
 "C01": "; no row object reused across the entries of a request; cell scans / column lookups do not rely on an order that does not hold mid-request; timestamps from the injectable clock; whole-millisecond test on every accepting path; the value bytes of an existing cell are never written",
 "C02": "; the content file is replaced by a truncating write; upload ids are the atomic increment's own result; every mutator in its matching critical section; the declared Content-Length never bounds a body read (gzip bodies are longer than declared); bytes handed to Store.Add are never recycled; the recorded MD5 derives from md5.Sum of the stored bytes on every path; a store read that reports not-found is answered 404",
 "C03": "; the range-merge fold step is computed from its accumulator; the trailing row of SampleRowKeys is decided for every row; the scan variant agrees with which range ends are present; no nil bound; no per-range scratch value carried over; a sent chunk buffer is not recycled; the whole-table default is selected on the request, not on the normalised range list; the scan callback passes a row over only because of the row itself; a chunk buffer that has been sent is emptied before the scan goes on",
 "C04": "; no in-place mutation of objects handed out by the store (a rejected request leaves sources untouched); conditions evaluated derive from the request on every path (backward flow); no per-source condition carried over from the previous source; every compose source has its own precondition evaluated on every path through the sources loop",
 "C05": "; the error of a nested filter evaluation is propagated; copyRow gives copies their own cell slices; in-place compactions are truncated before use; isEmpty answers on the evidence of a cell; the presence of a column/value range bound is decided by the oneof case, not by the emptiness of its bytes",
 "C06": "; GC never writes back a stale row; copyRow depth; the ReadModifyWriteRow timestamp depends on the newest existing cell; the value bytes of an existing cell are never written",
 "C07": "; the locked object is not read back after its lock was released; no nested object locks; check-then-act on the bucket map under one hold; stored memory-store records are never assigned in place; nothing written under the object lock derives from a read of that object made before the lock; mutators reached through narrower interfaces are still checked",
 "C08": "; the optional DeleteTableMeta is in the value method set of a storage used as a value; registry check-then-act under one hold; a created table starts from a wiped directory and Clear reopens with nuke; walk callbacks examine their error first; the table definition is persisted under the lock that serialises its changes",
 "C09": "; directory pruning stops strictly below the bucket directory; Copy does not mix source and destination names; any return on an unreadable sidecar excludes not-exist first; siblings use the same named parameters; scrubbed fields are recomputed; directory entries never reach the per-object listing logic; filestore.Add creates the object's directory on every writing path; computed metadata fields are baked from final values",
 "C10": "; the locked object is not read back after its lock was released; every mutator in its matching critical section; stored records immutable; computed metadata fields are baked from final values; Copy goes through the store's own Add",
 "C11": "; recorded names carry the requested prefix; walk callback examines its error first; sibling parameter use; directory entries never reach the per-object listing logic; the prefix is never on the inclusive side of the cursor comparison; a page is bounded by maxResults on every recording path; a page cut short by maxResults carries a page token (known finding on the pinned tree)",
 "C12": "; the branch selector is an emptiness test on every path; cells are never edited in place; copyRow depth; no row deletion from inside an iteration; isEmpty answers on the evidence of a cell; a given predicate is evaluated on every successful path",
 "C13": "; timestamps from the injectable clock; column lookups do not rely on qualifier order; appendOrReplaceCell uniqueness conditions and every read-modify-write insert goes through it; read and write-back of every row RPC under one hold; the written timestamp depends on the newest existing cell; the value bytes of an existing cell are never written",
 "C14": "; registry check-then-act under one hold; no nil scan bound; rows closed only at shutdown; the ListTables parent prefix includes the /tables/ separator; a missing table is answered NotFound, an existing one AlreadyExists",
 "C15": "; no copy loop over a just-made map; no nested object locks; decode target is not a shallow copy of a store object; stored records immutable; a missing source or object is answered 404",
 "C16": "; the write-back flag of a GC pass is monotone over the columns; GC cut-offs from the injectable clock; every row store stamps the write-activity clock; engine methods have only their own effect and take no locks; a GC pass takes its rules from the live family definitions, not from a second copy",
 "C17": "; dispatch shape; engine contracts (reopen passes nuke, Create wipes, single-effect methods, no engine locks, Close only at shutdown)",
 "C18": "; no value-receiver field assignment in the chunk builder; read and write-back of the row RPCs under one hold; every table.rows access under the lock; no stale GC write-back; store only on success; engines take no locks; rows closed only at shutdown; sent buffers not recycled; the scan callback passes a row over only because of the row itself; a chunk buffer that has been sent is emptied before the scan goes on",
 "C19": "; Run cannot return on the acquired edge without the deferred unlock; decrement and eviction in one hold",
 "C20": "; Content-Length agrees with every body write; every table is built around a non-nil family map; guarded-map check-then-act, nested object locks, use after ownership transfer, carried-over scratch values, engine locks / Close, in-place record updates; a batch answers every parsed part (dispatch, part creation and response write on every path of an iteration, a recorder per part, lists in lockstep, closing boundary); no mutex is acquired again while it is held, through calls, interface dispatch or callbacks; elements of JSON-decoded pointer lists are nil-checked; no response is streamed to the client while a table or registry mutex is held; a missing table is answered NotFound and a store read that reports not-found 404; integer struct fields filled from parsed request numbers are request-integer sources; API-level errors are answered in the JSON envelope, never with net/http.Error; names recorded by the listing walk carry the requested prefix (the delimiter slice bound relies on it)",
}
checks=[]
for p in props:
    pid=p['id']
    rules, text = LEVEL[pid]
    rules = ACTUAL.get(pid, rules)
    text = text + EXTRA.get(pid, '')
    checks.append({
      "property_id": pid,
      "quick_cmd": f"./check.sh {pid} quick",
      "thorough_cmd": f"./check.sh {pid} thorough",
      "evidence_file": f"/verif/evidence/{pid}.json",
      "replay_cmd_template": "./check.sh replay {path}",
      "engine": "emucheck",
      "level_claimed": {"category":"other",
        "text": f"Static analysis of /repo's current source (no execution). Decides {text}. Rules {rules} (DESIGN.md §4); every rule instance is an obligation that holds on ALL paths / call sites / lock contexts, which is what the sampled tests cannot establish. It decides that structural part and not the behaviour; the clauses that depend on runtime values are listed in the evidence under clauses_not_decided.",
        "design_ref": f"DESIGN.md §5 {pid}, §4 {rules}"},
      "level_note": "Trusted: go/types, x/tools v0.29.0 go/ssa+go/cfg, the rule implementations (self-tested both ways in the thorough tier by overlay mutants and by the seeded / behaviour-preserving corpora; tools/matrix.py additionally re-introduces each repaired defect), library contracts listed in DESIGN.md §8. Lock identity is (struct type, field).",
      "technique": TECH[pid],
    })
m={
 "version":1,
 "setup_cmd":"./setup.sh",
 "hooks":{"guard":"verif","enable":"none needed: static analysis reads /repo's source as it is; no hook or instrumentation commit exists in /repo","baseline_off_cmd":"for m in bigtable storage; do (cd /repo/$m && GOFLAGS=-mod=mod GOPROXY=off GOSUMDB=off GOTOOLCHAIN=local go test -vet=off -count=1 -timeout 25m ./...) || exit 1; done","source_commits":[],"add_only":True},
 "engines":[{"name":"emucheck","path":"/verif/cmd/emucheck","serves_properties":[p['id'] for p in props],"kind_free_text":"repository-specific static analyser (go/packages + go/ssa + go/cfg, x/tools v0.29.0): must-lockset dataflow, dominance/fact queries, provenance and access-path identity, interprocedural nilness, response typestate, sibling cross-checks"}],
 "checks":checks,
 "not_applicable":[],
 "notes":"Static analysis only (DESIGN.md). All claims are level 'other': each check decides named structural necessary conditions of its property on /repo's current source and lists the clauses it does not decide. Genuine defects found were repaired by 'fix:' commits in /repo or are listed in known_findings.json. thorough = quick + both-ways self-test of the rules: in-memory overlay mutants (mutants.json) and the committed regression corpora on scratch copies of /repo (seeded/: independently produced breaking changes must be reported; benign/: independent behaviour-preserving refactorings must stay silent)."
}
json.dump(m,open('/verif/MANIFEST.json','w'),indent=1)
# fixed entries
FIX_PROPS={
 '659fa0e':'C17','d9b4edd':'C06','8e362d8':'C14','1a3ec83':'C05','d074582':'C05','4dbe7f4':'C03','ff68d64':'C16','739e5da':'C20','fbd49ff':'C20',
 'b6aac37':'C16','7524623':'C08','743ce43':'C15','d247afc':'C20','2f0bb4d':'C15','53bf577':'C20','c70c12b':'C07','3c0b511':'C10','9016315':'C07',
 '4ba9f80':'C11','2ba22ea':'C20','e54c65e':'C02','eced17a':'C11','b877043':'C07','7c7d223':'C15','0b0e65d':'C20','1035f39':'C20'}
log=subprocess.run(['git','-C','/repo','log','--format=%h %s','1ff383a..HEAD'],capture_output=True,text=True).stdout.strip().splitlines()
k=json.load(open('/verif/known_findings.json'))
k['fixed']=[]
for line in reversed(log):
    h,msg=line.split(' ',1)
    if not msg.startswith('fix:'): continue
    k['fixed'].append(f"fixed: property={FIX_PROPS.get(h,'C20')} {h} {msg[5:]}")
json.dump(k,open('/verif/known_findings.json','w'),indent=1)
print(len(checks),'checks;',len(k['fixed']),'fixed entries')
