package rules

import (
	"fmt"
	"go/constant"
	"go/token"
	"go/types"
	"os"
	"sort"
	"strings"

	"golang.org/x/tools/go/ssa"

	"verif/internal/core"
)

// fileEffects: names of file-system mutating calls made by fn, transitively
// through in-package static callees.
var fsMutators = map[string]bool{
	"os.WriteFile": true, "os.Remove": true, "os.RemoveAll": true, "os.Rename": true, "os.Mkdir": true, "os.MkdirAll": true,
	"os.Chtimes": true, "os.Create": true, "os.OpenFile": true, "os.Truncate": true, "io/ioutil.WriteFile": true,
}

func transitiveCalls(P *core.Program, fn *ssa.Function, seen map[*ssa.Function]bool, visit func(from *ssa.Function, ci *core.CallInfo)) {
	if fn == nil || seen[fn] || fn.Blocks == nil {
		return
	}
	seen[fn] = true
	for _, f := range core.Family(fn) {
		for _, ci := range core.AllCalls(f) {
			visit(f, ci)
			if ci.Static != nil && inRepo(P, ci.Static) {
				transitiveCalls(P, ci.Static, seen, visit)
			}
		}
	}
}

func storeMethod(P *core.Program, typ, m string) *ssa.Function {
	return P.MustFunc(core.PkgGcsemu, "(*"+typ+")."+m)
}

// storeScope: a store method together with the helpers it is split into (other
// Store-interface methods of the same store are separate roots and not entered).
func storeScope(P *core.Program, fn *ssa.Function) []*ssa.Function {
	return P.Scope(fn, func(f *ssa.Function) bool {
		if core.PkgPathOf(f) != core.PkgGcsemu {
			return true
		}
		if f.Signature.Recv() != nil && f.Object() != nil && f.Object().Exported() && core.NamedOf(f.Signature.Recv().Type()) == core.NamedOf(fn.Signature.Recv().Type()) {
			return true // another method of the Store interface
		}
		return false
	})
}

func storesToObjFieldIn(fns []*ssa.Function, field string) []*ssa.Store {
	var out []*ssa.Store
	for _, f := range fns {
		out = append(out, storesToObjField(f, field)...)
	}
	return out
}

func persistPointsIn(fns []*ssa.Function) []ssa.Instruction {
	var out []ssa.Instruction
	for _, f := range fns {
		out = append(out, persistPoints(f)...)
	}
	return out
}

// storesToParamField: stores in fn (not transitive) to field `field` of the object parameter.
func storesToObjField(fn *ssa.Function, field string) []*ssa.Store {
	var out []*ssa.Store
	for _, b := range fn.Blocks {
		for _, in := range b.Instrs {
			st, ok := in.(*ssa.Store)
			if !ok {
				continue
			}
			fa, ok := st.Addr.(*ssa.FieldAddr)
			if !ok || !core.TypeIs(fa.X.Type(), pkgStorageV1, "Object") {
				continue
			}
			if _, f, _ := core.FieldName(fa); f == field {
				out = append(out, st)
			}
		}
	}
	return out
}

// persistPoints: where a store implementation makes the record durable/visible.
func persistPoints(fn *ssa.Function) []ssa.Instruction {
	var out []ssa.Instruction
	for _, ci := range core.AllCalls(fn) {
		if ci.MethodOn(pkgBtree, "BTree", "ReplaceOrInsert") {
			out = append(out, ci.Instr)
		}
		if ci.IsFunc("os", "WriteFile") {
			// the sidecar write: its content derives from mustJson(meta)
			if len(ci.Common.Args) >= 2 {
				data := core.Resolve(ci.Common.Args[1])
				if ex, isEx := data.(*ssa.Extract); isEx {
					data = ex.Tuple // json.Marshal…(meta) inlined: (bytes, err)
				}
				if call, ok := data.(*ssa.Call); ok {
					cc := core.Call(call)
					if cc.IsFunc(core.PkgGcsemu, "mustJson") || cc.IsFunc("encoding/json", "Marshal") || cc.IsFunc("encoding/json", "MarshalIndent") {
						out = append(out, ci.Instr)
					}
				}
			}
		}
	}
	return out
}

// The file store's two kinds of path are recognised by how they are built, not by the
// name of the helper that builds them: a *sidecar* path ends in the metadata extension
// constant (`… + metaExtention`, possibly inside a helper), a *content* path is a plain
// filepath.Join (possibly inside a helper).  Both are followed through helper parameters.
func sidecarPath(P *core.Program, v ssa.Value, within map[*ssa.Function]bool) bool {
	ext := ".emumeta"
	if sp := P.SPkgs[core.PkgGcsemu]; sp != nil {
		if k, ok := sp.Pkg.Scope().Lookup("metaExtention").(*types.Const); ok && k.Val().Kind() == constant.String {
			ext = constant.StringVal(k.Val())
		}
	}
	return P.AllOrigins(v, within, func(o ssa.Value) bool {
		s, ok := suffixConst(o)
		return ok && s == ext
	})
}

func contentPath(P *core.Program, v ssa.Value, within map[*ssa.Function]bool) bool {
	return P.AllOrigins(v, within, func(o ssa.Value) bool { return joinedPath(o, 0) })
}

func joinedPath(v ssa.Value, depth int) bool {
	call, ok := core.Resolve(v).(*ssa.Call)
	if !ok || depth > 3 {
		return false
	}
	if core.Call(call).IsFunc("path/filepath", "Join") {
		return true
	}
	g := call.Call.StaticCallee()
	if g == nil || g.Blocks == nil || core.PkgPathOf(g) != core.PkgGcsemu {
		return false
	}
	n := 0
	for _, r := range returnsIn(g) {
		if len(r.Results) != 1 {
			return false
		}
		for _, rv := range returnValues(r.Results[0]) {
			if !joinedPath(rv, depth+1) {
				return false
			}
			n++
		}
	}
	return n > 0
}

// copySides checks the addressing of every read and of the write in a store's Copy.
func copySides(P *core.Program, cp, add *ssa.Function, cpSet map[*ssa.Function]bool) (bool, string) {
	type ctxT map[*ssa.Parameter]map[int]bool
	root := ctxT{}
	for i, pa := range cp.Params[1:] {
		root[pa] = map[int]bool{1 + i/2: true} // 1 = source, 2 = destination
	}
	private := func(g *ssa.Function) bool {
		if g == nil || g == add || g == cp || !cpSet[g] {
			return false
		}
		refs := P.Refs(g)
		if len(refs) == 0 {
			return false
		}
		for _, r := range refs {
			if !cpSet[r.Instr.Parent()] {
				return false
			}
		}
		return true
	}
	isStr := func(t types.Type) bool {
		b, ok := t.Underlying().(*types.Basic)
		return ok && b.Info()&types.IsString != 0
	}
	var sidesOf func(v ssa.Value, ctx ctxT, seen map[ssa.Value]bool, depth int) map[int]bool
	sidesOf = func(v ssa.Value, ctx ctxT, seen map[ssa.Value]bool, depth int) map[int]bool {
		out := map[int]bool{}
		if v == nil || depth > 10 || !isStr(v.Type()) {
			return out
		}
		v = core.Resolve(v)
		if seen[v] {
			return out
		}
		seen[v] = true
		merge := func(m map[int]bool) {
			for k := range m {
				out[k] = true
			}
		}
		switch x := v.(type) {
		case *ssa.Parameter:
			merge(ctx[x])
		case *ssa.Call:
			for _, a := range x.Call.Args {
				merge(sidesOf(a, ctx, seen, depth+1))
			}
		case *ssa.BinOp:
			merge(sidesOf(x.X, ctx, seen, depth+1))
			merge(sidesOf(x.Y, ctx, seen, depth+1))
		case *ssa.Phi:
			for _, e := range x.Edges {
				merge(sidesOf(e, ctx, seen, depth+1))
			}
		case *ssa.UnOp:
			if cell := core.CellOf(x.X); cell != nil {
				for _, st := range core.StoresTo(cell) {
					merge(sidesOf(st.Val, ctx, seen, depth+1))
				}
			}
		}
		return out
	}
	ok, why := true, ""
	var visit func(f *ssa.Function, ctx ctxT, depth int)
	visit = func(f *ssa.Function, ctx ctxT, depth int) {
		for _, ci := range core.AllCalls(f) {
			g := ci.Static
			if g != nil && private(g) && depth < 4 {
				sub := ctxT{}
				for i, a := range ci.Common.Args {
					if i < len(g.Params) {
						sub[g.Params[i]] = sidesOf(a, ctx, map[ssa.Value]bool{}, 0)
					}
				}
				visit(g, sub, depth+1)
				continue
			}
			// leaves: the store's methods and shared lookup helpers, file operations
			leaf := false
			switch {
			case g == nil:
			case g == add:
				leaf = true
			case g.Pkg != nil && (g.Pkg.Pkg.Path() == "os" || g.Pkg.Pkg.Path() == "io/ioutil"):
				leaf = true
			case core.PkgPathOf(g) == core.PkgGcsemu:
				res := g.Signature.Results()
				leaf = !(res.Len() == 1 && isStr(res.At(0).Type()))
			}
			if !leaf {
				continue
			}
			sides := map[int]bool{}
			for _, a := range ci.Common.Args {
				for k := range sidesOf(a, ctx, map[ssa.Value]bool{}, 0) {
					sides[k] = true
				}
			}
			switch {
			case len(sides) == 0:
			case len(sides) > 1:
				ok, why = false, "a call in Copy receives a source name together with a destination name ("+ci.CalleeName()+")"
			case g == add && !sides[2]:
				ok, why = false, "Copy adds the object under the source's name"
			case g != add && !sides[1]:
				ok, why = false, "Copy reads through the destination's name ("+ci.CalleeName()+")"
			}
		}
	}
	visit(cp, root, 0)
	return ok, why
}

// R22: sibling agreement of the two GCS stores.
func R22() Rule {
	return Rule{Name: "R22", Run: func(c *core.Ctx) {
		P := c.P
		stores := []string{"memstore", "filestore"}
		for _, s := range stores {
			// ---- Add: Metageneration = 1 before the record is persisted, not overwritten afterwards
			add := storeMethod(P, s, "Add")
			c.Fn(core.FuncName(add))
			addScope := storeScope(P, add)
			addSet := setOf(addScope)
			pp := persistPointsIn(addScope)
			sts := storesToObjFieldIn(addScope, "Metageneration")
			ok := len(pp) > 0 && len(sts) > 0
			why := "Add never assigns Metageneration"
			for _, st := range sts {
				if k, isK := core.ConstInt(st.Val); !isK || k != 1 {
					ok, why = false, "Add assigns something other than 1 to Metageneration"
				}
			}
			for _, p := range pp {
				dominated := false
				for _, st := range sts {
					if P.InterDominates(add, st, p, addSet) {
						dominated = true
					}
				}
				if !dominated {
					ok, why = false, "the record is persisted on a path that did not set Metageneration = 1"
				}
			}
			c.Check(ok, "R22", s+".Add/Metageneration-is-1", add.Pos(), "Metageneration = 1 is assigned by the store before the record is persisted (a caller value cannot survive)", why+": a content write does not reset metageneration to 1")
			// ---- UpdateMeta: stores the metagen parameter
			um := storeMethod(P, s, "UpdateMeta")
			c.Fn(core.FuncName(um))
			umScope := storeScope(P, um)
			umSet := setOf(umScope)
			pp = persistPointsIn(umScope)
			sts = storesToObjFieldIn(umScope, "Metageneration")
			ok = len(pp) > 0 && len(sts) > 0
			why = "UpdateMeta never assigns Metageneration"
			for _, st := range sts {
				if !P.AllOrigins(st.Val, umSet, func(v ssa.Value) bool {
					p, isP := v.(*ssa.Parameter)
					return isP && p.Parent() == um && isIntType(p.Type())
				}) {
					ok, why = false, "UpdateMeta does not store its metagen parameter"
				}
			}
			for _, pt := range pp {
				dominated := false
				for _, st := range sts {
					if P.InterDominates(um, st, pt, umSet) {
						dominated = true
					}
				}
				if !dominated {
					ok, why = false, "metadata is persisted on a path that did not set the new metageneration"
				}
			}
			c.Check(ok, "R22", s+".UpdateMeta/stores-metagen-parameter", um.Pos(), "the metagen parameter is assigned to Metageneration before the record is persisted", why)
			// ---- Copy: TimeCreated cleared, goes through own Add
			cp := storeMethod(P, s, "Copy")
			c.Fn(core.FuncName(cp))
			var addCall ssa.Instruction
			cpScope := storeScope(P, cp)
			cpSet := setOf(cpScope)
			for _, ci := range core.CallsIn(cpScope, func(ci *core.CallInfo) bool { return ci.Static == add }) {
				addCall = ci.Instr
			}
			okc := addCall != nil
			whyc := "Copy does not go through the store's own Add (generation / metageneration laws are bypassed)"
			if okc {
				cleared := false
				for _, st := range storesToObjFieldIn(cpScope, "TimeCreated") {
					if s2, isS := core.ConstString(st.Val); isS && s2 == "" && P.InterDominates(cp, st, addCall, cpSet) {
						cleared = true
					}
				}
				if !cleared {
					okc, whyc = false, "Copy does not reset TimeCreated before adding the destination"
				}
			}
			// source and destination names are not mixed: every read (a store method, a shared lookup
			// helper, a file operation) is addressed by names built from (srcBucket, srcFile) only, the
			// Add by (dstBucket, dstFile) only.  Names are followed through string-building helpers and,
			// per calling context, through the private helpers Copy is split into.
			if len(cp.Params) == 5 {
				okSlots, whySlots := copySides(P, cp, add, cpSet)
				c.Check(okSlots, "R22", s+".Copy/source-and-destination-not-mixed", cp.Pos(), "reads use (srcBucket, srcFile), the write uses (dstBucket, dstFile)", whySlots+": the copy takes content or metadata from the wrong object (visible for cross-bucket copies)")
			}
			c.Check(okc, "R22", s+".Copy/through-Add-with-fresh-TimeCreated", cp.Pos(), "Copy clears TimeCreated and writes the destination with the store's own Add", whyc)
			// ---- read-only methods have no effects
			for _, m := range []string{"Get", "GetMeta", "ReadMeta", "Walk", "GetBucketMeta"} {
				fn := storeMethod(P, s, m)
				var effects []string
				transitiveCalls(P, fn, map[*ssa.Function]bool{}, func(from *ssa.Function, ci *core.CallInfo) {
					if ci.Static != nil && ci.Static.Pkg != nil {
						name := ci.Static.Pkg.Pkg.Path() + "." + ci.Static.Name()
						if fsMutators[name] {
							effects = append(effects, name)
						}
					}
					if ci.MethodOn(pkgBtree, "BTree", "ReplaceOrInsert") || ci.MethodOn(pkgBtree, "BTree", "Delete") || ci.MethodOn(pkgBtree, "BTree", "Clear") {
						effects = append(effects, "btree."+ci.Static.Name())
					}
				})
				// stores into a stored record (memFile) reached through the tree
				for _, f := range core.Family(fn) {
					for _, b := range f.Blocks {
						for _, in := range b.Instrs {
							if st, ok := in.(*ssa.Store); ok {
								if ch := fieldChain(st.Addr); len(ch) > 0 {
									// base must be a *memFile obtained from the tree (not a local copy)
									base := st.Addr
									for i := 0; i < 6; i++ {
										if fa, ok := base.(*ssa.FieldAddr); ok {
											base = fa.X
										} else {
											break
										}
									}
									if core.TypeIs(base.Type(), core.PkgGcsemu, "memFile") {
										if _, isAlloc := core.Resolve(base).(*ssa.Alloc); !isAlloc {
											effects = append(effects, "store to memFile."+strings.Join(ch, "."))
										}
									}
								}
							}
						}
					}
				}
				sort.Strings(effects)
				c.Check(len(effects) == 0, "R22", fmt.Sprintf("%s.%s/read-only", s, m), fn.Pos(), "no file-system mutation, no tree mutation, no store into a stored record", fmt.Sprintf("read-only store method has effects %v: reads change stored state (generation/metageneration laws, C10)", effects))
			}
			// ---- not-found signalling
			n := nilness(P)
			for _, m := range []string{"Get", "GetMeta"} {
				fn := storeMethod(P, s, m)
				c.Check(n.ret[fn][0] == nkMaybe, "R22", fmt.Sprintf("%s.%s/not-found-is-nil-nil", s, m), fn.Pos(), "a missing object is reported as (nil, nil)", "a missing object is not reported as (nil, nil) by this store: handlers map it to the wrong status")
			}
			del := storeMethod(P, s, "Delete")
			okNE := false
			// Delete, a helper it is split into, or a closure it runs yields os.ErrNotExist
			for _, f := range storeScope(P, del) {
				for _, r := range returnsIn(f) {
					if len(r.Results) == 0 {
						continue
					}
					for _, v := range returnValues(r.Results[len(r.Results)-1]) {
						if ld, isLd := core.Strip(v).(*ssa.UnOp); isLd {
							if g, isG := ld.X.(*ssa.Global); isG && g.Pkg.Pkg.Path() == "os" && g.Name() == "ErrNotExist" {
								okNE = true
							}
						}
					}
				}
				// … or assigns it to the variable it returns
				for _, b := range f.Blocks {
					for _, in := range b.Instrs {
						if st, isSt := in.(*ssa.Store); isSt {
							if ld, isLd := core.Strip(st.Val).(*ssa.UnOp); isLd {
								if g, isG := ld.X.(*ssa.Global); isG && g.Pkg.Pkg.Path() == "os" && g.Name() == "ErrNotExist" && types.Identical(st.Val.Type(), types.Universe.Lookup("error").Type()) {
									okNE = true
								}
							}
						}
					}
				}
			}
			c.Check(okNE, "R22", s+".Delete/missing-is-ErrNotExist", del.Pos(), "deleting a missing object/bucket yields os.ErrNotExist", "deleting something missing is not signalled with os.ErrNotExist: the handler answers 500 instead of 404 with this store")
		}
		// ---- memstore.Add: generation assigned by the store
		{
			add := storeMethod(P, "memstore", "Add")
			ok := false
			addScope := storeScope(P, add)
			addSet := setOf(addScope)
			for _, st := range storesToObjFieldIn(addScope, "Generation") {
				if call, isCall := core.Resolve(st.Val).(*ssa.Call); isCall && call.Call.StaticCallee() != nil && call.Call.StaticCallee().Name() == "UnixNano" {
					ok = true
					for _, p := range persistPointsIn(addScope) {
						if !P.InterDominates(add, st, p, addSet) {
							ok = false
						}
					}
				}
			}
			c.Check(ok, "R22", "memstore.Add/Generation-assigned-by-store", add.Pos(), "Generation is taken from the clock by the store before the record is inserted", "memstore.Add does not assign a fresh generation: the caller's value (or the old one) survives a content write")
			rm := storeMethod(P, "filestore", "ReadMeta")
			ok = false
			for _, st := range storesToObjFieldIn(storeScope(P, rm), "Generation") {
				if call, isCall := core.Resolve(st.Val).(*ssa.Call); isCall && call.Call.StaticCallee() != nil && call.Call.StaticCallee().Name() == "UnixNano" {
					ok = true
				}
			}
			c.Check(ok, "R22", "filestore.ReadMeta/Generation-from-mtime", rm.Pos(), "Generation is derived from the content file's modification time", "filestore.ReadMeta does not derive Generation from the file's mtime")
		}
		// ---- filestore specifics
		{
			um := storeMethod(P, "filestore", "UpdateMeta")
			okOnly := true
			n := 0
			for _, f := range storeScope(P, um) {
				for _, ci := range core.AllCalls(f) {
					if ci.Static != nil && ci.Static.Pkg != nil && fsMutators[ci.Static.Pkg.Pkg.Path()+"."+ci.Static.Name()] {
						n++
						if !(ci.IsFunc("os", "WriteFile") && sidecarPath(P, ci.Common.Args[0], nil)) {
							okOnly = false
						}
					}
				}
			}
			c.Check(okOnly && n == 1, "R22", "filestore.UpdateMeta/writes-only-the-sidecar", um.Pos(), "the only file written is metaFilename(...)", "filestore.UpdateMeta writes something other than the metadata sidecar: a patch can change content, size or generation (mtime)")
			add := storeMethod(P, "filestore", "Add")
			var content, mtime, meta, contentNoTrunc ssa.Instruction
			addScope := storeScope(P, add)
			addSet := setOf(addScope)
			for _, f := range addScope {
				for _, ci := range core.AllCalls(f) {
					switch {
					case ci.IsFunc("os", "WriteFile") && sidecarPath(P, ci.Common.Args[0], nil):
						meta = ci.Instr
					case ci.IsFunc("os", "WriteFile"):
						if contentPath(P, ci.Common.Args[0], addSet) {
							content = ci.Instr
						}
					case ci.IsFunc("os", "Create"):
						if contentPath(P, ci.Common.Args[0], addSet) {
							content = ci.Instr
						}
					case ci.IsFunc("os", "OpenFile"):
						// an explicit open replaces the old content only with O_TRUNC
						if contentPath(P, ci.Common.Args[0], addSet) {
							if flags, isK := core.ConstInt(ci.Common.Args[1]); isK && flags&int64(os.O_TRUNC) != 0 {
								content = ci.Instr
							} else {
								contentNoTrunc = ci.Instr
							}
						}
					case ci.IsFunc("os", "Chtimes"):
						mtime = ci.Instr
					}
				}
			}
			okAdd := content != nil && meta != nil && mtime != nil && P.InterDominates(add, content, mtime, addSet) && P.InterDominates(add, mtime, meta, addSet)
			if contentNoTrunc != nil {
				c.Bad("R22", "filestore.Add/content-write-truncates", contentNoTrunc.Pos(), "the content file is opened for writing without O_TRUNC: overwriting an object with a shorter payload leaves the tail of the old bytes in place (served content, size and md5 disagree)")
			} else {
				c.Ok("R22", "filestore.Add/content-write-truncates", add.Pos(), true, "the content file is replaced by a truncating write")
			}
			c.Check(okAdd, "R22", "filestore.Add/content-mtime-sidecar", add.Pos(), "writes the content file, forces a fresh mtime (= generation), then writes the sidecar", "filestore.Add does not write content, refresh the mtime and write the sidecar in that order: the object is incomplete or its generation does not change on overwrite")
			del := storeMethod(P, "filestore", "Delete")
			rmContent, rmMeta := false, false
			for _, f := range storeScope(P, del) {
				for _, ci := range core.AllCalls(f) {
					if ci.IsFunc("os", "Remove") {
						if sidecarPath(P, ci.Common.Args[0], nil) {
							rmMeta = true
						} else {
							rmContent = true
						}
					}
				}
			}
			// pruning of emptied directories stops strictly below the bucket directory: a removal inside a
			// loop is guarded by `len(dir) > len(bucketDir)` (or dir != bucketDir), never by `>=` — with `>=`
			// deleting the last object removes the bucket itself (the stores then disagree on its existence)
			for _, f := range storeScope(P, del) {
				for _, ci := range core.AllCalls(f) {
					if !ci.IsFunc("os", "Remove") || !inLoop(ci.Instr.Block()) {
						continue
					}
					strict, loose, rootBound := false, false, false
					for _, fct := range core.FactsAt(ci.Instr.Block()) {
						l, op, r, isCmp := cmpNorm(fct)
						if !isCmp {
							continue
						}
						la, ra := lenArg(l), lenArg(r)
						if la != nil && ra != nil {
							// which side is the bucket directory (a content path built without an object name)?
							lb, rb := contentPath(P, la, nil), contentPath(P, ra, nil)
							// a bound taken from the store's root directory instead (no bucket in it)
							isRoot := func(v ssa.Value, isContent bool) bool {
								return !isContent && flowsFrom(P, v, func(x ssa.Value) bool {
									ld, ok := x.(*ssa.UnOp)
									if !ok || ld.Op != token.MUL {
										return false
									}
									fa, ok := ld.X.(*ssa.FieldAddr)
									if !ok {
										return false
									}
									_, fname, _ := core.FieldName(fa)
									return fname == "gcsDir"
								}, map[ssa.Value]bool{}, 0)
							}
							if isRoot(la, lb) || isRoot(ra, rb) {
								rootBound = true
							}
							if lb == rb {
								continue
							}
							if rb { // len(dir) OP len(bucketDir)
								strict = strict || op == token.GTR
								loose = loose || op == token.GEQ
							} else { // len(bucketDir) OP len(dir)
								strict = strict || op == token.LSS
								loose = loose || op == token.LEQ
							}
						}
						if op == token.NEQ && isStringType(l.Type()) && (contentPath(P, l, nil) != contentPath(P, r, nil)) {
							strict = true
						}
					}
					// containment in the bucket directory (`strings.HasPrefix(dir, bucketDir)`) holds for the bucket directory itself
					for _, fct := range core.FactsAt(ci.Instr.Block()) {
						if hp, isC := core.Resolve(fct.Cond).(*ssa.Call); isC && fct.Polarity && core.Call(hp).IsFunc("strings", "HasPrefix") && contentPath(P, hp.Call.Args[1], nil) {
							loose = true
						}
					}
					if strict {
						c.Ok("R22", "filestore.Delete/pruning-stops-below-the-bucket", ci.Instr.Pos(), true, "directory removal is guarded by a strict comparison with the bucket directory")
					} else if rootBound {
						c.Bad("R22", "filestore.Delete/pruning-stops-below-the-bucket", ci.Instr.Pos(), "the loop that prunes emptied directories is bounded by the store's root directory, not by the bucket directory: deleting a bucket's last object removes the (now empty) bucket directory too, and the bucket vanishes from the file store while the memory store keeps it")
					} else if loose {
						c.Bad("R22", "filestore.Delete/pruning-stops-below-the-bucket", ci.Instr.Pos(), "the loop that prunes emptied directories may also remove the bucket directory (non-strict bound): deleting a bucket's last object deletes the bucket in the file store but not in the memory store")
					}
				}
			}
			// a recursive removal is for buckets only: an object name that is a directory of other objects
			// (`reports/2023`) must not take them with it
			for _, f := range storeScope(P, del) {
				for _, ci := range core.AllCalls(f) {
					if !ci.IsFunc("os", "RemoveAll") {
						continue
					}
					isEmptyNameTest := func(v ssa.Value) bool {
						bin, isBin := core.Resolve(v).(*ssa.BinOp)
						if !isBin || bin.Op != token.EQL {
							return false
						}
						if sv, isS := core.ConstString(bin.Y); isS && sv == "" && isStringType(bin.X.Type()) {
							return true
						}
						sv, isS := core.ConstString(bin.X)
						return isS && sv == "" && isStringType(bin.Y.Type())
					}
					bucketOnly := P.InAllContexts(ci.Instr, nil, nil, func(at ssa.Instruction, _ []ssa.Value) bool {
						for _, fct := range core.FactsAt(at.Block()) {
							// a flag computed by the caller: `removePath(f, filename == "")` … `if isBucket {`
							if _, isParam := core.Resolve(fct.Cond).(*ssa.Parameter); isParam && fct.Polarity && isBoolType(fct.Cond.Type()) {
								if P.AllOrigins(fct.Cond, nil, isEmptyNameTest) {
									return true
								}
							}
							l, op, r, isCmp := cmpNorm(fct)
							if !isCmp || op != token.EQL {
								continue
							}
							if sv, isS := core.ConstString(r); isS && sv == "" && isStringType(l.Type()) {
								return true
							}
							if sv, isS := core.ConstString(l); isS && sv == "" && isStringType(r.Type()) {
								return true
							}
						}
						return false
					})
					c.Check(bucketOnly, "R22", "filestore.Delete/recursive-removal-only-for-buckets", ci.Instr.Pos(), "os.RemoveAll is reached only when the object name is empty (bucket deletion)", "filestore.Delete removes recursively for an object name: deleting a name that is a path prefix of other objects deletes them too (the memory store deletes exactly one object)")
				}
			}
			// Get classifies the name through GetMeta (missing / directory ⇒ not found) before it reads content
			if get := storeMethod(P, "filestore", "Get"); get != nil {
				gscope := storeScope(P, get)
				gset := setOf(gscope)
				var metaCall ssa.Instruction
				for _, ci := range core.AllCalls(get) {
					if ci.Static != nil && core.FuncName(ci.Static) == "(*filestore).GetMeta" {
						metaCall = ci.Instr
					}
				}
				for _, ci := range core.CallsIn(gscope, func(ci *core.CallInfo) bool { return ci.IsFunc("os", "ReadFile") || ci.IsFunc("os", "Open") }) {
					okOrd := metaCall != nil && P.InterDominates(get, metaCall, ci.Instr, gset)
					c.Check(okOrd, "R22", "filestore.Get/metadata-lookup-before-content-read", ci.Instr.Pos(), "the content is read only after GetMeta has classified the name", "filestore.Get reads the content file before GetMeta has classified the name: a name that is a directory of other objects answers 500 (EISDIR) where the memory store answers 404")
				}
			}
			c.Check(rmContent && rmMeta, "R22", "filestore.Delete/removes-content-and-sidecar", del.Pos(), "removes the content file and its sidecar", "filestore.Delete leaves the content file or the metadata sidecar behind: a re-created object inherits stale metadata")
			// ReadMeta tolerates a missing sidecar
			rm := storeMethod(P, "filestore", "ReadMeta")
			okTol := false
			for _, ci := range core.CallsIn(storeScope(P, rm), func(ci *core.CallInfo) bool { return ci.IsFunc("os", "ReadFile") }) {
				call := ci.Instr.(*ssa.Call)
				// every error return that is dominated by `readErr != nil` must also be dominated by `!os.IsNotExist(readErr)`
				okTol = true
				for _, r := range returnsIn(call.Parent()) {
					underRead := false
					notExistExcluded := false
					for _, f := range core.FactsAt(r.Block()) {
						if b, isB := f.Cond.(*ssa.BinOp); isB && core.IsNilConst(b.Y) && (b.Op == token.NEQ) == f.Polarity {
							if ex, isEx := core.Resolve(b.X).(*ssa.Extract); isEx && ex.Tuple == ssa.Value(call) {
								underRead = true
							}
						}
						if cl, isCall := core.Resolve(f.Cond).(*ssa.Call); isCall && core.Call(cl).IsFunc("os", "IsNotExist") && !f.Polarity {
							notExistExcluded = true
						}
					}
					// any return — an error, or a silent "not found" — taken because the sidecar could
					// not be read must have excluded the plain "does not exist" case first
					if underRead && !notExistExcluded {
						okTol = false
					}
				}
			}
			c.Check(okTol, "R22", "filestore.ReadMeta/missing-sidecar-tolerated", rm.Pos(), "a missing sidecar is not an error", "filestore.ReadMeta fails when the metadata sidecar is missing: legacy content files are not served")
			// gcsemulator wires -dir to the file store
			if main := P.Func(core.PkgGcsemuCmd, "main"); main != nil {
				okDir := false
				for _, ci := range core.AllCalls(main) {
					if ci.IsFunc(core.PkgGcsemu, "NewFileStore") {
						if l1, ok := core.Strip(ci.Common.Args[0]).(*ssa.UnOp); ok {
							if l2, ok := l1.X.(*ssa.UnOp); ok {
								if g, ok := l2.X.(*ssa.Global); ok && g.Name() == "dir" {
									// and the result lands in opts.Store
									for _, r := range core.Referrers(ci.Instr.(*ssa.Call)) {
										if mi, ok := r.(*ssa.MakeInterface); ok {
											for _, rr := range core.Referrers(mi) {
												if st, ok := rr.(*ssa.Store); ok {
													if fa, ok := st.Addr.(*ssa.FieldAddr); ok {
														if _, f, _ := core.FieldName(fa); f == "Store" {
															okDir = true
														}
													}
												}
											}
										}
									}
								}
							}
						}
					}
				}
				c.Check(okDir, "R22", "gcsemulator/dir-wiring", main.Pos(), "-dir selects NewFileStore(*dir) as the emulator's store", "gcsemulator does not use the -dir directory for its store")
			}
		}
	}}
}

// ---------------------------------------------------------------------------
// R27: ordering contract of Store.Walk and page-token codec agreement
// ---------------------------------------------------------------------------

func R27() Rule {
	return Rule{Name: "R27", Run: func(c *core.Ctx) {
		P := c.P
		for _, s := range []string{"memstore", "filestore"} {
			w := storeMethod(P, s, "Walk")
			c.Fn(core.FuncName(w))
			orderedContainer, dirWalk, sorts := false, "", false
			transitiveCalls(P, w, map[*ssa.Function]bool{}, func(from *ssa.Function, ci *core.CallInfo) {
				if ci.MethodOn(pkgBtree, "BTree", "Ascend") || ci.MethodOn(pkgBtree, "BTree", "AscendGreaterOrEqual") || ci.MethodOn(pkgBtree, "BTree", "AscendRange") {
					orderedContainer = true
				}
				if ci.Static != nil && ci.Static.Pkg != nil {
					switch ci.Static.Pkg.Pkg.Path() + "." + ci.Static.Name() {
					case "path/filepath.Walk", "path/filepath.WalkDir", "os.ReadDir", "io/ioutil.ReadDir":
						dirWalk = ci.Static.Pkg.Pkg.Name() + "." + ci.Static.Name()
					case "sort.Strings", "sort.Slice", "sort.SliceStable", "sort.Sort", "slices.Sort", "slices.SortFunc":
						sorts = true
					}
				}
			})
			switch {
			case orderedContainer && dirWalk == "":
				c.Ok("R27", s+".Walk/order", w.Pos(), true, "enumerates an ordered container (btree Ascend)")
			case dirWalk != "" && !sorts:
				c.Bad("R27", s+".Walk/order", w.Pos(), "the enumeration order is delegated to %s (per-directory lexical order): it differs from ascending bytewise order of the full object name whenever a sibling name contains a byte below '/' (\"a.txt\" vs \"a/b\"), which makeBucketListResults' cursor and early-exit logic assume — objects are skipped or listed out of order", dirWalk)
			case dirWalk != "" && sorts:
				c.Ok("R27", s+".Walk/order", w.Pos(), true, "directory enumeration is re-sorted before the callback")
			default:
				c.Unknown("R27", s+".Walk/order", w.Pos(), "cannot tell where this Walk gets its order from")
			}
		}
		// memFile.Less is ascending by full name
		less := P.Func(core.PkgGcsemu, "(*memFile).Less")
		if less == nil {
			c.Unknown("R27", "memFile.Less", token.NoPos, "anchor gone")
		} else {
			ok, why := tsComparison(less, func(l, r ssa.Value, op token.Token) bool {
				side := func(v ssa.Value) string {
					ch := fieldChain(v)
					if len(ch) == 0 || ch[len(ch)-1] != "Name" {
						return "?"
					}
					// receiver or argument?
					for i := 0; i < 10; i++ {
						v = core.Resolve(v)
						switch x := v.(type) {
						case *ssa.UnOp:
							v = x.X
						case *ssa.FieldAddr:
							v = x.X
						case *ssa.Field:
							v = x.X
						case *ssa.TypeAssert:
							return "arg"
						case *ssa.Parameter:
							if x == less.Params[0] {
								return "recv"
							}
							return "arg"
						default:
							return "?"
						}
					}
					return "?"
				}
				a, b := side(l), side(r)
				return (a == "recv" && b == "arg" && op == token.LSS) || (a == "arg" && b == "recv" && op == token.GTR)
			})
			c.Check(ok, "R27", "memFile.Less/ascending-by-name", less.Pos(), "recv.Name < arg.Name", "the memory store's object order is not ascending bytewise by name ("+why+")")
		}
		// codec agreement
		enc := P.MustFunc(core.PkgGcsutil, "EncodePageToken")
		dec := P.MustFunc(core.PkgGcsutil, "DecodePageToken")
		encoding := func(fn *ssa.Function, method string) string {
			for _, ci := range core.AllCalls(fn) {
				if ci.Static != nil && ci.Static.Pkg != nil && ci.Static.Pkg.Pkg.Path() == "encoding/base64" && ci.Static.Name() == method {
					if ld, ok := core.Strip(ci.Common.Args[0]).(*ssa.UnOp); ok {
						if g, ok := ld.X.(*ssa.Global); ok {
							return g.Name()
						}
					}
				}
			}
			return ""
		}
		e, d := encoding(enc, "EncodeToString"), encoding(dec, "DecodeString")
		c.Check(e != "" && e == d, "R27", "pagetoken/same-base64-alphabet", enc.Pos(), "both directions use base64."+e, fmt.Sprintf("EncodePageToken uses base64.%s but DecodePageToken uses base64.%s: tokens handed out cannot be read back", e, d))
		fieldOf := func(fn *ssa.Function) string {
			var names []string
			for _, b := range fn.Blocks {
				for _, in := range b.Instrs {
					if fa, ok := in.(*ssa.FieldAddr); ok && core.TypeIs(fa.X.Type(), core.PkgGcsutil, "GcsPageToken") {
						_, f, _ := core.FieldName(fa)
						if f != "" && f[0] >= 'A' && f[0] <= 'Z' {
							names = append(names, f)
						}
					}
				}
			}
			return strings.Join(dedup(names), ",")
		}
		fe, fd := fieldOf(enc), fieldOf(dec)
		c.Check(fe != "" && fe == fd, "R27", "pagetoken/same-field", enc.Pos(), "both directions use GcsPageToken."+fe, fmt.Sprintf("the token is written to field %q and read from field %q", fe, fd))
	}}
}

// ---------------------------------------------------------------------------
// R25: reachable explicit panics and unchecked type assertions
// ---------------------------------------------------------------------------

// panicTable: functions that may panic explicitly, with the reason it is not
// reachable by request content (or is the documented reaction).
var panicTable = map[string]string{
	"fromProto":                         "unmarshal of bytes this process marshalled itself",
	"toProto":                           "marshal of an in-memory message",
	"(*leveldbRows).Delete":             "storage I/O failure",
	"(*leveldbRows).Get":                "storage I/O failure",
	"(*leveldbRows).ReplaceOrInsert":    "storage I/O failure",
	"(*leveldbRows).Clear":              "storage I/O failure",
	"(*leveldbRows).Close":              "storage I/O failure",
	"(*leveldbRows).ascendRange":        "storage I/O failure",
	"newMemDb":                          "storage I/O failure at table creation",
	"newDiskDb":                         "storage I/O failure at table creation",
	"BtreeStorage.Open":                 "never called: GetTables returns nil",
	"LeveldbMemStorage.Open":            "never called: GetTables returns nil",
	"LeveldbDiskStorage.SetTableMeta":   "marshal of an in-memory message",
	"mustJson":                          "marshal of an in-memory value",
	"EncodePageToken":                   "marshal of an in-memory message",
	"(*TransientLockMap).Unlock":        "API misuse: unlock of an unheld key (documented)",
	"(*TransientLockMap).returnLockObj": "internal invariant (negative refcount)",
	"(*countedLock).Unlock":             "API misuse: unlock of an unheld lock (documented)",
}

// panicOnTrustedFailure: the panic's argument is the error of a call whose failure is not
// request-controlled — a leveldb operation (storage I/O) or the marshalling of an in-memory
// value — and the panic sits on that error's non-nil edge.
func panicOnTrustedFailure(x *ssa.Panic) (string, bool) {
	v := ssa.Value(x.X)
	for i := 0; i < 4; i++ {
		switch y := v.(type) {
		case *ssa.MakeInterface:
			v = y.X
			continue
		case *ssa.ChangeInterface:
			v = y.X
			continue
		}
		break
	}
	v = core.Resolve(v)
	var call *ssa.Call
	switch y := v.(type) {
	case *ssa.Extract:
		call, _ = y.Tuple.(*ssa.Call)
	case *ssa.Call:
		call = y
	}
	if call == nil || !isErrorType(v.Type()) {
		return "", false
	}
	g := call.Call.StaticCallee()
	if g == nil || g.Pkg == nil {
		return "", false
	}
	if !errNonNilEdge(call, x.Block()) {
		return "", false
	}
	path := g.Pkg.Pkg.Path()
	switch {
	case strings.HasPrefix(path, "github.com/syndtr/goleveldb"):
		return "storage I/O failure (" + g.Name() + ")", true
	case path == "encoding/json" && (g.Name() == "Marshal" || g.Name() == "MarshalIndent"):
		return "marshal of an in-memory value", true
	case path == "google.golang.org/protobuf/proto" && g.Name() == "Marshal":
		return "marshal of an in-memory message", true
	}
	return "", false
}

func R25() Rule {
	return Rule{Name: "R25", Run: func(c *core.Ctx) {
		P := c.P
		pkgs := []string{core.PkgBttest, core.PkgGcsemu, core.PkgGcsutil}
		nPanic, nAssert := 0, 0
		for _, pkg := range pkgs {
			if P.SPkgs[pkg] == nil {
				continue
			}
			for _, fn := range P.SrcFuncs(pkg) {
				if P.IsGenerated(fn.Pos()) {
					continue
				}
				root := core.FuncName(core.Root(fn))
				k := 0
				for _, b := range fn.Blocks {
					for _, in := range b.Instrs {
						switch x := in.(type) {
						case *ssa.Panic:
							if mi, ok := x.X.(*ssa.MakeInterface); ok {
								if cs, ok := core.ConstString(mi.X); ok && strings.HasPrefix(cs, "blocking select matched no case") {
									continue // synthetic, unreachable: go/ssa's lowering of a select without default
								}
							}
							nPanic++
							k++
							construct := fmt.Sprintf("panic/%s#%d", core.FuncName(fn), k)
							if why, ok := tableOrHelperOf(P, core.Root(fn), panicTable); ok {
								c.Ok("R25", construct, x.Pos(), false, "tabled: %s", why)
							} else if why, ok := panicOnTrustedFailure(x); ok {
								// the reason travels with the code: what failed is a storage engine call or the
								// marshalling of an in-memory value, wherever the helper that did it was inlined
								c.Ok("R25", construct, x.Pos(), false, "reasoned by its cause: %s", why)
							} else {
								c.Bad("R25", construct, x.Pos(), "explicit panic in %s, which is not in the table of reasoned panics: if a request can reach it, it kills the gRPC process / the HTTP connection", root)
							}
						case *ssa.TypeAssert:
							if x.CommaOk {
								continue
							}
							// assertion to a concrete type on a value from a container
							if _, isIface := x.AssertedType.Underlying().(*types.Interface); isIface {
								continue
							}
							nAssert++
							construct := fmt.Sprintf("assert/%s/%s", core.FuncName(fn), typeLabel(x.AssertedType))
							ok, why := assertionBacked(P, fn, x)
							if ok {
								c.Ok("R25", construct, x.Pos(), true, "%s", why)
							} else {
								c.Bad("R25", construct, x.Pos(), "unchecked type assertion to %s: %s", typeLabel(x.AssertedType), why)
							}
						}
					}
				}
			}
		}
		if nPanic < 5 {
			c.Unknown("R25", "floor/panics", token.NoPos, "only %d explicit panics found", nPanic)
		}
		if nAssert < 2 {
			c.Unknown("R25", "floor/assertions", token.NoPos, "only %d unchecked type assertions found", nAssert)
		}
	}}
}

// assertionBacked: every value put into the container the asserted value comes
// from has the asserted type.
func assertionBacked(P *core.Program, fn *ssa.Function, ta *ssa.TypeAssert) (bool, string) {
	want := ta.AssertedType
	pkg := core.Root(fn).Pkg.Pkg.Path()
	checkInserts := func(pred func(ci *core.CallInfo) (ssa.Value, bool), what string) (bool, string) {
		n := 0
		for _, f := range P.SrcFuncs(pkg) {
			for _, ci := range core.AllCalls(f) {
				v, ok := pred(ci)
				if !ok {
					continue
				}
				n++
				mi, isMI := v.(*ssa.MakeInterface)
				if !isMI {
					// an interface value passed through (e.g. key built by a helper returning the item type)
					if call, isCall := core.Resolve(v).(*ssa.Call); isCall && call.Call.StaticCallee() != nil {
						okAll := true
						for _, r := range returnsIn(call.Call.StaticCallee()) {
							for _, rv := range returnValues(r.Results[0]) {
								if m2, ok := core.Strip(rv).(*ssa.MakeInterface); !ok || !types.Identical(m2.X.Type(), want) {
									if !types.Identical(core.Strip(rv).Type(), want) {
										okAll = false
									}
								}
							}
						}
						if okAll {
							continue
						}
					}
					return false, fmt.Sprintf("a value of unknown dynamic type is put into the %s at %s", what, P.Pos(ci.Instr.Pos()))
				}
				if !types.Identical(mi.X.Type(), want) {
					return false, fmt.Sprintf("a %s is put into the %s at %s", mi.X.Type(), what, P.Pos(ci.Instr.Pos()))
				}
			}
		}
		if n == 0 {
			return false, "no insertion into the " + what + " found"
		}
		return true, fmt.Sprintf("all %d values put into the %s have that type", n, what)
	}
	src := core.Resolve(ta.X)
	// proto.Clone(x).(*T) with x a *T: Clone preserves the dynamic type
	if call, ok := src.(*ssa.Call); ok && core.Call(call).IsFunc("google.golang.org/protobuf/proto", "Clone") {
		if mi, ok := call.Call.Args[0].(*ssa.MakeInterface); ok && types.Identical(mi.X.Type(), want) {
			return true, "proto.Clone of a value of that very type"
		}
		return false, "proto.Clone of a value whose static type differs from the asserted one"
	}
	// gcache lookup
	if ex, ok := src.(*ssa.Extract); ok {
		if call, ok := ex.Tuple.(*ssa.Call); ok && call.Call.IsInvoke() && strings.HasPrefix(call.Call.Method.Name(), "Get") && core.TypeIs(call.Call.Value.Type(), "github.com/bluele/gcache", "Cache") {
			return checkInserts(func(ci *core.CallInfo) (ssa.Value, bool) {
				if ci.Method != nil && ci.Method.Name() == "Set" && core.TypeIs(ci.IfaceRecv, "github.com/bluele/gcache", "Cache") {
					return ci.Common.Args[1], true
				}
				return nil, false
			}, "upload cache")
		}
	}
	// sync.Pool: pool.Get().(*T) — every Put into that pool and the pool's New function yield a *T
	if call, ok := src.(*ssa.Call); ok && core.Call(call).MethodOn("sync", "Pool", "Get") && len(call.Call.Args) == 1 {
		poolOf := func(recv ssa.Value) ssa.Value {
			recv = core.Resolve(recv)
			if g, ok := recv.(*ssa.Global); ok {
				return g
			}
			if fa, ok := recv.(*ssa.FieldAddr); ok {
				return fa // (type, field) identity is decided below by position of the field
			}
			return nil
		}
		samePool := func(a, b ssa.Value) bool {
			if a == nil || b == nil {
				return false
			}
			if ga, ok := a.(*ssa.Global); ok {
				return ga == b
			}
			fa, ok1 := a.(*ssa.FieldAddr)
			fb, ok2 := b.(*ssa.FieldAddr)
			return ok1 && ok2 && fa.Field == fb.Field && types.Identical(fa.X.Type(), fb.X.Type())
		}
		pool := poolOf(call.Call.Args[0])
		if pool == nil {
			return false, "sync.Pool whose identity cannot be established"
		}
		hasNew := false
		for _, f := range P.RepoFuncs() {
			if core.PkgPathOf(f) != pkg {
				continue
			}
			for _, b := range f.Blocks {
				for _, in := range b.Instrs {
					// the New function of the pool (composite literal in the package initialiser or a constructor)
					if st, ok := in.(*ssa.Store); ok {
						if fa, ok := st.Addr.(*ssa.FieldAddr); ok {
							if _, fname, _ := core.FieldName(fa); fname == "New" && core.TypeIs(fa.X.Type(), "sync", "Pool") && samePool(poolOf(fa.X), pool) {
								nf := closureOf(st.Val)
								if nf == nil {
									return false, "the pool's New function cannot be resolved"
								}
								hasNew = true
								for _, r := range returnsIn(nf) {
									for _, rv := range returnValues(r.Results[0]) {
										m2, ok := core.Strip(rv).(*ssa.MakeInterface)
										if (!ok || !types.Identical(m2.X.Type(), want)) && !types.Identical(core.Strip(rv).Type(), want) {
											return false, fmt.Sprintf("the pool's New function returns a value that is not a %s (%s)", want, P.Pos(r.Pos()))
										}
									}
								}
							}
						}
					}
					ci := core.Call(in)
					if ci == nil || !ci.MethodOn("sync", "Pool", "Put") || len(ci.Common.Args) != 2 {
						continue
					}
					if !samePool(poolOf(ci.Common.Args[0]), pool) {
						continue
					}
					mi, ok := ci.Common.Args[1].(*ssa.MakeInterface)
					if (!ok || !types.Identical(mi.X.Type(), want)) && !types.Identical(core.Strip(ci.Common.Args[1]).Type(), want) {
						return false, fmt.Sprintf("a value that is not a %s is put into the pool at %s", want, P.Pos(in.Pos()))
					}
				}
			}
		}
		if !hasNew {
			return false, "the pool has no New function: Get returns nil when the pool is empty and the assertion panics"
		}
		return true, "every Put into the pool and its New function yield that type"
	}
	// btree item: callback parameter, Get result, or Less argument
	isItem := core.TypeIs(ta.X.Type(), pkgBtree, "Item")
	if isItem {
		return checkInserts(func(ci *core.CallInfo) (ssa.Value, bool) {
			for _, m := range []string{"ReplaceOrInsert", "Get", "Delete", "Has", "AscendRange", "AscendLessThan", "AscendGreaterOrEqual"} {
				if ci.MethodOn(pkgBtree, "BTree", m) {
					// all Item arguments
					for _, a := range ci.Common.Args[1:] {
						if core.TypeIs(a.Type(), pkgBtree, "Item") {
							return a, true
						}
					}
				}
			}
			return nil, false
		}, "btree")
	}
	return false, "the asserted value does not come from a container whose insertions can be enumerated"
}

// ---------------------------------------------------------------------------
// R32: multi-step store operations need the object lock on both sides
// ---------------------------------------------------------------------------

// R32: if a store implementation's Add consists of several separate
// file-system writes and its Get/GetMeta of several separate reads, a reader
// can pair new content with old metadata unless every handler read of that
// object happens inside the object's critical section.
func R32() Rule {
	return Rule{Name: "R32", Run: func(c *core.Ctx) {
		P := c.P
		countOps := func(fn *ssa.Function, names map[string]bool) int {
			n := 0
			transitiveCalls(P, fn, map[*ssa.Function]bool{}, func(from *ssa.Function, ci *core.CallInfo) {
				if ci.Static != nil && ci.Static.Pkg != nil && names[ci.Static.Pkg.Pkg.Path()+"."+ci.Static.Name()] {
					n++
				}
			})
			return n
		}
		readers := map[string]bool{"os.ReadFile": true, "os.Stat": true, "os.Open": true, "io/ioutil.ReadFile": true}
		writers := map[string]bool{"os.WriteFile": true, "os.Chtimes": true, "os.Rename": true}
		for _, s := range []string{"memstore", "filestore"} {
			add := storeMethod(P, s, "Add")
			get := storeMethod(P, s, "Get")
			w, r := countOps(add, writers), countOps(get, readers)
			if w < 2 || r < 2 {
				c.Ok("R32", s+"/atomic-record", add.Pos(), true, "Add publishes the record in one step (%d file writes) / Get reads it in one step (%d file reads): readers see whole records", w, r)
				continue
			}
			// multi-step: every handler read must be under the object lock
			unlocked := 0
			var first token.Pos
			for _, fn := range P.SrcFuncs(core.PkgGcsemu) {
				if r := core.Root(fn); r.Signature.Recv() != nil {
					if nm := core.NamedOf(r.Signature.Recv().Type()); nm != nil && (core.TName(nm) == "memstore" || core.TName(nm) == "filestore") {
						continue
					}
				}
				for _, ci := range core.AllCalls(fn) {
					if !isStoreCall(ci, "Get", "GetMeta") {
						continue
					}
					inSection := false
					if sec, _ := sectionOfClosure(P, fn); sec != nil {
						inSection = true
					}
					if fn.Parent() == nil && core.FuncName(fn) == "(*GcsEmu).finishCompose" {
						inSection = true // called from the compose critical section (R11)
					}
					if !inSection {
						unlocked++
						if first == token.NoPos {
							first = ci.Instr.Pos()
						}
					}
				}
			}
			if unlocked == 0 {
				c.Ok("R32", s+"/readers-under-object-lock", add.Pos(), true, "multi-step Add/Get, but every handler read is inside the object's critical section")
			} else {
				c.Bad("R32", s+"/readers-under-object-lock", first, "%s.Add is %d separate file operations and %s.Get %d separate reads, yet %d handler reads (first here) run outside the object's critical section: a GET concurrent with an overwrite can pair new content with old metadata / generation", s, w, s, r, unlocked)
			}
		}
	}}
}
