package rules

import (
	"fmt"
	"go/token"
	"go/types"
	"strings"

	"golang.org/x/tools/go/ssa"

	"verif/internal/core"
)

// Only8 names one group of R08 instances.
func Only8(group string) string { return group }

// ---- fact helpers -----------------------------------------------------------

func factCallTrue(at *ssa.BasicBlock, pred func(call *ssa.Call) bool) bool {
	for _, f := range core.FactsAt(at) {
		if !f.Polarity {
			continue
		}
		if call, ok := core.Resolve(f.Cond).(*ssa.Call); ok && pred(call) {
			return true
		}
	}
	return false
}

func factLookupOk(at *ssa.BasicBlock, pred func(lk *ssa.Lookup) bool) bool {
	for _, f := range core.FactsAt(at) {
		if !f.Polarity {
			continue
		}
		if ex, ok := core.Resolve(f.Cond).(*ssa.Extract); ok && ex.Index == 1 {
			if lk, ok := ex.Tuple.(*ssa.Lookup); ok && pred(lk) {
				return true
			}
		}
	}
	return false
}

// isLiveFamilies: v is the table's live column-family map (table.def.ColumnFamilies
// read in this function, or the result of (*table).cols()), not a cached copy.
func isLiveFamilies(v ssa.Value) bool {
	v = core.Resolve(v)
	switch x := v.(type) {
	case *ssa.Call:
		return core.FuncIs(x.Call.StaticCallee(), core.PkgBttest, "(*table).cols")
	case *ssa.UnOp:
		if fa, ok := x.X.(*ssa.FieldAddr); ok {
			if _, f, _ := core.FieldName(fa); f == "ColumnFamilies" {
				if ld, ok := core.Resolve(fa.X).(*ssa.UnOp); ok {
					if fa2, ok := ld.X.(*ssa.FieldAddr); ok {
						_, f2, _ := core.FieldName(fa2)
						return f2 == "def" && core.TypeIs(fa2.X.Type(), core.PkgBttest, "table")
					}
				}
			}
		}
	}
	return false
}

// sameField: two values are loads of the same field of the same message.
func sameFieldLoad(a, b ssa.Value) bool {
	a, b = core.Resolve(a), core.Resolve(b)
	if a == b {
		return true
	}
	ka, kb := fieldLoadKey(a), fieldLoadKey(b)
	return ka != "" && ka == kb
}

func callsTo(fn *ssa.Function, pkg, name string) []*ssa.Call {
	var out []*ssa.Call
	for _, ci := range core.AllCalls(fn) {
		if call, ok := ci.Instr.(*ssa.Call); ok && ci.IsFunc(pkg, name) {
			out = append(out, call)
		}
	}
	return out
}

func loadsField(v ssa.Value, field string) bool {
	if ld, ok := core.Resolve(v).(*ssa.UnOp); ok && ld.Op == token.MUL {
		if fa, ok := ld.X.(*ssa.FieldAddr); ok {
			_, f, _ := core.FieldName(fa)
			return f == field
		}
	}
	return false
}

// reachableWithoutEdges: is `to` reachable from the entry of fn when the given
// CFG edges are removed?
type cfgEdge struct{ from, to *ssa.BasicBlock }

func reachableWithoutEdges(fn *ssa.Function, to *ssa.BasicBlock, cut []cfgEdge) bool {
	isCut := func(a, b *ssa.BasicBlock) bool {
		for _, e := range cut {
			if e.from == a && e.to == b {
				return true
			}
		}
		return false
	}
	seen := map[*ssa.BasicBlock]bool{fn.Blocks[0]: true}
	stack := []*ssa.BasicBlock{fn.Blocks[0]}
	for len(stack) > 0 {
		b := stack[len(stack)-1]
		stack = stack[:len(stack)-1]
		if b == to {
			return true
		}
		for _, s := range b.Succs {
			if isCut(b, s) || seen[s] {
				continue
			}
			seen[s] = true
			stack = append(stack, s)
		}
	}
	return false
}

func isInvalidArgumentStatus(v ssa.Value) bool {
	call, ok := core.Resolve(v).(*ssa.Call)
	if !ok {
		return false
	}
	sc := call.Call.StaticCallee()
	if sc == nil || sc.Pkg == nil || sc.Pkg.Pkg.Path() != "google.golang.org/grpc/status" {
		return false
	}
	if sc.Name() != "Errorf" && sc.Name() != "Error" {
		return false
	}
	code, ok := core.ConstInt(call.Call.Args[0])
	return ok && code == 3 // codes.InvalidArgument
}

// familyNameFeeding finds, for a cells value/slot that comes from
// getOrCreateColumn(getOrCreateFamily(r, NAME), _) or getColumn(getFamily(r, NAME), _),
// the NAME argument.
func familyNameFeeding(v ssa.Value) ssa.Value {
	for i := 0; i < 8; i++ {
		v = core.Resolve(v)
		switch x := v.(type) {
		case *ssa.UnOp:
			v = x.X
		case *ssa.FieldAddr:
			v = x.X
		case *ssa.Extract:
			v = x.Tuple // a lookup that returns (x, ok)
		case *ssa.Call:
			sc := x.Call.StaticCallee()
			if sc == nil {
				return nil
			}
			switch core.FuncName(sc) {
			case "getOrCreateColumn", "getColumn":
				v = x.Call.Args[0]
			case "getOrCreateFamily", "getFamily":
				return x.Call.Args[1]
			default:
				return nil
			}
		default:
			return nil
		}
	}
	return nil
}

// isValidTimestampFn: the timestamp validity predicate, as a method of the table or — when the
// unused receiver was dropped — a plain function; the timestamp is its last argument either way.
func isValidTimestampFn(f *ssa.Function) bool {
	if f == nil || core.PkgPathOf(f) != core.PkgBttest {
		return false
	}
	n := core.FuncName(f)
	return n == "(*table).validTimestamp" || n == "validTimestamp"
}

// R08: validation guards dominate the effect they protect.
// insSite is a cell insertion as the rules judge it: the call whose position must lie behind the
// guards, the column (or its cell list) written and the cell inserted.  When the insertion is
// wrapped (`storeCell(col, cell)` around the writer), the site is every call of the wrapper in
// scope, with the wrapper's parameters replaced by that call's arguments.
type insSite struct {
	at        *ssa.Call
	col, cell ssa.Value
}

func paramRootOf(v ssa.Value) *ssa.Parameter {
	for i := 0; i < 6; i++ {
		v = core.Resolve(v)
		switch x := v.(type) {
		case *ssa.Parameter:
			return x
		case *ssa.UnOp:
			v = x.X
		case *ssa.FieldAddr:
			v = x.X
		default:
			return nil
		}
	}
	return nil
}

func liftInsertions(scope []*ssa.Function, sites []insSite, depth int) []insSite {
	var out []insSite
	for _, s := range sites {
		w := s.at.Parent()
		pc := paramRootOf(s.col)
		if pc == nil || depth > 2 {
			out = append(out, s)
			continue
		}
		idx := func(p *ssa.Parameter) int {
			for i, q := range w.Params {
				if q == p {
					return i
				}
			}
			return -1
		}
		var lifted []insSite
		for _, f := range scope {
			for _, b := range f.Blocks {
				for _, in := range b.Instrs {
					call, ok := in.(*ssa.Call)
					if !ok || call.Call.StaticCallee() != w || len(call.Call.Args) != len(w.Params) {
						continue
					}
					ns := insSite{at: call, col: call.Call.Args[idx(pc)], cell: s.cell}
					if pp, isP := core.Resolve(s.cell).(*ssa.Parameter); isP && idx(pp) >= 0 {
						ns.cell = call.Call.Args[idx(pp)]
					}
					lifted = append(lifted, ns)
				}
			}
		}
		if len(lifted) == 0 {
			out = append(out, s)
			continue
		}
		out = append(out, liftInsertions(scope, lifted, depth+1)...)
	}
	return out
}

func R08(group string) Rule {
	return Rule{Name: "R08", Run: func(c *core.Ctx) {
		P := c.P
		switch group {
		case "applyMutations":
			fn := P.MustFunc(core.PkgBttest, "applyMutations")
			c.Fn("applyMutations")
			// the applier together with the helpers it is split into
			scope := P.Scope(fn, nil)
			within := setOf(scope)
			famGuard := func(at ssa.Instruction, name ssa.Value) bool {
				return name != nil && P.InAllContexts(at, []ssa.Value{name}, within, func(at ssa.Instruction, vals []ssa.Value) bool {
					return vals[0] != nil && factLookupOk(at.Block(), func(lk *ssa.Lookup) bool {
						return isLiveFamiliesAnywhere(P, lk.X) && sameFieldLoad(lk.Index, vals[0])
					})
				})
			}
			// SetCell
			ins := scopeCallsTo(scope, core.PkgBttest, "appendOrReplaceCell")
			if len(ins) == 0 {
				c.Unknown("R08", "applyMutations/SetCell", fn.Pos(), "no appendOrReplaceCell call reachable from applyMutations")
			}
			var raw []insSite
			for _, e := range ins {
				raw = append(raw, insSite{at: e, col: e.Call.Args[0], cell: e.Call.Args[1]})
			}
			for i, site := range liftInsertions(scope, raw, 0) {
				e := site.at
				sfx := ""
				if i > 0 {
					sfx = fmt.Sprintf("#%d", i+1)
				}
				name := familyNameFeeding(site.col)
				c.Check(famGuard(e, name), "R08", "applyMutations/SetCell/family-known"+sfx, e.Pos(),
					"cell insertion is dominated by the ok-edge of the lookup of the same family name in the table's live family map",
					"a SetCell reaches the cell insertion without the family having been found in the table's live family map: writes to unknown or dropped families are stored")
				// timestamp
				okTs := false
				if cell, ok := core.Resolve(site.cell).(*ssa.Alloc); ok {
					for _, r := range core.Referrers(cell) {
						fa, ok := r.(*ssa.FieldAddr)
						if !ok {
							continue
						}
						if _, f, _ := core.FieldName(fa); f != "TimestampMicros" {
							continue
						}
						for _, rr := range core.Referrers(fa) {
							if st, ok := rr.(*ssa.Store); ok {
								if P.InAllContexts(e, []ssa.Value{st.Val}, within, func(at ssa.Instruction, vals []ssa.Value) bool {
									return vals[0] != nil && factCallTrue(at.Block(), func(call *ssa.Call) bool {
										return isValidTimestampFn(call.Call.StaticCallee()) && core.SameValue(call.Call.Args[len(call.Call.Args)-1], vals[0])
									})
								}) {
									okTs = true
								}
							}
						}
					}
				}
				c.Check(okTs, "R08", "applyMutations/SetCell/timestamp-valid"+sfx, e.Pos(),
					"the value stored as the cell's timestamp passed validTimestamp on every path to the insertion",
					"the timestamp stored in the new cell is not the value that passed validTimestamp (negative, too large or sub-millisecond timestamps are stored)")
			}
			// DeleteFromColumn: the write-back of the column's cells
			var wb *ssa.Store
			for _, f := range scope {
				for _, b := range f.Blocks {
					for _, in := range b.Instrs {
						if st, ok := in.(*ssa.Store); ok {
							if fa, ok := st.Addr.(*ssa.FieldAddr); ok {
								if _, fld, _ := core.FieldName(fa); fld == "Cells" {
									src := core.Resolve(fa.X)
									if ex, isEx := src.(*ssa.Extract); isEx {
										src = ex.Tuple // getColumn returning (col, ok)
									}
									if call, ok := src.(*ssa.Call); ok && call.Call.StaticCallee() != nil && core.FuncName(call.Call.StaticCallee()) == "getColumn" {
										wb = st
									}
								}
							}
						}
					}
				}
			}
			if wb == nil {
				if gc := P.Func(core.PkgBttest, "getColumn"); gc == nil || gc.Blocks == nil {
					c.Infof("R08", "applyMutations/DeleteFromColumn", fn.Pos(), "no getColumn helper on this tree (inlined): the family-known guard of the range deletion is not anchored")
				} else {
					c.Unknown("R08", "applyMutations/DeleteFromColumn", fn.Pos(), "cannot find the write-back of the column's cells")
				}
			} else {
				name := familyNameFeeding(wb.Addr)
				c.Check(famGuard(wb, name), "R08", "applyMutations/DeleteFromColumn/family-known", wb.Pos(),
					"range deletion is dominated by the ok-edge of the lookup of the same family name in the live family map",
					"DeleteFromColumn reaches the deletion without the family having been found in the table's live family map")
			}
			var searches []*ssa.Call
			for _, sc := range scopeCallsTo(scope, "sort", "Search") {
				// interval searches over a column's cells: the predicate closure reads a cell timestamp
				if cl := closureOf(sc.Call.Args[1]); cl != nil {
					readsTs := false
					for _, b := range cl.Blocks {
						for _, in := range b.Instrs {
							if fa, ok := in.(*ssa.FieldAddr); ok && core.TypeIs(fa.X.Type(), pkgBtpb, "Cell") {
								if _, f, _ := core.FieldName(fa); f == "TimestampMicros" {
									readsTs = true
								}
							}
						}
					}
					if readsTs {
						searches = append(searches, sc)
					}
				}
			}
			if len(searches) == 0 {
				c.Infof("R08", "applyMutations/DeleteFromColumn/searches", fn.Pos(), "no binary search over cells in the applier: the interval-validity guards have nothing to protect here")
			}
			for i, sc := range searches {
				okStart := P.InAllContexts(sc, nil, within, func(at ssa.Instruction, _ []ssa.Value) bool {
					return factCallTrue(at.Block(), func(call *ssa.Call) bool {
						return isValidTimestampFn(call.Call.StaticCallee()) && loadsField(call.Call.Args[len(call.Call.Args)-1], "StartTimestampMicros")
					})
				})
				c.Check(okStart, "R08", fmt.Sprintf("applyMutations/DeleteFromColumn/start-valid#%d", i+1), sc.Pos(),
					"interval search is dominated by the passing edge of validTimestamp(start)",
					"the delete interval is computed although the range start did not pass validTimestamp")
				// end validity and inversion: presence of a dominating test
				endTest := P.InAllContexts(sc, nil, within, func(at ssa.Instruction, _ []ssa.Value) bool {
					found := false
					dominatingIfs(at, func(_ *ssa.If, cond ssa.Value) {
						if call, ok := cond.(*ssa.Call); ok && isValidTimestampFn(call.Call.StaticCallee()) && loadsField(call.Call.Args[len(call.Call.Args)-1], "EndTimestampMicros") {
							found = true
						}
					})
					return found
				})
				invTest := P.InAllContexts(sc, nil, within, func(at ssa.Instruction, _ []ssa.Value) bool {
					found := false
					dominatingIfs(at, func(_ *ssa.If, cond ssa.Value) {
						if bin, ok := cond.(*ssa.BinOp); ok {
							switch bin.Op {
							case token.GEQ, token.GTR, token.LSS, token.LEQ:
								if (loadsField(bin.X, "StartTimestampMicros") && loadsField(bin.Y, "EndTimestampMicros")) || (loadsField(bin.X, "EndTimestampMicros") && loadsField(bin.Y, "StartTimestampMicros")) {
									found = true
								}
							}
						}
					})
					return found
				})
				c.Check(endTest, "R08", fmt.Sprintf("applyMutations/DeleteFromColumn/end-valid#%d", i+1), sc.Pos(),
					"a validTimestamp(end) test dominates the interval search", "no validTimestamp(end) test precedes the interval search")
				c.Check(invTest, "R08", fmt.Sprintf("applyMutations/DeleteFromColumn/not-inverted#%d", i+1), sc.Pos(),
					"a start/end ordering test dominates the interval search", "no start-versus-end ordering test precedes the interval search: inverted ranges are applied instead of rejected")
			}
			// default case of the mutation type switch returns an error
			swFn, tas := mutationSwitchFunc(scope, 1)
			okDefault := false
			if swFn != nil {
				for _, r := range returnsIn(swFn) {
					if ie, _ := isErrorReturn(r); !ie {
						continue
					}
					all := len(tas) > 0
					for _, ta := range tas {
						holds := false
						for _, f := range core.FactsAt(r.Block()) {
							if ex, ok := f.Cond.(*ssa.Extract); ok && ex.Tuple == ssa.Value(ta) && ex.Index == 1 && !f.Polarity {
								holds = true
							}
						}
						if !holds {
							all = false
						}
					}
					if all {
						okDefault = true
					}
				}
			}
			c.Check(okDefault && len(tas) >= 4, "R08", "applyMutations/unknown-mutation-rejected", fn.Pos(),
				fmt.Sprintf("%d mutation kinds handled; the no-match path of the type switch returns an error", len(tas)),
				"a mutation of an unhandled kind is silently skipped instead of rejected (or a handled kind disappeared)")

		case "ReadModifyWriteRow":
			fn := P.MustFunc(core.PkgBttest, rpcRMW)
			c.Fn(rpcRMW)
			insScope := P.Scope(fn, func(f *ssa.Function) bool {
				return core.PkgPathOf(f) != core.PkgBttest || core.FuncName(f) == "appendOrReplaceCell" || core.FuncName(f) == "applyMutations"
			})
			ins := scopeCallsTo(insScope, core.PkgBttest, "appendOrReplaceCell")
			if len(ins) == 0 {
				// the anchor helper still exists but this RPC no longer goes through it: the new cell is put
				// into the column by other means (a plain prepend / append), which is exactly what the helper
				// exists to prevent — a second cell with the timestamp of an existing one
				if ap := P.Func(core.PkgBttest, "appendOrReplaceCell"); ap != nil && ap.Blocks != nil {
					c.Bad("R08", "ReadModifyWriteRow/insert", fn.Pos(), "ReadModifyWriteRow no longer inserts its new cell through appendOrReplaceCell (the writer that replaces a cell of equal timestamp instead of adding a second one): a column repeated within one request, two requests in the same millisecond, or a future-dated newest cell leave two cells with one timestamp")
				} else {
					c.Unknown("R08", "ReadModifyWriteRow/insert", fn.Pos(), "no appendOrReplaceCell call reachable from ReadModifyWriteRow")
				}
			}
			rmwWithin := setOf(P.Scope(fn, nil))
			var rawIns []insSite
			for _, e := range ins {
				rawIns = append(rawIns, insSite{at: e, col: e.Call.Args[0], cell: e.Call.Args[1]})
			}
			for i, site := range liftInsertions(insScope, rawIns, 0) {
				e := site.at
				sfx := ""
				if i > 0 {
					sfx = fmt.Sprintf("#%d", i+1)
				}
				name := familyNameFeeding(site.col)
				ok := name != nil && P.InAllContexts(e, []ssa.Value{name}, rmwWithin, func(at ssa.Instruction, vals []ssa.Value) bool {
					return vals[0] != nil && factLookupOk(at.Block(), func(lk *ssa.Lookup) bool {
						return isLiveFamiliesAnywhere(P, lk.X) && sameFieldLoad(lk.Index, vals[0])
					})
				})
				c.Check(ok, "R08", "ReadModifyWriteRow/family-known"+sfx, e.Pos(),
					"cell insertion is dominated by the ok-edge of the lookup of the rule's family in the live family map",
					"a read-modify-write rule reaches the cell insertion without its family having been found in the table's live family map")
			}
			n := 0
			rmwStop := map[string]bool{"appendOrReplaceCell": true, "getOrCreateFamily": true, "getOrCreateColumn": true, "(*table).getOrCreateRow": true, "(*table).updateRow": true, "scrubRow": true}
			rmwScope := P.Scope(fn, func(f *ssa.Function) bool { return core.PkgPathOf(f) != core.PkgBttest || rmwStop[core.FuncName(f)] })
			for _, ci := range core.CallsIn(rmwScope, func(ci *core.CallInfo) bool {
				return ci.Static != nil && ci.Static.Pkg != nil && ci.Static.Pkg.Pkg.Path() == "encoding/binary" && ci.Static.Name() == "Uint64"
			}) {
				n++
				arg := ci.Common.Args[len(ci.Common.Args)-1]
				have, why := minLen(P, arg, ci.Instr.Block())
				ok := have >= 8 && strings.Contains(why, "== 8")
				c.Check(ok, "R08", fmt.Sprintf("ReadModifyWriteRow/uint64-length#%d", n), ci.Instr.Pos(),
					"BigEndian.Uint64 is dominated by a length test establishing len == 8 ("+why+")",
					fmt.Sprintf("BigEndian.Uint64 is applied to a stored value whose length is not known to be exactly 8 (established: len ≥ %d, %s): a shorter value panics, a longer one is silently truncated instead of failing the request", have, orNone(why)))
			}
			if n == 0 {
				c.Unknown("R08", "ReadModifyWriteRow/uint64-length", fn.Pos(), "no BigEndian.Uint64 call found")
			}

		case "live-families":
			for _, name := range []string{"applyMutations", rpcRMW} {
				fn := P.MustFunc(core.PkgBttest, name)
				c.Fn(name)
				n, bad := 0, 0
				for _, f := range P.Scope(fn, nil) {
					for _, b := range f.Blocks {
						for _, in := range b.Instrs {
							lk, ok := in.(*ssa.Lookup)
							if !ok {
								continue
							}
							mt, isMap := lk.X.Type().Underlying().(*types.Map)
							if !isMap || !core.TypeIs(mt.Elem(), "cloud.google.com/go/bigtable/admin/apiv2/adminpb", "ColumnFamily") {
								continue
							}
							n++
							if !isLiveFamiliesAnywhere(P, lk.X) {
								bad++
								c.Bad("R08", fmt.Sprintf("live-families/%s/lookup#%d", name, n), lk.Pos(), "the family check reads a map that is not the table's live definition: a family dropped meanwhile is still accepted")
							}
						}
					}
				}
				if n == 0 {
					c.Unknown("R08", "live-families/"+name, fn.Pos(), "no family lookup found")
				} else if bad == 0 {
					c.Ok("R08", "live-families/"+name, fn.Pos(), true, "%d family lookups, all on table.def.ColumnFamilies / cols() read under the lock", n)
				}
			}

		case "ReadRows", "ReadRows-filter-error":
			fn := P.MustFunc(core.PkgBttest, "(*server).ReadRows")
			c.Fn("(*server).ReadRows")
			// ReadRows with the helpers / scan-state methods it is split into; the evaluator and the
			// chunk builder are anchors of their own
			stopAt := map[string]bool{"filterRow": true, "(*chunkBuilder).add": true, "validateRowRanges": true, "mergeRowRanges": true}
			scope := P.Scope(fn, func(f *ssa.Function) bool { return stopAt[core.FuncName(f)] || core.PkgPathOf(f) != core.PkgBttest })
			within := setOf(scope)
			if group == "ReadRows" {
				vcalls := scopeCallsTo(scope, core.PkgBttest, "validateRowRanges")
				if len(vcalls) != 1 {
					c.Unknown("R08", "ReadRows/validateRowRanges", fn.Pos(), "expected one validateRowRanges call, found %d", len(vcalls))
					return
				}
				n := 0
				for _, ci := range core.CallsIn(scope, func(ci *core.CallInfo) bool {
					return isRowsMethod(ci, "Ascend", "AscendRange", "AscendLessThan", "AscendGreaterOrEqual")
				}) {
					n++
					validated := P.InAllContexts(ci.Instr, nil, within, func(at ssa.Instruction, _ []ssa.Value) bool {
						return at.Parent() == vcalls[0].Parent() && errNilEdge(vcalls[0], at.Block())
					})
					c.Check(validated, "R08", fmt.Sprintf("ReadRows/%s/after-range-validation", ci.Method.Name()), ci.Instr.Pos(),
						"scan is dominated by the nil edge of validateRowRanges", "a scan is started although validateRowRanges did not pass: inverted ranges are scanned instead of rejected")
					// dispatch slots: range start only into lower-bound, end only into upper-bound parameters
					args := ci.Common.Args
					want := map[string][]string{"AscendRange": {"start", "end"}, "AscendLessThan": {"end"}, "AscendGreaterOrEqual": {"start"}}[ci.Method.Name()]
					for i, w := range want {
						if i >= len(args) {
							continue
						}
						got := ""
						if ld, ok := core.Resolve(args[i]).(*ssa.UnOp); ok {
							if fa, ok := ld.X.(*ssa.FieldAddr); ok {
								_, got, _ = core.FieldName(fa)
							}
						} else if f, ok := core.Resolve(args[i]).(*ssa.Field); ok {
							_, got, _ = core.FieldName(f)
						}
						if got == "start" || got == "end" {
							c.Check(got == w, "R08", fmt.Sprintf("ReadRows/%s/arg%d-slot", ci.Method.Name(), i), ci.Instr.Pos(),
								"range "+got+" is passed as the "+w+" bound", "range "+got+" is passed where the range "+w+" is expected: the scan covers the wrong side of the bound")
						}
					}
				}
				if n < 4 {
					c.Unknown("R08", "ReadRows/floor", fn.Pos(), "expected four scan dispatch sites, found %d", n)
				}
				// the dispatch agrees with the shape of the range: a range end that is not handed to
				// the scan is known to be absent (empty = unbounded in simpleRange), and one that is
				// handed over is known to be present — Rows gives an empty/nil bound no meaning and the
				// engines differ on it
				emptiness := func(at ssa.Instruction, field string) int {
					for _, f := range core.FactsAtRefined(at.Block()) {
						// a branch on a predicate helper of the range (isUnboundedStart(), hasEnd(), …)
						if _, _, fname, pop, pk, isPred := lenPredicate(f.Cond); isPred {
							if fname != field {
								continue
							}
							if !f.Polarity {
								pop = map[token.Token]token.Token{token.EQL: token.NEQ, token.NEQ: token.EQL, token.LSS: token.GEQ, token.GEQ: token.LSS, token.GTR: token.LEQ, token.LEQ: token.GTR}[pop]
							}
							switch {
							case pop == token.EQL && pk == 0, pop == token.LEQ && pk == 0, pop == token.LSS && pk == 1:
								return 1
							case pop == token.NEQ && pk == 0, pop == token.GTR && pk == 0, pop == token.GEQ && pk == 1:
								return -1
							}
							continue
						}
						l, op, r, ok := cmpNorm(f)
						if !ok {
							continue
						}
						la := lenArg(l)
						k, isK := core.ConstInt(r)
						if la == nil || !isK {
							continue
						}
						got := ""
						if ld, ok := core.Resolve(la).(*ssa.UnOp); ok {
							if fa, ok := ld.X.(*ssa.FieldAddr); ok {
								_, got, _ = core.FieldName(fa)
							}
						} else if fv, ok := core.Resolve(la).(*ssa.Field); ok {
							_, got, _ = core.FieldName(fv)
						}
						if got != field {
							continue
						}
						switch {
						case op == token.EQL && k == 0, op == token.LEQ && k == 0, op == token.LSS && k == 1:
							return 1
						case op == token.NEQ && k == 0, op == token.GTR && k == 0, op == token.GEQ && k == 1:
							return -1
						}
					}
					return 0
				}
				for _, ci := range core.CallsIn(scope, func(ci *core.CallInfo) bool {
					return isRowsMethod(ci, "Ascend", "AscendRange", "AscendLessThan", "AscendGreaterOrEqual")
				}) {
					usesStartEnd := false
					for _, a := range ci.Common.Args {
						if loadsField(a, "start") || loadsField(a, "end") {
							usesStartEnd = true
						}
					}
					if !usesStartEnd && ci.Method.Name() != "Ascend" {
						continue // bounds are not a simpleRange's (another caller's convention)
					}
					// what dominance can establish: a two-sided scan is reached only with both ends present;
					// a one-sided scan only when the side it leaves out is absent
					var want map[string]int
					switch ci.Method.Name() {
					case "AscendRange":
						want = map[string]int{"start": -1, "end": -1}
					case "AscendLessThan":
						want = map[string]int{"start": 1}
					case "AscendGreaterOrEqual":
						want = map[string]int{"end": 1}
					}
					for _, field := range []string{"start", "end"} {
						w, has := want[field]
						if !has {
							continue
						}
						c.Check(emptiness(ci.Instr, field) == w, "R08", fmt.Sprintf("ReadRows/%s/range-%s-shape", ci.Method.Name(), field), ci.Instr.Pos(),
							"the scan variant matches which ends of the range are present",
							fmt.Sprintf("%s is chosen although the range %s is not known to be %s here: an empty (absent) bound is handed to a bounded scan, or a present bound is ignored — the engines differ on empty bounds", ci.Method.Name(), field, map[int]string{1: "absent", -1: "present"}[w]))
					}
				}
				// rows_limit is tested at the start of every callback invocation, before a row is added
				isLimit := func(v ssa.Value) bool {
					return provenanceAll(P, core.PkgBttest, v, func(o ssa.Value) (bool, bool) {
						if loadsField(o, "RowsLimit") {
							return true, true
						}
						if call, ok := o.(*ssa.Call); ok && call.Call.StaticCallee() != nil && call.Call.StaticCallee().Name() == "GetRowsLimit" {
							return true, true
						}
						if _, isConst := o.(*ssa.Const); isConst {
							return true, false
						}
						return false, false
					})
				}
				for _, f := range scope {
					for _, ci := range core.AllCalls(f) {
						if !ci.IsFunc(core.PkgBttest, "(*chunkBuilder).add") || f == fn {
							continue
						}
						// cut the edges on which the limit test lets the row through
						var cut []cfgEdge
						for _, b := range f.Blocks {
							ifi, ok := b.Instrs[len(b.Instrs)-1].(*ssa.If)
							if !ok {
								continue
							}
							bin, ok := ifi.Cond.(*ssa.BinOp)
							if !ok {
								continue
							}
							switch {
							case bin.Op == token.GTR && isLimit(bin.X): // limit > 0 : false edge = unlimited
								cut = append(cut, cfgEdge{b, b.Succs[1]})
							case bin.Op == token.GEQ && isLimit(bin.Y): // count >= limit : false edge = below the limit
								cut = append(cut, cfgEdge{b, b.Succs[1]})
							case bin.Op == token.LSS && isLimit(bin.Y): // count < limit : true edge
								cut = append(cut, cfgEdge{b, b.Succs[0]})
							case bin.Op == token.LEQ && isLimit(bin.X): // limit <= 0 : true edge = unlimited
								cut = append(cut, cfgEdge{b, b.Succs[0]})
							}
						}
						ok := len(cut) > 0 && !reachableWithoutEdges(f, ci.Instr.Block(), cut)
						c.Check(ok, "R08", "ReadRows/limit-tested-before-row-is-added", ci.Instr.Pos(), "a row is only added on an edge where rows_limit is unset or not yet reached", "a row can be added without rows_limit having been tested in this callback invocation: the callback runs anew for every range of the row set, so each later range emits a row beyond the limit")
					}
				}
				// the counter rows_limit is compared with only ever grows during the scan: it is not reset by the
				// flush that hands a batch to the stream (a counter kept inside the chunk builder and zeroed with
				// it makes the limit count rows per batch instead of rows per request)
				for _, f := range scope {
					for _, b := range f.Blocks {
						ifi, ok := b.Instrs[len(b.Instrs)-1].(*ssa.If)
						if !ok {
							continue
						}
						bin, ok := ifi.Cond.(*ssa.BinOp)
						if !ok {
							continue
						}
						var cnt ssa.Value
						isOrd := bin.Op == token.GEQ || bin.Op == token.LSS || bin.Op == token.GTR || bin.Op == token.LEQ
						switch {
						case isOrd && isLimit(bin.Y) && !isLimit(bin.X):
							cnt = bin.X
						case isOrd && isLimit(bin.X) && !isLimit(bin.Y):
							cnt = bin.Y
						}
						if cnt == nil {
							continue
						}
						if _, isK := core.Resolve(cnt).(*ssa.Const); isK {
							continue
						}
						loc := loadedLocation(cnt)
						if loc == "" {
							continue
						}
						var bad ssa.Instruction
						for _, st := range storesToLocation(P, core.PkgBttest, loc) {
							// an increment (computed from the location's own value) or the initialisation in ReadRows itself
							selfDep := false
							if bo, isBin := core.Resolve(st.Val).(*ssa.BinOp); isBin && (loadedLocation(bo.X) == loc || loadedLocation(bo.Y) == loc) {
								selfDep = true
							}
							if !selfDep && st.Parent() != fn {
								bad = st
							}
						}
						// … nor wiped together with the struct it lives in
						if strings.HasPrefix(loc, "field:") {
							tname := strings.TrimPrefix(loc, "field:") // "pkg.Type.field"
							tname = tname[:strings.LastIndexByte(tname, '.')]
							if i := strings.IndexByte(tname, '.'); i >= 0 {
								tname = tname[i+1:]
							}
							for _, sf := range P.SrcFuncs(core.PkgBttest) {
								if sf == fn {
									continue
								}
								for _, sb := range sf.Blocks {
									for _, in := range sb.Instrs {
										st, isSt := in.(*ssa.Store)
										if !isSt {
											continue
										}
										if pt, isP := st.Addr.Type().Underlying().(*types.Pointer); isP {
											if nn := core.NamedOf(pt.Elem()); nn != nil && core.TName(nn) == tname {
												if _, isStruct := pt.Elem().Underlying().(*types.Struct); isStruct {
													bad = st
												}
											}
										}
									}
								}
							}
						}
						if bad != nil {
							c.Bad("R08", "ReadRows/limit-counter-survives-the-flush", bad.Pos(), "the counter that rows_limit is compared with is overwritten here (outside ReadRows' own initialisation, and not by an increment): after a batch is flushed the count starts again and the scan returns more rows than the limit")
						} else {
							c.Ok("R08", "ReadRows/limit-counter-survives-the-flush", ifi.Pos(), true, "the limit counter is only initialised in ReadRows and incremented")
						}
					}
				}
				// validateRowRanges: every failure is InvalidArgument
				v := P.MustFunc(core.PkgBttest, "validateRowRanges")
				okAll, k := true, 0
				for _, r := range returnsIn(v) {
					for _, rv := range returnValues(r.Results[0]) {
						if core.IsNilConst(rv) {
							continue
						}
						k++
						if !isInvalidArgumentStatus(rv) {
							okAll = false
						}
					}
				}
				c.Check(okAll && k > 0, "R08", "ReadRows/validateRowRanges/InvalidArgument", v.Pos(), "every failure of validateRowRanges is an InvalidArgument status", "validateRowRanges fails with something other than InvalidArgument")
				return
			}
			// filter error plumbing
			var cb *ssa.Function
			var fcall *ssa.Call
			for _, f := range scope {
				for _, call := range callsTo(f, core.PkgBttest, "filterRow") {
					cb, fcall = f, call
				}
			}
			if cb == nil || cb == fn {
				c.Unknown("R08", "ReadRows-filter-error/callback", fn.Pos(), "filterRow is not called from the scan callback")
				return
			}
			// (1) the error result is kept where ReadRows can see it: a variable of ReadRows captured
			// by the callback, or a field of the scan-state struct
			errLoc := ""
			for _, r := range core.Referrers(fcall) {
				if ex, ok := r.(*ssa.Extract); ok && ex.Index == 1 {
					for _, rr := range core.Referrers(ex) {
						if st, ok := rr.(*ssa.Store); ok {
							if cell := core.CellOf(st.Addr); cell != nil && cell.Parent() != fn {
								continue // a variable local to the callback
							}
							if loc := locationOf(st.Addr); loc != "" {
								errLoc = loc
							}
						}
					}
				}
			}
			c.Check(errLoc != "", "R08", "ReadRows-filter-error/stored", fcall.Pos(), "the filter's error is stored in a variable of ReadRows", "the filter's error is not handed to ReadRows")
			if errLoc == "" {
				return
			}
			// (2) the callback stops the scan on that error
			stop := false
			for _, r := range returnsIn(cb) {
				if bv, ok := core.ConstBool(r.Results[0]); ok && !bv {
					for _, f := range core.FactsAt(r.Block()) {
						if b, ok := f.Cond.(*ssa.BinOp); ok && core.IsNilConst(b.Y) && (b.Op == token.NEQ) == f.Polarity {
							if loadedLocation(b.X) == errLoc {
								stop = true
							}
						}
					}
				}
			}
			c.Check(stop, "R08", "ReadRows-filter-error/stops-scan", cb.Pos(), "the callback returns false on the non-nil edge of the stored error", "the callback keeps iterating after a filter error")
			// (3) ReadRows returns that error
			rets := false
			for _, r := range returnsIn(fn) {
				for _, rv := range returnValues(r.Results[0]) {
					if loadedLocation(rv) == errLoc {
						rets = true
					}
				}
			}
			c.Check(rets, "R08", "ReadRows-filter-error/returned", fn.Pos(), "ReadRows returns the stored filter error unchanged", "ReadRows does not return the filter's error")

		case "finishUpload":
			fn := P.MustFunc(core.PkgGcsemu, "(*GcsEmu).finishUpload")
			c.Fn("(*GcsEmu).finishUpload")
			scope := P.Scope(fn, func(f *ssa.Function) bool { return core.PkgPathOf(f) != core.PkgGcsemu })
			within := setOf(scope)
			var run *ssa.Call
			for _, ci := range core.CallsIn(scope, func(ci *core.CallInfo) bool {
				return isLockRunCall(P, ci) && lockWrappers(P)[ci.Instr.Parent()] == nil
			}) {
				run, _ = ci.Instr.(*ssa.Call)
			}
			eqs := scopeCallsTo(scope, "bytes", "Equal")
			if run == nil || len(eqs) != 1 {
				c.Unknown("R08", "finishUpload/md5", fn.Pos(), "expected one critical section and one bytes.Equal in finishUpload")
				return
			}
			eq := eqs[0]
			vf := eq.Parent() // the function that verifies: finishUpload itself or a helper it calls
			// operands: one derives from md5.Sum(contents), contents being what is stored
			fromSum := func(v ssa.Value) bool {
				seen := map[ssa.Value]bool{}
				var walk func(v ssa.Value, d int) bool
				walk = func(v ssa.Value, d int) bool {
					v = core.Resolve(v)
					if d > 10 || seen[v] {
						return false
					}
					seen[v] = true
					switch x := v.(type) {
					case *ssa.Call:
						if sc := x.Call.StaticCallee(); sc != nil && sc.Pkg != nil && sc.Pkg.Pkg.Path() == "crypto/md5" && sc.Name() == "Sum" {
							return P.AllOrigins(x.Call.Args[0], within, func(o ssa.Value) bool {
								_, _, isInput := inputOf(fn, o)
								return isInput
							})
						}
					case *ssa.Slice:
						return walk(x.X, d+1)
					case *ssa.UnOp:
						return walk(x.X, d+1)
					case *ssa.Alloc:
						for _, st := range core.StoresTo(x) {
							if walk(st.Val, d+1) {
								return true
							}
						}
					}
					return false
				}
				return walk(v, 0)
			}
			viaHelpers := func(v ssa.Value) bool {
				return derivesFromMd5Of(P, v, within, func(o ssa.Value) bool {
					_, _, isInput := inputOf(fn, o)
					return isInput
				}, map[ssa.Value]bool{}, 0)
			}
			c.Check(fromSum(eq.Call.Args[0]) || fromSum(eq.Call.Args[1]) || viaHelpers(eq.Call.Args[0]) || viaHelpers(eq.Call.Args[1]), "R08", "finishUpload/md5-of-stored-bytes", eq.Pos(),
				"the comparison uses md5.Sum of the very byte slice that is stored", "the MD5 comparison is not over the bytes that are stored")
			// the failing edge returns an error
			var ifEq *ssa.If
			for _, r := range core.Referrers(eq) {
				if i, ok := r.(*ssa.If); ok {
					ifEq = i
				}
			}
			negated := false
			if ifEq == nil {
				for _, r := range core.Referrers(eq) {
					if u, ok := r.(*ssa.UnOp); ok && u.Op == token.NOT {
						for _, rr := range core.Referrers(u) {
							if i, ok := rr.(*ssa.If); ok {
								ifEq, negated = i, true
							}
						}
					}
				}
			}
			if ifEq == nil {
				c.Bad("R08", "finishUpload/md5-mismatch-rejected", eq.Pos(), "the result of the MD5 comparison does not control a branch")
				return
			}
			passIdx := 0
			if negated {
				passIdx = 1
			}
			failSucc := ifEq.Block().Succs[1-passIdx]
			failsWithErr := false
			for _, r := range returnsIn(vf) {
				if ie, _ := isErrorReturn(r); ie && failSucc.Dominates(r.Block()) {
					failsWithErr = true
				}
			}
			// where the verifying function's verdict is consumed in finishUpload: the critical section itself
			// when the comparison is inline, otherwise it must lie on the nil edge of the helper's error
			runReachableAfterFailure := false
			sectionGuardedByHelper := true
			if vf == fn {
				runReachableAfterFailure = core.ReachableFrom(failSucc, true)[run.Block()]
			} else {
				for _, hs := range P.ExecSites(fn, eq, within) {
					hcall, isCall := hs.(*ssa.Call)
					if !isCall || hcall.Call.StaticCallee() != vf {
						sectionGuardedByHelper = false
						continue
					}
					for _, rs := range P.ExecSites(fn, run, within) {
						if !errNilEdge(errResultOf(hcall), rs.Block()) {
							sectionGuardedByHelper = false
						}
					}
				}
			}
			c.Check(failsWithErr && !runReachableAfterFailure && sectionGuardedByHelper, "R08", "finishUpload/md5-mismatch-rejected", ifEq.Pos(),
				"the mismatch edge returns an error and cannot reach the critical section that stores the object",
				"on an MD5 mismatch the upload still reaches the critical section that stores the object (the previous object is overwritten by rejected content)")
			// the only way round the comparison is the 'no MD5 declared' edge
			var declared *ssa.If
			for _, b := range vf.Blocks {
				if ifi, ok := b.Instrs[len(b.Instrs)-1].(*ssa.If); ok && b.Dominates(eq.Block()) {
					if bin, ok := ifi.Cond.(*ssa.BinOp); ok && (bin.Op == token.NEQ || bin.Op == token.EQL) {
						if s, ok := core.ConstString(bin.Y); ok && s == "" && P.AllOrigins(bin.X, within, func(o ssa.Value) bool { return loadsField(o, "Md5Hash") }) {
							declared = ifi
						}
					}
				}
			}
			if declared == nil {
				c.Bad("R08", "finishUpload/md5-verified-when-declared", eq.Pos(), "cannot find the `obj.Md5Hash != \"\"` test that decides whether the comparison applies")
				return
			}
			undeclaredIdx := 1 // `!= ""`: the false edge is 'nothing declared'
			if declared.Cond.(*ssa.BinOp).Op == token.EQL {
				undeclaredIdx = 0
			}
			cut := []cfgEdge{{ifEq.Block(), ifEq.Block().Succs[passIdx]}, {declared.Block(), declared.Block().Succs[undeclaredIdx]}}
			okRound := true
			if vf == fn {
				okRound = !reachableWithoutEdges(fn, run.Block(), cut)
			} else {
				// the helper reports success only through one of the two edges
				for _, r := range returnsIn(vf) {
					if ie, _ := isErrorReturn(r); !ie && reachableWithoutEdges(vf, r.Block(), cut) {
						okRound = false
					}
				}
			}
			c.Check(okRound, "R08", "finishUpload/md5-verified-when-declared", run.Pos(),
				"every path to the storing critical section passes the comparison's success edge or the 'no MD5 declared' edge",
				"a path reaches the storing critical section with a declared MD5 that was not compared")

		case "finishCompose":
			fn := funcOr(P, core.PkgGcsemu, "(*GcsEmu).finishCompose", "(*GcsEmu).handleGcsCompose")
			c.Fn(core.FuncName(fn))
			bound := func(at *ssa.BasicBlock) bool {
				for _, f := range core.FactsAt(at) {
					l, op, r, ok := cmpNorm(f)
					if !ok {
						continue
					}
					if la := lenArg(l); la != nil {
						if k, isK := core.ConstInt(r); isK && k == 32 && (op == token.LEQ) {
							return true
						}
						if k, isK := core.ConstInt(r); isK && k == 33 && (op == token.LSS) {
							return true
						}
					}
				}
				return false
			}
			n := 0
			var add ssa.Instruction
			// finishCompose together with the phase helpers it is split into
			cscope := P.Scope(fn, func(f *ssa.Function) bool {
				return core.PkgPathOf(f) != core.PkgGcsemu || core.FuncName(f) == "validateConds" || core.FuncName(f) == "fmtErrorfCode"
			})
			cwithin := setOf(cscope)
			for _, ci := range core.CallsIn(cscope, func(ci *core.CallInfo) bool { return isStoreCall(ci, "Get", "Add") }) {
				n++
				if isStoreCall(ci, "Add") {
					add = ci.Instr
				}
				okB := P.InAllContexts(ci.Instr, nil, cwithin, func(at ssa.Instruction, _ []ssa.Value) bool { return bound(at.Block()) })
				c.Check(okB, "R08", fmt.Sprintf("finishCompose/Store.%s/source-bound", ci.Method.Name()), ci.Instr.Pos(),
					"dominated by len(sources) ≤ 32", "Store."+ci.Method.Name()+" is reached without the 32-source bound having been checked")
			}
			if n < 2 || add == nil {
				c.Unknown("R08", "finishCompose/floor", fn.Pos(), "expected source reads and one Add in finishCompose")
				return
			}
			// validation errors (constructed with an explicit HTTP code) all precede the Add
			okOrder := true
			for _, f := range cscope {
				for _, name := range []string{"fmtErrorfCode", "validateConds"} {
					for _, call := range callsTo(f, core.PkgGcsemu, name) {
						if f == add.Parent() {
							if core.InstrReaches(add, call) {
								okOrder = false
							}
						} else if P.MayFollow(fn, add, call, cwithin) {
							okOrder = false
						}
					}
				}
			}
			c.Check(okOrder, "R08", "finishCompose/validate-before-add", add.Pos(), "no validation failure is reachable after the destination was written", "a validation failure (4xx) can be returned after the destination has already been overwritten")

		case "gc":
			fn := P.MustFunc(core.PkgBttest, "(*table).gc")
			c.Fn("(*table).gc")
			var lock *ssa.Call
			for _, ci := range core.AllCalls(fn) {
				if op, ok := lockOpOf(ci); ok && op.lock == tableLock && op.acq && op.write {
					if call, ok := ci.Instr.(*ssa.Call); ok && lock == nil {
						lock = call
					}
				}
			}
			if lock == nil {
				c.Unknown("R08", "gc/lock", fn.Pos(), "gc does not take the table lock")
				return
			}
			// the force flag: a bool parameter, or a bool field of a parameter struct (`p gcParams`)
			isForce := func(v ssa.Value) bool {
				v = core.Resolve(v)
				if !isBoolType(v.Type()) {
					return false
				}
				if pa, isP := v.(*ssa.Parameter); isP {
					return pa.Parent() == fn
				}
				var base ssa.Value
				switch x := v.(type) {
				case *ssa.Field:
					base = x.X
				case *ssa.UnOp:
					if fa, isFa := x.X.(*ssa.FieldAddr); isFa && x.Op == token.MUL {
						base = fa.X
					}
				}
				for i := 0; i < 4 && base != nil; i++ {
					base = core.Resolve(base)
					if pa, isP := base.(*ssa.Parameter); isP {
						return pa.Parent() == fn
					}
					if ld, isLd := base.(*ssa.UnOp); isLd && ld.Op == token.MUL {
						base = ld.X
						continue
					}
					if a, isA := base.(*ssa.Alloc); isA {
						// a by-value struct parameter spilled to a local cell
						sts := core.StoresTo(a)
						if len(sts) == 1 {
							base = sts[0].Val
							continue
						}
					}
					break
				}
				return false
			}
			var forceIf *ssa.If
			forceTrueIdx := 0
			for _, b := range fn.Blocks {
				if ifi, ok := b.Instrs[len(b.Instrs)-1].(*ssa.If); ok {
					cond := ifi.Cond
					idx := 0
					if u, ok := cond.(*ssa.UnOp); ok && u.Op == token.NOT {
						cond, idx = u.X, 1
					}
					if isForce(cond) {
						forceIf, forceTrueIdx = ifi, idx
					}
				}
			}
			gcScope := P.Scope(fn, func(f *ssa.Function) bool { return core.PkgPathOf(f) != core.PkgBttest })
			for _, field := range []string{"lastReadNanos", "lastWriteNanos"} {
				var qIf *ssa.If
				for _, sf := range gcScope {
					for _, b := range sf.Blocks {
						ifi, ok := b.Instrs[len(b.Instrs)-1].(*ssa.If)
						if !ok {
							continue
						}
						bin, ok := ifi.Cond.(*ssa.BinOp)
						if !ok || bin.Op != token.LSS {
							continue
						}
						sub, ok := core.Resolve(bin.X).(*ssa.BinOp)
						if !ok || sub.Op != token.SUB {
							continue
						}
						if k, isK := core.ConstInt(bin.Y); !isK || k <= 0 {
							continue
						}
						// sub.Y = atomic.LoadInt64(&t.<field>)
						if call, ok := core.Resolve(sub.Y).(*ssa.Call); ok {
							if sc := call.Call.StaticCallee(); sc != nil && sc.Name() == "LoadInt64" {
								if fa, ok := call.Call.Args[0].(*ssa.FieldAddr); ok {
									if _, f, _ := core.FieldName(fa); f == field {
										qIf = ifi
									}
								}
							}
						}
					}
				}
				construct := "gc/quiescent/" + field
				if qIf == nil {
					c.Bad("R08", construct, fn.Pos(), "no `now - %s < quiescence` test found before the table lock is taken", field)
					continue
				}
				ok := false
				if qIf.Parent() == fn {
					cut := []cfgEdge{{qIf.Block(), qIf.Block().Succs[1]}}
					if forceIf != nil {
						cut = append(cut, cfgEdge{forceIf.Block(), forceIf.Block().Succs[forceTrueIdx]})
					}
					recent := core.ReachableFrom(qIf.Block().Succs[0], true)
					ok = !reachableWithoutEdges(fn, lock.Block(), cut) && !recent[lock.Block()]
				} else {
					// the test lives in a predicate helper ("is the table quiescent?"): the helper answers
					// true only through the 'not recently used' edge, and gc takes the lock only on the
					// helper's true edge (or when forced)
					h := qIf.Parent()
					helperOK := isBoolType(h.Signature.Results().At(0).Type()) && h.Signature.Results().Len() == 1
					if helperOK {
						for _, r := range returnsIn(h) {
							if bv, isB := core.ConstBool(r.Results[0]); isB && !bv {
								continue // answers "not quiescent"
							}
							if reachableWithoutEdges(h, r.Block(), []cfgEdge{{qIf.Block(), qIf.Block().Succs[1]}}) {
								helperOK = false
							}
						}
					}
					var cut []cfgEdge
					for _, b := range fn.Blocks {
						ifi, isIf := b.Instrs[len(b.Instrs)-1].(*ssa.If)
						if !isIf {
							continue
						}
						cond, trueIdx := ifi.Cond, 0
						if u, isNot := cond.(*ssa.UnOp); isNot && u.Op == token.NOT {
							cond, trueIdx = u.X, 1
						}
						if call, isCall := core.Resolve(cond).(*ssa.Call); isCall && call.Call.StaticCallee() == h {
							cut = append(cut, cfgEdge{b, b.Succs[trueIdx]})
						}
					}
					if forceIf != nil {
						cut = append(cut, cfgEdge{forceIf.Block(), forceIf.Block().Succs[forceTrueIdx]})
					}
					ok = helperOK && len(cut) > 0 && !reachableWithoutEdges(fn, lock.Block(), cut)
				}
				c.Check(ok, "R08", construct, qIf.Pos(),
					"unless forced, the table lock is only reachable through the 'not recently used' edge of the "+field+" test",
					"a background pass can take the table lock although "+field+" shows recent activity")
			}
			// gcloop never forces
			loop := P.MustFunc(core.PkgBttest, "(*server).gcloop")
			okForce, n := true, 0
			// the loop together with the pieces it is split into (wait / pass helpers)
			lscope := P.Scope(loop, func(f *ssa.Function) bool { return core.PkgPathOf(f) != core.PkgBttest || f == fn })
			lset := setOf(lscope)
			for _, f := range lscope {
				for _, ci := range core.AllCalls(f) {
					if ci.Static == fn {
						n++
						last := ci.Common.Args[len(ci.Common.Args)-1]
						if isBoolType(last.Type()) {
							if !P.AllOrigins(last, lset, func(o ssa.Value) bool { bv, isB := core.ConstBool(o); return isB && !bv }) {
								okForce = false
							}
						} else if _, isStruct := last.Type().Underlying().(*types.Struct); isStruct {
							// a parameter struct built at the call: every bool field is left false
							ld, isLd := last.(*ssa.UnOp)
							var lit *ssa.Alloc
							if isLd {
								lit, _ = ld.X.(*ssa.Alloc)
							}
							if lit == nil {
								okForce = false
							} else {
								for _, r := range core.Referrers(lit) {
									fa, isFa := r.(*ssa.FieldAddr)
									if !isFa || !isBoolType(fa.Type().(*types.Pointer).Elem()) {
										continue
									}
									for _, rr := range core.Referrers(fa) {
										if st, isSt := rr.(*ssa.Store); isSt {
											if bv, isB := core.ConstBool(st.Val); !isB || bv {
												okForce = false
											}
										}
									}
								}
							}
						} else {
							okForce = false
						}
					}
				}
			}
			c.Check(okForce && n > 0, "R08", "gc/gcloop-never-forces", loop.Pos(), "the background loop calls gc with force=false", "the background loop forces GC passes on tables in active use")
			// bounded lock hand-over in the pass
			la := Locks(P)
			handover := false
			// the per-row callback (or a helper it calls: `yieldLock(done)`) releases and re-takes the lock
			// (a function literal, a method value `pass.visit`, or something either of them calls)
			for _, f := range P.Scope(fn, func(f *ssa.Function) bool { return core.PkgPathOf(f) != core.PkgBttest }) {
				if f != fn && la.Breaks[f][tableLock] {
					handover = true
				}
			}
			c.Check(handover, "R08", "gc/periodic-handover", fn.Pos(), "the per-row callback releases and re-takes the table lock", "the GC pass holds the table lock for the whole table: clients are blocked for the duration of the pass")
		default:
			panic(core.Broken("unknown R08 group %q", group))
		}
	}}
}

// errResultOf returns the error component of a call's result (the call itself
// for a single error result, else the Extract of the last component).
func errResultOf(call *ssa.Call) ssa.Value {
	if tup, ok := call.Type().(*types.Tuple); ok {
		for _, r := range core.Referrers(call) {
			if ex, ok := r.(*ssa.Extract); ok && ex.Index == tup.Len()-1 {
				return ex
			}
		}
		return nil
	}
	return call
}
