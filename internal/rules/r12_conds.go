package rules

import (
	"fmt"
	"go/token"
	"go/types"
	"sort"
	"strings"

	"golang.org/x/tools/go/ssa"

	"verif/internal/core"
)

func isConditions(v ssa.Value) bool { return core.TypeIs(v.Type(), pkgCloudStorage, "Conditions") }

// condFieldsTouched lists the Conditions fields whose address is taken or
// which are read in fn (on any value of type Conditions).
func condFieldsTouched(fn *ssa.Function) map[string]bool { return condFieldsTouchedIn(core.Family(fn)) }

func condFieldsTouchedIn(fns []*ssa.Function) map[string]bool {
	out := map[string]bool{}
	for _, f := range fns {
		for _, b := range f.Blocks {
			for _, in := range b.Instrs {
				switch x := in.(type) {
				case *ssa.FieldAddr:
					if core.TypeIs(x.X.Type(), pkgCloudStorage, "Conditions") {
						_, n, _ := core.FieldName(x)
						out[n] = true
					}
				case *ssa.Field:
					if core.TypeIs(x.X.Type(), pkgCloudStorage, "Conditions") {
						_, n, _ := core.FieldName(x)
						out[n] = true
					}
				}
			}
		}
	}
	return out
}

func keysOf(m map[string]bool) []string {
	var out []string
	for k := range m {
		out = append(out, k)
	}
	sort.Strings(out)
	return out
}

// R12: conditions plumbing and truth-table agreement.
func R12() Rule {
	return Rule{Name: "R12", Run: func(c *core.Ctx) {
		P := c.P
		parse := P.MustFunc(core.PkgGcsemu, "parseConds")
		validate := P.MustFunc(core.PkgGcsemu, "validateConds")
		c.Fn("parseConds")
		c.Fn("validateConds")
		// (a) what the parser writes the validator reads
		// the validator together with its helpers and the predicates of a dispatch table it walks
		vscope := P.Scope(validate, func(f *ssa.Function) bool { return core.PkgPathOf(f) != core.PkgGcsemu })
		w, r := condFieldsTouched(parse), condFieldsTouchedIn(vscope)
		for _, f := range keysOf(w) {
			c.Check(r[f], "R12", "a/parsed-field-is-validated/"+f, parse.Pos(), "validateConds reads "+f, "parseConds sets Conditions."+f+" but validateConds never looks at it: the precondition is accepted and silently ignored")
		}
		for _, f := range keysOf(r) {
			c.Check(w[f], "R12", "a/validated-field-is-parsed/"+f, validate.Pos(), "parseConds sets "+f, "validateConds tests Conditions."+f+" but parseConds never sets it: the precondition can never take effect")
		}
		if len(w) < 4 {
			c.Unknown("R12", "floor/fields", token.NoPos, "only %d Conditions fields handled by parseConds", len(w))
		}
		// (b) failure kind → status code
		nRet := 0
		var objParam *ssa.Parameter
		for _, p := range validate.Params {
			if isPtr(p.Type()) {
				objParam = p
			}
		}
		for i, ret := range returnsIn(validate) {
			for _, v := range returnValues(ret.Results[0]) {
				v = core.Resolve(v)
				if core.IsNilConst(v) {
					// success: on the nil-object side only for the empty / does-not-exist condition sets
					objNil := false
					whitelisted := false
					for _, f := range core.FactsAt(ret.Block()) {
						bin, ok := f.Cond.(*ssa.BinOp)
						if !ok {
							continue
						}
						if core.IsNilConst(bin.Y) && objParam != nil && core.Resolve(bin.X) == ssa.Value(objParam) && (bin.Op == token.EQL) == f.Polarity {
							objNil = true
						}
					}
					if objNil {
						// every path to this return passes a struct equality with one of the two globals
						whitelisted = nilSuccessOnlyForWhitelistedConds(validate, ret)
						c.Check(whitelisted, "R12", fmt.Sprintf("b/nil-object-success#%d", i+1), ret.Pos(), "an absent object passes only when the conditions equal the empty or the does-not-exist set", "an absent object passes validateConds for condition sets other than 'none' / 'must not exist'")
					}
					continue
				}
				call, ok := v.(*ssa.Call)
				if !ok || !core.Call(call).IsFunc(core.PkgGcsemu, "fmtErrorfCode") {
					c.Bad("R12", fmt.Sprintf("b/failure#%d", i+1), ret.Pos(), "validateConds fails with an error that carries no HTTP status")
					continue
				}
				if _, isK := core.ConstInt(call.Call.Args[0]); !isK {
					// table-driven: `for _, chk := range checks { if chk.failed(obj, cond) { return fmtErrorfCode(chk.code, …) } }`
					// — every row of the table pairs its predicate's condition fields with its code
					g, codeField, okT := core.TableFieldOf(call.Call.Args[0])
					var predField string
					for _, f := range core.FactsAt(ret.Block()) {
						if pc, isC := f.Cond.(*ssa.Call); isC && f.Polarity && !pc.Call.IsInvoke() {
							if g2, pf, ok2 := core.TableFieldOf(pc.Call.Value); ok2 && g2 == g {
								predField = pf
							}
						}
					}
					rows := []core.TableRow(nil)
					if okT && predField != "" {
						rows = P.GlobalTable(g)
					}
					if len(rows) == 0 {
						c.Unknown("R12", fmt.Sprintf("b/failure#%d", i+1), ret.Pos(), "the status code of this failure is not a constant and not a field of a dispatch-table row selected by that row's predicate")
						continue
					}
					for ri, row := range rows {
						nRet++
						code, isK := core.ConstInt(row.Fields[codeField])
						var pred *ssa.Function
						switch x := row.Fields[predField].(type) {
						case *ssa.Function:
							pred = x
						case *ssa.MakeClosure:
							pred, _ = x.Fn.(*ssa.Function)
						}
						if !isK || pred == nil {
							c.Unknown("R12", fmt.Sprintf("b/failure-row#%d", ri+1), ret.Pos(), "table row %d has no constant code / predicate function", ri+1)
							continue
						}
						fields := condFieldsTouchedIn(core.Family(pred))
						want := int64(412)
						for n := range fields {
							if strings.HasSuffix(n, "NotMatch") {
								want = 304
							}
						}
						c.Check(code == want, "R12", fmt.Sprintf("b/failure-code/%s", strings.Join(keysOf(fields), "+")), pred.Pos(), fmt.Sprintf("fails with %d", want), fmt.Sprintf("a failing %v precondition is answered with %d, expected %d (412 for match-kind and existence conditions, 304 for not-match ones)", keysOf(fields), code, want))
					}
					continue
				}
				nRet++
				code, _ := core.ConstInt(call.Call.Args[0])
				fields := map[string]bool{}
				for _, f := range core.FactsAt(ret.Block()) {
					if !f.Polarity {
						continue
					}
					for _, n := range condFieldsIn(f.Cond) {
						fields[n] = true
					}
				}
				want := int64(412)
				for n := range fields {
					if strings.HasSuffix(n, "NotMatch") {
						want = 304
					}
				}
				construct := fmt.Sprintf("b/failure-code/%s", strings.Join(keysOf(fields), "+"))
				if len(fields) == 0 {
					construct = fmt.Sprintf("b/failure-code/absent-object#%d", i+1)
				}
				c.Check(code == want, "R12", construct, ret.Pos(), fmt.Sprintf("fails with %d", want), fmt.Sprintf("a failing %v precondition is answered with %d, expected %d (412 for match-kind and existence conditions, 304 for not-match ones)", keysOf(fields), code, want))
			}
		}
		if nRet < 3 {
			c.Unknown("R12", "floor/failures", token.NoPos, "only %d coded failure returns in validateConds", nRet)
		}
		// status code round trip
		fe := P.MustFunc(core.PkgGcsemu, "fmtErrorfCode")
		sc := P.MustFunc(core.PkgGcsemu, "httpStatusCodeOf")
		stored := false
		for _, b := range fe.Blocks {
			for _, in := range b.Instrs {
				if st, ok := in.(*ssa.Store); ok {
					if fa, ok := st.Addr.(*ssa.FieldAddr); ok {
						if _, f, _ := core.FieldName(fa); f == "code" && core.Resolve(st.Val) == ssa.Value(fe.Params[0]) {
							stored = true
						}
					}
				}
			}
		}
		loaded := false
		for _, ret := range returnsIn(sc) {
			for _, v := range returnValues(ret.Results[0]) {
				if strings.HasSuffix(strings.Join(fieldChain(v), "."), "code") {
					loaded = true
				}
			}
		}
		c.Check(stored && loaded, "R12", "b/status-code-roundtrip", fe.Pos(), "fmtErrorfCode stores its code in httpError.code and httpStatusCodeOf returns that field", "the HTTP code given to fmtErrorfCode is not what httpStatusCodeOf reports")

		// (c) plumbing, as a backward flow rule: the conditions every validateConds call
		// evaluates come — through handler parameters, the pending upload's Conds field and the
		// compose source records — from the request (parseConds in Handler, or a source's own
		// ifGenerationMatch).  Dropping them anywhere on the way (a zero Conditions{}, a field
		// that is never filled) breaks the chain; moving or splitting handlers does not.
		n := 0
		for _, f := range P.SrcFuncs(core.PkgGcsemu) {
			k := 0
			for _, call := range callsTo(f, core.PkgGcsemu, "validateConds") {
				n++
				k++
				ok, why := condsFromRequest(P, call.Call.Args[1])
				c.Check(ok, "R12", fmt.Sprintf("c/%s/validateConds#%d/conditions-come-from-the-request", core.FuncName(f), k), call.Pos(),
					"the evaluated conditions derive from parseConds / the source's ifGenerationMatch on every path ("+why+")",
					"the conditions evaluated here do not (on every path) derive from the request: "+why+" — preconditions of this operation are ignored")
			}
		}
		if n < 3 {
			c.Unknown("R12", "floor/validate-sites", token.NoPos, "only %d validateConds call sites found", n)
		}
		// compose checks each source it reads against that source's conditions
		fc := funcOr(P, core.PkgGcsemu, "(*GcsEmu).finishCompose", "(*GcsEmu).handleGcsCompose")
		nv := 0
		srcChecked := false
		for _, f := range P.Scope(fc, func(f *ssa.Function) bool { return f == validate }) {
			for _, call := range callsTo(f, core.PkgGcsemu, "validateConds") {
				nv++
				obj := core.Resolve(call.Call.Args[0])
				if ex, ok := obj.(*ssa.Extract); ok {
					if g, ok := ex.Tuple.(*ssa.Call); ok && isStoreCall(core.Call(g), "Get") {
						srcChecked = true
					}
				}
			}
		}
		c.Check(srcChecked && nv >= 2, "R12", "c/compose-validates-each-source", fc.Pos(), "every source read is checked against that source's conditions", "compose does not check the per-source generation match")
	}}
}

// condsFromRequest decides whether a Conditions value derives, on every path,
// from the request: the result of parseConds; a struct field of type Conditions
// all of whose assignments (anywhere in the package) do; or a locally built value
// whose generation match is a compose source's ifGenerationMatch.
func condsFromRequest(P *core.Program, v ssa.Value) (bool, string) {
	seenVal := map[ssa.Value]bool{}
	seenField := map[string]bool{}
	var walk func(v ssa.Value, depth int) (bool, string)
	fieldOK := func(structT types.Type, field string, depth int) (bool, string) {
		key := structT.String() + "." + field
		if seenField[key] {
			return true, "" // being decided higher up
		}
		seenField[key] = true
		nStores := 0
		for _, f := range P.SrcFuncs(core.PkgGcsemu) {
			for _, b := range f.Blocks {
				for _, in := range b.Instrs {
					st, ok := in.(*ssa.Store)
					if !ok {
						continue
					}
					fa, ok := st.Addr.(*ssa.FieldAddr)
					if !ok {
						continue
					}
					_, fn, _ := core.FieldName(fa)
					if fn != field || core.NamedOf(fa.X.Type()) == nil || core.NamedOf(fa.X.Type()) != core.NamedOf(structT) {
						continue
					}
					nStores++
					if ok2, why := walk(st.Val, depth+1); !ok2 {
						return false, fmt.Sprintf("%s.%s is assigned a value that does not: %s", core.NamedOf(structT).Obj().Name(), field, why)
					}
				}
			}
		}
		if nStores == 0 {
			return false, fmt.Sprintf("%s.%s is never assigned", core.NamedOf(structT).Obj().Name(), field)
		}
		return true, fmt.Sprintf("via %s.%s", core.NamedOf(structT).Obj().Name(), field)
	}
	walk = func(v ssa.Value, depth int) (bool, string) {
		v = core.Resolve(v)
		if depth > 14 {
			return false, "flow too deep to follow"
		}
		if seenVal[v] {
			return true, ""
		}
		seenVal[v] = true
		switch x := v.(type) {
		case *ssa.Extract:
			if call, ok := x.Tuple.(*ssa.Call); ok && core.Call(call).IsFunc(core.PkgGcsemu, "parseConds") && x.Index == 0 {
				return true, "parseConds"
			}
		case *ssa.Parameter:
			fn := x.Parent()
			refs := P.Refs(fn)
			if len(refs) == 0 {
				return false, fmt.Sprintf("parameter %s of %s, which has no callers in the package", x.Name(), core.FuncName(fn))
			}
			why := ""
			for _, r := range refs {
				t := core.Translate(x, fn, r)
				if t == nil {
					return false, fmt.Sprintf("parameter %s of %s is not bound at %s", x.Name(), core.FuncName(fn), P.Pos(r.Instr.Pos()))
				}
				ok, w := walk(t, depth+1)
				if !ok {
					return false, w
				}
				if w != "" {
					why = w
				}
			}
			return true, why
		case *ssa.FreeVar:
			fn := x.Parent()
			for _, r := range P.Refs(fn) {
				if t := core.Translate(x, fn, r); t != nil {
					return walk(t, depth+1)
				}
			}
		case *ssa.Phi:
			why := ""
			for _, e := range x.Edges {
				ok, w := walk(e, depth+1)
				if !ok {
					return false, w
				}
				if w != "" {
					why = w
				}
			}
			return true, why
		case *ssa.Field:
			if !isConditions(x.X) {
				_, fn, _ := core.FieldName(x)
				return fieldOK(x.X.Type(), fn, depth)
			}
		case *ssa.UnOp:
			if x.Op != token.MUL {
				break
			}
			switch a := x.X.(type) {
			case *ssa.FieldAddr:
				_, fn, _ := core.FieldName(a)
				return fieldOK(a.X.Type(), fn, depth)
			case *ssa.Alloc, *ssa.FreeVar:
				cell := core.CellOf(a)
				if cell == nil {
					break
				}
				// a local Conditions variable: whole-value assignments must derive from the request;
				// a value built field by field must take its generation match from the source's ifGenerationMatch
				whole, built := 0, false
				for _, st := range core.StoresTo(cell) {
					whole++
					if ok, w := walk(st.Val, depth+1); !ok {
						return false, w
					}
				}
				for _, f := range core.Family(core.Root(cell.Parent())) {
					for _, b := range f.Blocks {
						for _, in := range b.Instrs {
							st, ok := in.(*ssa.Store)
							if !ok {
								continue
							}
							fa, ok := st.Addr.(*ssa.FieldAddr)
							if !ok || core.CellOf(fa.X) != cell {
								continue
							}
							if _, fn, _ := core.FieldName(fa); fn == "GenerationMatch" {
								if strings.Contains(substKey(st.Val, nil, 0), "IfGenerationMatch") || phiHasField(st.Val, "IfGenerationMatch") {
									built = true
								}
							}
						}
					}
				}
				if whole > 0 || built {
					return true, "built from the source's ifGenerationMatch"
				}
				return false, "a Conditions value that is never filled from the request"
			}
		}
		return false, fmt.Sprintf("%s at %s", describeValue(v), P.Pos(v.Pos()))
	}
	return walk(v, 0)
}

func describeValue(v ssa.Value) string {
	switch x := v.(type) {
	case *ssa.Const:
		return "a constant / zero Conditions value"
	case *ssa.Call:
		return "the result of " + core.Call(x).CalleeName()
	case *ssa.Alloc:
		return "a fresh local value"
	}
	return fmt.Sprintf("%T", v)
}

func phiHasField(v ssa.Value, field string) bool {
	seen := map[ssa.Value]bool{}
	var walk func(v ssa.Value, d int) bool
	walk = func(v ssa.Value, d int) bool {
		v = core.Strip(v)
		if d > 8 || seen[v] {
			return false
		}
		seen[v] = true
		for _, f := range fieldChain(v) {
			if f == field {
				return true
			}
		}
		switch x := v.(type) {
		case *ssa.Phi:
			for _, e := range x.Edges {
				if walk(e, d+1) {
					return true
				}
			}
		case *ssa.UnOp:
			if cell := core.CellOf(x.X); cell != nil {
				for _, st := range core.StoresTo(cell) {
					if walk(st.Val, d+1) {
						return true
					}
				}
			}
		}
		return false
	}
	return walk(v, 0)
}

// condFieldsIn lists Conditions fields read in the expression tree of cond.
func condFieldsIn(v ssa.Value) []string {
	var out []string
	seen := map[ssa.Value]bool{}
	var walk func(v ssa.Value, d int)
	walk = func(v ssa.Value, d int) {
		v = core.Strip(v)
		if d > 6 || seen[v] {
			return
		}
		seen[v] = true
		switch x := v.(type) {
		case *ssa.BinOp:
			walk(x.X, d+1)
			walk(x.Y, d+1)
		case *ssa.UnOp:
			if fa, ok := x.X.(*ssa.FieldAddr); ok && core.TypeIs(fa.X.Type(), pkgCloudStorage, "Conditions") {
				_, n, _ := core.FieldName(fa)
				out = append(out, n)
				return
			}
			walk(x.X, d+1)
		case *ssa.Field:
			if core.TypeIs(x.X.Type(), pkgCloudStorage, "Conditions") {
				_, n, _ := core.FieldName(x)
				out = append(out, n)
			}
		}
	}
	walk(v, 0)
	return out
}

// nilSuccessOnlyForWhitelistedConds: the success return on the nil-object side
// is only reachable through struct-equality tests against package-level
// Conditions values (emptyConds / doesNotExistConds).
func nilSuccessOnlyForWhitelistedConds(fn *ssa.Function, ret *ssa.Return) bool {
	var cut []cfgEdge
	n := 0
	for _, b := range fn.Blocks {
		ifi, ok := b.Instrs[len(b.Instrs)-1].(*ssa.If)
		if !ok {
			continue
		}
		bin, ok := ifi.Cond.(*ssa.BinOp)
		if !ok || bin.Op != token.EQL || !isConditions(bin.X) {
			continue
		}
		isGlobal := func(v ssa.Value) bool {
			if ld, ok := core.Strip(v).(*ssa.UnOp); ok {
				_, g := ld.X.(*ssa.Global)
				return g
			}
			return false
		}
		if isGlobal(bin.X) || isGlobal(bin.Y) {
			n++
			cut = append(cut, cfgEdge{b, b.Succs[0]})
		}
	}
	return n >= 1 && !reachableWithoutEdges(fn, ret.Block(), cut)
}
