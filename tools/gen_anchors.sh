#!/bin/sh
# Regenerates internal/core/anchors_table.go from /repo's current tree.  Run only after
# re-confirming the rules on that tree (the table is the reference for rename detection).
cd "$(dirname "$0")/.." || exit 2
export GOFLAGS=-mod=mod GOPROXY=off GOSUMDB=off GOTOOLCHAIN=local GOWORK=off
printf 'package core\n\n// AnchorTable: fingerprints of the named functions of the three analysed packages, generated from\n// the confirmed tree by tools/gen_anchors.sh (emucheck anchors-gen).  Regenerate only after\n// re-confirming the rules on a new tree.\nvar AnchorTable = []AnchorFP{}\n' > internal/core/anchors_table.go
go build -o bin/emucheck ./cmd/emucheck || exit 1
body=$(./bin/emucheck anchors-gen) || exit 1
{ printf 'package core\n\n// AnchorTable: fingerprints of the named functions of the three analysed packages, generated from\n// the confirmed tree by tools/gen_anchors.sh (emucheck anchors-gen).  Regenerate only after\n// re-confirming the rules on a new tree.\nvar AnchorTable = []AnchorFP{\n'; printf '%s\n' "$body"; printf '}\n'; } > internal/core/anchors_table.go
gofmt -l internal/core/ ; go build -o bin/emucheck ./cmd/emucheck && echo regenerated $(grep -c 'Pkg:' internal/core/anchors_table.go) anchors
