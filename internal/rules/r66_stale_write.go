package rules

import (
	"fmt"
	"go/token"
	"go/types"

	"golang.org/x/tools/go/ssa"

	"verif/internal/core"
)

// ---------------------------------------------------------------------------
// R66: nothing written under the object lock is computed from a read of that
// object made before the lock was taken.
//
// C07: "no update is lost", "a metageneration-conditioned patch never applies to a
// state it did not match".  A handler that reads (bucket, name) from the store,
// then enters the critical section of (bucket, name) and hands the store a
// record / content derived from the earlier read has merged its change onto a
// snapshot: whatever another request committed between the read and the lock is
// overwritten while both answer 200.  Re-reading inside the section for the
// precondition check does not help — the data written is still the snapshot's.
//
// Forward taint from every Store.Get/GetMeta result obtained in the handler
// before the Run call, for the same (bucket, name) as the lock key, through
// values, local variables, captured variables, helper parameters/results and
// out-parameters of library calls (json.Unmarshal(buf, &x)); sinks are the
// data arguments (content, metadata, metageneration) of Store.Add / UpdateMeta
// reached from the section.  Results of store reads made inside the section are
// fresh whatever their arguments.
// ---------------------------------------------------------------------------

type taintState struct {
	P       *core.Program
	pkg     string
	vals    map[ssa.Value]bool
	cells   map[*ssa.Alloc]bool
	work    []ssa.Value
	family  []*ssa.Function
	visited map[*ssa.Function]bool
	pending []pendingLoad
}

func (t *taintState) add(v ssa.Value) {
	if v == nil || t.vals[v] {
		return
	}
	t.vals[v] = true
	t.work = append(t.work, v)
}

func (t *taintState) addCell(cell *ssa.Alloc) {
	if cell == nil || t.cells[cell] {
		return
	}
	t.cells[cell] = true
	// every load of the cell, in the function that owns it and in the closures that capture it —
	// except a load that can only see values assigned, in its own function, from data that is not
	// tainted (the variable was re-assigned from a fresh read before it is used)
	for _, f := range core.Family(core.Root(cell.Parent())) {
		for _, b := range f.Blocks {
			for _, in := range b.Instrs {
				if ld, ok := in.(*ssa.UnOp); ok && ld.Op == token.MUL && core.CellOf(ld.X) == cell {
					if t.protected(ld, cell) {
						t.pending = append(t.pending, pendingLoad{ld, cell})
					} else {
						t.add(ld)
					}
				}
			}
		}
	}
}

type pendingLoad struct {
	ld   *ssa.UnOp
	cell *ssa.Alloc
}

// protected: some store to the cell in the load's own function dominates the load, and every store
// of that function that can reach the load assigns an untainted value.
func (t *taintState) protected(ld *ssa.UnOp, cell *ssa.Alloc) bool {
	dominated := false
	for _, b := range ld.Parent().Blocks {
		for _, in := range b.Instrs {
			st, ok := in.(*ssa.Store)
			if !ok || core.CellOf(st.Addr) != cell {
				continue
			}
			if !core.InstrReaches(st, ld) && !core.InstrDominates(st, ld) {
				continue
			}
			if t.vals[st.Val] {
				return false
			}
			if core.InstrDominates(st, ld) {
				dominated = true
			}
		}
	}
	return dominated
}

// baseOf strips field / element addressing: the object a location belongs to.
func baseOf(addr ssa.Value) ssa.Value {
	for i := 0; i < 8; i++ {
		switch x := addr.(type) {
		case *ssa.FieldAddr:
			addr = x.X
		case *ssa.IndexAddr:
			addr = x.X
		default:
			return addr
		}
	}
	return addr
}

func pointerLike(t types.Type) bool {
	switch t.Underlying().(type) {
	case *types.Pointer, *types.Slice, *types.Map, *types.Interface:
		return true
	}
	return false
}

func (t *taintState) run() {
	for {
		t.drain()
		again := false
		keep := t.pending[:0]
		for _, p := range t.pending {
			if t.protected(p.ld, p.cell) {
				keep = append(keep, p)
			} else {
				t.add(p.ld)
				again = true
			}
		}
		t.pending = keep
		if !again {
			return
		}
	}
}

func (t *taintState) drain() {
	for len(t.work) > 0 {
		v := t.work[len(t.work)-1]
		t.work = t.work[:len(t.work)-1]
		for _, r := range core.Referrers(v) {
			switch x := r.(type) {
			case *ssa.Extract, *ssa.FieldAddr, *ssa.Field, *ssa.IndexAddr, *ssa.Index, *ssa.Convert, *ssa.ChangeType,
				*ssa.MakeInterface, *ssa.ChangeInterface, *ssa.TypeAssert, *ssa.Slice, *ssa.BinOp, *ssa.Phi, *ssa.Lookup:
				t.add(x.(ssa.Value))
			case *ssa.UnOp:
				t.add(x)
			case *ssa.Store:
				if x.Val != v {
					continue
				}
				base := baseOf(x.Addr)
				if cell := core.CellOf(base); cell != nil {
					t.addCell(cell)
				} else {
					t.add(base) // a field of some object: the object now carries the data
				}
			case *ssa.MapUpdate:
				if x.Value == v || x.Key == v {
					t.add(x.Map)
				}
			case *ssa.MakeClosure:
				if fn, ok := x.Fn.(*ssa.Function); ok {
					for i, b := range x.Bindings {
						if b == v && i < len(fn.FreeVars) {
							t.add(fn.FreeVars[i])
						}
					}
				}
			case *ssa.Return:
				// the result of every call of this function
				fn := x.Parent()
				for _, ref := range t.P.Refs(fn) {
					if call, ok := ref.Instr.(*ssa.Call); ok && ref.Kind == core.RefCall {
						t.add(call)
					}
				}
			case ssa.CallInstruction:
				ci := core.Call(x)
				if ci == nil {
					continue
				}
				if isStoreCall(ci, "Get", "GetMeta", "ReadMeta", "GetBucketMeta") {
					continue // a fresh read, whatever it is asked about
				}
				if b, ok := ci.Common.Value.(*ssa.Builtin); ok {
					switch b.Name() {
					case "append", "min", "max":
						if val, ok := x.(ssa.Value); ok {
							t.add(val)
						}
					case "copy":
						if len(ci.Common.Args) == 2 && ci.Common.Args[1] == v {
							t.add(baseOf(ci.Common.Args[0]))
						}
					}
					continue
				}
				if ci.Static != nil && ci.Static.Blocks != nil && core.PkgPathOf(ci.Static) == t.pkg {
					args := ci.Common.Args
					for i, a := range args {
						if a == v && i < len(ci.Static.Params) {
							t.add(ci.Static.Params[i])
						}
					}
					continue
				}
				// library call (or dynamic): the result and every out-parameter may carry the data
				if val, ok := x.(ssa.Value); ok && val.Type() != nil {
					if tup, isTuple := val.Type().(*types.Tuple); !isTuple || tup.Len() > 0 {
						t.add(val)
					}
				}
				for _, a := range ci.Common.Args {
					if a == v || !pointerLike(a.Type()) {
						continue
					}
					a = core.Strip(a)
					if mi, ok := a.(*ssa.MakeInterface); ok {
						a = core.Strip(mi.X)
					}
					if cell := core.CellOf(baseOf(a)); cell != nil {
						t.addCell(cell)
						t.add(cell)
						continue
					}
					// a pointer held in a local variable: what it points to now carries the data, and so
					// does every later load of that variable
					if ld, ok := a.(*ssa.UnOp); ok && ld.Op == token.MUL {
						if cell := core.CellOf(ld.X); cell != nil {
							// the object the variable points to: whatever was assigned to it and reaches this use
							for _, st := range core.StoresTo(cell) {
								if st.Parent() != ld.Parent() || core.InstrReaches(st, ld) || core.InstrDominates(st, ld) {
									t.add(st.Val)
								}
							}
							t.addCell(cell)
						}
					}
					t.add(a)
				}
			}
		}
	}
}

func R66() Rule {
	return Rule{Name: "R66", Run: func(c *core.Ctx) {
		P := c.P
		if P.SPkgs[core.PkgGcsemu] == nil {
			return
		}
		nSec, nSink := 0, 0
		for _, fn := range P.SrcFuncs(core.PkgGcsemu) {
			sec, _ := sectionOfClosure(P, fn)
			if sec == nil || sec.runCall == nil {
				continue
			}
			nSec++
			par := sec.runCall.Parent()
			kb, kn := substKey(sec.bucket, nil, 0), substKey(sec.name, nil, 0)
			// reads of the locked object made by the handler before it enters the section
			ts := &taintState{P: P, pkg: core.PkgGcsemu, vals: map[ssa.Value]bool{}, cells: map[*ssa.Alloc]bool{}}
			var sources []*core.CallInfo
			for _, ci := range core.AllCalls(par) {
				if !isStoreCall(ci, "Get", "GetMeta") {
					continue
				}
				call, ok := ci.Instr.(*ssa.Call)
				if !ok || !core.InstrReaches(call, sec.runCall) {
					continue
				}
				ab, an := substKey(ci.Common.Args[1], nil, 0), substKey(ci.Common.Args[2], nil, 0)
				if ab != kb || an != kn {
					continue
				}
				sources = append(sources, ci)
				ts.add(call)
			}
			if len(sources) == 0 {
				continue
			}
			ts.run()
			// sinks: data arguments of the mutators reached from the section
			k := 0
			var walk func(f *ssa.Function, depth int, seen map[*ssa.Function]bool)
			walk = func(f *ssa.Function, depth int, seen map[*ssa.Function]bool) {
				if seen[f] {
					return
				}
				seen[f] = true
				for _, ci := range core.AllCalls(f) {
					var data []int
					switch {
					case isStoreCall(ci, "Add"):
						data = []int{2, 3}
					case isStoreCall(ci, "UpdateMeta"):
						data = []int{2, 3}
					default:
						if depth < 3 && ci.Static != nil && ci.Static.Blocks != nil && core.PkgPathOf(ci.Static) == core.PkgGcsemu && ci.Static.Parent() == nil {
							walk(ci.Static, depth+1, seen)
						}
						continue
					}
					k++
					nSink++
					c.Fn(core.FuncName(par))
					construct := fmt.Sprintf("%s/Store.%s#%d/written-data-read-under-the-lock", core.FuncName(fn), ci.Method.Name(), k)
					bad := -1
					for _, i := range data {
						if i < len(ci.Common.Args) && ts.vals[ci.Common.Args[i]] {
							bad = i
						}
					}
					if bad >= 0 {
						c.Bad("R66", construct, ci.Instr.Pos(), "argument %d of Store.%s, executed under the lock of (%s, %s), is computed from the handler's read of that same object at %s — made before the lock was taken: a request that commits in between is overwritten by data merged onto the stale snapshot (lost update; with a content write in between, old metadata on the new generation)", bad, ci.Method.Name(), kb, kn, P.Pos(sources[0].Instr.Pos()))
					} else {
						c.Ok("R66", construct, ci.Instr.Pos(), true, "the data written does not derive from the handler's earlier, unlocked read of (%s, %s)", kb, kn)
					}
				}
			}
			walk(fn, 0, map[*ssa.Function]bool{})
		}
		if nSec < 3 {
			c.Unknown("R66", "floor/sections", token.NoPos, "only %d critical sections found", nSec)
		}
		if nSink == 0 {
			c.Ok("R66", "no-unlocked-read-of-the-locked-object", token.NoPos, false, "no handler reads the object it is about to lock before entering the critical section (%d sections)", nSec)
		}
	}}
}
