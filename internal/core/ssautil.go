package core

import (
	"go/constant"
	"go/token"
	"go/types"
	"strings"

	"golang.org/x/tools/go/ssa"
)

// ---------- calls ----------

// CallInfo describes a call site in a resolved way.
type CallInfo struct {
	Instr  ssa.CallInstruction
	Common *ssa.CallCommon
	Static *ssa.Function // non-nil for static calls (incl. closures called directly via MakeClosure)
	// For invoke-mode (interface method) calls:
	IfaceRecv types.Type
	Method    *types.Func
}

func Call(instr ssa.Instruction) *CallInfo {
	ci, ok := instr.(ssa.CallInstruction)
	if !ok {
		return nil
	}
	c := ci.Common()
	info := &CallInfo{Instr: ci, Common: c}
	if c.IsInvoke() {
		info.IfaceRecv = c.Value.Type()
		info.Method = c.Method
		return info
	}
	info.Static = c.StaticCallee()
	return info
}

// Args returns the actual arguments excluding the receiver.
func (c *CallInfo) Args() []ssa.Value {
	if c.Common.IsInvoke() {
		return c.Common.Args
	}
	if c.Static != nil && c.Static.Signature.Recv() != nil {
		return c.Common.Args[1:]
	}
	return c.Common.Args
}

// Recv returns the receiver value (interface value or receiver argument).
func (c *CallInfo) Recv() ssa.Value {
	if c.Common.IsInvoke() {
		return c.Common.Value
	}
	if c.Static != nil && c.Static.Signature.Recv() != nil && len(c.Common.Args) > 0 {
		return c.Common.Args[0]
	}
	return nil
}

// IsFunc reports whether the call statically targets pkgPath.name (package
// function) or a method written "(*T).M"/"T.M".
func (c *CallInfo) IsFunc(pkgPath, name string) bool {
	if c.Static == nil {
		return false
	}
	return FuncIs(c.Static, pkgPath, name)
}

func FuncIs(f *ssa.Function, pkgPath, name string) bool {
	if f == nil {
		return false
	}
	obj := f.Object()
	if obj == nil {
		return false
	}
	if obj.Pkg() == nil || obj.Pkg().Path() != pkgPath {
		return false
	}
	return FuncName(f) == name
}

// IsIfaceMethod reports an invoke of method `method` on the named interface
// type pkgPath.iface.
func (c *CallInfo) IsIfaceMethod(pkgPath, iface, method string) bool {
	if c.Method == nil || c.Method.Name() != method {
		return false
	}
	n := NamedOf(c.IfaceRecv)
	if n != nil && n.Obj().Pkg() != nil && n.Obj().Pkg().Path() == pkgPath && TName(n) == iface {
		return true
	}
	// A narrower or differently named interface (`type adder interface{ Add(...) }`, an embedded
	// subset) through which every implementation of pkgPath.iface can be reached: the reference
	// interface satisfies it and the method has the reference method's signature.  Such a call is
	// a call of the reference method as far as the rules are concerned (no side door).
	if c.IfaceRecv == nil || c.Instr == nil || c.Instr.Parent() == nil {
		return false
	}
	it, ok := c.IfaceRecv.Underlying().(*types.Interface)
	if !ok || it.NumMethods() == 0 {
		return false
	}
	sp := c.Instr.Parent().Prog.ImportedPackage(pkgPath)
	if sp == nil {
		return false
	}
	sc := sp.Pkg.Scope()
	for _, name := range sc.Names() {
		tn, ok := sc.Lookup(name).(*types.TypeName)
		if !ok {
			continue
		}
		ref, ok := tn.Type().(*types.Named)
		if !ok || TName(ref) != iface {
			continue
		}
		rit, ok := ref.Underlying().(*types.Interface)
		if !ok || !types.Implements(ref, it) {
			continue
		}
		for i := 0; i < rit.NumMethods(); i++ {
			if m := rit.Method(i); m.Name() == method && types.Identical(m.Type(), c.Method.Type()) {
				return true
			}
		}
	}
	return false
}

// MethodOn reports a call (static or invoke) of a method named `method` whose
// receiver's named type is pkgPath.typ (pointer-ness ignored).
func (c *CallInfo) MethodOn(pkgPath, typ, method string) bool {
	if c.Method != nil {
		return c.IsIfaceMethod(pkgPath, typ, method)
	}
	if c.Static == nil || c.Static.Signature.Recv() == nil || c.Static.Name() != method {
		return false
	}
	n := NamedOf(c.Static.Signature.Recv().Type())
	return n != nil && n.Obj().Pkg() != nil && n.Obj().Pkg().Path() == pkgPath && TName(n) == typ
}

// CalleeName is a printable name of the call target.
func (c *CallInfo) CalleeName() string {
	if c.Method != nil {
		n := NamedOf(c.IfaceRecv)
		if n != nil {
			return n.Obj().Name() + "." + c.Method.Name()
		}
		return c.Method.Name()
	}
	if c.Static != nil {
		if c.Static.Pkg != nil && c.Static.Object() != nil {
			return c.Static.Pkg.Pkg.Name() + "." + FuncName(c.Static)
		}
		return FuncName(c.Static)
	}
	if b, ok := c.Common.Value.(*ssa.Builtin); ok {
		return "builtin." + b.Name()
	}
	return "dynamic"
}

// NamedOf strips pointers and returns the named type, if any.
func NamedOf(t types.Type) *types.Named {
	for {
		switch tt := t.(type) {
		case *types.Pointer:
			t = tt.Elem()
		case *types.Named:
			return tt
		case *types.Alias:
			t = types.Unalias(tt)
		default:
			return nil
		}
	}
}

// TypeIs reports whether t (pointers stripped) is the named type pkgPath.name.
func TypeIs(t types.Type, pkgPath, name string) bool {
	n := NamedOf(t)
	return n != nil && n.Obj().Pkg() != nil && n.Obj().Pkg().Path() == pkgPath && TName(n) == name
}

// AllCalls lists all call instructions (call, go, defer) of a function.
func AllCalls(fn *ssa.Function) []*CallInfo {
	var out []*CallInfo
	for _, b := range fn.Blocks {
		for _, in := range b.Instrs {
			if c := Call(in); c != nil {
				out = append(out, c)
			}
		}
	}
	return out
}

// Family returns fn and all functions nested in it (transitively).
func Family(fn *ssa.Function) []*ssa.Function {
	out := []*ssa.Function{fn}
	for _, a := range fn.AnonFuncs {
		out = append(out, Family(a)...)
	}
	return out
}

// Root returns the outermost enclosing function.
func Root(fn *ssa.Function) *ssa.Function {
	for fn.Parent() != nil {
		fn = fn.Parent()
	}
	return fn
}

// ---------- dominance ----------

func instrIndex(in ssa.Instruction) int {
	for i, x := range in.Block().Instrs {
		if x == in {
			return i
		}
	}
	return -1
}

// InstrDominates: a executes before b on every path reaching b (same function).
func InstrDominates(a, b ssa.Instruction) bool {
	if a.Block() == b.Block() {
		return instrIndex(a) < instrIndex(b)
	}
	return a.Block().Dominates(b.Block())
}

// EdgeDominates reports whether every path to target passes through the CFG
// edge from -> from.Succs[idx].
func EdgeDominates(from *ssa.BasicBlock, idx int, target *ssa.BasicBlock) bool {
	s := from.Succs[idx]
	// the two successors of an If may be the same block
	for i, o := range from.Succs {
		if i != idx && o == s {
			return false
		}
	}
	if !s.Dominates(target) {
		return false
	}
	for _, p := range s.Preds {
		if p == from {
			continue
		}
		if !s.Dominates(p) { // a non-back-edge predecessor other than `from`
			return false
		}
	}
	return true
}

// CondFact is a branch condition known to hold (Polarity true) or not to hold.
type CondFact struct {
	Cond     ssa.Value
	Polarity bool
	If       *ssa.If
}

// FactsAt collects the branch facts that hold on entry to block b: for every
// dominator y of b that ends in an If, the edge y->succ[idx] that dominates b.
func FactsAt(b *ssa.BasicBlock) []CondFact {
	var facts []CondFact
	for y := b.Idom(); y != nil; y = y.Idom() {
		ifi, ok := lastIf(y)
		if !ok {
			continue
		}
		for idx := range y.Succs {
			if EdgeDominates(y, idx, b) {
				facts = append(facts, ExpandCond(CondFact{Cond: ifi.Cond, Polarity: idx == 0, If: ifi})...)
			}
		}
	}
	return facts
}

func lastIf(b *ssa.BasicBlock) (*ssa.If, bool) {
	if len(b.Instrs) == 0 {
		return nil, false
	}
	i, ok := b.Instrs[len(b.Instrs)-1].(*ssa.If)
	return i, ok
}

// expandCond unfolds negations: !x true == x false.  (&& and || are already
// control flow in SSA.)
func ExpandCond(f CondFact) []CondFact {
	out := []CondFact{f}
	if u, ok := f.Cond.(*ssa.UnOp); ok && u.Op == token.NOT {
		out = append(out, ExpandCond(CondFact{Cond: u.X, Polarity: !f.Polarity, If: f.If})...)
	}
	if a := passThroughArg(f.Cond); a != nil {
		out = append(out, ExpandCond(CondFact{Cond: a, Polarity: f.Polarity, If: f.If})...)
	}
	return out
}

// passThroughArg: v is a call of a repository function with a single boolean
// result that returns one of its own boolean parameters on every path
// (`func respondIf(w, missing bool, …) bool { if missing { … }; return missing }`);
// the call's result is then the corresponding argument.
func passThroughArg(v ssa.Value) ssa.Value {
	call, ok := v.(*ssa.Call)
	if !ok {
		return nil
	}
	callee := call.Call.StaticCallee()
	if callee == nil || callee.Blocks == nil || callee.Signature.Results().Len() != 1 || len(callee.Params) != len(call.Call.Args) {
		return nil
	}
	var par *ssa.Parameter
	for _, b := range callee.Blocks {
		if len(b.Instrs) == 0 {
			continue
		}
		ret, ok := b.Instrs[len(b.Instrs)-1].(*ssa.Return)
		if !ok {
			continue
		}
		if len(ret.Results) != 1 {
			return nil
		}
		p, ok := ret.Results[0].(*ssa.Parameter)
		if !ok || (par != nil && p != par) {
			return nil
		}
		par = p
	}
	if par == nil {
		return nil
	}
	if bt, ok := par.Type().Underlying().(*types.Basic); !ok || bt.Kind() != types.Bool {
		return nil
	}
	for i, p := range callee.Params {
		if p == par {
			return call.Call.Args[i]
		}
	}
	return nil
}

// FactsAtInstr = FactsAt(block of instr).
func FactsAtInstr(in ssa.Instruction) []CondFact { return FactsAt(in.Block()) }

// ---------- values ----------

// Strip removes value-preserving conversions.
func Strip(v ssa.Value) ssa.Value {
	for {
		switch x := v.(type) {
		case *ssa.ChangeType:
			v = x.X
		case *ssa.Convert:
			v = x.X
		case *ssa.ChangeInterface:
			v = x.X
		case *ssa.MakeInterface:
			v = x.X
		default:
			return v
		}
	}
}

// IsNilConst reports whether v is the nil constant.
func IsNilConst(v ssa.Value) bool {
	c, ok := v.(*ssa.Const)
	return ok && c.Value == nil && !isBasic(c.Type())
}

func isBasic(t types.Type) bool {
	_, ok := t.Underlying().(*types.Basic)
	return ok
}

// ConstInt returns the integer value of a constant.
func ConstInt(v ssa.Value) (int64, bool) {
	c, ok := Strip(v).(*ssa.Const)
	if !ok || c.Value == nil {
		return 0, false
	}
	if c.Value.Kind() != constant.Int {
		return 0, false
	}
	i, exact := constant.Int64Val(c.Value)
	return i, exact
}

// ConstString returns the string value of a constant.
func ConstString(v ssa.Value) (string, bool) {
	c, ok := Strip(v).(*ssa.Const)
	if !ok || c.Value == nil || c.Value.Kind() != constant.String {
		return "", false
	}
	return constant.StringVal(c.Value), true
}

// ConstBool returns the boolean value of a constant.
func ConstBool(v ssa.Value) (bool, bool) {
	c, ok := Strip(v).(*ssa.Const)
	if !ok || c.Value == nil || c.Value.Kind() != constant.Bool {
		return false, false
	}
	return constant.BoolVal(c.Value), true
}

// Cell identifies a memory cell that holds a local variable: an Alloc, or a
// FreeVar resolved to the Alloc in the enclosing function.
func CellOf(addr ssa.Value) *ssa.Alloc {
	switch a := addr.(type) {
	case *ssa.Alloc:
		return a
	case *ssa.FreeVar:
		return freeVarBinding(a)
	}
	return nil
}

// freeVarBinding finds the Alloc bound to a free variable by following the
// MakeClosure in the parent.
func freeVarBinding(fv *ssa.FreeVar) *ssa.Alloc {
	fn := fv.Parent()
	par := fn.Parent()
	if par == nil {
		return nil
	}
	idx := -1
	for i, f := range fn.FreeVars {
		if f == fv {
			idx = i
		}
	}
	if idx < 0 {
		return nil
	}
	for _, b := range par.Blocks {
		for _, in := range b.Instrs {
			mc, ok := in.(*ssa.MakeClosure)
			if !ok || mc.Fn != fn {
				continue
			}
			return CellOf(mc.Bindings[idx])
		}
	}
	return nil
}

// FreeVarValue returns the value bound to a free variable at closure creation
// (for by-value captures this is the value itself; for cells use CellOf).
func FreeVarValue(fv *ssa.FreeVar) ssa.Value {
	fn := fv.Parent()
	par := fn.Parent()
	if par == nil {
		return nil
	}
	idx := -1
	for i, f := range fn.FreeVars {
		if f == fv {
			idx = i
		}
	}
	if idx < 0 {
		return nil
	}
	for _, b := range par.Blocks {
		for _, in := range b.Instrs {
			if mc, ok := in.(*ssa.MakeClosure); ok && mc.Fn == fn {
				return mc.Bindings[idx]
			}
		}
	}
	return nil
}

// StoresTo lists all Store instructions whose address is (an alias of) the
// cell, anywhere in the cell's function family.
func StoresTo(cell *ssa.Alloc) []*ssa.Store {
	var out []*ssa.Store
	for _, fn := range Family(Root(cell.Parent())) {
		for _, b := range fn.Blocks {
			for _, in := range b.Instrs {
				if st, ok := in.(*ssa.Store); ok && CellOf(st.Addr) == cell {
					out = append(out, st)
				}
			}
		}
	}
	return out
}

// AddressTaken reports whether the cell's address escapes to something other
// than loads, stores and closure bindings (e.g. passed to a call: &obj).
func AddressTaken(cell *ssa.Alloc) bool {
	for _, fn := range Family(Root(cell.Parent())) {
		for _, b := range fn.Blocks {
			for _, in := range b.Instrs {
				switch x := in.(type) {
				case *ssa.Store:
					if CellOf(x.Val) == cell && x.Val.Type() == cell.Type() {
						return true
					}
				case *ssa.UnOp, *ssa.MakeClosure, *ssa.DebugRef:
				default:
					for _, op := range in.Operands(nil) {
						if *op != nil && CellOf(*op) == cell {
							if _, isStore := in.(*ssa.Store); !isStore {
								return true
							}
						}
					}
				}
			}
		}
	}
	return false
}

// Resolve follows conversions and loads of single-assignment cells back to the
// defining value.  Loads of multiply-assigned cells are returned as is.
func Resolve(v ssa.Value) ssa.Value {
	for i := 0; i < 64; i++ {
		v = Strip(v)
		u, ok := v.(*ssa.UnOp)
		if !ok || u.Op != token.MUL {
			// by-value captured free variable
			if fv, ok := v.(*ssa.FreeVar); ok {
				if bound := FreeVarValue(fv); bound != nil {
					if _, isAlloc := bound.(*ssa.Alloc); !isAlloc {
						v = bound
						continue
					}
				}
			}
			return v
		}
		cell := CellOf(u.X)
		if cell == nil {
			return v
		}
		st := StoresTo(cell)
		if AddressTaken(cell) {
			return v
		}
		if len(st) == 1 {
			v = st[0].Val
			continue
		}
		// several stores: use reaching definitions when the cell is purely local
		if rs := ReachingStores(u); len(rs) == 1 {
			v = rs[0].Val
			continue
		}
		return v
	}
	return v
}

// Captured reports whether the cell is bound into any closure.
func Captured(cell *ssa.Alloc) bool {
	for _, in := range Referrers(cell) {
		if _, ok := in.(*ssa.MakeClosure); ok {
			return true
		}
	}
	return false
}

// ReachingStores returns the stores to the load's cell that may reach the load
// (intra-procedural reaching definitions).  It returns nil when the cell is
// captured by a closure or its address escapes (then any store anywhere may
// reach), or when some path reaches the load without a store.
func ReachingStores(load *ssa.UnOp) []*ssa.Store {
	cell, ok := load.X.(*ssa.Alloc)
	if !ok || Captured(cell) || AddressTaken(cell) {
		return nil
	}
	var out []*ssa.Store
	seenStore := map[*ssa.Store]bool{}
	visited := map[*ssa.BasicBlock]bool{}
	incomplete := false
	lastStoreBefore := func(b *ssa.BasicBlock, limit int) *ssa.Store {
		for i := limit - 1; i >= 0; i-- {
			if st, ok := b.Instrs[i].(*ssa.Store); ok && st.Addr == cell {
				return st
			}
		}
		return nil
	}
	var walkPreds func(b *ssa.BasicBlock)
	walkPreds = func(b *ssa.BasicBlock) {
		if len(b.Preds) == 0 {
			incomplete = true // reached function entry without a store (zero value)
			return
		}
		for _, p := range b.Preds {
			if visited[p] {
				continue
			}
			visited[p] = true
			if st := lastStoreBefore(p, len(p.Instrs)); st != nil {
				if !seenStore[st] {
					seenStore[st] = true
					out = append(out, st)
				}
				continue
			}
			walkPreds(p)
		}
	}
	b := load.Block()
	if st := lastStoreBefore(b, instrIndex(load)); st != nil {
		return []*ssa.Store{st}
	}
	walkPreds(b)
	if incomplete {
		return nil
	}
	return out
}

// SameValue reports whether two values denote the same runtime value by
// construction (after Resolve), or are both loads of the same field path of
// the same resolved base (pure expression value numbering).
func SameValue(a, b ssa.Value) bool {
	a, b = Resolve(a), Resolve(b)
	if a == b {
		return true
	}
	return exprKey(a, 0) != "" && exprKey(a, 0) == exprKey(b, 0)
}

// exprKey gives a structural key for pure expressions: parameters, constants,
// field loads, len, extract of a call (by call identity), conversions.
func exprKey(v ssa.Value, depth int) string {
	if depth > 12 {
		return ""
	}
	v = Resolve(v)
	switch x := v.(type) {
	case *ssa.Parameter:
		return "param:" + x.Parent().String() + ":" + x.Name()
	case *ssa.Const:
		if x.Value == nil {
			return "nil"
		}
		return "const:" + x.Value.ExactString()
	case *ssa.Extract:
		k := exprKey(x.Tuple, depth+1)
		if k == "" {
			return ""
		}
		return k + "#" + itoa(x.Index)
	case *ssa.Call:
		return "call@" + itoa(int(x.Pos())) + ":" + x.String()
	case *ssa.FieldAddr:
		k := exprKey(x.X, depth+1)
		if k == "" {
			return ""
		}
		return "&(" + k + ")." + itoa(x.Field)
	case *ssa.Field:
		k := exprKey(x.X, depth+1)
		if k == "" {
			return ""
		}
		return "(" + k + ")." + itoa(x.Field)
	case *ssa.UnOp:
		if x.Op == token.MUL {
			// load through a field address of a stable base: treat as pure if the
			// base is a parameter/struct pointer and no intervening store is
			// tracked (callers use this only for request structs).
			if fa, ok := x.X.(*ssa.FieldAddr); ok {
				k := exprKey(fa, depth+1)
				if k == "" {
					return ""
				}
				return "*" + k
			}
			if a, ok := x.X.(*ssa.Alloc); ok {
				return "*alloc@" + itoa(int(a.Pos())) + a.Name()
			}
			if g, ok := x.X.(*ssa.Global); ok {
				return "*global:" + g.String()
			}
		}
	case *ssa.Alloc:
		return "alloc@" + itoa(int(x.Pos())) + x.Name()
	case *ssa.Global:
		return "global:" + x.String()
	}
	return ""
}

func itoa(i int) string {
	if i == 0 {
		return "0"
	}
	neg := i < 0
	if neg {
		i = -i
	}
	var b [20]byte
	p := len(b)
	for i > 0 {
		p--
		b[p] = byte('0' + i%10)
		i /= 10
	}
	if neg {
		p--
		b[p] = '-'
	}
	return string(b[p:])
}

// FieldName returns the name of the field accessed by a FieldAddr/Field.
func FieldName(v ssa.Value) (structName, fieldName string, ok bool) {
	var t types.Type
	var idx int
	switch x := v.(type) {
	case *ssa.FieldAddr:
		t = x.X.Type()
		idx = x.Field
	case *ssa.Field:
		t = x.X.Type()
		idx = x.Field
	default:
		return "", "", false
	}
	if p, ok := t.Underlying().(*types.Pointer); ok {
		t = p.Elem()
	}
	st, ok2 := t.Underlying().(*types.Struct)
	if !ok2 {
		return "", "", false
	}
	n := NamedOf(t)
	name := ""
	if n != nil {
		name = TName(n)
		if n.Obj().Pkg() != nil {
			name = n.Obj().Pkg().Name() + "." + name
		}
	}
	return name, VarName(st.Field(idx)), true
}

// Referrers returns the instructions that use v (nil-safe).
func Referrers(v ssa.Value) []ssa.Instruction {
	r := v.Referrers()
	if r == nil {
		return nil
	}
	return *r
}

// ReachableFrom computes the set of blocks reachable from b (b itself only if on a cycle
// or startInclusive).
func ReachableFrom(b *ssa.BasicBlock, startInclusive bool) map[*ssa.BasicBlock]bool {
	seen := map[*ssa.BasicBlock]bool{}
	var stack []*ssa.BasicBlock
	if startInclusive {
		seen[b] = true
	}
	stack = append(stack, b.Succs...)
	for len(stack) > 0 {
		x := stack[len(stack)-1]
		stack = stack[:len(stack)-1]
		if seen[x] {
			continue
		}
		seen[x] = true
		stack = append(stack, x.Succs...)
	}
	return seen
}

// InstrReaches reports whether control can flow from instruction a to
// instruction b (a strictly before b on some path).
func InstrReaches(a, b ssa.Instruction) bool {
	if a.Block() == b.Block() && instrIndex(a) < instrIndex(b) {
		return true
	}
	return ReachableFrom(a.Block(), false)[b.Block()]
}

// ShortFile strips directories of a position string.
func ShortFile(s string) string {
	if i := strings.LastIndexByte(s, '/'); i >= 0 {
		return s[i+1:]
	}
	return s
}

// SameCellLoad: a and b are loads of the same local variable cell (possibly
// captured by closures) in one function, one dominating the other, and nothing
// in between can have changed the variable: no store to it in this function on
// a path between them, and — if any closure writes the variable — no call at
// all in between.
func SameCellLoad(a, b ssa.Value) bool {
	la, ok1 := Strip(a).(*ssa.UnOp)
	lb, ok2 := Strip(b).(*ssa.UnOp)
	if !ok1 || !ok2 || la.Op != token.MUL || lb.Op != token.MUL {
		return false
	}
	ca, cb := CellOf(la.X), CellOf(lb.X)
	if ca == nil || ca != cb || la.Parent() != lb.Parent() {
		return false
	}
	if la == lb {
		return true
	}
	first, second := la, lb
	if !InstrDominates(first, second) {
		first, second = lb, la
		if !InstrDominates(first, second) {
			return false
		}
	}
	fn := first.Parent()
	closureWrites := false
	for _, f := range Family(Root(ca.Parent())) {
		if f == fn {
			continue
		}
		for _, blk := range f.Blocks {
			for _, in := range blk.Instrs {
				if st, ok := in.(*ssa.Store); ok && CellOf(st.Addr) == ca {
					closureWrites = true
				}
			}
		}
	}
	for _, blk := range fn.Blocks {
		for _, in := range blk.Instrs {
			kill := false
			switch x := in.(type) {
			case *ssa.Store:
				kill = CellOf(x.Addr) == ca
			case ssa.CallInstruction:
				if closureWrites {
					kill = true
				}
				for _, arg := range x.Common().Args {
					if CellOf(Strip(arg)) == ca {
						kill = true
					}
				}
			}
			if kill && InstrReaches(first, in) && InstrReaches(in, second) {
				return false
			}
		}
	}
	return true
}

// FactsAtRefined is FactsAt plus what follows from pruning infeasible predecessors: at a
// join block m that dominates b (or is b), a predecessor edge whose own facts contradict
// what is already known at b (the same SSA condition with the opposite outcome — SSA values
// do not change) cannot lie on a path to b; whatever holds on every remaining edge holds
// at b too.  Typical case: the `else if a` arm after `if a && b`: the arm is entered with
// a true, so it was not the a-false edge that led to the else block, hence b is false.
// Joins with a feasible back edge are left alone (their facts are from another iteration).
func FactsAtRefined(b *ssa.BasicBlock) []CondFact {
	facts := FactsAt(b)
	type key struct {
		c ssa.Value
		p bool
	}
	known := map[key]bool{}
	add := func(fs []CondFact) {
		for _, f := range fs {
			known[key{f.Cond, f.Polarity}] = true
		}
	}
	add(facts)
	edgeFacts := func(p, m *ssa.BasicBlock) []CondFact {
		out := FactsAt(p)
		if ifi, ok := lastIf(p); ok && len(p.Succs) == 2 && p.Succs[0] != p.Succs[1] {
			for idx, s := range p.Succs {
				if s == m {
					out = append(out, ExpandCond(CondFact{Cond: ifi.Cond, Polarity: idx == 0, If: ifi})...)
				}
			}
		}
		return out
	}
	for round := 0; round < 3; round++ {
		grew := false
		for m := b; m != nil; m = m.Idom() {
			if len(m.Preds) < 2 {
				continue
			}
			var sets [][]CondFact
			bail := false
			for _, p := range m.Preds {
				ef := edgeFacts(p, m)
				contra := false
				for _, f := range ef {
					if known[key{f.Cond, !f.Polarity}] {
						contra = true
						break
					}
				}
				if contra {
					continue
				}
				if m.Dominates(p) {
					bail = true // a feasible back edge
					break
				}
				sets = append(sets, ef)
			}
			if bail || len(sets) == 0 {
				continue
			}
			for _, f := range sets[0] {
				inAll := true
				for _, s := range sets[1:] {
					found := false
					for _, g := range s {
						if g.Cond == f.Cond && g.Polarity == f.Polarity {
							found = true
							break
						}
					}
					if !found {
						inAll = false
						break
					}
				}
				if inAll && !known[key{f.Cond, f.Polarity}] {
					known[key{f.Cond, f.Polarity}] = true
					facts = append(facts, f)
					grew = true
				}
			}
		}
		if !grew {
			break
		}
	}
	return facts
}
